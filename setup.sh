#!/bin/sh
# Offline setup after a fresh restore: build the Lean library + driver, the extractor, and warm the Go build cache
# for the overlay harness. Nothing is fetched.
set -e
cd "$(dirname "$0")"
mkdir -p .cache evidence replays
export GOFLAGS=-mod=mod GOPROXY=off GOSUMDB=off GOCACHE="$PWD/.cache/gocache"
(cd tools/extract && go build -o ../../.cache/extract . && ../../.cache/extract -repo "${VERIF_REPO:-/repo}" -out ../../lean/CloakModel/Gen)
python3 tools/gendriver.py
(cd lean && lake build 2>&1 | grep -v "^warning\|linter\|^$\|Hint\|apply\]\|Note\|^  " | tail -20; lake build cloakdriver >/dev/null)
python3 - <<'PY'
import sys; sys.argv=["check"]
import importlib.machinery, importlib.util
l = importlib.machinery.SourceFileLoader("check", "./check"); spec = importlib.util.spec_from_loader("check", l)
m = importlib.util.module_from_spec(spec); l.exec_module(m)
print("harness:", m.stage_harness())
PY
echo setup done
