package multiplex

import (
	"fmt"
	"math/rand"
	"os"
	"strconv"
	"sync"
	"testing"
	"time"

	"github.com/cbeuw/Cloak/internal/common"
)

func redC01Byte(id uint32, dir int, i int) byte {
	return byte((i*11 + int(id)*29 + dir*57) ^ (i >> 7))
}

func redSizes(rng *rand.Rand, total int, unit int) []int {
	var sizes []int
	for left := total; left > 0; {
		var n int
		switch rng.Intn(5) {
		case 0:
			n = 1
		case 1:
			n = 1 + rng.Intn(64)
		case 2:
			n = unit - 2 + rng.Intn(5) // around one frame
		case 3:
			n = 1 + rng.Intn(3*unit) // several frames
		default:
			n = 1 + rng.Intn(5000)
		}
		if n > left {
			n = left
		}
		sizes = append(sizes, n)
		left -= n
	}
	return sizes
}

// one end: writes total bytes in direction dir, reads exactly total bytes of the other direction and verifies them
func redC01End(st *Stream, dir int, total int, rng *rand.Rand, errs chan<- string, wg *sync.WaitGroup) {
	wg.Add(2)
	sizes := redSizes(rng, total, st.session.maxStreamUnitWrite)
	go func() {
		defer wg.Done()
		pos := 0
		for _, n := range sizes {
			b := make([]byte, n)
			for i := range b {
				b[i] = redC01Byte(st.id, dir, pos+i)
			}
			if m, err := st.Write(b); err != nil || m != n {
				errs <- fmt.Sprintf("stream %d dir %d: write at %d: n=%d err=%v", st.id, dir, pos, m, err)
				return
			}
			pos += n
		}
	}()
	rbuf := make([]byte, 1+rng.Intn(30000))
	go func() {
		defer wg.Done()
		pos := 0
		for pos < total {
			n, err := st.Read(rbuf)
			for i := 0; i < n; i++ {
				if rbuf[i] != redC01Byte(st.id, 1-dir, pos+i) {
					errs <- fmt.Sprintf("stream %d: reader of dir %d: wrong byte at offset %d", st.id, 1-dir, pos+i)
					return
				}
			}
			pos += n
			if pos > total {
				errs <- fmt.Sprintf("stream %d: reader of dir %d: got %d bytes, more than the %d written", st.id, 1-dir, pos, total)
				return
			}
			if err != nil {
				errs <- fmt.Sprintf("stream %d: reader of dir %d: %v after %d of %d bytes", st.id, 1-dir, err, pos, total)
				return
			}
		}
	}()
}

func redC01Trial(seed int64) (desc string, problems []string) {
	rng := rand.New(rand.NewSource(seed))
	nConn := 1 + rng.Intn(8)
	methods := []byte{EncryptionMethodPlain, EncryptionMethodAES256GCM, EncryptionMethodAES128GCM, EncryptionMethodChaha20Poly1305}
	method := methods[rng.Intn(4)]
	nStreams := 1 + rng.Intn(8)
	if rng.Intn(6) == 0 {
		nStreams = 100 + rng.Intn(300)
	}
	total := 1 + rng.Intn(120000)
	if nStreams > 50 {
		total = 1 + rng.Intn(20000)
	}
	singleplex := rng.Intn(6) == 0
	if singleplex {
		nConn, nStreams = 1, 1
	}
	jitter := rng.Intn(3) != 0
	lateAdders := rng.Intn(2) == 0
	desc = fmt.Sprintf("seed %d: conns %d method %d streams %d bytes/dir %d singleplex %v jitter %v lateAdders %v", seed, nConn, method, nStreams, total, singleplex, jitter, lateAdders)
	p := makeRedPair(nConn, method, SessionConfig{InactivityTimeout: time.Hour, Singleplex: singleplex}, SessionConfig{InactivityTimeout: time.Hour}, seed, true)

	stopJitter := make(chan struct{})
	var jwg sync.WaitGroup
	if jitter {
		jwg.Add(1)
		go func() {
			defer jwg.Done()
			jr := rand.New(rand.NewSource(seed * 7))
			for {
				select {
				case <-stopJitter:
					for i := range p.cc {
						p.cc[i].hold(true, false)
						p.cc[i].hold(false, false)
					}
					return
				case <-time.After(time.Duration(jr.Intn(3000)) * time.Microsecond):
				}
				i := jr.Intn(nConn)
				p.cc[i].hold(jr.Intn(2) == 0, jr.Intn(2) == 0)
				// never stall everything for long: release one at random too
				p.cc[jr.Intn(nConn)].hold(jr.Intn(2) == 0, false)
			}
		}()
	}

	// connection adders
	var awg sync.WaitGroup
	first := 1
	p.client.AddConnection(common.NewTLSConn(p.cc[0]))
	if !lateAdders {
		first = 0
		for i := 1; i < nConn; i++ {
			p.client.AddConnection(common.NewTLSConn(p.cc[i]))
		}
	}
	for i := 0; i < nConn; i++ {
		awg.Add(1)
		go func(i int) {
			defer awg.Done()
			ar := rand.New(rand.NewSource(seed*13 + int64(i)))
			if lateAdders {
				time.Sleep(time.Duration(ar.Intn(5000)) * time.Microsecond)
				if i >= first {
					p.client.AddConnection(common.NewTLSConn(p.cc[i]))
				}
				time.Sleep(time.Duration(ar.Intn(5000)) * time.Microsecond)
			}
			p.server.AddConnection(common.NewTLSConn(p.sc[i]))
		}(i)
	}

	errs := make(chan string, 4*nStreams+8)
	var wg sync.WaitGroup
	var srvStreams sync.Map
	go func() {
		for {
			c, err := p.server.Accept()
			if err != nil {
				return
			}
			st := c.(*Stream)
			srvStreams.Store(st.id, st)
			redC01End(st, 1, total, rand.New(rand.NewSource(seed*977+int64(st.id))), errs, &wg)
		}
	}()
	var cl []*Stream
	for i := 0; i < nStreams; i++ {
		st, err := p.client.OpenStream()
		if err != nil {
			problems = append(problems, fmt.Sprintf("OpenStream %d: %v", i, err))
			break
		}
		cl = append(cl, st)
		redC01End(st, 0, total, rand.New(rand.NewSource(seed*31+int64(i))), errs, &wg)
	}
	awg.Wait()
	// wait until the server has accepted every stream (so that its ends are in wg), then for all ends
	deadline := time.Now().Add(60 * time.Second)
	for time.Now().Before(deadline) {
		n := 0
		srvStreams.Range(func(_, _ interface{}) bool { n++; return true })
		if n == len(cl) {
			break
		}
		time.Sleep(2 * time.Millisecond)
	}
	done := make(chan struct{})
	go func() { wg.Wait(); close(done) }()
	select {
	case <-done:
	case <-time.After(90 * time.Second):
		problems = append(problems, "transfer did not finish in 90 s (stalled)")
	}
	close(stopJitter)
	jwg.Wait()
	for {
		select {
		case e := <-errs:
			problems = append(problems, e)
			continue
		default:
		}
		break
	}
	if len(problems) > 0 {
		return
	}
	if p.client.IsClosed() || p.server.IsClosed() {
		problems = append(problems, "a session closed although every connection is healthy and nobody closed it")
		return
	}
	if int(p.client.streamCount()) != len(cl) || int(p.server.streamCount()) != len(cl) {
		problems = append(problems, fmt.Sprintf("quiescent: %d streams open, count client %d server %d", len(cl), p.client.streamCount(), p.server.streamCount()))
	}

	// C03 part: one side closes; the other has read everything and must now get only the error. On some streams
	// the closer first writes a tail (possibly empty) that must arrive whole, whichever connection is slow
	for k, st := range cl {
		v, _ := srvStreams.Load(st.id)
		sv := v.(*Stream)
		closer, other := st, sv
		cdir := 0
		if (int(seed)+k)%2 == 0 {
			closer, other = sv, st
			cdir = 1
		}
		tailLen := 0
		if k%3 != 0 {
			tailLen = 1 + rng.Intn(40000)
		}
		tail := make([]byte, tailLen)
		for i := range tail {
			tail[i] = redC01Byte(st.id, cdir, total+i)
		}
		// the closing notice and the tail travel on random connections; delay a random one
		slow := rng.Intn(nConn)
		p.cc[slow].hold(cdir == 0, true)
		if tailLen > 0 {
			if _, err := closer.Write(tail); err != nil {
				problems = append(problems, fmt.Sprintf("stream %d: tail write: %v", st.id, err))
			}
		}
		if err := closer.Close(); err != nil && !singleplex {
			problems = append(problems, fmt.Sprintf("stream %d: close: %v", st.id, err))
		}
		if _, err := closer.Write([]byte{1}); err != ErrBrokenStream {
			problems = append(problems, fmt.Sprintf("stream %d: write after local close: %v", st.id, err))
		}
		lag := time.Duration(rng.Intn(3)) * time.Millisecond
		go func() {
			time.Sleep(lag)
			p.cc[slow].hold(cdir == 0, false)
		}()
		got := []byte{}
		buf := make([]byte, 70000)
		var rerr error
		_ = other.SetReadDeadline(time.Now().Add(30 * time.Second))
		for {
			n, err := other.Read(buf)
			got = append(got, buf[:n]...)
			if err != nil {
				rerr = err
				break
			}
		}
		if string(got) != string(tail) || rerr != ErrBrokenStream {
			problems = append(problems, fmt.Sprintf("stream %d: closer dir %d wrote a tail of %d and closed; reader got %d bytes then %v", st.id, cdir, tailLen, len(got), rerr))
		}
		if _, err := other.Write([]byte{1}); err != ErrBrokenStream {
			problems = append(problems, fmt.Sprintf("stream %d: write after the peer's close was processed: %v", st.id, err))
		}
		if singleplex {
			break
		}
	}
	if !singleplex {
		time.Sleep(5 * time.Millisecond)
		if p.client.streamCount() != 0 || p.server.streamCount() != 0 {
			// passive side may still be processing; wait a little
			time.Sleep(200 * time.Millisecond)
			if p.client.streamCount() != 0 || p.server.streamCount() != 0 {
				problems = append(problems, fmt.Sprintf("quiescent: no stream open, count client %d server %d", p.client.streamCount(), p.server.streamCount()))
			}
		}
		if p.client.IsClosed() || p.server.IsClosed() {
			problems = append(problems, "a multiplexed session closed with its last stream")
		}
	} else {
		time.Sleep(100 * time.Millisecond)
		if !p.client.IsClosed() {
			problems = append(problems, "singleplex client session did not close with its single stream")
		}
	}
	p.client.Close()
	p.server.Close()
	return
}

func TestRedC01_TransferSweep(t *testing.T) {
	n := 60
	if v := os.Getenv("RED_TRIALS"); v != "" {
		n, _ = strconv.Atoi(v)
	}
	base := int64(1)
	if v := os.Getenv("RED_SEED"); v != "" {
		base, _ = strconv.ParseInt(v, 10, 64)
	}
	bad := 0
	for s := base; s < base+int64(n); s++ {
		desc, problems := redC01Trial(s)
		if os.Getenv("RED_VERBOSE") != "" {
			fmt.Println(desc, len(problems))
		}
		if len(problems) > 0 {
			bad++
			if len(problems) > 6 {
				problems = problems[:6]
			}
			t.Errorf("%s\n   %v", desc, problems)
			if bad > 5 {
				return
			}
		}
	}
}
