package test

import (
	"bytes"
	"encoding/base64"
	"encoding/binary"
	"fmt"
	"io"
	"math/rand"
	"net"
	"sync"
	"testing"
	"time"

	"github.com/cbeuw/Cloak/internal/client"
	"github.com/cbeuw/Cloak/internal/common"
	mux "github.com/cbeuw/Cloak/internal/multiplex"
	"github.com/cbeuw/Cloak/internal/server"
	"github.com/cbeuw/connutil"
	"github.com/stretchr/testify/assert"

	log "github.com/sirupsen/logrus"
)

const numConns = 200 // -race option limits the number of goroutines to 8192

func serveTCPEcho(l net.Listener) {
	for {
		conn, err := l.Accept()
		if err != nil {
			log.Error(err)
			return
		}
		go func(conn net.Conn) {
			_, err := io.Copy(conn, conn)
			if err != nil {
				conn.Close()
				log.Error(err)
				return
			}
		}(conn)
	}
}

func serveUDPEcho(listener *connutil.PipeListener) {
	for {
		conn, err := listener.ListenPacket("udp", "")
		if err != nil {
			log.Error(err)
			return
		}
		const bufSize = 32 * 1024
		go func(conn net.PacketConn) {
			defer conn.Close()
			buf := make([]byte, bufSize)
			for {
				r, _, err := conn.ReadFrom(buf)
				if err != nil {
					log.Error(err)
					return
				}
				w, err := conn.WriteTo(buf[:r], nil)
				if err != nil {
					log.Error(err)
					return
				}
				if r != w {
					log.Error("written not eqal to read")
					return
				}
			}
		}(conn)
	}
}

var bypassUID = [16]byte{0, 1, 2, 3, 4, 5, 6, 7, 8, 9, 10, 11, 12, 13, 14, 15}
var publicKey, _ = base64.StdEncoding.DecodeString("7f7TuKrs264VNSgMno8PkDlyhGhVuOSR8JHLE6H4Ljc=")
var privateKey, _ = base64.StdEncoding.DecodeString("SMWeC6VuZF8S/id65VuFQFlfa7hTEJBpL6wWhqPP100=")

var basicUDPConfig = client.RawConfig{
	ServerName:       "www.example.com",
	ProxyMethod:      "openvpn",
	EncryptionMethod: "plain",
	UID:              bypassUID[:],
	PublicKey:        publicKey,
	NumConn:          4,
	UDP:              true,
	Transport:        "direct",
	RemoteHost:       "127.0.0.1",
	RemotePort:       "9999",
	LocalHost:        "127.0.0.1",
	LocalPort:        "9999",
}

var basicTCPConfig = client.RawConfig{
	ServerName:       "www.example.com",
	ProxyMethod:      "shadowsocks",
	EncryptionMethod: "plain",
	UID:              bypassUID[:],
	PublicKey:        publicKey,
	NumConn:          4,
	UDP:              false,
	Transport:        "direct",
	RemoteHost:       "127.0.0.1",
	RemotePort:       "9999",
	LocalHost:        "127.0.0.1",
	LocalPort:        "9999",
	BrowserSig:       "firefox",
}

var singleplexTCPConfig = client.RawConfig{
	ServerName:       "www.example.com",
	ProxyMethod:      "shadowsocks",
	EncryptionMethod: "plain",
	UID:              bypassUID[:],
	PublicKey:        publicKey,
	NumConn:          0,
	UDP:              false,
	Transport:        "direct",
	RemoteHost:       "127.0.0.1",
	RemotePort:       "9999",
	LocalHost:        "127.0.0.1",
	LocalPort:        "9999",
	BrowserSig:       "safari",
}

func generateClientConfigs(rawConfig client.RawConfig, state common.WorldState) (client.LocalConnConfig, client.RemoteConnConfig, client.AuthInfo) {
	lcl, rmt, auth, err := rawConfig.ProcessRawConfig(state)
	if err != nil {
		log.Fatal(err)
	}
	return lcl, rmt, auth
}

func basicServerState(ws common.WorldState) *server.State {
	var serverConfig = server.RawConfig{
		ProxyBook:  map[string][]string{"shadowsocks": {"tcp", "127.0.0.1:9999"}, "openvpn": {"udp", "127.0.0.1:9999"}},
		BindAddr:   []string{"127.0.0.1:9999"},
		BypassUID:  [][]byte{bypassUID[:]},
		RedirAddr:  "127.0.0.1:9999",
		PrivateKey: privateKey,
		KeepAlive:  15,
		CncMode:    false,
	}
	state, err := server.InitState(serverConfig, ws)
	if err != nil {
		log.Fatal(err)
	}
	return state
}

type mockUDPDialer struct {
	addrCh chan *net.UDPAddr
	raddr  *net.UDPAddr
}

func (m *mockUDPDialer) Dial(network, address string) (net.Conn, error) {
	if m.raddr == nil {
		m.raddr = <-m.addrCh
	}
	return net.DialUDP("udp", nil, m.raddr)
}

func establishSession(lcc client.LocalConnConfig, rcc client.RemoteConnConfig, ai client.AuthInfo, serverState *server.State) (common.Dialer, *connutil.PipeListener, common.Dialer, net.Listener, error) {
	//													 redirecting web server
	//																^
	//																|
	//																|
	//														redirFromCkServerL
	//																|
	//															    |
	// proxy client ----proxyToCkClientD----> ck-client ------> ck-server ----proxyFromCkServerL----> proxy server
	//																^
	//																|
	//																|
	//														 netToCkServerD
	//																|
	//															    |
	//									whatever connection initiator (including a proper ck-client)

	netToCkServerD, ckServerListener := connutil.DialerListener(10 * 1024)

	clientSeshMaker := func() *mux.Session {
		ai := ai
		quad := make([]byte, 4)
		common.RandRead(ai.WorldState.Rand, quad)
		ai.SessionId = binary.BigEndian.Uint32(quad)
		return client.MakeSession(rcc, ai, netToCkServerD)
	}

	var proxyToCkClientD common.Dialer
	if ai.Unordered {
		// We can only "dial" a single UDP connection as we can't send packets from different context
		// to a single UDP listener
		addrCh := make(chan *net.UDPAddr, 1)
		mDialer := &mockUDPDialer{
			addrCh: addrCh,
		}
		acceptor := func() (*net.UDPConn, error) {
			laddr, _ := net.ResolveUDPAddr("udp", "127.0.0.1:0")
			conn, err := net.ListenUDP("udp", laddr)
			addrCh <- conn.LocalAddr().(*net.UDPAddr)
			return conn, err
		}
		go client.RouteUDP(acceptor, lcc.Timeout, rcc.Singleplex, clientSeshMaker)
		proxyToCkClientD = mDialer
	} else {
		var proxyToCkClientL *connutil.PipeListener
		proxyToCkClientD, proxyToCkClientL = connutil.DialerListener(10 * 1024)
		go client.RouteTCP(proxyToCkClientL, lcc.Timeout, rcc.Singleplex, clientSeshMaker)
	}

	// set up server
	ckServerToProxyD, proxyFromCkServerL := connutil.DialerListener(10 * 1024)
	ckServerToWebD, redirFromCkServerL := connutil.DialerListener(10 * 1024)
	serverState.ProxyDialer = ckServerToProxyD
	serverState.RedirDialer = ckServerToWebD

	go server.Serve(ckServerListener, serverState)

	return proxyToCkClientD, proxyFromCkServerL, netToCkServerD, redirFromCkServerL, nil
}

func runEchoTest(t *testing.T, conns []net.Conn, msgLen int) {
	var wg sync.WaitGroup

	for _, conn := range conns {
		wg.Add(1)
		go func(conn net.Conn) {
			defer wg.Done()

			testData := make([]byte, msgLen)
			rand.Read(testData)

			// we cannot call t.Fatalf in concurrent contexts
			n, err := conn.Write(testData)
			if n != msgLen {
				t.Errorf("written only %v, err %v", n, err)
				return
			}

			recvBuf := make([]byte, msgLen)
			_, err = io.ReadFull(conn, recvBuf)
			if err != nil {
				t.Errorf("failed to read back: %v", err)
				return
			}

			if !bytes.Equal(testData, recvBuf) {
				t.Errorf("echoed data not correct")
				return
			}
		}(conn)
	}
	wg.Wait()
}

func TestUDP(t *testing.T) {
	log.SetLevel(log.ErrorLevel)

	worldState := common.WorldOfTime(time.Unix(10, 0))
	lcc, rcc, ai := generateClientConfigs(basicUDPConfig, worldState)
	sta := basicServerState(worldState)

	proxyToCkClientD, proxyFromCkServerL, _, _, err := establishSession(lcc, rcc, ai, sta)
	if err != nil {
		t.Fatal(err)
	}

	t.Run("simple send", func(t *testing.T) {
		pxyClientConn, err := proxyToCkClientD.Dial("udp", "")
		if err != nil {
			t.Error(err)
		}

		const testDataLen = 1500
		testData := make([]byte, testDataLen)
		rand.Read(testData)
		n, err := pxyClientConn.Write(testData)
		if n != testDataLen {
			t.Errorf("wrong length sent: %v", n)
		}
		if err != nil {
			t.Error(err)
		}

		pxyServerConn, err := proxyFromCkServerL.ListenPacket("", "")
		if err != nil {
			t.Error(err)
		}
		recvBuf := make([]byte, testDataLen+100)
		r, _, err := pxyServerConn.ReadFrom(recvBuf)
		if err != nil {
			t.Error(err)
		}
		if !bytes.Equal(testData, recvBuf[:r]) {
			t.Error("read wrong data")
		}
	})

	const echoMsgLen = 1024
	t.Run("user echo", func(t *testing.T) {
		go serveUDPEcho(proxyFromCkServerL)
		var conn [1]net.Conn
		conn[0], err = proxyToCkClientD.Dial("udp", "")
		if err != nil {
			t.Error(err)
		}

		runEchoTest(t, conn[:], echoMsgLen)
	})

}

func TestTCPSingleplex(t *testing.T) {
	log.SetLevel(log.ErrorLevel)
	worldState := common.WorldOfTime(time.Unix(10, 0))
	lcc, rcc, ai := generateClientConfigs(singleplexTCPConfig, worldState)
	sta := basicServerState(worldState)
	proxyToCkClientD, proxyFromCkServerL, _, _, err := establishSession(lcc, rcc, ai, sta)
	if err != nil {
		t.Fatal(err)
	}

	const echoMsgLen = 1 << 16
	go serveTCPEcho(proxyFromCkServerL)

	proxyConn1, err := proxyToCkClientD.Dial("", "")
	if err != nil {
		t.Fatal(err)
	}
	runEchoTest(t, []net.Conn{proxyConn1}, echoMsgLen)
	user, err := sta.Panel.GetUser(ai.UID[:])
	if err != nil {
		t.Fatalf("failed to fetch user: %v", err)
	}

	if user.NumSession() != 1 {
		t.Error("no session were made on first connection establishment")
	}

	proxyConn2, err := proxyToCkClientD.Dial("", "")
	if err != nil {
		t.Fatal(err)
	}
	runEchoTest(t, []net.Conn{proxyConn2}, echoMsgLen)
	if user.NumSession() != 2 {
		t.Error("no extra session were made on second connection establishment")
	}

	// Both conns should work
	runEchoTest(t, []net.Conn{proxyConn1, proxyConn2}, echoMsgLen)

	proxyConn1.Close()

	assert.Eventually(t, func() bool {
		return user.NumSession() == 1
	}, time.Second, 10*time.Millisecond, "first session was not closed on connection close")

	// conn2 should still work
	runEchoTest(t, []net.Conn{proxyConn2}, echoMsgLen)

	var conns [numConns]net.Conn
	for i := 0; i < numConns; i++ {
		conns[i], err = proxyToCkClientD.Dial("", "")
		if err != nil {
			t.Fatal(err)
		}
	}

	runEchoTest(t, conns[:], echoMsgLen)

}

func TestTCPMultiplex(t *testing.T) {
	log.SetLevel(log.ErrorLevel)
	worldState := common.WorldOfTime(time.Unix(10, 0))

	lcc, rcc, ai := generateClientConfigs(basicTCPConfig, worldState)
	sta := basicServerState(worldState)

	proxyToCkClientD, proxyFromCkServerL, netToCkServerD, redirFromCkServerL, err := establishSession(lcc, rcc, ai, sta)
	if err != nil {
		t.Fatal(err)
	}

	t.Run("user echo single", func(t *testing.T) {
		for i := 0; i < 18; i += 2 {
			dataLen := 1 << i
			writeData := make([]byte, dataLen)
			rand.Read(writeData)
			t.Run(fmt.Sprintf("data length %v", dataLen), func(t *testing.T) {
				go serveTCPEcho(proxyFromCkServerL)
				conn, err := proxyToCkClientD.Dial("", "")
				if err != nil {
					t.Error(err)
				}
				n, err := conn.Write(writeData)
				if err != nil {
					t.Error(err)
				}
				if n != dataLen {
					t.Errorf("write length doesn't match up: %v, expected %v", n, dataLen)
				}

				recvBuf := make([]byte, dataLen)
				_, err = io.ReadFull(conn, recvBuf)
				if err != nil {
					t.Error(err)
				}
				if !bytes.Equal(writeData, recvBuf) {
					t.Error("echoed data incorrect")
				}

			})
		}
	})

	const echoMsgLen = 16384
	t.Run("user echo", func(t *testing.T) {
		go serveTCPEcho(proxyFromCkServerL)
		var conns [numConns]net.Conn
		for i := 0; i < numConns; i++ {
			conns[i], err = proxyToCkClientD.Dial("", "")
			if err != nil {
				t.Error(err)
			}
		}

		runEchoTest(t, conns[:], echoMsgLen)
	})

	t.Run("redir echo", func(t *testing.T) {
		go serveTCPEcho(redirFromCkServerL)
		var conns [numConns]net.Conn
		for i := 0; i < numConns; i++ {
			conns[i], err = netToCkServerD.Dial("", "")
			if err != nil {
				t.Error(err)
			}
		}
		runEchoTest(t, conns[:], echoMsgLen)
	})
}

func TestClosingStreamsFromProxy(t *testing.T) {
	log.SetLevel(log.ErrorLevel)
	worldState := common.WorldOfTime(time.Unix(10, 0))

	for clientConfigName, clientConfig := range map[string]client.RawConfig{"basic": basicTCPConfig, "singleplex": singleplexTCPConfig} {
		clientConfig := clientConfig
		clientConfigName := clientConfigName
		t.Run(clientConfigName, func(t *testing.T) {
			lcc, rcc, ai := generateClientConfigs(clientConfig, worldState)
			sta := basicServerState(worldState)
			proxyToCkClientD, proxyFromCkServerL, _, _, err := establishSession(lcc, rcc, ai, sta)
			if err != nil {
				t.Fatal(err)
			}

			t.Run("closing from server", func(t *testing.T) {
				clientConn, _ := proxyToCkClientD.Dial("", "")
				clientConn.Write(make([]byte, 16))
				serverConn, _ := proxyFromCkServerL.Accept()
				serverConn.Close()

				assert.Eventually(t, func() bool {
					_, err := clientConn.Read(make([]byte, 16))
					return err != nil
				}, time.Second, 10*time.Millisecond, "closing stream on server side is not reflected to the client")
			})

			t.Run("closing from client", func(t *testing.T) {
				// closing stream on client side
				clientConn, _ := proxyToCkClientD.Dial("", "")
				clientConn.Write(make([]byte, 16))
				serverConn, _ := proxyFromCkServerL.Accept()
				clientConn.Close()

				assert.Eventually(t, func() bool {
					_, err := serverConn.Read(make([]byte, 16))
					return err != nil
				}, time.Second, 10*time.Millisecond, "closing stream on client side is not reflected to the server")
			})

			t.Run("send then close", func(t *testing.T) {
				testData := make([]byte, 24*1024)
				rand.Read(testData)
				clientConn, _ := proxyToCkClientD.Dial("", "")
				go func() {
					clientConn.Write(testData)
					// it takes time for this written data to be copied asynchronously
					// into ck-server's domain. If the pipe is closed before that, read
					// by ck-client in RouteTCP will fail as we have closed it.
					time.Sleep(700 * time.Millisecond)
					clientConn.Close()
				}()

				readBuf := make([]byte, len(testData))
				serverConn, err := proxyFromCkServerL.Accept()
				if err != nil {
					t.Errorf("failed to accept a connection delievering data sent before closing: %v", err)
				}
				_, err = io.ReadFull(serverConn, readBuf)
				if err != nil {
					t.Errorf("failed to read data sent before closing: %v", err)
				}
			})
		})
	}
}

func BenchmarkIntegration(b *testing.B) {
	log.SetLevel(log.ErrorLevel)
	worldState := common.WorldOfTime(time.Unix(10, 0))
	lcc, rcc, ai := generateClientConfigs(basicTCPConfig, worldState)
	sta := basicServerState(worldState)
	const bufSize = 16 * 1024

	encryptionMethods := map[string]byte{
		"plain":             mux.EncryptionMethodPlain,
		"chacha20-poly1305": mux.EncryptionMethodChaha20Poly1305,
		"aes-256-gcm":       mux.EncryptionMethodAES256GCM,
		"aes-128-gcm":       mux.EncryptionMethodAES128GCM,
	}

	for name, method := range encryptionMethods {
		b.Run(name, func(b *testing.B) {
			ai.EncryptionMethod = method
			proxyToCkClientD, proxyFromCkServerL, _, _, err := establishSession(lcc, rcc, ai, sta)
			if err != nil {
				b.Fatal(err)
			}

			b.Run("single stream bandwidth", func(b *testing.B) {
				more := make(chan int, 10)
				go func() {
					// sender
					writeBuf := make([]byte, bufSize+100)
					serverConn, _ := proxyFromCkServerL.Accept()
					for {
						serverConn.Write(writeBuf)
						<-more
					}
				}()
				// receiver
				clientConn, _ := proxyToCkClientD.Dial("", "")
				readBuf := make([]byte, bufSize)
				clientConn.Write([]byte{1}) // to make server accept
				b.SetBytes(bufSize)
				b.ResetTimer()
				for i := 0; i < b.N; i++ {
					io.ReadFull(clientConn, readBuf)
					// ask for more
					more <- 0
				}
			})

			b.Run("single stream latency", func(b *testing.B) {
				clientConn, _ := proxyToCkClientD.Dial("", "")
				buf := []byte{1}
				clientConn.Write(buf)
				serverConn, _ := proxyFromCkServerL.Accept()
				serverConn.Read(buf)
				b.ResetTimer()
				for i := 0; i < b.N; i++ {
					clientConn.Write(buf)
					serverConn.Read(buf)
				}
			})

		})
	}

}
