package test

import (
	"bytes"
	"fmt"
	"io"
	"math/rand"
	"net"
	"sync"
	"testing"
	"time"

	"encoding/binary"

	"github.com/cbeuw/Cloak/internal/client"
	"github.com/cbeuw/Cloak/internal/common"
	mux "github.com/cbeuw/Cloak/internal/multiplex"
	"github.com/cbeuw/Cloak/internal/server"
	log "github.com/sirupsen/logrus"
)

// End to end through client.RouteTCP / client.MakeSession (real handshake) / server.Serve / serveSession and an echo
// proxy server: every application connection gets back exactly what it sent, for every encryption method,
// NumConn 0 (singleplex), 1, 4, 8, many concurrent connections, write sizes from 1 byte to several frames.
func TestRedC01_E2E(t *testing.T) {
	log.SetLevel(log.ErrorLevel)
	for _, method := range []string{"plain", "aes-128-gcm", "aes-256-gcm", "chacha20-poly1305"} {
		for _, numConn := range []int{0, 1, 4, 8} {
			name := fmt.Sprintf("%s/%d", method, numConn)
			t.Run(name, func(t *testing.T) {
				cfg := basicTCPConfig
				cfg.EncryptionMethod = method
				cfg.NumConn = numConn
				worldState := common.WorldOfTime(time.Unix(10, 0))
				lcc, rcc, ai := generateClientConfigs(cfg, worldState)
				sta := basicServerState(worldState)
				proxyToCkClientD, proxyFromCkServerL, _, _, err := establishSession(lcc, rcc, ai, sta)
				if err != nil {
					t.Fatal(err)
				}
				go serveTCPEcho(proxyFromCkServerL)
				nApp := 120
				if numConn == 0 {
					nApp = 12
				}
				var wg sync.WaitGroup
				for a := 0; a < nApp; a++ {
					wg.Add(1)
					go func(a int) {
						defer wg.Done()
						rng := rand.New(rand.NewSource(int64(a)*7919 + int64(numConn)))
						conn, err := proxyToCkClientD.Dial("", "")
						if err != nil {
							t.Errorf("app %d: dial: %v", a, err)
							return
						}
						defer conn.Close()
						total := 1 + rng.Intn(200000)
						data := make([]byte, total)
						rng.Read(data)
						rdone := make(chan error, 1)
						go func() {
							got := make([]byte, total)
							_ = conn.SetReadDeadline(time.Now().Add(60 * time.Second))
							n, err := io.ReadFull(conn, got)
							if err != nil {
								rdone <- fmt.Errorf("read %d of %d: %v", n, total, err)
								return
							}
							if !bytes.Equal(got, data) {
								rdone <- fmt.Errorf("echo differs")
								return
							}
							rdone <- nil
						}()
						for pos := 0; pos < total; {
							var n int
							switch rng.Intn(4) {
							case 0:
								n = 1
							case 1:
								n = 1 + rng.Intn(100)
							case 2:
								n = 16000 + rng.Intn(300)
							default:
								n = 1 + rng.Intn(50000)
							}
							if n > total-pos {
								n = total - pos
							}
							if _, err := conn.Write(data[pos : pos+n]); err != nil {
								t.Errorf("app %d: write at %d: %v", a, pos, err)
								return
							}
							pos += n
						}
						if err := <-rdone; err != nil {
							t.Errorf("app %d (%d bytes): %v", a, total, err)
						}
					}(a)
				}
				wg.Wait()
			})
		}
	}
}

// the same over real loopback TCP connections everywhere
func TestRedC01_E2E_TCP(t *testing.T) {
	log.SetLevel(log.ErrorLevel)
	for _, method := range []string{"plain", "aes-128-gcm", "aes-256-gcm", "chacha20-poly1305"} {
		for _, numConn := range []int{0, 1, 4, 8} {
			name := fmt.Sprintf("%s/%d", method, numConn)
			t.Run(name, func(t *testing.T) {
				cfg := basicTCPConfig
				cfg.EncryptionMethod = method
				cfg.NumConn = numConn
				appAddr, proxyFromCkServerL := redEstablishTCP(t, cfg)
				go serveTCPEcho(proxyFromCkServerL)
				nApp := 80
				if numConn == 0 {
					nApp = 12
				}
				var wg sync.WaitGroup
				for a := 0; a < nApp; a++ {
					wg.Add(1)
					go func(a int) {
						defer wg.Done()
						rng := rand.New(rand.NewSource(int64(a)*7919 + int64(numConn)))
						conn, err := net.Dial("tcp", appAddr)
						if err != nil {
							t.Errorf("app %d: dial: %v", a, err)
							return
						}
						defer conn.Close()
						total := 1 + rng.Intn(200000)
						data := make([]byte, total)
						rng.Read(data)
						rdone := make(chan error, 1)
						go func() {
							got := make([]byte, total)
							_ = conn.SetReadDeadline(time.Now().Add(60 * time.Second))
							n, err := io.ReadFull(conn, got)
							if err != nil {
								rdone <- fmt.Errorf("read %d of %d: %v", n, total, err)
								return
							}
							if !bytes.Equal(got, data) {
								rdone <- fmt.Errorf("echo differs")
								return
							}
							rdone <- nil
						}()
						for pos := 0; pos < total; {
							var n int
							switch rng.Intn(4) {
							case 0:
								n = 1
							case 1:
								n = 1 + rng.Intn(100)
							case 2:
								n = 16000 + rng.Intn(300)
							default:
								n = 1 + rng.Intn(50000)
							}
							if n > total-pos {
								n = total - pos
							}
							if _, err := conn.Write(data[pos : pos+n]); err != nil {
								t.Errorf("app %d: write at %d: %v", a, pos, err)
								return
							}
							pos += n
						}
						if err := <-rdone; err != nil {
							t.Errorf("app %d (%d bytes): %v", a, total, err)
						}
					}(a)
				}
				wg.Wait()
			})
		}
	}
}

var _ net.Conn

// redEstablishTCP wires proxy client -> ck-client -> ck-server -> proxy server over real loopback TCP connections
// (connutil pipes drop their buffered data when either end is closed, which TCP does not)
func redEstablishTCP(t *testing.T, cfg client.RawConfig) (appAddr string, proxyL net.Listener) {
	worldState := common.WorldOfTime(time.Unix(10, 0))
	lcc, rcc, ai := generateClientConfigs(cfg, worldState)
	sta := basicServerState(worldState)
	ckServerL, err := net.Listen("tcp", "127.0.0.1:0")
	if err != nil {
		t.Skip(err)
	}
	proxyL, err = net.Listen("tcp", "127.0.0.1:0")
	if err != nil {
		t.Skip(err)
	}
	appL, err := net.Listen("tcp", "127.0.0.1:0")
	if err != nil {
		t.Skip(err)
	}
	// the listeners are left open: client.RouteTCP ends the process when its listener fails
	rcc.RemoteAddr = ckServerL.Addr().String()
	sta.ProxyBook["shadowsocks"] = proxyL.Addr()
	sta.ProxyDialer = &net.Dialer{}
	seshMaker := func() *mux.Session {
		ai := ai
		quad := make([]byte, 4)
		common.RandRead(ai.WorldState.Rand, quad)
		ai.SessionId = binary.BigEndian.Uint32(quad)
		return client.MakeSession(rcc, ai, &net.Dialer{})
	}
	go client.RouteTCP(appL, lcc.Timeout, rcc.Singleplex, seshMaker)
	go server.Serve(ckServerL, sta)
	return appL.Addr().String(), proxyL
}

// C03 seen from the applications: the proxy client writes B and closes its connection; the proxy server must read
// exactly B and then end-of-file (nothing is being sent the other way, so the known Copy behaviour does not interfere)
func TestRedC03_E2E_WriteThenClose(t *testing.T) {
	log.SetLevel(log.ErrorLevel)
	for _, numConn := range []int{0, 1, 4, 8} {
		t.Run(fmt.Sprintf("numConn%d", numConn), func(t *testing.T) {
			cfg := basicTCPConfig
			cfg.EncryptionMethod = "aes-128-gcm"
			cfg.NumConn = numConn
			appAddr, proxyFromCkServerL := redEstablishTCP(t, cfg)
			const nApp = 60
			type res struct {
				got []byte
				err error
			}
			results := make(chan res, nApp)
			go func() {
				for {
					c, err := proxyFromCkServerL.Accept()
					if err != nil {
						return
					}
					go func() {
						_ = c.SetReadDeadline(time.Now().Add(60 * time.Second))
						b, err := io.ReadAll(c)
						c.Close()
						results <- res{b, err}
					}()
				}
			}()
			want := map[string]bool{}
			var mu sync.Mutex
			var wg sync.WaitGroup
			for a := 0; a < nApp; a++ {
				wg.Add(1)
				go func(a int) {
					defer wg.Done()
					rng := rand.New(rand.NewSource(int64(a)*104729 + int64(numConn)))
					conn, err := net.Dial("tcp", appAddr)
					if err != nil {
						t.Errorf("dial: %v", err)
						return
					}
					total := 1 + rng.Intn(150000)
					if a%5 == 0 {
						total = 1 + rng.Intn(20)
					}
					data := make([]byte, total)
					rng.Read(data)
					data[0] = byte(a) // make them distinct
					mu.Lock()
					want[string(data)] = true
					mu.Unlock()
					for pos := 0; pos < total; {
						n := 1 + rng.Intn(40000)
						if n > total-pos {
							n = total - pos
						}
						if _, err := conn.Write(data[pos : pos+n]); err != nil {
							t.Errorf("write: %v", err)
							return
						}
						pos += n
					}
					conn.Close()
				}(a)
			}
			wg.Wait()
			for i := 0; i < nApp; i++ {
				select {
				case r := <-results:
					if !want[string(r.got)] {
						t.Errorf("the proxy server read %d bytes (then %v) that are not what any proxy client wrote", len(r.got), r.err)
					}
					delete(want, string(r.got))
				case <-time.After(90 * time.Second):
					t.Fatalf("only %d of %d connections ended at the proxy server", i, nApp)
				}
			}
		})
	}
}
