package multiplex

import (
	"bytes"
	"io"
	"testing"
	"time"
)

// C03: one side writes B on an ordered stream and closes the stream; the other side, which has not closed it,
// must read exactly B and only then the broken-stream error.
//
// Nobody closes the session here and no connection fails. The writing side's session closes ITSELF right after
// the stream's Close, because an inactivity timer armed at an earlier moment (here: the one MakeSession arms)
// is still pending and finds the count at 0: the timer is armed once per "count reached 0" and never re-armed or
// cancelled, so it measures the time since some earlier idle moment, not since the last stream closed. The
// session-closing notice then travels on one connection while B (and the stream-closing notice) are still in
// flight on the others; the receiver processes the notice first and B's tail is lost.
func TestRedC03_StaleInactivityTimerLosesTail(t *testing.T) {
	redC03Stale(t, false)
}

// the same with a timer armed by an earlier stream's close instead of the one MakeSession arms
func TestRedC03_StaleInactivityTimerOfEarlierStreamLosesTail(t *testing.T) {
	redC03Stale(t, true)
}

func redC03Stale(t *testing.T, earlierStream bool) {
	const timeout = 4 * time.Second
	const nConn = 4
	p := makeRedPair(nConn, EncryptionMethodAES256GCM,
		SessionConfig{InactivityTimeout: timeout},
		SessionConfig{InactivityTimeout: time.Hour}, 1, true)
	start := time.Now() // the client's first inactivity timer was armed (just before) now
	p.connect()
	if earlierStream {
		// stream A is open when the first timer fires (nothing happens), and its Close arms the timer in question
		a, err := p.client.OpenStream()
		if err != nil {
			t.Fatal(err)
		}
		if _, err = a.Write([]byte("A")); err != nil {
			t.Fatal(err)
		}
		sa, err := p.server.Accept()
		if err != nil {
			t.Fatal(err)
		}
		time.Sleep(time.Until(start.Add(timeout + 500*time.Millisecond)))
		if p.client.IsClosed() {
			t.Fatal("closed with stream A open")
		}
		if err = a.Close(); err != nil {
			t.Fatal(err)
		}
		start = time.Now() // the timer armed by A's close
		if _, err = sa.Read(make([]byte, 10)); err != nil {
			t.Fatal(err)
		}
		if _, err = sa.Read(make([]byte, 10)); err != ErrBrokenStream {
			t.Fatal(err)
		}
		time.Sleep(100 * time.Millisecond)
	}

	st, err := p.client.OpenStream()
	if err != nil {
		t.Fatal(err)
	}
	if _, err = st.Write([]byte("hello")); err != nil {
		t.Fatal(err)
	}
	acc, err := p.server.Accept()
	if err != nil {
		t.Fatal(err)
	}
	hello := make([]byte, 5)
	if _, err = io.ReadFull(acc, hello); err != nil {
		t.Fatal(err)
	}

	// the stream is in use until shortly before the pending timer fires
	time.Sleep(time.Until(start.Add(timeout - 1200*time.Millisecond)))

	// from now on the connections differ in delay: nothing the client sends is delivered until released below
	for _, c := range p.cc {
		c.hold(true, true)
	}
	var B []byte
	for i := 0; i < 24; i++ {
		chunk := bytes.Repeat([]byte{byte('a' + i)}, 100)
		B = append(B, chunk...)
		if _, err = st.Write(chunk); err != nil {
			t.Fatalf("write %d: %v", i, err)
		}
	}
	if err = st.Close(); err != nil {
		t.Fatalf("stream close: %v", err)
	}
	streamClosed := time.Now()
	if streamClosed.After(start.Add(timeout - 300*time.Millisecond)) {
		t.Skip("machine too slow: the stream was not closed before the pending timer")
	}

	// nobody closes the session; wait for it to close itself
	for !p.client.IsClosed() {
		if time.Since(streamClosed) > 2*timeout {
			t.Fatal("client session never closed itself")
		}
		time.Sleep(5 * time.Millisecond)
	}
	// let Close finish sending its notice
	for i := 0; i < 400; i++ {
		all := true
		for _, c := range p.cc {
			all = all && c.isClosed()
		}
		if all {
			break
		}
		time.Sleep(5 * time.Millisecond)
	}
	idle := time.Since(streamClosed)
	t.Logf("client session closed itself %v after its last stream was closed (InactivityTimeout %v, terminal message %q)",
		idle.Round(time.Millisecond), timeout, p.client.TerminalMsg())
	if idle > timeout/2 {
		t.Skipf("the session closed %v after the stream: not the stale timer", idle)
	}

	// the connection that carries the last record written (the session-closing notice) is the fastest
	last := 0
	var lastT time.Time
	for i, c := range p.cc {
		_, _, lw := c.outStats()
		if lw.After(lastT) {
			lastT, last = lw, i
		}
	}
	p.cc[last].hold(true, false)
	for i := 0; i < 1000 && !p.server.IsClosed(); i++ {
		time.Sleep(5 * time.Millisecond)
	}
	for _, c := range p.cc {
		c.hold(true, false)
	}

	_ = acc.SetReadDeadline(time.Now().Add(10 * time.Second))
	got, rerr := io.ReadAll(acc)
	t.Logf("server read %d of %d bytes, then %v", len(got), len(B), rerr)
	if !bytes.Equal(got, B) {
		t.Errorf("C03 violated: the peer wrote %d bytes and closed the stream; the reader, which never closed it, got %d bytes (prefix: %v) and then %v. Neither side closed the session and no connection failed.",
			len(B), len(got), bytes.HasPrefix(B, got), rerr)
	}
}
