package multiplex

import (
	"bytes"
	"io"
	"net"
	"os"
	"strconv"
	"testing"
	"time"

	"github.com/cbeuw/Cloak/internal/common"
)

// Supplementary, not deterministic: the same history over real loopback TCP connections with no artificial
// delay at all. The stream is written and closed a few hundred microseconds before the pending inactivity timer
// fires; which of the server's receive loops runs first decides whether the tail is lost.
// RED_TCP_TRIALS sets the number of sessions tried (default 30); the test fails if any of them loses bytes.
func TestRedC03_StaleTimerOverLoopbackTCP(t *testing.T) {
	trials := 30
	if v := os.Getenv("RED_TCP_TRIALS"); v != "" {
		trials, _ = strconv.Atoi(v)
	}
	l, err := net.Listen("tcp", "127.0.0.1:0")
	if err != nil {
		t.Skip(err)
	}
	defer l.Close()
	const timeout = 500 * time.Millisecond
	const nConn = 4
	lost := 0
	for trial := 0; trial < trials; trial++ {
		var key [32]byte
		key[0] = byte(trial)
		obfs, _ := MakeObfuscator(EncryptionMethodPlain, key)
		client := MakeSession(1, SessionConfig{Obfuscator: obfs, InactivityTimeout: timeout})
		start := time.Now()
		server := MakeSession(1, SessionConfig{Obfuscator: obfs, InactivityTimeout: time.Hour})
		for i := 0; i < nConn; i++ {
			c, err := net.Dial("tcp", l.Addr().String())
			if err != nil {
				t.Fatal(err)
			}
			s, err := l.Accept()
			if err != nil {
				t.Fatal(err)
			}
			client.AddConnection(common.NewTLSConn(c))
			server.AddConnection(common.NewTLSConn(s))
		}
		st, err := client.OpenStream()
		if err != nil {
			t.Fatal(err)
		}
		st.Write([]byte("hello"))
		acc, err := server.Accept()
		if err != nil {
			t.Fatal(err)
		}
		io.ReadFull(acc, make([]byte, 5))
		var B []byte
		for i := 0; i < 24; i++ {
			B = append(B, bytes.Repeat([]byte{byte('a' + i)}, 1000)...)
		}
		lead := time.Duration(100+trial*30) * time.Microsecond
		for time.Until(start.Add(timeout-lead)) > 0 {
		}
		for i := 0; i < 24; i++ {
			if _, err := st.Write(B[i*1000 : (i+1)*1000]); err != nil {
				break
			}
		}
		cerr := st.Close()
		_ = acc.SetReadDeadline(time.Now().Add(5 * time.Second))
		got, rerr := io.ReadAll(acc)
		if cerr == nil && !bytes.Equal(got, B) {
			lost++
			t.Logf("trial %d (written %v before the timer): stream Close returned nil, reader got %d of %d bytes, then %v; client terminal message %q",
				trial, lead, len(got), len(B), rerr, client.TerminalMsg())
		}
		client.Close()
		server.Close()
	}
	if lost > 0 {
		t.Errorf("%d of %d sessions lost the tail of a stream that was written and closed without error", lost, trials)
	}
}
