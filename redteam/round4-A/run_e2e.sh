#!/bin/sh
# usage: RED/run_e2e.sh <go test args...>  - runs RED/C01/e2e/*.go as package internal/test through a build overlay
# (integration_test.go there is the repository's file with the unresolvable host name fake.com replaced by 127.0.0.1)
cd "$(dirname "$0")/.." || exit 1
ROOT=$(pwd)
export GOTOOLCHAIN=local GOFLAGS=-mod=mod GOPROXY=off GOSUMDB=off
GO=/root/go/pkg/mod/golang.org/toolchain@v0.0.1-go1.24.2.linux-amd64/bin/go
ov=$(mktemp /tmp/red4A-overlay.XXXXXX.json)
{
  printf '{"Replace":{'
  sep=""
  for f in RED/C01/e2e/*_test.go; do
    printf '%s"%s/internal/test/%s":"%s/%s"' "$sep" "$ROOT" "$(basename "$f")" "$ROOT" "$f"
    sep=","
  done
  printf '}}'
} > "$ov"
$GO test -overlay "$ov" ./internal/test/ "$@"
rc=$?
rm -f "$ov"
exit $rc
