package multiplex

// A small in-memory model of TCP connections for the red-team tests: two independent byte queues per
// connection, writes never block (a large socket buffer), reads return arbitrary segment sizes, Close sends a
// FIN (the peer reads what was sent before it and then io.EOF) and makes the peer's later writes fail, a fault
// (reset or EOF) is seen by both ends. Delivery of a direction can be held back to model delay of one
// underlying connection relative to the others.

import (
	"github.com/cbeuw/Cloak/internal/common"
	"errors"
	"io"
	"math/rand"
	"net"
	"sync"
	"time"
)

var errSimReset = errors.New("sim: connection reset by peer")
var errSimClosed = errors.New("sim: use of closed network connection")

type simDir struct {
	buf     []byte
	held    bool // delivery paused: the reader sees nothing new
	fin     bool // writer has closed: EOF after the buffer is drained
	reset   bool
	written int // total bytes accepted from the writer
	cutAt   int // -1: none; otherwise bytes beyond this total are never delivered and the fault strikes there
	cutKind int // 0 reset, 1 EOF
	lastW   time.Time
	nWrites int
	capacity int // 0: unbounded; otherwise Write blocks while this many bytes are waiting to be read
}

type simLink struct {
	mu   sync.Mutex
	cond *sync.Cond
	dir  [2]*simDir // dir[0]: a->b, dir[1]: b->a
	seg  *rand.Rand // segmentation of reads, nil: as much as fits
	ends [2]*simConn
}

type simConn struct {
	l      *simLink
	side   int // 0 = a, 1 = b
	closed bool
}

func newSimLink(seed int64, segment bool) (*simConn, *simConn) {
	l := &simLink{}
	l.cond = sync.NewCond(&l.mu)
	l.dir[0] = &simDir{cutAt: -1}
	l.dir[1] = &simDir{cutAt: -1}
	if segment {
		l.seg = rand.New(rand.NewSource(seed))
	}
	a := &simConn{l: l, side: 0}
	b := &simConn{l: l, side: 1}
	l.ends[0], l.ends[1] = a, b
	return a, b
}

func (c *simConn) out() *simDir { return c.l.dir[c.side] }
func (c *simConn) in() *simDir  { return c.l.dir[1-c.side] }

func (c *simConn) Read(p []byte) (int, error) {
	l := c.l
	l.mu.Lock()
	defer l.mu.Unlock()
	d := c.in()
	for {
		if c.closed {
			return 0, errSimClosed
		}
		if !d.held {
			if len(d.buf) > 0 && len(p) > 0 {
				n := len(p)
				if n > len(d.buf) {
					n = len(d.buf)
				}
				if l.seg != nil && n > 1 {
					n = 1 + l.seg.Intn(n)
				}
				copy(p, d.buf[:n])
				d.buf = d.buf[n:]
				l.cond.Broadcast()
				return n, nil
			}
			if d.reset {
				return 0, errSimReset
			}
			if d.fin {
				return 0, io.EOF
			}
		}
		if len(p) == 0 {
			return 0, nil
		}
		l.cond.Wait()
	}
}

// faultLocked makes both ends see a reset (kind 0) or an EOF (kind 1); data not yet delivered is lost on a reset
func (l *simLink) faultLocked(kind int) {
	for _, d := range l.dir {
		if kind == 0 {
			d.reset = true
		} else {
			d.fin = true
		}
	}
	l.cond.Broadcast()
}

func (c *simConn) Write(p []byte) (int, error) {
	l := c.l
	l.mu.Lock()
	defer l.mu.Unlock()
	d := c.out()
	for {
		if c.closed {
			return 0, errSimClosed
		}
		if d.reset || d.fin || l.ends[1-c.side].closed {
			// the connection has failed, or the peer has closed: like a TCP write answered by a reset
			return 0, errSimReset
		}
		if d.capacity == 0 || len(d.buf) < d.capacity {
			break
		}
		l.cond.Wait()
	}
	d.lastW = time.Now()
	d.nWrites++
	if d.cutAt >= 0 && d.written+len(p) > d.cutAt {
		keep := d.cutAt - d.written
		if keep < 0 {
			keep = 0
		}
		d.buf = append(d.buf, p[:keep]...)
		d.written += len(p)
		if d.cutKind == 0 {
			// a reset may arrive before the bytes in flight are read; keep them readable: the reader
			// still gets a prefix of the record, which is the interesting case
			d.reset = true
			l.dir[1-c.side].reset = true
		} else {
			d.fin = true
			l.dir[1-c.side].fin = true
		}
		l.cond.Broadcast()
		// the local kernel has accepted the bytes: the write itself succeeds
		return len(p), nil
	}
	d.buf = append(d.buf, p...)
	d.written += len(p)
	l.cond.Broadcast()
	return len(p), nil
}

func (c *simConn) Close() error {
	l := c.l
	l.mu.Lock()
	defer l.mu.Unlock()
	if c.closed {
		return errSimClosed
	}
	c.closed = true
	c.out().fin = true
	l.cond.Broadcast()
	return nil
}

func (c *simConn) isClosed() bool {
	c.l.mu.Lock()
	defer c.l.mu.Unlock()
	return c.closed
}

func (c *simConn) hold(dirOut bool, h bool) {
	c.l.mu.Lock()
	defer c.l.mu.Unlock()
	if dirOut {
		c.out().held = h
	} else {
		c.in().held = h
	}
	c.l.cond.Broadcast()
}

func (c *simConn) outStats() (written int, nWrites int, last time.Time) {
	c.l.mu.Lock()
	defer c.l.mu.Unlock()
	d := c.out()
	return d.written, d.nWrites, d.lastW
}

func (c *simConn) setCut(dirOut bool, at int, kind int) {
	c.l.mu.Lock()
	defer c.l.mu.Unlock()
	d := c.in()
	if dirOut {
		d = c.out()
	}
	d.cutAt = at
	d.cutKind = kind
}

func (c *simConn) setCapacity(dirOut bool, n int) {
	c.l.mu.Lock()
	defer c.l.mu.Unlock()
	if dirOut {
		c.out().capacity = n
	} else {
		c.in().capacity = n
	}
}

func (c *simConn) fault(kind int) {
	c.l.mu.Lock()
	defer c.l.mu.Unlock()
	c.l.faultLocked(kind)
}

type simAddr struct{}

func (simAddr) Network() string { return "sim" }
func (simAddr) String() string  { return "sim" }

func (c *simConn) LocalAddr() net.Addr                { return simAddr{} }
func (c *simConn) RemoteAddr() net.Addr               { return simAddr{} }
func (c *simConn) SetDeadline(t time.Time) error      { return nil }
func (c *simConn) SetReadDeadline(t time.Time) error  { return nil }
func (c *simConn) SetWriteDeadline(t time.Time) error { return nil }

// redPair builds a client and a server session joined by n simulated connections wrapped in the TLS record layer
type redPair struct {
	client, server *Session
	cc, sc         []*simConn
}

func makeRedPair(n int, method byte, clientCfg, serverCfg SessionConfig, seed int64, segment bool) *redPair {
	var key [32]byte
	rand.New(rand.NewSource(seed)).Read(key[:])
	obfs, err := MakeObfuscator(method, key)
	if err != nil {
		panic(err)
	}
	clientCfg.Obfuscator = obfs
	serverCfg.Obfuscator = obfs
	p := &redPair{}
	p.client = MakeSession(1, clientCfg)
	p.server = MakeSession(1, serverCfg)
	for i := 0; i < n; i++ {
		a, b := newSimLink(seed*131+int64(i), segment)
		p.cc = append(p.cc, a)
		p.sc = append(p.sc, b)
	}
	return p
}

func (p *redPair) connect() {
	for i := range p.cc {
		p.client.AddConnection(common.NewTLSConn(p.cc[i]))
		p.server.AddConnection(common.NewTLSConn(p.sc[i]))
	}
}
