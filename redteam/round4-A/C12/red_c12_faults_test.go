package multiplex

import (
	"fmt"
	"math/rand"
	"os"
	"strconv"
	"sync"
	"sync/atomic"
	"testing"
	"time"
)

func redByte(id uint32, dir int, i int) byte {
	return byte((i*7 + int(id)*13 + dir*101) ^ (i >> 8))
}

type redEnd struct {
	st        *Stream
	dir       int // direction this end WRITES in: 0 client->server, 1 server->client
	attempted int64
	got       []byte
	rerr      error
	rdone     chan struct{}
	wdone     chan struct{}
}

// runRedEnd starts a writer and a reader on one end of a stream
func runRedEnd(st *Stream, dir int, total int, closeAfter bool, rng *rand.Rand) *redEnd {
	unordered := st.session.Unordered
	e := &redEnd{st: st, dir: dir, rdone: make(chan struct{}), wdone: make(chan struct{})}
	sizes := []int{}
	for left := total; left > 0; {
		var n int
		switch rng.Intn(4) {
		case 0:
			n = 1
		case 1:
			n = 1 + rng.Intn(100)
		case 2:
			n = 1 + rng.Intn(20000)
		default:
			n = 1 + rng.Intn(50000)
		}
		if n > left {
			n = left
		}
		if unordered && n > st.session.maxStreamUnitWrite {
			n = st.session.maxStreamUnitWrite
		}
		sizes = append(sizes, n)
		left -= n
	}
	go func() {
		defer close(e.wdone)
		pos := 0
		for _, n := range sizes {
			b := make([]byte, n)
			for i := range b {
				b[i] = redByte(st.id, dir, pos+i)
			}
			atomic.AddInt64(&e.attempted, int64(n))
			if _, err := st.Write(b); err != nil {
				return
			}
			pos += n
		}
		if closeAfter {
			st.Close()
		}
	}()
	go func() {
		defer close(e.rdone)
		buf := make([]byte, 1+rng.Intn(40000))
		if unordered {
			buf = make([]byte, 65536)
		}
		for {
			n, err := st.Read(buf)
			e.got = append(e.got, buf[:n]...)
			if err != nil {
				e.rerr = err
				return
			}
		}
	}()
	return e
}

func waitCh(ch chan struct{}, d time.Duration) bool {
	select {
	case <-ch:
		return true
	case <-time.After(d):
		return false
	}
}

func redC12Trial(seed int64) (desc string, problems []string) {
	rng := rand.New(rand.NewSource(seed))
	nConn := 1 + rng.Intn(4)
	methods := []byte{EncryptionMethodPlain, EncryptionMethodAES256GCM, EncryptionMethodAES128GCM, EncryptionMethodChaha20Poly1305}
	method := methods[rng.Intn(4)]
	nStreams := 1 + rng.Intn(5)
	total := 1 + rng.Intn(300000)
	closeAfter := rng.Intn(3) == 0
	unordered := rng.Intn(4) == 0
	singleplex := rng.Intn(5) == 0
	if singleplex {
		nConn, nStreams = 1, 1
	}
	p := makeRedPair(nConn, method, SessionConfig{InactivityTimeout: time.Hour, Unordered: unordered, Singleplex: singleplex},
		SessionConfig{InactivityTimeout: time.Hour, Unordered: unordered}, seed, true)

	// the fault
	kind := rng.Intn(6) // 0,1: cut client->server reset/EOF; 2,3: cut server->client; 4 client closes session; 5 server closes
	victim := rng.Intn(nConn)
	// byte offset: per connection about total*nStreams/nConn bytes flow in each direction
	per := total*nStreams/nConn + 1
	var at int
	switch rng.Intn(4) {
	case 0:
		at = rng.Intn(64) // inside the first record
	case 1:
		at = rng.Intn(per)
	case 2:
		at = rng.Intn(per/4 + 1)
	default:
		at = per + rng.Intn(per) // probably never reached: the fault is injected at the end instead
	}
	holdOne := -1
	if kind < 4 && nConn > 1 && rng.Intn(3) == 0 {
		// one other connection is stalled in one direction and has a small buffer: writers block on it
		holdOne = (victim + 1 + rng.Intn(nConn-1)) % nConn
	}
	defer func() { desc += fmt.Sprintf(" unordered %v singleplex %v", unordered, singleplex) }()
	desc = fmt.Sprintf("seed %d: conns %d method %d streams %d bytes/dir %d closeAfter %v fault kind %d on conn %d at byte %d, stalled conn %d",
		seed, nConn, method, nStreams, total, closeAfter, kind, victim, at, holdOne)
	switch kind {
	case 0, 1:
		p.cc[victim].setCut(true, at, kind%2)
	case 2, 3:
		p.sc[victim].setCut(true, at, kind%2)
	}
	if holdOne >= 0 {
		out := rng.Intn(2) == 0
		p.cc[holdOne].setCapacity(out, 30000)
		p.cc[holdOne].hold(out, true)
	}
	p.connect()

	var mu sync.Mutex
	var ends []*redEnd
	accDone := make(chan struct{})
	var accErr error
	go func() {
		defer close(accDone)
		for {
			c, err := p.server.Accept()
			if err != nil {
				accErr = err
				return
			}
			mu.Lock()
			e := runRedEnd(c.(*Stream), 1, total, closeAfter, rand.New(rand.NewSource(seed*977+int64(c.(*Stream).id))))
			ends = append(ends, e)
			mu.Unlock()
		}
	}()
	for i := 0; i < nStreams; i++ {
		st, err := p.client.OpenStream()
		if err != nil {
			// the fault may already have struck
			break
		}
		mu.Lock()
		ends = append(ends, runRedEnd(st, 0, total, closeAfter, rand.New(rand.NewSource(seed*31+int64(i)))))
		mu.Unlock()
	}

	switch kind {
	case 4, 5:
		time.Sleep(time.Duration(rng.Intn(20)) * time.Millisecond)
		if kind == 4 {
			p.client.Close()
		} else {
			p.server.Close()
		}
	default:
		// if the byte offset is never reached the fault strikes when the writers are done (readers still blocked)
		mu.Lock()
		cur := append([]*redEnd{}, ends...)
		mu.Unlock()
		deadline := time.Now().Add(20 * time.Second)
		if holdOne >= 0 {
			deadline = time.Now().Add(300 * time.Millisecond)
		}
		for _, e := range cur {
			for !p.client.IsClosed() && !p.server.IsClosed() && time.Now().Before(deadline) {
				if waitCh(e.wdone, 20*time.Millisecond) {
					break
				}
			}
		}
		if !p.client.IsClosed() && !p.server.IsClosed() {
			time.Sleep(time.Duration(rng.Intn(30)) * time.Millisecond)
			p.cc[victim].fault(kind % 2)
		}
	}

	// everything must return
	const patience = 15 * time.Second
	if !waitCh(accDone, patience) {
		problems = append(problems, "server Accept still blocked")
	} else if accErr != ErrBrokenSession {
		problems = append(problems, fmt.Sprintf("Accept error %v", accErr))
	}
	mu.Lock()
	all := append([]*redEnd{}, ends...)
	mu.Unlock()
	byKey := map[string]*redEnd{}
	for _, e := range all {
		byKey[fmt.Sprintf("%d/%d", e.st.id, e.dir)] = e
	}
	for _, e := range all {
		if !waitCh(e.wdone, patience) {
			problems = append(problems, fmt.Sprintf("stream %d dir %d: writer still blocked", e.st.id, e.dir))
		}
		if !waitCh(e.rdone, patience) {
			problems = append(problems, fmt.Sprintf("stream %d dir %d: reader still blocked", e.st.id, e.dir))
			continue
		}
		// this end reads what the other end (direction 1-dir) wrote
		wdir := 1 - e.dir
		for i, b := range e.got {
			if unordered && nConn > 1 {
				break // datagrams may be reordered between connections
			}
			if b != redByte(e.st.id, wdir, i) {
				problems = append(problems, fmt.Sprintf("stream %d: reader of dir %d got a wrong byte at %d of %d", e.st.id, wdir, i, len(e.got)))
				break
			}
		}
		if w := byKey[fmt.Sprintf("%d/%d", e.st.id, wdir)]; w != nil {
			if int64(len(e.got)) > atomic.LoadInt64(&w.attempted) {
				problems = append(problems, fmt.Sprintf("stream %d: read %d bytes, more than written %d", e.st.id, len(e.got), w.attempted))
			}
		} else if len(e.got) > 0 && e.dir == 0 {
			problems = append(problems, fmt.Sprintf("stream %d: client read %d bytes of a stream the server never accepted", e.st.id, len(e.got)))
		}
		if e.rerr != ErrBrokenStream {
			problems = append(problems, fmt.Sprintf("stream %d dir %d: reader ended with %v", e.st.id, e.dir, e.rerr))
		}
	}
	end := time.Now().Add(patience)
	for time.Now().Before(end) {
		ok := p.client.IsClosed() && p.server.IsClosed()
		for i := range p.cc {
			ok = ok && p.cc[i].isClosed() && p.sc[i].isClosed()
		}
		if ok {
			break
		}
		time.Sleep(10 * time.Millisecond)
	}
	if !p.client.IsClosed() {
		problems = append(problems, "client session not closed")
	}
	if !p.server.IsClosed() {
		problems = append(problems, "server session not closed")
	}
	for i := range p.cc {
		if !p.cc[i].isClosed() {
			problems = append(problems, fmt.Sprintf("client connection %d not closed", i))
		}
		if !p.sc[i].isClosed() {
			problems = append(problems, fmt.Sprintf("server connection %d not closed", i))
		}
	}
	if os.Getenv("RED_VERBOSE") != "" {
		tot := 0
		for _, e := range all {
			tot += len(e.got)
		}
		fmt.Printf("%s -> %d ends, %d bytes read in all\n", desc, len(all), tot)
	}
	if _, err := p.client.OpenStream(); err == nil {
		problems = append(problems, "client OpenStream succeeded on the torn-down session")
	}
	if _, err := p.server.OpenStream(); err == nil {
		problems = append(problems, "server OpenStream succeeded on the torn-down session")
	}
	return
}

func TestRedC12_FaultSweep(t *testing.T) {
	n := 150
	if v := os.Getenv("RED_TRIALS"); v != "" {
		n, _ = strconv.Atoi(v)
	}
	base := int64(1)
	if v := os.Getenv("RED_SEED"); v != "" {
		base, _ = strconv.ParseInt(v, 10, 64)
	}
	bad := 0
	for s := base; s < base+int64(n); s++ {
		desc, problems := redC12Trial(s)
		if len(problems) > 0 {
			bad++
			t.Errorf("%s\n   %v", desc, problems)
			if bad > 5 {
				return
			}
		}
	}
}
