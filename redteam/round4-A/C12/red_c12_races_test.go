package multiplex

import (
	"math/rand"
	"sync"
	"sync/atomic"
	"testing"
	"time"
)

// session Close (by either side, or a connection fault) racing with OpenStream / Read / Write / stream Close:
// everything must return, every stream handed out must end with an error
func TestRedC12_CloseRacesOpen(t *testing.T) {
	for seed := int64(1); seed <= 300; seed++ {
		rng := rand.New(rand.NewSource(seed))
		nConn := 1 + rng.Intn(4)
		p := makeRedPair(nConn, EncryptionMethodPlain, SessionConfig{InactivityTimeout: time.Hour}, SessionConfig{InactivityTimeout: time.Hour}, seed, true)
		p.connect()
		var wg sync.WaitGroup
		var opened, stuck int32
		// server: accept and echo a little
		wg.Add(1)
		go func() {
			defer wg.Done()
			for {
				c, err := p.server.Accept()
				if err != nil {
					return
				}
				wg.Add(1)
				go func() {
					defer wg.Done()
					buf := make([]byte, 4096)
					for {
						n, err := c.Read(buf)
						if n > 0 {
							if _, werr := c.Write(buf[:n]); werr != nil {
								return
							}
						}
						if err != nil {
							return
						}
					}
				}()
			}
		}()
		for g := 0; g < 4; g++ {
			wg.Add(1)
			go func(g int) {
				defer wg.Done()
				for {
					st, err := p.client.OpenStream()
					if err != nil {
						return
					}
					atomic.AddInt32(&opened, 1)
					done := make(chan struct{})
					go func() {
						defer close(done)
						st.Write(make([]byte, 100+g))
						buf := make([]byte, 4096)
						for {
							if _, err := st.Read(buf); err != nil {
								return
							}
							if g%2 == 0 {
								st.Close()
							}
						}
					}()
					select {
					case <-done:
					case <-time.After(10 * time.Second):
						atomic.AddInt32(&stuck, 1)
						return
					}
				}
			}(g)
		}
		time.Sleep(time.Duration(rng.Intn(3000)) * time.Microsecond)
		switch rng.Intn(4) {
		case 0:
			p.client.Close()
		case 1:
			p.server.Close()
		case 2:
			p.cc[rng.Intn(nConn)].fault(0)
		default:
			p.cc[rng.Intn(nConn)].fault(1)
		}
		ch := make(chan struct{})
		go func() { wg.Wait(); close(ch) }()
		select {
		case <-ch:
		case <-time.After(20 * time.Second):
			t.Fatalf("seed %d: goroutines still blocked after the teardown", seed)
		}
		if stuck != 0 {
			t.Fatalf("seed %d: %d streams whose Read never returned", seed, stuck)
		}
		end := time.Now().Add(5 * time.Second)
		for {
			ok := p.client.IsClosed() && p.server.IsClosed()
			for i := range p.cc {
				ok = ok && p.cc[i].isClosed() && p.sc[i].isClosed()
			}
			if ok {
				break
			}
			if time.Now().After(end) {
				t.Fatalf("seed %d: sessions/connections not all closed", seed)
			}
			time.Sleep(time.Millisecond)
		}
	}
}

// at quiescent moments the count equals the number of open streams, on both sides, through random opens and
// closes from either side, simultaneous closes, closes of unaccepted streams
func TestRedC12_QuiescentCount(t *testing.T) {
	for seed := int64(1); seed <= 60; seed++ {
		rng := rand.New(rand.NewSource(seed))
		nConn := 1 + rng.Intn(4)
		p := makeRedPair(nConn, EncryptionMethodChaha20Poly1305, SessionConfig{InactivityTimeout: time.Hour}, SessionConfig{InactivityTimeout: time.Hour}, seed, true)
		p.connect()
		type pair struct{ c, s *Stream }
		open := map[uint32]*pair{}
		unaccepted := 0
		for step := 0; step < 60; step++ {
			switch op := rng.Intn(6); {
			case op <= 1:
				st, err := p.client.OpenStream()
				if err != nil {
					t.Fatal(err)
				}
				st.Write([]byte{1, 2, 3})
				if rng.Intn(4) == 0 {
					// closed before the server accepts it
					st.Close()
					unaccepted++
				} else {
					open[st.id] = &pair{c: st}
				}
			default:
				for id, pr := range open {
					if pr.s == nil {
						break
					}
					switch rng.Intn(3) {
					case 0:
						pr.c.Close()
					case 1:
						pr.s.Close()
					default:
						var wg sync.WaitGroup
						wg.Add(2)
						go func() { defer wg.Done(); pr.c.Close() }()
						go func() { defer wg.Done(); pr.s.Close() }()
						wg.Wait()
					}
					delete(open, id)
					break
				}
			}
			// accept everything pending
			for {
				pending := unaccepted
				for _, pr := range open {
					if pr.s == nil {
						pending++
					}
				}
				if pending == 0 {
					break
				}
				c, err := p.server.Accept()
				if err != nil {
					t.Fatal(err)
				}
				st := c.(*Stream)
				if pr, ok := open[st.id]; ok {
					pr.s = st
				} else {
					unaccepted--
				}
			}
			// quiescence: wait for both counts to settle on the expected value
			want := uint32(len(open))
			ok := false
			for i := 0; i < 2000; i++ {
				if p.client.streamCount() == want && p.server.streamCount() == want {
					ok = true
					break
				}
				time.Sleep(time.Millisecond)
			}
			if !ok {
				t.Fatalf("seed %d step %d: %d streams open, count client %d server %d", seed, step, want, p.client.streamCount(), p.server.streamCount())
			}
		}
		if p.client.IsClosed() || p.server.IsClosed() {
			t.Fatalf("seed %d: session closed", seed)
		}
		p.client.Close()
	}
}

// timer phases: a multiplexed session with an open stream survives every firing of the inactivity check; it
// closes itself only once no stream is open
func TestRedC12_TimerPhases(t *testing.T) {
	const to = 300 * time.Millisecond
	p := makeRedPair(2, EncryptionMethodPlain, SessionConfig{InactivityTimeout: to}, SessionConfig{InactivityTimeout: to}, 5, true)
	p.connect()
	go func() {
		for {
			c, err := p.server.Accept()
			if err != nil {
				return
			}
			_ = c
		}
	}()
	a, err := p.client.OpenStream()
	if err != nil {
		t.Fatal(err)
	}
	a.Write([]byte("x"))
	// several streams come and go, each arming a timer, while a stays open
	for i := 0; i < 8; i++ {
		b, err := p.client.OpenStream()
		if err != nil {
			t.Fatalf("open %d: %v", i, err)
		}
		b.Write([]byte("y"))
		time.Sleep(to / 3)
		b.Close()
	}
	time.Sleep(2 * to)
	if p.client.IsClosed() || p.server.IsClosed() {
		t.Fatalf("session closed itself with a stream open (client %v server %v)", p.client.IsClosed(), p.server.IsClosed())
	}
	if _, err := a.Write([]byte("still there")); err != nil {
		t.Fatalf("write on the surviving stream: %v", err)
	}
	a.Close()
	time.Sleep(3 * to)
	if !p.client.IsClosed() || !p.server.IsClosed() {
		t.Fatalf("idle session did not close itself (client %v server %v)", p.client.IsClosed(), p.server.IsClosed())
	}
}
