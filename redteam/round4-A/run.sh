#!/bin/sh
# usage: RED/run.sh <property dir> <go test args...>   e.g. RED/run.sh C03 -run TestRedC03 -count=1 -v
# Runs the red-team test files of RED/<property dir> as part of package internal/multiplex
# through a build overlay: nothing is written into the tracked tree.
cd "$(dirname "$0")/.." || exit 1
ROOT=$(pwd)
export GOTOOLCHAIN=local GOFLAGS=-mod=mod GOPROXY=off GOSUMDB=off
GO=/root/go/pkg/mod/golang.org/toolchain@v0.0.1-go1.24.2.linux-amd64/bin/go
prop=$1; shift
pkg=${RED_PKG:-internal/multiplex}
ov=$(mktemp /tmp/red4A-overlay.XXXXXX.json)
{
  printf '{"Replace":{'
  sep=""
  for f in RED/$prop/*_test.go; do
    [ -f "$f" ] || continue
    printf '%s"%s/%s/%s":"%s/%s"' "$sep" "$ROOT" "$pkg" "$(basename "$f")" "$ROOT" "$f"
    sep=","
  done
  printf '}}'
} > "$ov"
$GO test -overlay "$ov" ./$pkg/ "$@"
rc=$?
rm -f "$ov"
exit $rc
