package multiplex

import (
	"bytes"
	"errors"
	"io"
	"math/rand"
	"net"
	"sync"
	"sync/atomic"
	"testing"
	"time"

	"github.com/cbeuw/connutil"
)

// recording connection: every message handed to Write (successful or not) is recorded with a global order index
type redWire struct {
	mu   sync.Mutex
	msgs [][]byte
}

func (w *redWire) add(b []byte) {
	c := make([]byte, len(b))
	copy(c, b)
	w.mu.Lock()
	w.msgs = append(w.msgs, c)
	w.mu.Unlock()
}

type redRecConn struct {
	net.Conn
	wire      *redWire
	failAfter int64 // fail every write after this many (<=0: never)
	count     int64
}

func (c *redRecConn) Write(b []byte) (int, error) {
	c.wire.add(b)
	if c.failAfter > 0 && atomic.AddInt64(&c.count, 1) > c.failAfter {
		return 0, errors.New("injected write failure")
	}
	return c.Conn.Write(b)
}

type redOp struct {
	kind string // "w" write, "r" readfrom chunk
	data []byte
}

func redC13Run(t *testing.T, seed int64, method byte, nConn, nStreams int, failAfter int64) {
	rng := rand.New(rand.NewSource(seed))
	var key [32]byte
	rng.Read(key[:])
	obfs, _ := MakeObfuscator(method, key)
	sesh := MakeSession(1, SessionConfig{Obfuscator: obfs, MsgOnWireSizeLimit: 16401})
	wire := &redWire{}
	for i := 0; i < nConn; i++ {
		a, b := connutil.AsyncPipe()
		go io.Copy(io.Discard, b)
		fa := int64(0)
		if failAfter > 0 && i == 0 {
			fa = failAfter
		}
		sesh.AddConnection(&redRecConn{Conn: a, wire: wire, failAfter: fa})
	}

	type perStream struct {
		st      *Stream
		mu      sync.Mutex
		chunks  [][]byte // every chunk whose Write returned nil error, any order
		rfBytes bytes.Buffer
	}
	streams := make([]*perStream, nStreams)
	var wg sync.WaitGroup
	for i := range streams {
		st, err := sesh.OpenStream()
		if err != nil {
			t.Fatal(err)
		}
		ps := &perStream{st: st}
		streams[i] = ps
		sizes := []int{1, 2, 100, 16131, 16132, 16133, 40000, 70000}
		nWriters := 1 + rng.Intn(3)
		for w := 0; w < nWriters; w++ {
			wg.Add(1)
			wseed := rng.Int63()
			go func(tag byte) {
				defer wg.Done()
				r := rand.New(rand.NewSource(wseed))
				for k := 0; k < 6; k++ {
					chunk := make([]byte, sizes[r.Intn(len(sizes))])
					for j := range chunk {
						chunk[j] = tag
					}
					n, err := st.Write(chunk)
					if err == nil {
						ps.mu.Lock()
						ps.chunks = append(ps.chunks, chunk)
						ps.mu.Unlock()
					} else if n == len(chunk) {
						t.Errorf("error with full n")
					}
					if err != nil {
						return
					}
					if r.Intn(3) == 0 {
						time.Sleep(time.Duration(r.Intn(200)) * time.Microsecond)
					}
				}
			}(byte(1 + w))
		}
		// ReadFrom from a pipe
		pr, pw := connutil.AsyncPipe()
		wg.Add(2)
		rseed := rng.Int63()
		go func() {
			defer wg.Done()
			r := rand.New(rand.NewSource(rseed))
			for k := 0; k < 5; k++ {
				chunk := make([]byte, 1+r.Intn(30000))
				for j := range chunk {
					chunk[j] = 0xF0
				}
				pw.Write(chunk)
				time.Sleep(time.Duration(r.Intn(300)) * time.Microsecond)
			}
			time.Sleep(2 * time.Millisecond)
			pw.Close()
		}()
		go func() {
			defer wg.Done()
			st.ReadFrom(pr)
		}()
		// closer
		wg.Add(1)
		cdelay := time.Duration(rng.Intn(3000)) * time.Microsecond
		go func() {
			defer wg.Done()
			time.Sleep(cdelay)
			st.Close()
		}()
	}
	wg.Wait()
	sesh.Close()

	// analyse the wire
	type key2 struct {
		id  uint32
		seq uint64
	}
	seen := map[key2]bool{}
	last := map[uint32]int64{}
	closedAt := map[uint32]uint64{}
	data := map[uint32]*bytes.Buffer{}
	var f Frame
	for _, m := range wire.msgs {
		if err := obfs.deobfuscate(&f, m); err != nil {
			t.Fatalf("cannot decode own frame: %v", err)
		}
		k := key2{f.StreamID, f.Seq}
		if seen[k] {
			t.Fatalf("C13 violated: (stream %d, seq %d) used twice", f.StreamID, f.Seq)
		}
		seen[k] = true
		if f.Closing == closingSession {
			continue
		}
		if _, ok := closedAt[f.StreamID]; ok {
			t.Fatalf("C13 violated: stream %d: frame seq %d on the wire after the closing frame", f.StreamID, f.Seq)
		}
		prev, ok := last[f.StreamID]
		if !ok {
			prev = -1
		}
		if (failAfter <= 0 && int64(f.Seq) != prev+1) || int64(f.Seq) <= prev {
			t.Fatalf("C13 violated: stream %d: seq %d follows %d", f.StreamID, f.Seq, prev)
		}
		last[f.StreamID] = int64(f.Seq)
		if f.Closing == closingStream {
			closedAt[f.StreamID] = f.Seq
		} else {
			if data[f.StreamID] == nil {
				data[f.StreamID] = &bytes.Buffer{}
			}
			data[f.StreamID].Write(f.Payload)
		}
	}
	// data: every accepted Write must appear as one contiguous run of its tag byte of at least its length; we check
	// total per-tag byte counts >= accepted bytes (equal unless a failing write put a prefix on the wire)
	for _, ps := range streams {
		buf := data[ps.st.id]
		var wire [256]int
		if buf != nil {
			for _, b := range buf.Bytes() {
				wire[b]++
			}
		}
		var acc [256]int
		for _, c := range ps.chunks {
			acc[c[0]] += len(c)
		}
		for tag := 1; tag < 5; tag++ {
			if failAfter <= 0 && wire[tag] != acc[tag] && wire[tag] < acc[tag] {
				t.Fatalf("stream %d tag %d: %d bytes accepted, %d on the wire", ps.st.id, tag, acc[tag], wire[tag])
			}
		}
		// contiguity of each Write: runs of a tag must be sums of whole chunks - check run boundaries only change
		// at chunk sizes is too strict with equal tags back to back; check instead no run is shorter than 1.
	}
}

func TestRedC13Stress(t *testing.T) {
	methods := []byte{EncryptionMethodPlain, EncryptionMethodAES256GCM, EncryptionMethodChaha20Poly1305, EncryptionMethodAES128GCM}
	for seed := int64(1); seed <= 12; seed++ {
		redC13Run(t, seed, methods[seed%4], 1+int(seed%4), 12, 0)
	}
}

func TestRedC13StressWithSendFailure(t *testing.T) {
	for seed := int64(1); seed <= 12; seed++ {
		redC13Run(t, 100+seed, EncryptionMethodAES256GCM, 3, 8, 5+seed*3)
	}
}
