package multiplex

import (
	"bytes"
	"io"
	"math/rand"
	"testing"
	"time"
)

// C03, singleplex session, one connection.
//
// Side A opens its stream, writes B and closes it (closing a singleplex stream closes A's session: closing-stream
// frame, closing-session frame). Side B never closes anything. If B's application calls Accept only after the three
// frames have been processed by B's receive loop - in ck-server the receive loop is started by AddConnection, and
// serveSession calls Accept afterwards - Accept returns ErrBrokenSession because it looks at the closed flag before
// it looks at the accept queue, although the stream, holding all of B, is sitting in that queue. B is lost completely.
func TestRedC03SingleplexAcceptAfterClose(t *testing.T) {
	var sessionKey [32]byte
	rand.Read(sessionKey[:])
	obfuscator, _ := MakeObfuscator(EncryptionMethodChaha20Poly1305, sessionKey)

	a := MakeSession(7, SessionConfig{Obfuscator: obfuscator, Singleplex: true})
	b := MakeSession(7, SessionConfig{Obfuscator: obfuscator}) // ck-server never sets Singleplex

	// a real loopback TCP connection (helper in zz_red_c03_tcpclose_test.go): unlike connutil's pipe, it does not
	// throw queued bytes away when one end is closed. Nothing flows from B to A here, so the close is a clean FIN.
	ca, cb := redTCPPair(t)
	a.AddConnection(ca)
	b.AddConnection(cb)

	B := make([]byte, 5000)
	rand.Read(B)

	sa, err := a.OpenStream()
	if err != nil {
		t.Fatal(err)
	}
	if _, err := sa.Write(B); err != nil {
		t.Fatal(err)
	}
	if err := sa.Close(); err != nil {
		t.Fatalf("close: %v", err)
	}

	// let B's receive loop process what arrived (the application is merely late calling Accept)
	deadline := time.Now().Add(5 * time.Second)
	for !b.IsClosed() && time.Now().Before(deadline) {
		time.Sleep(time.Millisecond)
	}

	if len(b.acceptCh) != 1 {
		t.Skipf("set-up problem: the stream did not reach side B (terminal msg %q)", b.TerminalMsg())
	}
	conn, err := b.Accept()
	if err != nil {
		t.Fatalf("C03 violated: side B, which closed nothing, cannot obtain the stream (Accept: %v) although the stream with all %d bytes of B is queued (len(acceptCh)=%d): B is lost entirely",
			err, len(B), len(b.acceptCh))
	}
	got, rerr := io.ReadAll(conn)
	if !bytes.Equal(got, B) || rerr != ErrBrokenStream {
		t.Fatalf("read %d bytes, err %v", len(got), rerr)
	}
}
