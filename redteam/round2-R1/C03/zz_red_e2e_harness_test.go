package test

// Red-team end-to-end harness: the real glue (client.RouteTCP, client.MakeSession, server.Serve,
// dispatchConnection, serveSession, common.Copy) over REAL loopback TCP sockets on every leg:
//
//   app client --tcp--> ck-client ==tcp (NumConn)==> ck-server --tcp--> app server

import (
	"encoding/binary"
	"net"
	"testing"

	"github.com/cbeuw/Cloak/internal/client"
	"github.com/cbeuw/Cloak/internal/common"
	mux "github.com/cbeuw/Cloak/internal/multiplex"
	"github.com/cbeuw/Cloak/internal/server"
	log "github.com/sirupsen/logrus"
)

type redE2E struct {
	ckClientAddr string       // where the application client connects
	appServerL   net.Listener // where ck-server connects to (the "proxy server", e.g. shadowsocks)
}

func redListen(t *testing.T) net.Listener {
	l, err := net.Listen("tcp", "127.0.0.1:0")
	if err != nil {
		t.Skipf("no loopback tcp: %v", err)
	}
	return l
}

func redSetup(t *testing.T, numConn int, encryption string) *redE2E {
	log.SetLevel(log.ErrorLevel)
	ws := common.RealWorldState

	appServerL := redListen(t)
	ckServerL := redListen(t)
	ckClientL := redListen(t)

	_, ckServerPort, _ := net.SplitHostPort(ckServerL.Addr().String())

	sta, err := server.InitState(server.RawConfig{
		ProxyBook:  map[string][]string{"shadowsocks": {"tcp", appServerL.Addr().String()}},
		BindAddr:   []string{ckServerL.Addr().String()},
		BypassUID:  [][]byte{bypassUID[:]},
		RedirAddr:  "127.0.0.1:9",
		PrivateKey: privateKey,
		KeepAlive:  15,
	}, ws)
	if err != nil {
		t.Fatal(err)
	}
	go server.Serve(ckServerL, sta)

	raw := client.RawConfig{
		ServerName:       "www.example.com",
		ProxyMethod:      "shadowsocks",
		EncryptionMethod: encryption,
		UID:              bypassUID[:],
		PublicKey:        publicKey,
		NumConn:          numConn,
		Transport:        "direct",
		RemoteHost:       "127.0.0.1",
		RemotePort:       ckServerPort,
		LocalHost:        "127.0.0.1",
		LocalPort:        "0",
		BrowserSig:       "firefox",
	}
	lcc, rcc, ai, err := raw.ProcessRawConfig(ws)
	if err != nil {
		t.Fatal(err)
	}
	d := &net.Dialer{}
	seshMaker := func() *mux.Session {
		ai := ai
		quad := make([]byte, 4)
		common.RandRead(ai.WorldState.Rand, quad)
		ai.SessionId = binary.BigEndian.Uint32(quad)
		return client.MakeSession(rcc, ai, d)
	}
	go client.RouteTCP(ckClientL, lcc.Timeout, rcc.Singleplex, seshMaker)

	return &redE2E{ckClientAddr: ckClientL.Addr().String(), appServerL: appServerL}
}
