package test

// C03 demonstrations through the real glue; needs zz_red_e2e_harness_test.go in the same directory.

import (
	"bytes"
	"encoding/binary"
	"io"
	"math/rand"
	"net"
	"os"
	"testing"
	"time"

	"github.com/cbeuw/Cloak/internal/client"
	"github.com/cbeuw/Cloak/internal/common"
	mux "github.com/cbeuw/Cloak/internal/multiplex"
	"github.com/cbeuw/Cloak/internal/server"
	log "github.com/sirupsen/logrus"
)

// ---------------------------------------------------------------------------------------------------------------
// E1. The peer application writes B and closes. The receiving application has not closed anything; it is a slow
// reader and, while still reading, it SENDS a few bytes (think of an HTTP/2 WINDOW_UPDATE, an SSH window adjust, a
// TLS close_notify, a pipelined request ...). The receiving application then gets only a prefix of B.
//
// Mechanism: B and the closing frame are all swallowed by the (unbounded) receive buffer of the stream in ck-client
// long before the application has read them, and the stream is marked closed (passive close). Goroutine G1
// (common.Copy(localConn, stream)) is still pushing B into the application's socket. The few bytes the application
// sends are read by goroutine G2 (common.Copy(stream, localConn) -> Stream.ReadFrom), whose send fails with
// ErrBrokenStream ("once a side has processed the peer's close its writes fail"), and common.Copy's
// defer { src.Close(); dst.Close() } then closes the application's socket under G1's feet. The rest of B, which
// the stream still holds ("bytes that had already arrived locally remain readable"), can no longer be handed over.
func redRunE1(t *testing.T, numConn int, appSendsWhileReading bool) {
	e := redSetup(t, numConn, "aes-256-gcm")

	const bLen = 24 << 20
	B := make([]byte, bLen)
	rand.Read(B)

	// application server: read the request, write B, close
	go func() {
		c, err := e.appServerL.Accept()
		if err != nil {
			return
		}
		req := make([]byte, 3)
		io.ReadFull(c, req)
		c.Write(B)
		c.Close()
	}()

	c, err := net.Dial("tcp", e.ckClientAddr)
	if err != nil {
		t.Fatal(err)
	}
	defer c.Close()
	// a fixed, modest receive buffer (as many applications set): keeps the kernel from swallowing all of B for us
	c.(*net.TCPConn).SetReadBuffer(128 << 10)
	c.Write([]byte("GET"))

	var got bytes.Buffer
	buf := make([]byte, 32<<10)
	// read the first MiB
	for got.Len() < 1<<20 {
		n, err := c.Read(buf)
		got.Write(buf[:n])
		if err != nil {
			t.Fatalf("early error after %d bytes: %v", got.Len(), err)
		}
	}
	// be slow: let the rest of B and the closing frame arrive in ck-client
	time.Sleep(1500 * time.Millisecond)
	if appSendsWhileReading {
		if _, err := c.Write([]byte("window-update")); err != nil {
			t.Fatalf("app write: %v", err)
		}
		time.Sleep(300 * time.Millisecond)
	}
	var rerr error
	for {
		n, err := c.Read(buf)
		got.Write(buf[:n])
		if err != nil {
			rerr = err
			break
		}
	}
	t.Logf("application read %d of %d bytes, then %v", got.Len(), bLen, rerr)
	if !bytes.Equal(got.Bytes(), B) {
		if bytes.HasPrefix(B, got.Bytes()) {
			t.Errorf("LOST TAIL: receiving application, which never closed, got %d of the %d bytes the peer wrote before closing", got.Len(), bLen)
		} else {
			t.Errorf("data differ")
		}
	}
}

func TestRedE1AppWriteAfterPeerCloseLosesTail(t *testing.T) { redRunE1(t, 4, true) }
func TestRedE1Control(t *testing.T)                         { redRunE1(t, 4, false) }

// ---------------------------------------------------------------------------------------------------------------
// E2. Singleplex (NumConn=0) end to end: the application client uploads B and closes, while the application
// server is sending. ck-client closes the stream, hence the session, hence the TCP connection to ck-server, at
// once; the kernel resets the connection because data from the server keeps arriving, and discards the part of B
// that is still in the send queue. The application server never closed, yet receives a prefix of B.
//
// A byte-rate limited relay between ck-client and ck-server plays the slow uplink.
func redSlowRelay(t *testing.T, target string, upRate int) string {
	l := redListen(t)
	go func() {
		for {
			c, err := l.Accept()
			if err != nil {
				return
			}
			go func(c net.Conn) {
				s, err := net.Dial("tcp", target)
				if err != nil {
					c.Close()
					return
				}
				// downstream: unthrottled
				go func() {
					io.Copy(c, s)
					c.Close()
				}()
				// upstream: upRate bytes/s in 10ms slices; everything that was received is forwarded
				buf := make([]byte, upRate/100)
				for {
					n, err := c.Read(buf)
					if n > 0 {
						s.Write(buf[:n])
						time.Sleep(10 * time.Millisecond)
					}
					if err != nil {
						break
					}
				}
				if tc, ok := s.(*net.TCPConn); ok {
					tc.CloseWrite()
				}
			}(c)
		}
	}()
	return l.Addr().String()
}

func redRunE2(t *testing.T, serverSends bool) {
	log.SetLevel(log.ErrorLevel)
	ws := common.RealWorldState
	appServerL := redListen(t)
	ckServerL := redListen(t)
	ckClientL := redListen(t)

	sta, err := server.InitState(server.RawConfig{
		ProxyBook:  map[string][]string{"shadowsocks": {"tcp", appServerL.Addr().String()}},
		BindAddr:   []string{ckServerL.Addr().String()},
		BypassUID:  [][]byte{bypassUID[:]},
		RedirAddr:  "127.0.0.1:9",
		PrivateKey: privateKey,
		KeepAlive:  15,
	}, ws)
	if err != nil {
		t.Fatal(err)
	}
	go server.Serve(ckServerL, sta)

	relayAddr := redSlowRelay(t, ckServerL.Addr().String(), 2<<20) // 2 MiB/s uplink
	_, relayPort, _ := net.SplitHostPort(relayAddr)

	raw := client.RawConfig{
		ServerName: "www.example.com", ProxyMethod: "shadowsocks", EncryptionMethod: "aes-128-gcm",
		UID: bypassUID[:], PublicKey: publicKey, NumConn: 0, Transport: "direct",
		RemoteHost: "127.0.0.1", RemotePort: relayPort, LocalHost: "127.0.0.1", LocalPort: "0", BrowserSig: "firefox",
	}
	lcc, rcc, ai, err := raw.ProcessRawConfig(ws)
	if err != nil {
		t.Fatal(err)
	}
	d := &net.Dialer{}
	seshMaker := func() *mux.Session {
		ai := ai
		quad := make([]byte, 4)
		common.RandRead(ai.WorldState.Rand, quad)
		ai.SessionId = binary.BigEndian.Uint32(quad)
		return client.MakeSession(rcc, ai, d)
	}
	go client.RouteTCP(ckClientL, lcc.Timeout, rcc.Singleplex, seshMaker)

	const bLen = 2 << 20
	B := make([]byte, bLen)
	rand.Read(B)

	type rd struct {
		data []byte
		err  error
	}
	done := make(chan rd, 1)
	go func() {
		c, err := appServerL.Accept()
		if err != nil {
			return
		}
		if serverSends {
			go func() {
				chunk := make([]byte, 1024)
				for {
					if _, err := c.Write(chunk); err != nil {
						return
					}
					time.Sleep(time.Millisecond)
				}
			}()
		}
		data, err := io.ReadAll(c)
		done <- rd{data, err}
	}()

	c, err := net.Dial("tcp", ckClientL.Addr().String())
	if err != nil {
		t.Fatal(err)
	}
	go io.Copy(io.Discard, c)
	if _, err := c.Write(B); err != nil {
		t.Fatal(err)
	}
	// the application is done sending: it has written B and shuts down its sending direction (it keeps reading, so
	// no reset can come from its own socket)
	c.(*net.TCPConn).CloseWrite()

	select {
	case r := <-done:
		t.Logf("application server read %d of %d bytes, then %v", len(r.data), bLen, r.err)
		if !bytes.Equal(r.data, B) {
			if bytes.HasPrefix(B, r.data) {
				t.Errorf("LOST TAIL: application server, which never closed, got %d of the %d bytes uploaded before the close", len(r.data), bLen)
			} else {
				t.Errorf("data differ")
			}
		}
	case <-time.After(60 * time.Second):
		t.Fatal("timeout")
	}
}

func TestRedE2SingleplexUploadThenCloseLosesTail(t *testing.T) { redRunE2(t, true) }
func TestRedE2Control(t *testing.T)                            { redRunE2(t, false) }

// ---------------------------------------------------------------------------------------------------------------
// E3 (exploration): singleplex, short "write a little and close" connections through the real glue. How often does
// the application server miss the message because serveSession's first Accept comes after the session was closed?
func TestRedE3SingleplexShortConnections(t *testing.T) {
	e := redSetup(t, 0, "plain")
	if os.Getenv("RED_LOG") != "" {
		log.SetLevel(log.DebugLevel)
	}
	const N = 300
	const msgLen = 200
	recvd := make(chan int, N*2)
	go func() {
		for {
			c, err := e.appServerL.Accept()
			if err != nil {
				return
			}
			go func(c net.Conn) {
				data, _ := io.ReadAll(c)
				recvd <- len(data)
				c.Close()
			}(c)
		}
	}()

	msg := make([]byte, msgLen)
	for i := 0; i < N; i++ {
		c, err := net.Dial("tcp", e.ckClientAddr)
		if err != nil {
			t.Fatal(err)
		}
		c.Write(msg)
		c.(*net.TCPConn).CloseWrite()
		go func(c net.Conn) {
			io.Copy(io.Discard, c)
			c.Close()
		}(c)
		time.Sleep(2 * time.Millisecond)
	}
	full, short := 0, 0
	timeout := time.After(10 * time.Second)
loop:
	for full+short < N {
		select {
		case n := <-recvd:
			if n == msgLen {
				full++
			} else {
				short++
			}
		case <-timeout:
			break loop
		}
	}
	t.Logf("%d connections: %d delivered in full, %d delivered short, %d never reached the application server", N, full, short, N-full-short)
	if full != N {
		t.Errorf("messages written before close were lost")
	}
}
