package multiplex

import (
	"bytes"
	"crypto/sha256"
	"math/rand"
	"net"
	"sync/atomic"
	"testing"
	"time"

	"github.com/cbeuw/Cloak/internal/common"
)

// redTCPPair returns the two ends of one real (loopback) TCP connection, wrapped like the TLS transport does.
func redTCPPair(t *testing.T) (net.Conn, net.Conn) {
	t.Helper()
	l, err := net.Listen("tcp", "127.0.0.1:0")
	if err != nil {
		t.Skipf("no loopback TCP available: %v", err)
	}
	defer l.Close()
	type res struct {
		c   net.Conn
		err error
	}
	ch := make(chan res, 1)
	go func() {
		c, err := l.Accept()
		ch <- res{c, err}
	}()
	c, err := net.Dial("tcp", l.Addr().String())
	if err != nil {
		t.Fatal(err)
	}
	r := <-ch
	if r.err != nil {
		t.Fatal(r.err)
	}
	return common.NewTLSConn(c), common.NewTLSConn(r.c)
}

// C03 on a singleplex session that runs over a real TCP socket (which is what ck-client/ck-server use).
//
// The client side writes B on its only stream and closes it. In a singleplex session closing the stream closes
// the session (closeStream -> sesh.Close()), and Session.Close() writes the closing frames and then immediately
// close()s the socket (switchboard.closeAll). If the peer is sending at that moment - full duplex use, the
// property says "in both directions at once" - the kernel answers the peer's data with RST and throws away
// whatever part of B (and of the closing frames) is still in the socket's send queue. The server side never
// closes its stream, yet it reads a strict prefix of B followed by ErrBrokenStream: a lost tail.
//
// The server user is rate limited (an ordinary Cloak feature: UpRate of a user), which stands in for any slow
// uplink: it makes sure part of B is still queued in the client's kernel when Close is called.
func redRunC03TCPClose(t *testing.T, bLen int, rxRate int64, peerSends bool) {
	var sessionKey [32]byte
	rand.Read(sessionKey[:])
	obfuscator, _ := MakeObfuscator(EncryptionMethodAES256GCM, sessionKey)

	clientSesh := MakeSession(1, SessionConfig{Obfuscator: obfuscator, Singleplex: true, MsgOnWireSizeLimit: 16401})
	// ck-server never sets Singleplex; the valve is what ActiveUser.GetSession installs for a limited user
	var valve Valve
	if rxRate > 0 {
		valve = MakeValve(rxRate, 1<<30)
	}
	serverSesh := MakeSession(1, SessionConfig{Obfuscator: obfuscator, Valve: valve, MsgOnWireSizeLimit: 16401})

	cc, sc := redTCPPair(t)
	clientSesh.AddConnection(cc)
	serverSesh.AddConnection(sc)

	B := make([]byte, bLen)
	rand.Read(B)

	cs, err := clientSesh.OpenStream()
	if err != nil {
		t.Fatal(err)
	}
	// first bytes, so that the server side gets its stream
	if _, err := cs.Write(B[:1]); err != nil {
		t.Fatal(err)
	}
	ssConn, err := serverSesh.Accept()
	if err != nil {
		t.Fatal(err)
	}
	ss := ssConn.(*Stream)

	// server -> client direction is busy for the whole test; the client application reads it
	var srvWritten int64
	go func() {
		chunk := make([]byte, 4096)
		for peerSends {
			n, err := ss.Write(chunk)
			atomic.AddInt64(&srvWritten, int64(n))
			if err != nil {
				return
			}
			time.Sleep(200 * time.Microsecond)
		}
	}()
	go func() {
		buf := make([]byte, 65536)
		for {
			if _, err := cs.Read(buf); err != nil {
				return
			}
		}
	}()

	// server side application: read until the stream reports an error; it never closes the stream
	type rd struct {
		data []byte
		err  error
	}
	done := make(chan rd, 1)
	go func() {
		var got bytes.Buffer
		buf := make([]byte, 65536)
		for {
			n, err := ss.Read(buf)
			got.Write(buf[:n])
			if err != nil {
				done <- rd{got.Bytes(), err}
				return
			}
		}
	}()

	// client: write B, then close the stream
	if n, err := cs.Write(B[1:]); err != nil || n != len(B)-1 {
		t.Fatalf("client write: n=%v err=%v", n, err)
	}
	if err := cs.Close(); err != nil {
		t.Logf("client close returned %v", err)
	}

	select {
	case r := <-done:
		t.Logf("server side read %d of %d bytes, then %v (terminal msg %q)", len(r.data), len(B), r.err, serverSesh.TerminalMsg())
		if r.err != ErrBrokenStream {
			t.Errorf("expected ErrBrokenStream at the end, got %v", r.err)
		}
		if !bytes.Equal(r.data, B) {
			if bytes.HasPrefix(B, r.data) {
				t.Errorf("C03 violated: LOST TAIL: the reader, which never closed its stream, got only the first %d of the %d bytes written before Close (sha %x vs %x)",
					len(r.data), len(B), sha256.Sum256(r.data), sha256.Sum256(B))
			} else {
				t.Errorf("C03 violated: data differ")
			}
		}
	case <-time.After(120 * time.Second):
		t.Fatal("timeout")
	}
}

func TestRedC03SingleplexTCPCloseLosesTail(t *testing.T) {
	// 1 MiB written, user limited to 256 KiB/s upstream
	redRunC03TCPClose(t, 1<<20, 256<<10, true)
}

// same, no rate limit at all: only the speed of the loopback decides how much of B is still queued at Close
func TestRedC03SingleplexTCPCloseLosesTailUnlimited(t *testing.T) {
	redRunC03TCPClose(t, 8<<20, 0, true)
}

// control: identical set-up, but the peer is silent while B is written and the stream closed. Passes.
func TestRedC03SingleplexTCPCloseControl(t *testing.T) {
	redRunC03TCPClose(t, 1<<20, 256<<10, false)
}
