package test

// C01 demonstrations through the real glue; needs zz_red_e2e_harness_test.go in the same directory.

import (
	"bytes"
	"io"
	"math/rand"
	"net"
	"os"
	"sync/atomic"
	"testing"
	"time"

	"github.com/cbeuw/Cloak/internal/client"
	"github.com/cbeuw/Cloak/internal/common"
	"github.com/cbeuw/Cloak/internal/server"
	log "github.com/sirupsen/logrus"
)

// ---------------------------------------------------------------------------------------------------------------
// E4: C01 through the real binaries' code, statistical companion of the deterministic test
// internal/server/zz_red_c01_terminate_test.go. Singleplex client (NumConn=0, one session per application
// connection). "Noise" connections come and go; "victim" connections are plain echo users that never close until
// they are done. A victim whose session is created on ck-server while the user's previous last session is being
// removed gets its session closed by the server ("no session left") and loses its bytes.
func TestRedE4StaleTerminateEndToEnd(t *testing.T) {
	e := redSetup(t, 0, "aes-128-gcm")
	if os.Getenv("RED_LOG") != "" {
		log.SetLevel(log.InfoLevel)
	}
	go func() {
		for {
			c, err := e.appServerL.Accept()
			if err != nil {
				return
			}
			go func(c net.Conn) { io.Copy(c, c); c.Close() }(c)
		}
	}()
	echo := func(c net.Conn, n int) error {
		msg := make([]byte, n)
		rand.Read(msg)
		if _, err := c.Write(msg); err != nil {
			return err
		}
		got := make([]byte, n)
		c.SetReadDeadline(time.Now().Add(5 * time.Second))
		if _, err := io.ReadFull(c, got); err != nil {
			return err
		}
		if !bytes.Equal(got, msg) {
			return io.ErrUnexpectedEOF
		}
		return nil
	}

	const N = 1200
	failed := 0
	var firstErr error
	for i := 0; i < N; i++ {
		noise, err := net.Dial("tcp", e.ckClientAddr)
		if err != nil {
			t.Fatal(err)
		}
		if err := echo(noise, 64); err != nil {
			t.Fatalf("noise connection %d: %v", i, err)
		}
		verr := make(chan error, 1)
		go func() {
			// the victim: connect, echo three times, only then close
			time.Sleep(time.Duration(rand.Intn(1500)) * time.Microsecond)
			v, err := net.Dial("tcp", e.ckClientAddr)
			if err != nil {
				verr <- err
				return
			}
			defer v.Close()
			for k := 0; k < 3; k++ {
				if err := echo(v, 1000); err != nil {
					verr <- err
					return
				}
				time.Sleep(time.Millisecond)
			}
			verr <- nil
		}()
		time.Sleep(time.Duration(rand.Intn(1500)) * time.Microsecond)
		noise.Close()
		if err := <-verr; err != nil {
			failed++
			if firstErr == nil {
				firstErr = err
			}
		}
		time.Sleep(3 * time.Millisecond) // let the victim's session go away too
	}
	t.Logf("%d of %d victim connections (healthy, never closed by either application) lost their bytes; first error: %v", failed, N, firstErr)
	if failed > 0 {
		t.Errorf("C01 violated end to end")
	}
}

// ---------------------------------------------------------------------------------------------------------------
// E5: C01, error path of the handshake. dispatchConnection runs serveSession (the Accept loop) only on the
// connection that CREATED the session (existing == false), after finishHandshake. If exactly that connection dies
// while the reply is being written (an injected RST is the everyday case for a censorship circumvention tool), the
// function returns, the session stays registered, the client re-dials that connection 3 s later and it joins
// as "existing" like all the others: the session ends up with NumConn healthy connections and NO Accept loop.
// Every stream opened on it is swallowed: bytes written never reach the receiving application, no error either.
type redFailFirstListener struct {
	net.Listener
	n int32
}

type redWriteFailConn struct{ net.Conn }

func (c redWriteFailConn) Write(b []byte) (int, error) {
	// what a connection that has received a RST does
	c.Conn.Close()
	return 0, &net.OpError{Op: "write", Net: "tcp", Err: io.ErrClosedPipe}
}

func (l *redFailFirstListener) Accept() (net.Conn, error) {
	c, err := l.Listener.Accept()
	if err != nil {
		return c, err
	}
	l.n++
	if l.n == 1 {
		return redWriteFailConn{c}, nil
	}
	return c, nil
}

type redStaggerDialer struct {
	d *net.Dialer
	n int32
}

func (s *redStaggerDialer) Dial(network, address string) (net.Conn, error) {
	// first dial goes at once, the others a little later, so that the first one is the one that creates the session
	if atomic.AddInt32(&s.n, 1) > 1 {
		time.Sleep(300 * time.Millisecond)
	}
	return s.d.Dial(network, address)
}

func TestRedE5CreatorConnectionFailsSessionNeverServed(t *testing.T) { redRunE5(t, true) }

// control: same harness, no injected failure. Passes.
func TestRedE5Control(t *testing.T) { redRunE5(t, false) }

func redRunE5(t *testing.T, inject bool) {
	log.SetLevel(log.FatalLevel)
	ws := common.RealWorldState
	appServerL := redListen(t)
	ckServerL := &redFailFirstListener{Listener: redListen(t)}
	if !inject {
		ckServerL.n = 1
	}

	sta, err := server.InitState(server.RawConfig{
		ProxyBook:  map[string][]string{"shadowsocks": {"tcp", appServerL.Addr().String()}},
		BindAddr:   []string{ckServerL.Addr().String()},
		BypassUID:  [][]byte{bypassUID[:]},
		RedirAddr:  "127.0.0.1:9",
		PrivateKey: privateKey,
		KeepAlive:  15,
	}, ws)
	if err != nil {
		t.Fatal(err)
	}
	go server.Serve(ckServerL, sta)
	_, port, _ := net.SplitHostPort(ckServerL.Addr().String())

	raw := client.RawConfig{
		ServerName: "www.example.com", ProxyMethod: "shadowsocks", EncryptionMethod: "chacha20-poly1305",
		UID: bypassUID[:], PublicKey: publicKey, NumConn: 3, Transport: "direct",
		RemoteHost: "127.0.0.1", RemotePort: port, LocalHost: "127.0.0.1", LocalPort: "0", BrowserSig: "firefox",
	}
	_, rcc, ai, err := raw.ProcessRawConfig(ws)
	if err != nil {
		t.Fatal(err)
	}
	ai.SessionId = 4242
	sesh := client.MakeSession(rcc, ai, &redStaggerDialer{d: &net.Dialer{}}) // takes ~3 s: one connection is re-dialled
	defer sesh.Close()

	got := make(chan []byte, 1)
	go func() {
		c, err := appServerL.Accept()
		if err != nil {
			return
		}
		buf := make([]byte, 5)
		io.ReadFull(c, buf)
		got <- buf
	}()

	stream, err := sesh.OpenStream()
	if err != nil {
		t.Fatal(err)
	}
	if _, err := stream.Write([]byte("hello")); err != nil {
		t.Fatalf("write: %v", err)
	}
	select {
	case b := <-got:
		if string(b) != "hello" {
			t.Errorf("got %q", b)
		}
	case <-time.After(8 * time.Second):
		_, werr := stream.Write([]byte("again"))
		t.Errorf("C01 violated: all %d connections of the session are healthy (client session closed=%v, a further write returns %v), yet the bytes written 8 s ago never reached the receiving application",
			rcc.NumConn, sesh.IsClosed(), werr)
	}
}
