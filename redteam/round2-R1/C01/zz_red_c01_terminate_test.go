//go:build verif

package server

import (
	"bytes"
	"crypto/rand"
	"io"
	"os"
	"testing"
	"time"

	"github.com/cbeuw/Cloak/internal/common"
	mux "github.com/cbeuw/Cloak/internal/multiplex"
	"github.com/cbeuw/Cloak/internal/server/usermanager"
	"github.com/cbeuw/connutil"
)

// C01: "... while every underlying connection stays healthy and neither side closes it, a session with open
// streams keeps working", and nothing written on a stream is lost.
//
// ActiveUser.CloseSession decides "this was the user's last session" under sessionsM, RELEASES the lock, and then
// calls TerminateActiveUser, which closes ALL sessions of the record. A connection of the same user that is
// dispatched in between (GetUser/GetBypassUser still returns the record, it is not retired yet; GetSession creates
// a new session in it) gets its brand-new session - with healthy connections and an open stream carrying data -
// closed with the reason "no session left".
//
// The interleaving is pinned with the project's own schedule point (common.VerifPoint, build tag verif) that sits
// exactly between the two steps. What runs inside the hook is what dispatchConnection does for a new connection.
func TestRedC01StaleTerminateKillsNewSession(t *testing.T) {
	tmpDB, _ := os.CreateTemp("", "ck_user_info")
	defer os.Remove(tmpDB.Name())
	manager, err := usermanager.MakeLocalManager(tmpDB.Name(), common.RealWorldState)
	if err != nil {
		t.Fatal(err)
	}
	panel := MakeUserPanel(manager)
	UID := []byte{1, 2, 3, 4, 5, 6, 7, 8, 9, 10, 11, 12, 13, 14, 15, 16}

	// the user's old session (say, a singleplex session whose only stream has just finished)
	user, _ := panel.GetBypassUser(UID)
	if _, _, err := user.GetSession(1, getSeshConfig(false)); err != nil {
		t.Fatal(err)
	}

	// the new session: same key on both ends
	var sessionKey [32]byte
	rand.Read(sessionKey[:])
	obfuscator, _ := mux.MakeObfuscator(mux.EncryptionMethodAES256GCM, sessionKey)
	cfg := mux.SessionConfig{Obfuscator: obfuscator}

	msg := []byte("bytes written on a stream of a healthy session")
	var newServerSesh, newClientSesh *mux.Session
	var clientStream *mux.Stream
	fired := false
	common.SetVerifHook(func(label string) {
		if label != "ActiveUser.CloseSession:beforeTerminate" || fired {
			return
		}
		fired = true
		// --- a new connection of the same user is dispatched now (dispatchConnection, bypass user) ---
		u, err := panel.GetBypassUser(UID)
		if err != nil {
			t.Error(err)
			return
		}
		sesh, existing, err := u.GetSession(2, cfg)
		if err != nil || existing {
			t.Errorf("GetSession: existing=%v err=%v", existing, err)
			return
		}
		newServerSesh = sesh
		c, s := connutil.AsyncPipe()
		newServerSesh.AddConnection(common.NewTLSConn(s))
		// --- and its client starts using it ---
		newClientSesh = mux.MakeSession(2, cfg)
		newClientSesh.AddConnection(common.NewTLSConn(c))
		clientStream, err = newClientSesh.OpenStream()
		if err != nil {
			t.Error(err)
			return
		}
		if _, err := clientStream.Write(msg); err != nil {
			t.Error(err)
		}
	})
	defer common.SetVerifHook(nil)

	// serveSession does this when the old session has ended
	user.CloseSession(1, "")

	if !fired || newServerSesh == nil {
		t.Fatal("schedule point not reached")
	}

	// Nobody closed the new session or its connection. It has an open stream with data on it.
	if newServerSesh.IsClosed() {
		t.Errorf("C01 violated: the new session was closed by the server itself although its connection is healthy and neither side closed it; reason given: %q", newServerSesh.TerminalMsg())
	}
	type res struct {
		data []byte
		err  error
	}
	done := make(chan res, 1)
	go func() {
		conn, err := newServerSesh.Accept()
		if err != nil {
			done <- res{nil, err}
			return
		}
		buf := make([]byte, len(msg))
		_, err = io.ReadFull(conn, buf)
		done <- res{buf, err}
	}()
	select {
	case r := <-done:
		if r.err != nil || !bytes.Equal(r.data, msg) {
			t.Errorf("C01 violated: the bytes written on the stream never reach the receiving application: %v", r.err)
		}
	case <-time.After(3 * time.Second):
		t.Errorf("C01 violated: the bytes written on the stream never reach the receiving application (timeout)")
	}
	// and the sending side finds its stream broken
	time.Sleep(100 * time.Millisecond)
	if _, err := clientStream.Write(msg); err != nil {
		t.Errorf("client side: stream of the new session is dead: %v (client session terminal msg %q)", err, newClientSesh.TerminalMsg())
	}
}
