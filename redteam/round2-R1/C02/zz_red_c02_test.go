package multiplex

import (
	"bytes"
	"fmt"
	"math/rand"
	"testing"
)

// helpers -------------------------------------------------------------------------------------------------------

func redPermute(a []int, f func([]int)) {
	var rec func(int)
	rec = func(k int) {
		if k == len(a) {
			f(a)
			return
		}
		for i := k; i < len(a); i++ {
			a[k], a[i] = a[i], a[k]
			rec(k + 1)
			a[k], a[i] = a[i], a[k]
		}
	}
	rec(0)
}

// one run: frames base..base+n-1 (last one optionally a closing frame) delivered in order `perm` through
// Stream.recvFrame; reader drains at the positions in drainAt. Returns what the reader got in total and whether the
// stream was closed too early.
func redC02Run(t *testing.T, base uint64, n int, perm []int, closing bool, drainMask uint32, sizes []int) error {
	sesh := MakeSession(1, SessionConfig{})
	st := makeStream(sesh, 1)
	sesh.streams[1] = st
	sesh.streamCountIncr()
	st.recvBuf.(*streamBuffer).nextRecvSeq = base

	var want bytes.Buffer
	payloads := make([][]byte, n)
	for i := 0; i < n; i++ {
		p := make([]byte, sizes[i%len(sizes)])
		for j := range p {
			p[j] = byte(i*31 + j)
		}
		payloads[i] = p
		if !(closing && i == n-1) {
			want.Write(p)
		}
	}
	var got bytes.Buffer
	pipe := st.recvBuf.(*streamBuffer).buf
	drain := func() {
		buf := make([]byte, 7+rand.Intn(5000))
		for {
			pipe.rwCond.L.Lock()
			l := pipe.buf.Len()
			pipe.rwCond.L.Unlock()
			if l == 0 {
				break
			}
			k, err := st.Read(buf)
			got.Write(buf[:k])
			if err != nil {
				break
			}
		}
	}
	delivered := make([]bool, n)
	for step, idx := range perm {
		f := &Frame{StreamID: 1, Seq: base + uint64(idx), Payload: payloads[idx]}
		if closing && idx == n-1 {
			f.Closing = closingStream
		}
		if err := st.recvFrame(f); err != nil {
			return fmt.Errorf("recvFrame(seq %d): %v", idx, err)
		}
		delivered[idx] = true
		allLower := true
		for i := 0; i < n-1; i++ {
			allLower = allLower && delivered[i]
		}
		if closing && st.isClosed() && !(allLower && delivered[n-1]) {
			return fmt.Errorf("closed before all lower frames handed over (after step %d)", step)
		}
		if drainMask&(1<<uint(step%32)) != 0 {
			drain()
		}
	}
	if closing && !st.isClosed() {
		return fmt.Errorf("closing frame did not take effect")
	}
	drain()
	if !bytes.Equal(got.Bytes(), want.Bytes()) {
		return fmt.Errorf("payload mismatch: got %d bytes want %d", got.Len(), want.Len())
	}
	if closing {
		if _, err := st.Read(make([]byte, 1)); err != ErrBrokenStream {
			return fmt.Errorf("after everything: %v", err)
		}
	}
	return nil
}

func TestRedC02Exhaustive(t *testing.T) {
	sizes := []int{1, 3, 1000, 16132}
	count := 0
	for n := 1; n <= 6; n++ {
		idx := make([]int, n)
		for i := range idx {
			idx[i] = i
		}
		for _, closing := range []bool{false, true} {
			for _, base := range []uint64{0, 1<<32 - 3} {
				redPermute(idx, func(p []int) {
					for _, mask := range []uint32{0, 0xffffffff, 0x55555555, rand.Uint32()} {
						count++
						if err := redC02Run(t, base, n, p, closing, mask, sizes); err != nil {
							t.Fatalf("n=%d base=%d perm=%v closing=%v mask=%x: %v", n, base, p, closing, mask, err)
						}
					}
				})
			}
		}
	}
	t.Logf("%d runs ok", count)
}

func TestRedC02Sampled(t *testing.T) {
	sizes := []int{1, 2, 255, 4096, 16132, 17}
	for it := 0; it < 300; it++ {
		n := 2 + rand.Intn(400)
		p := rand.Perm(n)
		base := []uint64{0, 1<<32 - uint64(rand.Intn(n+1)), 1<<63 - 5}[rand.Intn(3)]
		if err := redC02Run(t, base, n, p, rand.Intn(2) == 0, rand.Uint32(), sizes); err != nil {
			t.Fatalf("n=%d base=%d: %v", n, base, err)
		}
	}
}

// Outside the statement (frames are numbered from 0, and 2^64 frames cannot be sent), recorded for completeness:
// numbering that wraps around 2^64 is not handled.
func TestRedC02WrapAround64(t *testing.T) {
	err := redC02Run(t, ^uint64(0)-1, 4, []int{0, 1, 2, 3}, true, 0, []int{5})
	t.Logf("in-order delivery across the 2^64 wrap: %v", err)
	err = redC02Run(t, ^uint64(0)-1, 4, []int{2, 0, 1, 3}, true, 0, []int{5})
	t.Logf("out-of-order delivery across the 2^64 wrap: %v", err)
}
