package server

import (
	"bufio"
	"net"
	"net/http"
	"strings"
	"testing"
	"time"
)

// after a failed upgrade the connection stays with a stock net/http server: further requests are answered by it, and
// a later correct upgrade completes the Cloak handshake. Also: a byte sent right behind the request makes the upgrade fail.
func TestRedWSUpgradeFailureKeepAlive(t *testing.T) {
	sta, _, _ := redServerState(t)
	l := redCloakListener(t, sta)
	hidden := redValidHidden(t, sta, redBypassUID[:], 31337)
	c, _ := net.Dial("tcp", l.Addr().String())
	defer c.Close()
	c.SetDeadline(time.Now().Add(5 * time.Second))
	br := bufio.NewReader(c)
	c.Write([]byte("GET / HTTP/1.1\r\nHost: example.com\r\nHidden: " + hidden + "\r\n\r\n"))
	resp, err := http.ReadResponse(br, nil)
	if err != nil {
		t.Fatal(err)
	}
	t.Logf("1st request: %v", resp.Status)
	resp.Body.Close()
	c.Write([]byte("GET /anything HTTP/1.1\r\nHost: example.com\r\n\r\n"))
	resp, err = http.ReadResponse(br, nil)
	if err != nil {
		t.Fatal(err)
	}
	t.Logf("2nd request (no credentials at all): %v", resp.Status)
	resp.Body.Close()
	c.Write([]byte("GET / HTTP/1.1\r\nHost: example.com\r\nConnection: Upgrade\r\nUpgrade: websocket\r\nSec-WebSocket-Version: 13\r\nSec-WebSocket-Key: WHL83D5rMlKTuZNSGWvBaw==\r\n\r\n"))
	resp, err = http.ReadResponse(br, nil)
	if err != nil {
		t.Fatal(err)
	}
	t.Logf("3rd request (upgrade, no credentials): %v", resp.Status)
	hdr := make([]byte, 2)
	br.Read(hdr)
	t.Logf("followed by a websocket frame: opcode %#x len %d (the 60-byte session-key reply)", hdr[0], hdr[1])

	// a byte behind an otherwise perfect request
	c2, _ := net.Dial("tcp", l.Addr().String())
	defer c2.Close()
	c2.SetDeadline(time.Now().Add(2 * time.Second))
	hidden2 := redValidHidden(t, sta, redBypassUID[:], 31338)
	c2.Write([]byte("GET / HTTP/1.1\r\nHost: example.com\r\nConnection: Upgrade\r\nUpgrade: websocket\r\nSec-WebSocket-Version: 13\r\nSec-WebSocket-Key: WHL83D5rMlKTuZNSGWvBaw==\r\nHidden: " + hidden2 + "\r\n\r\nX"))
	b := make([]byte, 256)
	n, err := c2.Read(b)
	t.Logf("request+1 byte: peer read %q err %v", strings.TrimSpace(string(b[:n])), err)
	time.Sleep(100 * time.Millisecond)
	t.Logf("responder goroutines stuck: %d", redStuckResponders())
}
