package server

import (
	"bytes"
	"crypto/rand"
	"encoding/base64"
	"io"
	mrand "math/rand"
	"net"
	"strings"
	"testing"
	"time"

	"github.com/cbeuw/Cloak/internal/common"
)

// relay exactness for HTTP-looking first packets. The target replies R1 as soon as it has len(stream) bytes, then the
// peer sends a second chunk, the target replies R2 and closes.
func TestRedC09HTTPRelay(t *testing.T) {
	sta, _, _ := redServerState(t)
	type exch struct {
		want int
		got  chan []byte
	}
	exCh := make(chan *exch, 1)
	r1 := []byte("HTTP/1.1 200 OK\r\nContent-Length: 2\r\n\r\nok")
	r2 := []byte("second reply \x00\x01\x02")
	sta.RedirDialer, _ = redTarget(t, func(c *net.TCPConn) {
		ex := <-exCh
		b := make([]byte, ex.want)
		c.SetReadDeadline(time.Now().Add(20 * time.Second))
		n, _ := io.ReadFull(c, b)
		c.Write(r1)
		b2 := make([]byte, 6)
		n2, _ := io.ReadFull(c, b2)
		c.Write(r2)
		ex.got <- append(b[:n], b2[:n2]...)
		c.Close()
	})
	l := redCloakListener(t, sta)
	defer l.Close()

	rnd := make([]byte, 96)
	rand.Read(rnd)
	b64r := base64.StdEncoding.EncodeToString(rnd)
	raw := redClientCfg("cdn")
	_, _, auth, _ := raw.ProcessRawConfig(common.RealWorldState)
	auth.SessionId = 5
	authBadUID := auth
	authBadUID.UID = bytes.Repeat([]byte{9}, 16)
	authBadPM := auth
	authBadPM.ProxyMethod = "nosuch"
	authOld := auth
	authOld.WorldState = common.WorldOfTime(time.Now().Add(-time.Hour))
	wsreq := func(hidden string) string {
		return "GET / HTTP/1.1\r\nHost: 127.0.0.1:443\r\nUser-Agent: Go-http-client/1.1\r\nConnection: Upgrade\r\nHidden: " + hidden + "\r\nSec-WebSocket-Key: WHL83D5rMlKTuZNSGWvBaw==\r\nSec-WebSocket-Version: 13\r\nUpgrade: websocket\r\n\r\n"
	}
	pad := func(total int) string {
		// a request of exactly `total` bytes ending in a blank line
		head := "GET / HTTP/1.1\r\nHost: a\r\nX-Pad: "
		tail := "\r\n\r\n"
		return head + strings.Repeat("p", total-len(head)-len(tail)) + tail
	}
	streams := map[string]string{
		"plain":            "GET / HTTP/1.1\r\nHost: example.com\r\n\r\n",
		"http10":           "GET /x HTTP/1.0\r\n\r\n",
		"bogus hidden":     wsreq(b64r),
		"short hidden":     wsreq(b64r[:64]),
		"bad b64 hidden":   wsreq("!!!!" + b64r),
		"zero hidden":      wsreq(base64.StdEncoding.EncodeToString(make([]byte, 96))),
		"long hidden":      wsreq(b64r + b64r),
		"two hidden":       "GET / HTTP/1.1\r\nHost: a\r\nHidden: " + b64r + "\r\nHidden: " + b64r + "\r\n\r\n",
		"unauthorised uid": wsreq(redMakeHidden(authBadUID)),
		"unknown proxy":    wsreq(redMakeHidden(authBadPM)),
		"stale timestamp":  wsreq(redMakeHidden(authOld)),
		"long line":        "GET /" + strings.Repeat("a", 5000) + " HTTP/1.1\r\nHost: a\r\n\r\n",
		"many lines":       "GET / HTTP/1.1\r\n" + strings.Repeat("X-A: b\r\n", 500) + "\r\n",
		"exactly 3000":     pad(3000),
		"2999":             pad(2999),
		"3001":             pad(3001),
		"G binary":         "G\x00\x01\x02\r\n\r\n",
		"not http":         "GARBAGE\r\n\r\n",
		"GET no host":      "GET / HTTP/1.1\r\n\r\n",
		"blank after G":    "G\r\n\r\n",
		"only P":           "POST / HTTP/1.1\r\nHost: a\r\nContent-Length: 3\r\n\r\nabc",
	}
	// a replayed valid hello: played once against AuthFirstPacket so that it is in the replay cache
	replayed := wsreq(redMakeHidden(auth))
	if _, _, err := AuthFirstPacket([]byte(replayed), WebSocket{}, sta); err != nil {
		t.Fatal(err)
	}
	streams["replayed"] = replayed

	r := mrand.New(mrand.NewSource(3))
	for name, s := range streams {
		for rep := 0; rep < 3; rep++ {
			ex := &exch{want: len(s), got: make(chan []byte, 1)}
			exCh <- ex
			c, err := net.Dial("tcp", l.Addr().String())
			if err != nil {
				t.Fatal(err)
			}
			c.(*net.TCPConn).SetNoDelay(true)
			// segmentation: rep 0 whole, rep 1 byte-ish, rep 2 random cuts
			data := []byte(s)
			for off := 0; off < len(data); {
				k := len(data)
				if rep == 1 {
					k = 1 + r.Intn(3)
				} else if rep == 2 {
					k = 1 + r.Intn(400)
				}
				if off+k > len(data) {
					k = len(data) - off
				}
				c.Write(data[off : off+k])
				off += k
				if rep != 0 && r.Intn(8) == 0 {
					time.Sleep(time.Millisecond)
				}
			}
			back := make([]byte, len(r1))
			c.SetReadDeadline(time.Now().Add(10 * time.Second))
			if _, err := io.ReadFull(c, back); err != nil || !bytes.Equal(back, r1) {
				t.Errorf("%s/%d: peer got %q err %v", name, rep, back, err)
				c.Close()
				continue
			}
			c.Write([]byte("second"))
			rest, _ := io.ReadAll(c)
			if !bytes.Equal(rest, r2) {
				t.Errorf("%s/%d: second reply: peer got %q", name, rep, rest)
			}
			got := <-ex.got
			if !bytes.Equal(got, append([]byte(s), "second"...)) {
				t.Errorf("%s/%d: target got %d bytes, want %d; first diff...", name, rep, len(got), len(s)+6)
			}
			c.Close()
		}
	}
}
