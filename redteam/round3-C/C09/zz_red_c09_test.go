package server

import (
	"bytes"
	"encoding/base64"
	"fmt"
	"io"
	"net"
	"runtime"
	"strings"
	"testing"
	"time"

)

// C09: the peer half-closes after a complete request; the target answers after it has seen the end of the request
// stream (HTTP/1.0 style, or `printf ... | nc -N`). A transparent TCP relay delivers the answer.
func TestRedC09HalfClose(t *testing.T) {
	sta, _, _ := redServerState(t)
	reply := []byte("HTTP/1.0 200 OK\r\nContent-Length: 5\r\n\r\nhello")
	gotCh := make(chan []byte, 1)
	var tl net.Listener
	sta.RedirDialer, tl = redTarget(t, func(c *net.TCPConn) {
		all, _ := io.ReadAll(c) // read the request until the peer's FIN
		gotCh <- all
		c.Write(reply)
		c.Close()
	})
	l := redCloakListener(t, sta)
	for i, req := range []string{
		"control: straight to the target",
		"GET / HTTP/1.0\r\nHost: example.com\r\n\r\n",
		"\x01\x02\x03 unrecognisable",
	} {
		addr := l.Addr().String()
		if i == 0 {
			addr = tl.Addr().String() // what a plain TCP relay would have to reproduce
		}
		c, err := net.Dial("tcp", addr)
		if err != nil {
			t.Fatal(err)
		}
		c.Write([]byte(req))
		c.(*net.TCPConn).CloseWrite()
		c.SetReadDeadline(time.Now().Add(5 * time.Second))
		back, err := io.ReadAll(c)
		select {
		case got := <-gotCh:
			if !bytes.Equal(got, []byte(req)) {
				t.Errorf("target got %q want %q", got, req)
			}
		case <-time.After(5 * time.Second):
			t.Errorf("target never saw the end of the request")
		}
		if !bytes.Equal(back, reply) {
			t.Errorf("request %q: peer received %q (err %v), the target replied %q", req, back, err, reply)
		}
		c.Close()
	}
}

// C09 (arguable) / robustness: a first packet that carries valid credentials but is not a WebSocket upgrade.
func TestRedWSUpgradeFailure(t *testing.T) {
	sta, _, _ := redServerState(t)
	targetGot := make(chan []byte, 4)
	sta.RedirDialer, _ = redTarget(t, func(c *net.TCPConn) {
		b := make([]byte, 4096)
		n, _ := c.Read(b)
		targetGot <- b[:n]
		c.Write([]byte("TARGET"))
		c.Close()
	})
	l := redCloakListener(t, sta)
	defer l.Close()

	before := runtime.NumGoroutine()
	hidden := redValidHidden(t, sta, redBypassUID[:], 4242)
	// a plain GET (what a curl user, or a CDN health checker that copies headers, would send)
	req := "GET / HTTP/1.1\r\nHost: example.com\r\nHidden: " + hidden + "\r\n\r\n"
	c, _ := net.Dial("tcp", l.Addr().String())
	c.Write([]byte(req))
	c.SetReadDeadline(time.Now().Add(2 * time.Second))
	back, _ := io.ReadAll(c)
	c.Close()
	t.Logf("peer received: %q", back)
	select {
	case g := <-targetGot:
		t.Logf("target got %q", g)
	default:
		t.Logf("target got nothing")
	}
	if len(back) > 0 && !bytes.Equal(back, []byte("TARGET")) {
		t.Errorf("server emitted bytes of its own: %q", back)
	}
	time.Sleep(300 * time.Millisecond)
	// the dispatch goroutine is stuck, and the session it made is registered but never served
	user, err := sta.Panel.GetBypassUser(redBypassUID[:])
	if err != nil {
		t.Fatal(err)
	}
	buf := make([]byte, 1<<20)
	stacks := string(buf[:runtime.Stack(buf, true)])
	stuck := strings.Count(stacks, "makeResponder.func1")
	t.Logf("goroutines before %d after %d; stuck in WebSocket responder: %d; sessions registered for the user: %d", before, runtime.NumGoroutine(), stuck, user.NumSession())
	if stuck > 0 {
		t.Errorf("dispatchConnection goroutine is blocked forever on <-handler.finished (%d)", stuck)
	}
}

var _ = fmt.Sprint
var _ = base64.StdEncoding
