//go:build goexperiment.synctest

package server

import (
	"io"
	"net"
	"runtime"
	"strings"
	"testing"
	"testing/synctest"
	"time"
)

type redFailWriteConn struct {
	net.Conn
	failWrites bool
}

func (c *redFailWriteConn) Write(b []byte) (int, error) {
	if c.failWrites {
		return 0, io.ErrClosedPipe
	}
	return c.Conn.Write(b)
}

func redStuck() int {
	buf := make([]byte, 1<<20)
	return strings.Count(string(buf[:runtime.Stack(buf, true)]), "makeResponder.func1")
}

// What happens when the WebSocket upgrade fails, on a virtual clock.
// variant "fault": a perfectly good client request, but the 101 reply cannot be written (peer reset)
// variant "no-upgrade": valid credentials in a GET that is not a WebSocket upgrade
func TestRedWSUpgradeFailureConsequences(t *testing.T) {
	for _, variant := range []string{"fault", "no-upgrade"} {
		sta, _, _ := redServerState(t) // outside the bubble: its housekeeping goroutines loop forever
		func() {
		defer func() {
			if r := recover(); r != nil {
				t.Logf("%s: synctest.Run at the end: %v", variant, r)
			}
		}()
		synctest.Run(func() {
			hidden := redValidHidden(t, sta, redBypassUID[:], 4242)
			var req string
			if variant == "fault" {
				req = "GET / HTTP/1.1\r\nHost: 127.0.0.1:443\r\nUser-Agent: Go-http-client/1.1\r\nConnection: Upgrade\r\nHidden: " + hidden + "\r\nSec-WebSocket-Key: WHL83D5rMlKTuZNSGWvBaw==\r\nSec-WebSocket-Version: 13\r\nUpgrade: websocket\r\n\r\n"
			} else {
				req = "GET / HTTP/1.1\r\nHost: example.com\r\nHidden: " + hidden + "\r\n\r\n"
			}
			peer, srv := net.Pipe()
			done := make(chan struct{})
			go func() {
				dispatchConnection(&redFailWriteConn{Conn: srv, failWrites: variant == "fault"}, sta)
				close(done)
			}()
			go func() {
				peer.Write([]byte(req))
				b, _ := io.ReadAll(peer)
				if len(b) > 0 {
					t.Logf("%s: peer received %q", variant, b)
				}
			}()
			time.Sleep(time.Second)
			synctest.Wait()
			user, err := sta.Panel.GetBypassUser(redBypassUID[:])
			if err != nil {
				t.Fatal(err)
			}
			user.sessionsM.RLock()
			sesh := user.sessions[4242]
			user.sessionsM.RUnlock()
			if sesh == nil {
				t.Fatalf("%s: no session registered", variant)
			}
			t.Logf("%s after 1s: dispatch returned=%v, responder goroutines stuck=%d, sessions on user record=%d, session closed=%v", variant, redIsClosed(done), redStuck(), user.NumSession(), sesh.IsClosed())
			time.Sleep(10 * time.Minute)
			synctest.Wait()
			t.Logf("%s after 10min: dispatch returned=%v, responder goroutines stuck=%d, sessions on user record=%d, session closed=%v", variant, redIsClosed(done), redStuck(), user.NumSession(), sesh.IsClosed())
			if !redIsClosed(done) {
				t.Errorf("%s: dispatchConnection never returns: it waits on <-handler.finished, which nothing will ever send", variant)
			}
			if user.NumSession() != 0 {
				t.Errorf("%s: a session that closed itself %v ago is still on the user's record (counts against SessionsCap, user never retired)", variant, 10*time.Minute-30*time.Second)
			}
			peer.Close()
			srv.Close()
		})
		}()
	}
}

func redIsClosed(ch chan struct{}) bool {
	select {
	case <-ch:
		return true
	default:
		return false
	}
}
