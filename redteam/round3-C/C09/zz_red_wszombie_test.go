package server

import (
	"io"
	"net"
	"net/http"
	"net/url"
	"testing"
	"time"

	"github.com/cbeuw/Cloak/internal/common"
	mux "github.com/cbeuw/Cloak/internal/multiplex"
	"github.com/gorilla/websocket"
)

type redFailWriteConn2 struct {
	net.Conn
}

func (c *redFailWriteConn2) Write(b []byte) (int, error) { return 0, io.ErrClosedPipe }

// a Cloak CDN-mode client connection, as the origin sees it (plaintext WebSocket), against dispatchConnection
func redWSClientConn(t *testing.T, sta *State, sessionId uint32, failServerWrites bool) (net.Conn, [32]byte, error) {
	raw := redClientCfg("cdn")
	_, _, auth, _ := raw.ProcessRawConfig(common.RealWorldState)
	auth.SessionId = sessionId
	hidden, secret := redMakeHiddenSecret(auth)
	peer, srv := net.Pipe()
	var sconn net.Conn = srv
	if failServerWrites {
		sconn = &redFailWriteConn2{srv}
	}
	go dispatchConnection(sconn, sta)
	var sk [32]byte
	u, _ := url.Parse("ws://127.0.0.1:443/")
	peer.SetDeadline(time.Now().Add(2 * time.Second))
	c, _, err := websocket.NewClient(peer, u, http.Header{"hidden": {hidden}}, 16480, 16480)
	if err != nil {
		return nil, sk, err
	}
	ws := &common.WebSocketConn{Conn: c}
	buf := make([]byte, 128)
	n, err := ws.Read(buf)
	if err != nil || n != 60 {
		return nil, sk, err
	}
	k, err := common.AESGCMDecrypt(buf[:12], secret, buf[12:60])
	copy(sk[:], k)
	peer.SetDeadline(time.Time{})
	return ws, sk, err
}

// The connection that makes a new session meets a failing upgrade (its 101 reply cannot be written). The client
// retries 3 s later with the same session id (client.MakeSession does exactly that), the retry succeeds and the
// client believes it has a session. Does the server serve it?
func TestRedWSZombieSession(t *testing.T) {
	for _, fault := range []bool{false, true} {
		sta, _, proxy := redServerState(t)
		if fault {
			_, _, err := redWSClientConn(t, sta, 777, true)
			t.Logf("first connection (fault): client error: %v", err)
		}
		conn, sk, err := redWSClientConn(t, sta, 777, false)
		if err != nil {
			t.Fatalf("fault=%v: connection: %v", fault, err)
		}
		obfs, _ := mux.MakeObfuscator(mux.EncryptionMethodPlain, sk)
		sesh := mux.MakeSession(777, mux.SessionConfig{Obfuscator: obfs, MsgOnWireSizeLimit: appDataMaxLength})
		sesh.AddConnection(conn)
		st, err := sesh.OpenStream()
		if err != nil {
			t.Fatal(err)
		}
		if _, err := st.Write([]byte("hello proxy")); err != nil {
			t.Fatal(err)
		}
		select {
		case pc := <-proxy.ch:
			b := make([]byte, 32)
			pc.SetReadDeadline(time.Now().Add(2 * time.Second))
			n, _ := pc.Read(b)
			t.Logf("fault=%v: the proxy server was dialled and received %q", fault, b[:n])
		case <-time.After(3 * time.Second):
			t.Errorf("fault=%v: the client has a session (handshake succeeded, key agreed) but the server never serves it: no proxy connection for its stream", fault)
		}
	}
}
