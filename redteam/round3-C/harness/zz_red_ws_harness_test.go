package server

import (
	"crypto/ecdsa"
	"crypto/elliptic"
	"crypto/rand"
	"crypto/tls"
	"crypto/x509"
	"crypto/x509/pkix"
	"encoding/base64"
	"encoding/binary"
	"io"
	"math/big"
	"runtime"
	"strings"
	mrand "math/rand"
	"sync/atomic"
	"net"
	"sync"
	"testing"
	"time"

	"github.com/cbeuw/Cloak/internal/client"
	"github.com/cbeuw/Cloak/internal/common"
	"github.com/cbeuw/Cloak/internal/ecdh"
)

var redBypassUID = [16]byte{0, 1, 2, 3, 4, 5, 6, 7, 8, 9, 10, 11, 12, 13, 14, 15}
var redPub, _ = base64.StdEncoding.DecodeString("7f7TuKrs264VNSgMno8PkDlyhGhVuOSR8JHLE6H4Ljc=")
var redPv, _ = base64.StdEncoding.DecodeString("SMWeC6VuZF8S/id65VuFQFlfa7hTEJBpL6wWhqPP100=")

func redSelfSigned(t testing.TB) tls.Certificate {
	key, err := ecdsa.GenerateKey(elliptic.P256(), rand.Reader)
	if err != nil {
		t.Fatal(err)
	}
	tmpl := &x509.Certificate{
		SerialNumber: big.NewInt(1),
		Subject:      pkix.Name{CommonName: "cdn.example"},
		NotBefore:    time.Now().Add(-time.Hour),
		NotAfter:     time.Now().Add(time.Hour),
		DNSNames:     []string{"cdn.example"},
	}
	der, err := x509.CreateCertificate(rand.Reader, tmpl, tmpl, &key.PublicKey, key)
	if err != nil {
		t.Fatal(err)
	}
	return tls.Certificate{Certificate: [][]byte{der}, PrivateKey: key}
}

// pipeDialer hands the server side of a pipe to a channel
type redChanDialer struct {
	ch chan net.Conn
}

func (d *redChanDialer) Dial(network, address string) (net.Conn, error) {
	a, b := net.Pipe()
	d.ch <- b
	return a, nil
}

func redServerState(t testing.TB) (*State, *redChanDialer, *redChanDialer) {
	raw := RawConfig{
		ProxyBook:  map[string][]string{"shadowsocks": {"tcp", "127.0.0.1:9"}},
		BindAddr:   []string{"127.0.0.1:0"},
		BypassUID:  [][]byte{redBypassUID[:]},
		RedirAddr:  "127.0.0.1:9",
		PrivateKey: redPv,
		KeepAlive:  15,
	}
	sta, err := InitState(raw, common.RealWorldState)
	if err != nil {
		t.Fatal(err)
	}
	redir := &redChanDialer{ch: make(chan net.Conn, 64)}
	proxy := &redChanDialer{ch: make(chan net.Conn, 64)}
	sta.RedirDialer = redir
	sta.ProxyDialer = proxy
	return sta, redir, proxy
}

// redCDN: a TLS terminator (like a CDN edge) that forwards plaintext to `handle`
type redCDN struct {
	l      net.Listener
	alpn   chan string
	handle func(net.Conn)
}

func redStartCDN(t testing.TB, nextProtos []string, handle func(plain net.Conn)) *redCDN {
	cert := redSelfSigned(t)
	l, err := net.Listen("tcp", "127.0.0.1:0")
	if err != nil {
		t.Fatal(err)
	}
	c := &redCDN{l: l, alpn: make(chan string, 64), handle: handle}
	go func() {
		for {
			raw, err := l.Accept()
			if err != nil {
				return
			}
			go func() {
				tc := tls.Server(raw, &tls.Config{Certificates: []tls.Certificate{cert}, NextProtos: nextProtos})
				if err := tc.Handshake(); err != nil {
					raw.Close()
					return
				}
				c.alpn <- tc.ConnectionState().NegotiatedProtocol
				// origin leg: loopback pair so that the cloak server sees a real TCP conn
				ol, _ := net.Listen("tcp", "127.0.0.1:0")
				go func() {
					oc, err := ol.Accept()
					ol.Close()
					if err != nil {
						return
					}
					handle(oc)
				}()
				up, err := net.Dial("tcp", ol.Addr().String())
				if err != nil {
					return
				}
				var wg sync.WaitGroup
				wg.Add(2)
				go func() { redCopy(up, tc); up.(*net.TCPConn).CloseWrite(); wg.Done() }()
				go func() { redCopy(tc, up); tc.CloseWrite(); wg.Done() }()
				wg.Wait()
				up.Close()
				tc.Close()
			}()
		}
	}()
	return c
}

func redClientCfg(transport string) client.RawConfig {
	return client.RawConfig{
		ServerName:       "www.example.com",
		ProxyMethod:      "shadowsocks",
		EncryptionMethod: "plain",
		UID:              redBypassUID[:],
		PublicKey:        redPub,
		NumConn:          1,
		Transport:        transport,
		RemoteHost:       "127.0.0.1",
		RemotePort:       "443",
		LocalHost:        "127.0.0.1",
		LocalPort:        "9999",
	}
}

// redMakeHidden builds what the client puts in the `hidden` header (same layout as client.makeAuthenticationPayload)
func redMakeHidden(auth client.AuthInfo) string {
	h, _ := redMakeHiddenSecret(auth)
	return h
}

func redMakeHiddenSecret(auth client.AuthInfo) (string, []byte) {
	ephPv, ephPub, _ := ecdh.GenerateKey(rand.Reader)
	var randPub [32]byte
	copy(randPub[:], ecdh.Marshal(ephPub))
	plaintext := make([]byte, 48)
	copy(plaintext, auth.UID)
	copy(plaintext[16:28], auth.ProxyMethod)
	plaintext[28] = auth.EncryptionMethod
	binary.BigEndian.PutUint64(plaintext[29:37], uint64(auth.WorldState.Now().UTC().Unix()))
	binary.BigEndian.PutUint32(plaintext[37:41], auth.SessionId)
	if auth.Unordered {
		plaintext[41] |= 1
	}
	secret, _ := ecdh.GenerateSharedSecret(ephPv, auth.ServerPubKey)
	ct, _ := common.AESGCMEncrypt(randPub[:12], secret, plaintext)
	return base64.StdEncoding.EncodeToString(append(randPub[:], ct...)), secret
}

// redCDNChop > 0: the CDN forwards in pieces of at most that many bytes (TCP_NODELAY on the origin leg), so that the
// origin sees the request, and the client the reply, arbitrarily segmented
var redCDNChop int32

func redCopy(dst io.Writer, src io.Reader) {
	if tc, ok := dst.(*net.TCPConn); ok {
		tc.SetNoDelay(true)
	}
	buf := make([]byte, 32768)
	for {
		n, err := src.Read(buf)
		chop := int(atomic.LoadInt32(&redCDNChop))
		for off := 0; off < n; {
			k := n - off
			if chop > 0 {
				k = 1 + mrand.Intn(chop)
				if off+k > n {
					k = n - off
				}
			}
			if _, werr := dst.Write(buf[off : off+k]); werr != nil {
				return
			}
			off += k
		}
		if err != nil {
			return
		}
	}
}

type redNetDialer struct{ addr string }

func (d redNetDialer) Dial(network, address string) (net.Conn, error) {
	return net.Dial("tcp", d.addr)
}

// a real TCP redirect target that runs `script` on each accepted conn
func redTarget(t testing.TB, script func(c *net.TCPConn)) (common.Dialer, net.Listener) {
	l, err := net.Listen("tcp", "127.0.0.1:0")
	if err != nil {
		t.Fatal(err)
	}
	go func() {
		for {
			c, err := l.Accept()
			if err != nil {
				return
			}
			go script(c.(*net.TCPConn))
		}
	}()
	return redNetDialer{l.Addr().String()}, l
}

func redCloakListener(t testing.TB, sta *State) net.Listener {
	l, err := net.Listen("tcp", "127.0.0.1:0")
	if err != nil {
		t.Fatal(err)
	}
	go Serve(l, sta)
	return l
}


func redValidHidden(t testing.TB, sta *State, uid []byte, sessionId uint32) string {
	raw := redClientCfg("cdn")
	raw.UID = uid
	_, _, auth, err := raw.ProcessRawConfig(common.RealWorldState)
	if err != nil {
		t.Fatal(err)
	}
	auth.SessionId = sessionId
	return redMakeHidden(auth)
}


func redStuckResponders() int {
	buf := make([]byte, 1<<20)
	return strings.Count(string(buf[:runtime.Stack(buf, true)]), "makeResponder.func1")
}
