#!/bin/sh
# usage: RED/run.sh <C05|C06|C09|C10|extra> <test regex> [extra go test flags]
# copies the demonstration files of that directory (and the shared harness) into the source packages, runs the
# tests, and removes the copies again. Run from the worktree root.
set -u
dir=$1; re=$2; shift 2
export GOTOOLCHAIN=local GOFLAGS=-mod=mod GOPROXY=off GOSUMDB=off GOEXPERIMENT=synctest
GO=/root/go/pkg/mod/golang.org/toolchain@v0.0.1-go1.24.2.linux-amd64/bin/go
cleanup() { rm -f internal/*/zz_red_*_test.go; }
trap cleanup EXIT
pkgs=""
for f in RED/$dir/*_test.go; do
  case "$(sed -n 's/^package //p' "$f" | head -1)" in
    server) cp "$f" internal/server/; cp RED/harness/zz_red_ws_harness_test.go internal/server/; pkgs="$pkgs ./internal/server";;
    common) cp "$f" internal/common/; pkgs="$pkgs ./internal/common";;
    client) cp "$f" internal/client/; pkgs="$pkgs ./internal/client";;
  esac
done
pkgs=$(echo $pkgs | tr ' ' '\n' | sort -u)
for p in $pkgs; do
  $GO test $p -run "$re" -count=1 -v "$@" 2>&1 | grep -v conda | grep -v 'level='
done
