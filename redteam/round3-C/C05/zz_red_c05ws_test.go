package common

import (
	"encoding/binary"
	"fmt"
	"io"
	mrand "math/rand"
	"net"
	"net/http"
	"net/url"
	"sync"
	"testing"
	"time"

	"github.com/gorilla/websocket"
)

// chopRelay copies src->dst cutting the byte stream at random places (and coalescing by reading big)
func redChopRelay(dst, src net.Conn, seed int64, maxCut int) {
	r := mrand.New(mrand.NewSource(seed))
	buf := make([]byte, 70000)
	for {
		n, err := src.Read(buf)
		off := 0
		for off < n {
			k := 1 + r.Intn(maxCut)
			if r.Intn(4) == 0 {
				k = 1 + r.Intn(3)
			}
			if off+k > n {
				k = n - off
			}
			if _, werr := dst.Write(buf[off : off+k]); werr != nil {
				return
			}
			off += k
		}
		if err != nil {
			dst.Close()
			return
		}
	}
}

type redOnceL struct {
	c    net.Conn
	done chan struct{}
	used bool
}

func (l *redOnceL) Accept() (net.Conn, error) {
	if l.used {
		<-l.done
		return nil, io.EOF
	}
	l.used = true
	return l.c, nil
}
func (l *redOnceL) Close() error   { return nil }
func (l *redOnceL) Addr() net.Addr { return l.c.LocalAddr() }

// returns client-side and server-side WebSocketConn joined through a chopping relay, with the same buffer
// parameters Cloak uses (client 16480/16480, server: zero-value Upgrader)
func redWSPair(t testing.TB, seed int64, maxCut int) (cl, sv *WebSocketConn) {
	c1, c2 := net.Pipe() // client <-> relay
	s1, s2 := net.Pipe() // relay <-> server
	go redChopRelay(s1, c2, seed, maxCut)
	go redChopRelay(c2, s1, seed+1, maxCut)
	svCh := make(chan *WebSocketConn, 1)
	go http.Serve(&redOnceL{c: s2, done: make(chan struct{})}, http.HandlerFunc(func(w http.ResponseWriter, r *http.Request) {
		up := websocket.Upgrader{}
		c, err := up.Upgrade(w, r, nil)
		if err != nil {
			t.Error(err)
			return
		}
		svCh <- &WebSocketConn{Conn: c}
	}))
	u, _ := url.Parse("ws://example.com:443/")
	c, _, err := websocket.NewClient(c1, u, http.Header{}, 16480, 16480)
	if err != nil {
		t.Fatal(err)
	}
	return &WebSocketConn{Conn: c}, <-svCh
}

func redMsg(writer, seq uint32, l int) []byte {
	b := make([]byte, l)
	for i := range b {
		b[i] = byte(uint32(i)*31 + writer*7 + seq)
	}
	if l >= 12 {
		binary.BigEndian.PutUint32(b[0:], writer)
		binary.BigEndian.PutUint32(b[4:], seq)
		binary.BigEndian.PutUint32(b[8:], uint32(l))
	}
	return b
}

func redCheckMsg(b []byte) error {
	if len(b) < 12 {
		return nil
	}
	w, s, l := binary.BigEndian.Uint32(b[0:]), binary.BigEndian.Uint32(b[4:]), binary.BigEndian.Uint32(b[8:])
	if int(l) != len(b) {
		return fmt.Errorf("length %d but header says %d", len(b), l)
	}
	exp := redMsg(w, s, int(l))
	for i := range b {
		if b[i] != exp[i] {
			return fmt.Errorf("byte %d differs", i)
		}
	}
	return nil
}

// concurrent writers, random lengths 12..20480, both directions, random segmentation
func TestRedC05WSConcurrent(t *testing.T) {
	for seed := int64(1); seed <= 6; seed++ {
		maxCut := []int{5, 100, 1500, 70000, 17, 4096}[seed-1]
		cl, sv := redWSPair(t, seed, maxCut)
		for _, dir := range []struct{ w, r *WebSocketConn }{{cl, sv}, {sv, cl}} {
			const writers = 8
			const per = 40
			var wg sync.WaitGroup
			for w := 0; w < writers; w++ {
				wg.Add(1)
				go func(w int) {
					defer wg.Done()
					r := mrand.New(mrand.NewSource(seed*100 + int64(w)))
					for s := 0; s < per; s++ {
						l := 12 + r.Intn(20480-12+1)
						switch r.Intn(6) {
						case 0:
							l = 20480
						case 1:
							l = 12 + r.Intn(30)
						case 2:
							l = 16401
						}
						m := redMsg(uint32(w), uint32(s), l)
						n, err := dir.w.Write(m)
						if err != nil || n != l {
							t.Errorf("write: %v %v", n, err)
							return
						}
					}
				}(w)
			}
			next := make([]uint32, writers)
			buf := make([]byte, 20480)
			got := 0
			for got < writers*per {
				dir.r.SetReadDeadline(time.Now().Add(10 * time.Second))
				n, err := dir.r.Read(buf)
				if err != nil {
					t.Fatalf("seed %d: read: %v after %d", seed, err, got)
				}
				if err := redCheckMsg(buf[:n]); err != nil {
					t.Fatalf("seed %d: %v", seed, err)
				}
				w, s := binary.BigEndian.Uint32(buf[0:]), binary.BigEndian.Uint32(buf[4:])
				if next[w] != s {
					t.Fatalf("seed %d: writer %d out of order: got %d want %d", seed, w, s, next[w])
				}
				next[w]++
				got++
			}
			wg.Wait()
		}
		cl.Close()
		sv.Close()
	}
}

// every length 0..N sequentially incl. 0, exact buffer size, and oversize => error never truncated
func TestRedC05WSLengths(t *testing.T) {
	cl, sv := redWSPair(t, 42, 700)
	defer cl.Close()
	defer sv.Close()
	for _, dir := range []struct {
		name string
		w, r *WebSocketConn
	}{{"c2s", cl, sv}, {"s2c", sv, cl}} {
		lens := []int{0, 1, 2, 125, 126, 127, 65535, 65536, 65537, 4082, 4096, 4097, 16466, 16480, 16481, 32960, 32961, 40000}
		for i := 0; i < 300; i++ {
			lens = append(lens, i)
		}
		go func() {
			for i, l := range lens {
				m := redMsg(1, uint32(i), l)
				if _, err := dir.w.Write(m); err != nil {
					t.Error(err)
					return
				}
			}
		}()
		buf := make([]byte, 70000)
		for i, l := range lens {
			dir.r.SetReadDeadline(time.Now().Add(10 * time.Second))
			n, err := dir.r.Read(buf)
			if err != nil {
				t.Fatalf("%s len %d: %v", dir.name, l, err)
			}
			if n != l {
				t.Fatalf("%s msg %d: want len %d got %d", dir.name, i, l, n)
			}
			exp := redMsg(1, uint32(i), l)
			for j := 0; j < n; j++ {
				if buf[j] != exp[j] {
					t.Fatalf("%s len %d differs at %d", dir.name, l, j)
				}
			}
		}
		// reader buffer exactly the message, one less, and much less
		for _, tc := range []struct{ msg, buf int }{{100, 100}, {100, 99}, {16401, 16401}, {16401, 16400}, {16481, 16481}, {16481, 16480}, {33000, 20480}, {5000, 1}, {1, 1}, {0, 1}} {
			go dir.w.Write(redMsg(2, 0, tc.msg))
			b := make([]byte, tc.buf)
			dir.r.SetReadDeadline(time.Now().Add(10 * time.Second))
			n, err := dir.r.Read(b)
			if tc.msg <= tc.buf {
				if err != nil || n != tc.msg {
					t.Fatalf("%s msg %d buf %d: n=%d err=%v", dir.name, tc.msg, tc.buf, n, err)
				}
			} else if err == nil {
				t.Fatalf("%s msg %d buf %d: truncated delivery n=%d without error", dir.name, tc.msg, tc.buf, n)
			}
			// after an oversize error the next message must still be whole
			go dir.w.Write(redMsg(3, 9, 50))
			b2 := make([]byte, 64)
			n, err = dir.r.Read(b2)
			if err != nil || n != 50 || redCheckMsg(b2[:n]) != nil {
				t.Fatalf("%s after msg %d buf %d: next message n=%d err=%v", dir.name, tc.msg, tc.buf, n, err)
			}
		}
	}
}
