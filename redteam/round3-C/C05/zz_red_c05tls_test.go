package common

import (
	"bytes"
	"encoding/binary"
	"io"
	"net"
	"sync"
	"testing"
	"time"
)

// every single and double cut position of a short exchange (lengths incl. 0), through TLSConn.Read
func TestRedC05TLSCuts(t *testing.T) {
	msgs := [][]byte{{}, []byte("a"), []byte("hello"), {}, bytes.Repeat([]byte{7}, 20), []byte("zz")}
	a, b := net.Pipe()
	var wire bytes.Buffer
	done := make(chan struct{})
	go func() { io.Copy(&wire, b); close(done) }()
	w := NewTLSConn(a)
	for _, m := range msgs {
		if n, err := w.Write(m); err != nil || n != len(m) {
			t.Fatal(n, err)
		}
	}
	a.Close()
	<-done
	stream := wire.Bytes()
	for c1 := 0; c1 <= len(stream); c1++ {
		for c2 := c1; c2 <= len(stream); c2++ {
			x, y := net.Pipe()
			go func() {
				x.Write(stream[:c1])
				x.Write(stream[c1:c2])
				x.Write(stream[c2:])
				x.Close()
			}()
			r := NewTLSConn(y)
			buf := make([]byte, 20) // exactly the largest message
			for i, m := range msgs {
				n, err := r.Read(buf)
				if err != nil || !bytes.Equal(buf[:n], m) {
					t.Fatalf("cuts %d,%d msg %d: got %q err %v", c1, c2, i, buf[:n], err)
				}
			}
			if _, err := r.Read(buf); err == nil {
				t.Fatalf("extra message")
			}
		}
	}
	// oversize
	x, y := net.Pipe()
	go NewTLSConn(x).Write(bytes.Repeat([]byte{1}, 21))
	if n, err := NewTLSConn(y).Read(make([]byte, 20)); err == nil {
		t.Fatalf("oversize delivered n=%d", n)
	}
}

func TestRedC05TLSConcurrent(t *testing.T) {
	l, _ := net.Listen("tcp", "127.0.0.1:0")
	defer l.Close()
	go func() {
		c, _ := net.Dial("tcp", l.Addr().String())
		w := NewTLSConn(c)
		var wg sync.WaitGroup
		for g := 0; g < 16; g++ {
			wg.Add(1)
			go func(g int) {
				defer wg.Done()
				for s := 0; s < 200; s++ {
					l := 12 + (g*977+s*7919)%(16640-12+1)
					if s%10 == 0 {
						l = 16640
					}
					w.Write(redMsg(uint32(g), uint32(s), l))
				}
			}(g)
		}
		wg.Wait()
		c.Close()
	}()
	c, _ := l.Accept()
	r := NewTLSConn(c)
	buf := make([]byte, 16640)
	next := make([]uint32, 16)
	cnt := 0
	for {
		c.SetReadDeadline(time.Now().Add(10 * time.Second))
		n, err := r.Read(buf)
		if err != nil {
			break
		}
		if err := redCheckMsg(buf[:n]); err != nil {
			t.Fatal(err)
		}
		g, s := binary.BigEndian.Uint32(buf), binary.BigEndian.Uint32(buf[4:])
		if next[g] != s {
			t.Fatalf("order")
		}
		next[g]++
		cnt++
	}
	if cnt != 16*200 {
		t.Fatalf("got %d", cnt)
	}
}
