package client

import (
	"bytes"
	"crypto/rand"
	"strings"
	"testing"

	utls "github.com/refraction-networking/utls"
)

func TestRedC10ClientHello(t *testing.T) {
	names := []string{"www.example.com", "a.b", "xn--80ak6aa92e.com", strings.Repeat("a", 63) + "." + strings.Repeat("b", 63) + "." + strings.Repeat("c", 63) + "." + strings.Repeat("d", 61), "localhost", "EXAMPLE.com", "example.com.", "ex_ample.com", "münchen.de"}
	for _, br := range []browser{chrome, firefox, safari} {
		for _, name := range names {
			for it := 0; it < 30; it++ {
				f := clientHelloFields{random: make([]byte, 32), sessionId: make([]byte, 32), x25519KeyShare: make([]byte, 32), serverName: name}
				rand.Read(f.random)
				rand.Read(f.sessionId)
				rand.Read(f.x25519KeyShare)
				raw, err := buildClientHello(br, f)
				if err != nil {
					t.Fatalf("%d %q: %v", br, name, err)
				}
				if len(raw) > 2995 {
					t.Errorf("%d %q: client hello of %d bytes does not fit the server's first-packet buffer", br, name, len(raw))
				}
				if len(raw) != 4+int(raw[1])<<16+int(raw[2])<<8+int(raw[3]) {
					t.Fatalf("%d %q: handshake length field wrong", br, name)
				}
				ch := utls.UnmarshalClientHello(raw)
				if ch == nil {
					t.Fatalf("%d %q: does not parse", br, name)
				}
				if strings.HasSuffix(name, ".") && ch.ServerName == strings.TrimSuffix(name, ".") {
					// the trailing dot of an absolute name is dropped, as RFC 6066 requires: not counted
				} else if ch.ServerName != name {
					t.Errorf("%d: SNI %q want %q", br, ch.ServerName, name)
				}
				if !bytes.Equal(ch.SessionId, f.sessionId) || !bytes.Equal(ch.Random, f.random) {
					t.Errorf("%d %q: session id/random", br, name)
				}
				found := 0
				for _, ks := range ch.KeyShares {
					if ks.Group == utls.X25519 {
						found++
						if !bytes.Equal(ks.Data, f.x25519KeyShare) {
							t.Errorf("%d %q: x25519 share differs", br, name)
						}
					}
				}
				if found != 1 {
					t.Errorf("%d %q: %d x25519 shares", br, name, found)
				}
			}
		}
	}
}
