package server

import (
	"bytes"
	"crypto/rand"
	"encoding/binary"
	"fmt"
	"io"
	"net"
	"sync"
	"testing"
	"time"

	"github.com/cbeuw/Cloak/internal/client"
	"github.com/cbeuw/Cloak/internal/common"
)

type redRec struct {
	mu       sync.Mutex
	c2s, s2c [][]byte // one entry per recorded connection (index = conn id)
}

func redRecordingRelay(t testing.TB, upstream string) (net.Listener, *redRec) {
	rec := &redRec{}
	l, _ := net.Listen("tcp", "127.0.0.1:0")
	go func() {
		for {
			c, err := l.Accept()
			if err != nil {
				return
			}
			rec.mu.Lock()
			id := len(rec.c2s)
			rec.c2s = append(rec.c2s, nil)
			rec.s2c = append(rec.s2c, nil)
			rec.mu.Unlock()
			u, err := net.Dial("tcp", upstream)
			if err != nil {
				c.Close()
				continue
			}
			cp := func(dst, src net.Conn, log *[][]byte) {
				buf := make([]byte, 65536)
				for {
					n, err := src.Read(buf)
					if n > 0 {
						rec.mu.Lock()
						(*log)[id] = append((*log)[id], buf[:n]...)
						rec.mu.Unlock()
						dst.Write(buf[:n])
					}
					if err != nil {
						dst.Close()
						return
					}
				}
			}
			go cp(u, c, &rec.c2s)
			go cp(c, u, &rec.s2c)
		}
	}()
	return l, rec
}

func redParseRecords(b []byte) (recs [][]byte, err error) {
	for len(b) > 0 {
		if len(b) < 5 {
			return recs, fmt.Errorf("trailing %d bytes: % x", len(b), b)
		}
		l := int(binary.BigEndian.Uint16(b[3:5]))
		if len(b) < 5+l {
			return recs, fmt.Errorf("truncated record header % x, have %d", b[:5], len(b)-5)
		}
		recs = append(recs, b[:5+l])
		b = b[5+l:]
	}
	return
}

func TestRedC10Wire(t *testing.T) {
	for _, enc := range []string{"plain", "aes-gcm", "chacha20-poly1305"} {
		for _, br := range []string{"chrome", "firefox", "safari"} {
			sta, _, proxy := redServerState(t)
			go func() {
				for c := range proxy.ch {
					go func(c net.Conn) { io.Copy(c, c); c.Close() }(c)
				}
			}()
			l := redCloakListener(t, sta)
			rl, rec := redRecordingRelay(t, l.Addr().String())
			raw := redClientCfg("direct")
			raw.NumConn = 3
			raw.EncryptionMethod = enc
			raw.BrowserSig = br
			raw.ServerName = "random"
			_, rmt, auth, _ := raw.ProcessRawConfig(common.RealWorldState)
			auth.SessionId = 99
			sesh := client.MakeSession(rmt, auth, redNetDialer{rl.Addr().String()})
			var wg sync.WaitGroup
			for s := 0; s < 5; s++ {
				wg.Add(1)
				go func(s int) {
					defer wg.Done()
					st, err := sesh.OpenStream()
					if err != nil {
						t.Error(err)
						return
					}
					data := make([]byte, 1+s*40000)
					rand.Read(data)
					go st.Write(data)
					got := make([]byte, len(data))
					st.SetReadDeadline(time.Now().Add(10 * time.Second))
					if _, err := io.ReadFull(st, got); err != nil || !bytes.Equal(got, data) {
						t.Errorf("stream %d: %v", s, err)
					}
					if s%2 == 0 {
						st.Close()
					}
				}(s)
			}
			wg.Wait()
			sesh.Close()
			time.Sleep(200 * time.Millisecond)
			l.Close()
			rl.Close()
			rec.mu.Lock()
			for id := range rec.c2s {
				for dir, b := range [][]byte{rec.c2s[id], rec.s2c[id]} {
					recs, err := redParseRecords(b)
					if err != nil {
						t.Errorf("%s/%s conn %d dir %d: %v", enc, br, id, dir, err)
					}
					for i, r := range recs {
						l := len(r) - 5
						if dir == 0 && i == 0 {
							if r[0] != 22 {
								t.Errorf("first client record type %d", r[0])
							}
							if _, err := parseClientHello(r); err != nil {
								t.Errorf("client hello: %v", err)
							}
							continue
						}
						if dir == 1 && i < 2 {
							want := []byte{22, 20}[i]
							if r[0] != want {
								t.Errorf("%s/%s server record %d type %d", enc, br, i, r[0])
							}
							continue
						}
						if r[0] != 23 || r[1] != 3 || r[2] != 3 || l == 0 || l > 16384+256 {
							t.Errorf("%s/%s conn %d dir %d record %d: header % x", enc, br, id, dir, i, r[:5])
						}
					}
				}
			}
			rec.mu.Unlock()
		}
	}
}
