package client

import (
	"crypto/rand"
	"net"
	"testing"

	"github.com/cbeuw/Cloak/internal/common"
	"github.com/cbeuw/Cloak/internal/ecdh"
)

// what MakeSession does when Handshake fails: transportConn.Close()
func TestRedDirectCloseAfterFailedWrite(t *testing.T) {
	_, pub, _ := ecdh.GenerateKey(rand.Reader)
	auth := AuthInfo{UID: make([]byte, 16), ProxyMethod: "ss", ServerPubKey: pub, MockDomain: "www.example.com", WorldState: common.RealWorldState}
	a, b := net.Pipe()
	b.Close()
	a.Close() // the first Write fails, like a connection reset right after connect
	tr := TransportConfig{mode: "direct", browser: chrome}.CreateTransport()
	_, err := tr.Handshake(a, auth)
	if err == nil {
		t.Fatal("expected error")
	}
	defer func() {
		if r := recover(); r != nil {
			t.Errorf("transportConn.Close() after a failed Handshake panics: %v", r)
		}
	}()
	tr.Close()
}
