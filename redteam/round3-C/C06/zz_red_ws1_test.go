package server

import (
	"bytes"
	"net"
	"testing"
	"time"

	"github.com/cbeuw/Cloak/internal/common"
)

// basic CDN handshake through the real client
func TestRedWSBasic(t *testing.T) {
	sta, _, _ := redServerState(t)
	type res struct {
		ci  ClientInfo
		err error
		fp  []byte
	}
	resCh := make(chan res, 1)
	var sk [32]byte
	for i := range sk {
		sk[i] = byte(i + 1)
	}
	cdn := redStartCDN(t, []string{"h2", "http/1.1"}, func(conn net.Conn) {
		buf := make([]byte, firstPacketSize)
		n, tr, _, err := readFirstPacket(conn, buf, 5*time.Second)
		if err != nil {
			resCh <- res{err: err, fp: buf[:n]}
			return
		}
		ci, fin, err := AuthFirstPacket(buf[:n], tr, sta)
		if err != nil {
			resCh <- res{err: err, fp: buf[:n]}
			return
		}
		_, err = fin(conn, sk, common.RealWorldState.Rand)
		resCh <- res{ci: ci, err: err, fp: append([]byte{}, buf[:n]...)}
	})
	raw := redClientCfg("cdn")
	_, rmt, auth, err := raw.ProcessRawConfig(common.RealWorldState)
	if err != nil {
		t.Fatal(err)
	}
	auth.SessionId = 0xdeadbeef
	tr := rmt.Transport.CreateTransport()
	c, err := net.Dial("tcp", cdn.l.Addr().String())
	if err != nil {
		t.Fatal(err)
	}
	got, err := tr.Handshake(c, auth)
	t.Logf("alpn negotiated: %q", <-cdn.alpn)
	r := <-resCh
	t.Logf("first packet:\n%s", r.fp)
	if err != nil {
		t.Fatalf("client: %v (server: %v)", err, r.err)
	}
	if r.err != nil {
		t.Fatal(r.err)
	}
	if got != sk {
		t.Fatalf("session key mismatch")
	}
	if !bytes.Equal(r.ci.UID, redBypassUID[:]) || r.ci.SessionId != 0xdeadbeef || r.ci.ProxyMethod != "shadowsocks" {
		t.Fatalf("bad ci %+v", r.ci)
	}
}
