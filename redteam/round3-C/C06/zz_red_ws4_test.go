package server

import (
	"net"
	"strings"
	"testing"
	"time"

	"github.com/cbeuw/Cloak/internal/common"
)

// CDN-only options: CDNWsUrlPath / CDNOriginHost corner values
func TestRedC06CDNOptions(t *testing.T) {
	sta, redir, _ := redServerState(t)
	go func() {
		for c := range redir.ch {
			go func(c net.Conn) {
				b := make([]byte, 8192)
				c.Read(b)
				c.Write([]byte("HTTP/1.1 404 Not Found\r\nContent-Length: 0\r\n\r\n"))
				c.Close()
			}(c)
		}
	}()
	cdn := redStartCDN(t, nil, func(conn net.Conn) { dispatchConnection(conn, sta) })
	go func() {
		for range cdn.alpn {
		}
	}()
	for _, tc := range []struct{ name, path, origin string }{
		{"plain", "/", ""},
		{"query", "/ws?x=1&y=%20", ""},
		{"space", "/a b", ""},
		{"noslash", "ws", ""},
		{"long2000", "/" + strings.Repeat("a", 2000), ""},
		{"long2800", "/" + strings.Repeat("a", 2800), ""},
		{"longhost", "/", strings.Repeat("a", 63) + "." + strings.Repeat("b", 63) + "." + strings.Repeat("c", 63) + ".example.com"},
		{"ipv6 origin", "/", "::1"},
	} {
		raw := redClientCfg("cdn")
		raw.CDNWsUrlPath = tc.path
		raw.CDNOriginHost = tc.origin
		_, rmt, auth, err := raw.ProcessRawConfig(common.RealWorldState)
		if err != nil {
			t.Logf("%s: config refused: %v", tc.name, err)
			continue
		}
		auth.SessionId = 1234
		tr := rmt.Transport.CreateTransport()
		c, _ := net.Dial("tcp", cdn.l.Addr().String())
		c.SetDeadline(time.Now().Add(5 * time.Second))
		_, err = tr.Handshake(c, auth)
		t.Logf("%s: handshake err = %v", tc.name, err)
		tr.Close()
	}
}
