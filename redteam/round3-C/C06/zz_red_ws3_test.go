package server

import (
	"bytes"
	"crypto/rand"
	"fmt"
	mrand "math/rand"
	"net"
	"sync/atomic"
	"testing"
	"time"

	"github.com/cbeuw/Cloak/internal/client"
	"github.com/cbeuw/Cloak/internal/common"
	"github.com/cbeuw/Cloak/internal/ecdh"
)

type redHSResult struct {
	ci  ClientInfo
	err error
}

// sweep of C06 over the CDN transport and the direct transport
func TestRedC06Sweep(t *testing.T) {
	sta, _, _ := redServerState(t)
	for _, transport := range []string{"cdn", "direct"} {
		resCh := make(chan redHSResult, 1)
		var sk [32]byte
		handle := func(conn net.Conn) {
			buf := make([]byte, firstPacketSize)
			n, tr, _, err := readFirstPacket(conn, buf, 5*time.Second)
			if err != nil {
				resCh <- redHSResult{err: fmt.Errorf("rfp: %v (n=%d)", err, n)}
				return
			}
			ci, fin, err := AuthFirstPacket(buf[:n], tr, sta)
			if err != nil {
				resCh <- redHSResult{err: err}
				return
			}
			_, err = fin(conn, sk, common.RealWorldState.Rand)
			resCh <- redHSResult{ci: ci, err: err}
		}
		var addr string
		if transport == "cdn" {
			cdn := redStartCDN(t, []string{"h2", "http/1.1"}, handle)
			go func() {
				for range cdn.alpn {
				}
			}()
			addr = cdn.l.Addr().String()
		} else {
			l, _ := net.Listen("tcp", "127.0.0.1:0")
			go func() {
				for {
					c, err := l.Accept()
					if err != nil {
						return
					}
					go handle(c)
				}
			}()
			addr = l.Addr().String()
		}
		r := mrand.New(mrand.NewSource(7))
		encs := []string{"plain", "aes-gcm", "aes-128-gcm", "chacha20-poly1305", "aes-256-gcm"}
		encB := []byte{0, 1, 3, 2, 1}
		_ = encB
		sids := []uint32{0, 1, 0x7fffffff, 0x80000000, 0xffffffff, 0xfffffffe}
		browsers := []string{"chrome", "firefox", "safari"}
		names := []string{"random", "www.example.com", "a.b", "xn--80ak6aa92e.com", "RANDOM", "very-long-label-aaaaaaaaaaaaaaaaaaaaaaaaaaaaaaaaaaaaaaaaaaaaaaaaaa.very-long-label-bbbbbbbbbbbbbbbbbbbbbbbbbbbbbbbbbbbbbbbbbbbbbbbb.very-long-label-ccccccccccccccccccccccccccccccccccccccccccccccccc.example.com"}
		if transport == "cdn" {
			names = names[1:] // ServerName=random under CDN is a known finding
		}
		const pmChars = "abcdefghijklmnopqrstuvwxyzABCDEFGHIJKLMNOPQRSTUVWXYZ0123456789-_."
		for iter := 0; iter < 150; iter++ {
			rand.Read(sk[:])
			atomic.StoreInt32(&redCDNChop, int32([]int{0, 1, 7, 300}[iter%4]))
			raw := redClientCfg(transport)
			uid := make([]byte, 16)
			rand.Read(uid)
			switch iter % 5 {
			case 0:
				uid = make([]byte, 16)
			case 1:
				uid = bytes.Repeat([]byte{0xff}, 16)
			}
			raw.UID = uid
			pml := 1 + iter%12
			pm := make([]byte, pml)
			for i := range pm {
				pm[i] = pmChars[r.Intn(len(pmChars))]
			}
			raw.ProxyMethod = string(pm)
			raw.EncryptionMethod = encs[iter%len(encs)]
			raw.UDP = iter%2 == 1
			raw.BrowserSig = browsers[iter%3]
			raw.ServerName = names[iter%len(names)]
			// a fresh server key pair each time
			pv, pub, _ := ecdh.GenerateKey(rand.Reader)
			sta.StaticPv = pv
			raw.PublicKey = ecdh.Marshal(pub)
			off := time.Duration(r.Intn(2*178)-178) * time.Second
			ws := common.WorldState{Rand: rand.Reader, Now: func() time.Time { return time.Now().Add(off) }}
			_, rmt, auth, err := raw.ProcessRawConfig(ws)
			if err != nil {
				t.Fatal(err)
			}
			auth.SessionId = sids[iter%len(sids)]
			if iter > 60 {
				auth.SessionId = r.Uint32()
			}
			tr := rmt.Transport.CreateTransport()
			c, err := net.Dial("tcp", addr)
			if err != nil {
				t.Fatal(err)
			}
			got, err := tr.Handshake(c, auth)
			var res redHSResult
			select {
			case res = <-resCh:
			case <-time.After(5 * time.Second):
				t.Fatalf("%s iter %d: server side did not finish; client err=%v", transport, iter, err)
			}
			desc := fmt.Sprintf("%s iter %d enc=%s pm=%q sn=%q br=%s sid=%d off=%v", transport, iter, raw.EncryptionMethod, raw.ProxyMethod, raw.ServerName, raw.BrowserSig, auth.SessionId, off)
			if err != nil || res.err != nil {
				t.Fatalf("%s: client err %v, server err %v", desc, err, res.err)
			}
			if got != sk {
				t.Fatalf("%s: session key differs", desc)
			}
			ci := res.ci
			if !bytes.Equal(ci.UID, uid) || ci.ProxyMethod != raw.ProxyMethod || ci.EncryptionMethod != auth.EncryptionMethod || ci.SessionId != auth.SessionId || ci.Unordered != raw.UDP {
				t.Fatalf("%s: recovered %+v", desc, ci)
			}
			tr.Close()
		}
	}
	_ = client.MakeSession
}
