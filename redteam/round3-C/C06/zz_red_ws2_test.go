package server

import (
	"bytes"
	"crypto/rand"
	"io"
	"net"
	"sync"
	"sync/atomic"
	"testing"
	"time"

	"github.com/cbeuw/Cloak/internal/client"
	"github.com/cbeuw/Cloak/internal/common"
)


// whole system in CDN mode: client.MakeSession -> CDN (TLS terminator) -> dispatchConnection -> echo proxy
func TestRedWSSystem(t *testing.T) {
	sta, _, proxy := redServerState(t)
	go func() {
		for c := range proxy.ch {
			go func(c net.Conn) { io.Copy(c, c); c.Close() }(c)
		}
	}()
	cdn := redStartCDN(t, []string{"h2", "http/1.1"}, func(conn net.Conn) { dispatchConnection(conn, sta) })
	go func() {
		for range cdn.alpn {
		}
	}()
	for i, enc := range []string{"plain", "aes-gcm", "aes-128-gcm", "chacha20-poly1305"} {
		atomic.StoreInt32(&redCDNChop, []int32{0, 3, 700, 5000}[i])
		raw := redClientCfg("cdn")
		raw.NumConn = 4
		raw.EncryptionMethod = enc
		_, rmt, auth, err := raw.ProcessRawConfig(common.RealWorldState)
		if err != nil {
			t.Fatal(err)
		}
		auth.SessionId = 77
		sesh := client.MakeSession(rmt, auth, redNetDialer{cdn.l.Addr().String()})
		var wg sync.WaitGroup
		for s := 0; s < 6; s++ {
			wg.Add(1)
			go func(s int) {
				defer wg.Done()
				st, err := sesh.OpenStream()
				if err != nil {
					t.Error(err)
					return
				}
				data := make([]byte, 300000+s*12345)
				rand.Read(data)
				go func() {
					off := 0
					for off < len(data) {
						n := 1 + (off*7+s*13)%40000
						if off+n > len(data) {
							n = len(data) - off
						}
						if _, err := st.Write(data[off : off+n]); err != nil {
							t.Error(err)
							return
						}
						off += n
					}
				}()
				got := make([]byte, len(data))
				st.SetReadDeadline(time.Now().Add(20 * time.Second))
				if _, err := io.ReadFull(st, got); err != nil {
					t.Errorf("%v stream %d: %v", enc, s, err)
					return
				}
				if !bytes.Equal(got, data) {
					t.Errorf("%v stream %d: data corrupted", enc, s)
				}
				st.Close()
			}(s)
		}
		wg.Wait()
		sesh.Close()
		time.Sleep(100 * time.Millisecond)
	}
}
