package multiplex

import (
	"bytes"
	"encoding/binary"
	"io"
	"math/rand"
	"net"
	"sort"
	"sync"
	"testing"
	"time"
)

type redRecConn struct {
	net.Conn
	mu     *sync.Mutex
	frames *[][]byte
	failAt int // fail the n-th write (1-based) if > 0
	count  *int
}

func (r *redRecConn) Write(b []byte) (int, error) {
	r.mu.Lock()
	*r.frames = append(*r.frames, append([]byte(nil), b...))
	*r.count++
	c := *r.count
	r.mu.Unlock()
	if r.failAt > 0 && c >= r.failAt {
		return 0, io.ErrClosedPipe
	}
	return r.Conn.Write(b)
}

// concurrent Write / ReadFrom / Close on the same streams; capture everything put on the wire, decrypt, check
func redC13Once(t *testing.T, seed int64, enc byte, failAt int) {
	rng := rand.New(rand.NewSource(seed))
	var key [32]byte
	rng.Read(key[:])
	obfs, _ := MakeObfuscator(enc, key)
	cs := MakeSession(1, SessionConfig{Obfuscator: obfs, MsgOnWireSizeLimit: 16401, InactivityTimeout: time.Hour})
	var mu sync.Mutex
	var frames [][]byte
	var count int
	var sinks []net.Conn
	for i := 0; i < 3; i++ {
		a, b := net.Pipe()
		sinks = append(sinks, b)
		go io.Copy(io.Discard, b)
		cs.AddConnection(&redRecConn{Conn: a, mu: &mu, frames: &frames, failAt: failAt, count: &count})
	}
	type wr struct {
		writer, idx uint32
	}
	nStreams := 4
	var wg sync.WaitGroup
	for s := 0; s < nStreams; s++ {
		st, err := cs.OpenStream()
		if err != nil {
			if failAt > 0 {
				break
			}
			t.Fatal(err)
		}
		mk := func(writer, idx uint32, sz int) []byte {
			b := make([]byte, sz)
			for off := 0; off+8 <= sz; off += 8 {
				binary.BigEndian.PutUint32(b[off:], writer)
				binary.BigEndian.PutUint32(b[off+4:], idx)
			}
			return b
		}
		// two Write goroutines
		for w := uint32(0); w < 2; w++ {
			wg.Add(1)
			go func(w uint32, r *rand.Rand) {
				defer wg.Done()
				for i := uint32(0); i < 30; i++ {
					sz := 8 * (1 + r.Intn(10))
					if r.Intn(5) == 0 {
						sz = 8 * (2017 + r.Intn(4000)) // several frames
					}
					if _, err := st.Write(mk(w, i, sz)); err != nil {
						return
					}
				}
			}(w, rand.New(rand.NewSource(rng.Int63())))
		}
		// one ReadFrom goroutine
		wg.Add(1)
		go func(r *rand.Rand) {
			defer wg.Done()
			pr, pw := io.Pipe()
			go func() {
				for i := uint32(0); i < 30; i++ {
					if _, err := pw.Write(mk(2, i, 8*(1+r.Intn(10)))); err != nil {
						return
					}
				}
				pw.Close()
			}()
			st.ReadFrom(pr)
			pr.Close()
		}(rand.New(rand.NewSource(rng.Int63())))
		// closers
		for c := 0; c < 2; c++ {
			wg.Add(1)
			go func(d time.Duration) {
				defer wg.Done()
				time.Sleep(d)
				st.Close()
			}(time.Duration(rng.Intn(3000)) * time.Microsecond)
		}
	}
	wg.Wait()
	cs.Close()
	time.Sleep(5 * time.Millisecond)
	for _, s := range sinks {
		s.Close()
	}

	mu.Lock()
	defer mu.Unlock()
	type fr struct {
		seq     uint64
		closing uint8
		payload []byte
		order   int
	}
	per := map[uint32][]fr{}
	seen := map[[2]uint64]bool{}
	for i, raw := range frames {
		var f Frame
		if err := obfs.deobfuscate(&f, append([]byte(nil), raw...)); err != nil {
			t.Fatalf("seed %d: cannot decrypt captured frame: %v", seed, err)
		}
		k := [2]uint64{uint64(f.StreamID), f.Seq}
		if seen[k] {
			t.Fatalf("seed %d: (stream %d, seq %d) used twice", seed, f.StreamID, f.Seq)
		}
		seen[k] = true
		per[f.StreamID] = append(per[f.StreamID], fr{f.Seq, f.Closing, append([]byte(nil), f.Payload...), i})
	}
	for id, fs := range per {
		if id == 0xffffffff {
			continue
		}
		sort.Slice(fs, func(i, j int) bool { return fs[i].seq < fs[j].seq })
		nClosing := 0
		last := map[uint32]int64{0: -1, 1: -1, 2: -1}
		var prev wr
		havePrev := false
		var all []byte
		var bound []int
		_ = bound
		for i, f := range fs {
			if failAt == 0 && f.seq != uint64(i) {
				t.Fatalf("seed %d stream %d: gap: position %d has seq %d", seed, id, i, f.seq)
			}
			if f.closing != closingNothing {
				nClosing++
				if i != len(fs)-1 {
					t.Fatalf("seed %d stream %d: closing frame seq %d is not the last (of %d)", seed, id, f.seq, len(fs))
				}
				continue
			}
			all = append(all, f.payload...)
			bound = append(bound, len(all))
		}
		if len(all)%8 != 0 && failAt == 0 {
			t.Fatalf("seed %d stream %d: odd total payload %d", seed, id, len(all))
		}
		// with injected send failures a captured frame may belong to a Write that failed (its number is skipped for
		// the peer) while a concurrent writer of the same stream still got a later frame out before the teardown
		// reached the stream: only uniqueness is checked in that mode
		for off := 0; failAt == 0 && off+8 <= len(all); off += 8 {
			w := wr{binary.BigEndian.Uint32(all[off:]), binary.BigEndian.Uint32(all[off+4:])}
			if havePrev && w == prev {
				continue
			}
			// a new write starts: must be the next one of its writer
			if w.writer > 2 || int64(w.idx) != last[w.writer]+1 {
				var seqs []uint64
				var lens []int
				for _, f := range fs {
					seqs = append(seqs, f.seq)
					lens = append(lens, len(f.payload))
				}
				t.Fatalf("seed %d stream %d: writer %d write %d follows its write %d (offset %d)\nseqs %v\nlens %v closing %d", seed, id, w.writer, w.idx, last[w.writer], off, seqs, lens, nClosing)
			}
			last[w.writer] = int64(w.idx)
			prev, havePrev = w, true
		}
		if nClosing > 1 {
			t.Fatalf("seed %d stream %d: %d closing frames", seed, id, nClosing)
		}
		if failAt == 0 && nClosing != 1 {
			t.Fatalf("seed %d stream %d: %d closing frames", seed, id, nClosing)
		}
	}
	_ = bytes.Equal
}

func TestRED_C13(t *testing.T) {
	for seed := int64(0); seed < 60; seed++ {
		redC13Once(t, seed, byte(seed%4), 0)
	}
	for seed := int64(100); seed < 140; seed++ {
		redC13Once(t, seed, byte(seed%4), 20+int(seed%50))
	}
}
