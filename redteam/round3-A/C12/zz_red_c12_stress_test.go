package multiplex

import (
	"bytes"
	"fmt"
	"math/rand"
	"net"
	"sync"
	"sync/atomic"
	"testing"
	"time"

	"github.com/cbeuw/Cloak/internal/common"
)

// fault kinds: 0 client Close, 1 server Close, 2 kill a connection (both ends see it), 3 both Close at once,
// 4 Close + kill at once
func redC12Once(t *testing.T, iter int, kind int, singleplex bool, unordered bool) {
	rng := rand.New(rand.NewSource(int64(iter)*7 + int64(kind)))
	var key [32]byte
	rng.Read(key[:])
	obfs, _ := MakeObfuscator(byte(iter%4), key)
	numConn := 1 + rng.Intn(3)
	if singleplex {
		numConn = 1
	}
	cs := MakeSession(1, SessionConfig{Obfuscator: obfs, Singleplex: singleplex, Unordered: unordered, MsgOnWireSizeLimit: 16401, InactivityTimeout: time.Hour})
	ss := MakeSession(1, SessionConfig{Obfuscator: obfs, Unordered: unordered, MsgOnWireSizeLimit: 16401, InactivityTimeout: time.Hour})
	var raws []net.Conn
	var trks []*redTrk
	for i := 0; i < numConn; i++ {
		a, b := redTCPPair(t)
		raws = append(raws, a, b)
		ta, tb := &redTrk{Conn: common.NewTLSConn(a)}, &redTrk{Conn: common.NewTLSConn(b)}
		trks = append(trks, ta, tb)
		cs.AddConnection(ta)
		ss.AddConnection(tb)
	}

	var wg sync.WaitGroup
	var problems sync.Map
	report := func(f string, a ...interface{}) { problems.Store(fmt.Sprintf(f, a...), true) }

	// server
	wg.Add(1)
	go func() {
		defer wg.Done()
		for {
			c, err := ss.Accept()
			if err != nil {
				return
			}
			wg.Add(1)
			go func(c net.Conn) {
				defer wg.Done()
				buf := make([]byte, 70000)
				for {
					n, err := c.Read(buf)
					if n > 0 {
						if _, werr := c.Write(buf[:n]); werr != nil {
							// keep reading until error so that the reader also returns
							for {
								if _, err := c.Read(buf); err != nil {
									return
								}
							}
						}
					}
					if err != nil {
						return
					}
				}
			}(c)
		}
	}()

	nStreams := 1 + rng.Intn(6)
	if singleplex {
		nStreams = 1
	}
	for i := 0; i < nStreams; i++ {
		st, err := cs.OpenStream()
		if err != nil {
			report("open: %v", err)
			continue
		}
		seed := rng.Int63()
		wg.Add(2)
		written := make(chan []byte, 1)
		go func() { // writer
			defer wg.Done()
			r := rand.New(rand.NewSource(seed))
			var all []byte
			for {
				sz := 1 + r.Intn(3000)
				if unordered {
					sz = 1 + r.Intn(1000)
				}
				b := make([]byte, sz)
				r.Read(b)
				n, err := st.Write(b)
				all = append(all, b[:n]...)
				if err != nil {
					// everything offered so far might have been delivered
					all = append(all, b[n:]...)
					written <- all
					return
				}
			}
		}()
		go func() { // reader
			defer wg.Done()
			var got []byte
			buf := make([]byte, 70000)
			for {
				n, err := st.Read(buf)
				got = append(got, buf[:n]...)
				if err != nil {
					break
				}
			}
			w := <-written
			if !unordered && !bytes.HasPrefix(w, got) {
				report("stream: echoed bytes are not a prefix of written (got %d, written %d)", len(got), len(w))
			}
		}()
	}

	time.Sleep(time.Duration(rng.Intn(3000)) * time.Microsecond)
	switch kind {
	case 0:
		cs.Close()
	case 1:
		ss.Close()
	case 2:
		raws[rng.Intn(len(raws))].Close()
	case 3:
		go cs.Close()
		ss.Close()
	case 4:
		go raws[rng.Intn(len(raws))].Close()
		if rng.Intn(2) == 0 {
			cs.Close()
		} else {
			ss.Close()
		}
	}

	done := make(chan struct{})
	go func() { wg.Wait(); close(done) }()
	select {
	case <-done:
	case <-time.After(10 * time.Second):
		t.Fatalf("iter %d kind %d: goroutines still blocked after fault\n%s", iter, kind, redDumpStacks())
	}
	deadline := time.Now().Add(5 * time.Second)
	for {
		ok := cs.IsClosed() && ss.IsClosed()
		for _, tr := range trks {
			if atomic.LoadInt32(&tr.closed) != 1 {
				ok = false
			}
		}
		if ok {
			break
		}
		if time.Now().After(deadline) {
			var open []int
			for i, tr := range trks {
				if atomic.LoadInt32(&tr.closed) != 1 {
					open = append(open, i)
				}
			}
			t.Fatalf("iter %d kind %d numConn %d: closed c=%v s=%v, connections not closed: %v (%q / %q)", iter, kind, numConn, cs.IsClosed(), ss.IsClosed(), open, cs.TerminalMsg(), ss.TerminalMsg())
		}
		time.Sleep(time.Millisecond)
	}
	if _, err := cs.OpenStream(); err == nil {
		t.Errorf("iter %d: OpenStream succeeded on closed client session", iter)
	}
	if _, err := ss.OpenStream(); err == nil {
		t.Errorf("iter %d: OpenStream succeeded on closed server session", iter)
	}
	if _, err := ss.Accept(); err == nil {
		// queued streams allowed; drain
		for {
			if _, err := ss.Accept(); err != nil {
				break
			}
		}
	}
	problems.Range(func(k, _ interface{}) bool { t.Errorf("iter %d kind %d: %s", iter, kind, k); return true })
	for _, r := range raws {
		r.Close()
	}
}

func TestRED_C12_Stress(t *testing.T) {
	for iter := 0; iter < 150; iter++ {
		for kind := 0; kind < 5; kind++ {
			redC12Once(t, iter, kind, false, false)
		}
	}
}

func TestRED_C12_StressSingleplex(t *testing.T) {
	for iter := 0; iter < 100; iter++ {
		for kind := 0; kind < 5; kind++ {
			redC12Once(t, iter, kind, true, false)
		}
	}
}

func TestRED_C12_StressUnordered(t *testing.T) {
	for iter := 0; iter < 100; iter++ {
		for kind := 0; kind < 5; kind++ {
			redC12Once(t, iter, kind, false, true)
		}
	}
}
