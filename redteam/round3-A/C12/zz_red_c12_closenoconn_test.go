//go:build verif

package multiplex

import (
	"net"
	"sync/atomic"
	"testing"
	"time"

	"github.com/cbeuw/Cloak/internal/common"
)

// C12: "... or either side closes the session ... all of the session's connections end up closed."
//
// Session.Close() returns early - WITHOUT calling sb.closeAll() - whenever sending the session-closing frame
// fails. One way to fail is pickRandConn seeing connsCount == 0. addConn (fix a752ac9) tests
// broken/IsClosed under addConnM, but Close() does not take addConnM before it sends, and when the send fails
// it never reaches closeAll (which is what would wait on addConnM and sweep). So an AddConnection that has
// passed its closed-test when Close() runs on a session that has no other connection is stored, read from and
// never closed by anybody; the peer is never told either (no closing frame, no EOF).
//
// On the server this is: the session is made by GetSession, the reply of the handshake is written, and
// AddConnection runs while the session's inactivity timer (started in MakeSession) fires.
//
// The interleaving is pinned with the project's own schedule point "switchboard.addConn:between".

type redTrackedConn struct {
	net.Conn
	closed int32
}

func (c *redTrackedConn) Close() error {
	atomic.StoreInt32(&c.closed, 1)
	return c.Conn.Close()
}

func TestRED_C12_CloseWhileFirstConnectionIsBeingAdded(t *testing.T) {
	var key [32]byte
	obfs, _ := MakeObfuscator(EncryptionMethodPlain, key)
	sesh := MakeSession(1, SessionConfig{Obfuscator: obfs, InactivityTimeout: time.Hour})

	local, remote := net.Pipe()
	tracked := &redTrackedConn{Conn: common.NewTLSConn(local)}

	parked := make(chan struct{})
	release := make(chan struct{})
	common.SetVerifHook(func(label string) {
		if label == "switchboard.addConn:between" {
			close(parked)
			<-release
		}
	})
	defer common.SetVerifHook(nil)

	addDone := make(chan struct{})
	go func() {
		sesh.AddConnection(tracked) // has passed addConn's closed test, is parked before publishing the count
		close(addDone)
	}()
	<-parked

	closeErr := sesh.Close() // e.g. checkTimeout firing now
	t.Logf("Session.Close() returned: %v", closeErr)
	if !sesh.IsClosed() {
		t.Fatal("session not closed")
	}
	close(release)
	<-addDone

	// what the peer sees on that connection: it must end (EOF / closed pipe) once the session is closed
	peerSawEnd := make(chan error, 1)
	go func() {
		buf := make([]byte, 1024)
		for {
			_, err := remote.Read(buf)
			if err != nil {
				peerSawEnd <- err
				return
			}
		}
	}()

	select {
	case <-peerSawEnd:
	case <-time.After(2 * time.Second):
	}
	if atomic.LoadInt32(&tracked.closed) != 1 {
		t.Errorf("VIOLATION: the session is closed (IsClosed=%v) but its connection was never closed: "+
			"connsCount=%d broken=%d - the peer still holds a connection it believes healthy",
			sesh.IsClosed(), atomic.LoadUint32(&sesh.sb.connsCount), atomic.LoadUint32(&sesh.sb.broken))
	}
	remote.Close()
}
