package test

import (
	"bytes"
	"encoding/binary"
	"fmt"
	"io"
	"math/rand"
	"net"
	"sync"
	"testing"
	"time"

	"github.com/cbeuw/Cloak/internal/client"
	"github.com/cbeuw/Cloak/internal/common"
	mux "github.com/cbeuw/Cloak/internal/multiplex"
	"github.com/cbeuw/Cloak/internal/server"

	log "github.com/sirupsen/logrus"
)

type redFixedDialer struct{ addr string }

func (d redFixedDialer) Dial(network, address string) (net.Conn, error) {
	return net.Dial("tcp", d.addr)
}

// everything over real loopback TCP
func redEstablish(t *testing.T, raw client.RawConfig, enc string) (appAddr string, proxyL net.Listener) {
	worldState := common.WorldOfTime(time.Unix(10, 0))
	raw.EncryptionMethod = enc
	lcc, rcc, ai := generateClientConfigs(raw, worldState)
	sta, err := server.InitState(server.RawConfig{
		ProxyBook:  map[string][]string{"shadowsocks": {"tcp", "127.0.0.1:9999"}},
		BindAddr:   []string{"127.0.0.1:9999"},
		BypassUID:  [][]byte{bypassUID[:]},
		RedirAddr:  "127.0.0.1:9999",
		PrivateKey: privateKey,
		KeepAlive:  15,
	}, worldState)
	if err != nil {
		t.Fatal(err)
	}

	ckServerL, err := net.Listen("tcp", "127.0.0.1:0")
	if err != nil {
		t.Fatal(err)
	}
	proxyL, err = net.Listen("tcp", "127.0.0.1:0")
	if err != nil {
		t.Fatal(err)
	}
	appL, err := net.Listen("tcp", "127.0.0.1:0")
	if err != nil {
		t.Fatal(err)
	}
	sta.ProxyDialer = redFixedDialer{proxyL.Addr().String()}
	sta.RedirDialer = redFixedDialer{proxyL.Addr().String()}
	go server.Serve(ckServerL, sta)

	seshMaker := func() *mux.Session {
		ai := ai
		quad := make([]byte, 4)
		common.RandRead(ai.WorldState.Rand, quad)
		ai.SessionId = binary.BigEndian.Uint32(quad)
		return client.MakeSession(rcc, ai, redFixedDialer{ckServerL.Addr().String()})
	}
	go client.RouteTCP(appL, lcc.Timeout, rcc.Singleplex, seshMaker)
	return appL.Addr().String(), proxyL
}

// one-shot: the application writes B and closes; the proxy-side application must read exactly B then EOF
func TestRED_E2E_SendThenClose(t *testing.T) {
	log.SetLevel(log.FatalLevel)
	for name, raw := range map[string]client.RawConfig{"multiplex": basicTCPConfig, "singleplex": singleplexTCPConfig} {
		for _, enc := range []string{"plain", "aes-gcm", "chacha20-poly1305", "aes-128-gcm"} {
			t.Run(name+"_"+enc, func(t *testing.T) {
				appAddr, proxyL := redEstablish(t, raw, enc)
				var mu sync.Mutex
				got := map[uint64][]byte{}
				var swg sync.WaitGroup
				go func() {
					for {
						c, err := proxyL.Accept()
						if err != nil {
							return
						}
						swg.Add(1)
						go func() {
							defer swg.Done()
							defer c.Close()
							b, _ := io.ReadAll(c)
							if len(b) >= 8 {
								mu.Lock()
								got[binary.BigEndian.Uint64(b)] = b
								mu.Unlock()
							}
						}()
					}
				}()
				const n = 60
				var wg sync.WaitGroup
				want := make([][]byte, n)
				for i := 0; i < n; i++ {
					r := rand.New(rand.NewSource(int64(i)))
					sz := 8 + r.Intn(100000)
					if i%5 == 0 {
						sz = 8 + r.Intn(50)
					}
					b := make([]byte, sz)
					r.Read(b)
					binary.BigEndian.PutUint64(b, uint64(i))
					want[i] = b
					wg.Add(1)
					go func(i int) {
						defer wg.Done()
						c, err := net.Dial("tcp", appAddr)
						if err != nil {
							t.Error(err)
							return
						}
						off := 0
						for off < len(b) {
							k := 1 + r.Intn(30000)
							if off+k > len(b) {
								k = len(b) - off
							}
							if _, err := c.Write(b[off : off+k]); err != nil {
								t.Errorf("app write: %v", err)
								return
							}
							off += k
						}
						c.Close()
					}(i)
				}
				wg.Wait()
				deadline := time.Now().Add(10 * time.Second)
				for {
					mu.Lock()
					l := len(got)
					mu.Unlock()
					if l == n || time.Now().After(deadline) {
						break
					}
					time.Sleep(10 * time.Millisecond)
				}
				time.Sleep(100 * time.Millisecond)
				mu.Lock()
				defer mu.Unlock()
				for i := 0; i < n; i++ {
					g, ok := got[uint64(i)]
					if !ok {
						t.Errorf("conn %d (%d bytes): nothing (or <8 bytes) arrived / no EOF", i, len(want[i]))
						continue
					}
					if !bytes.Equal(g, want[i]) {
						t.Errorf("conn %d: got %d bytes want %d (prefix %v)", i, len(g), len(want[i]), bytes.HasPrefix(want[i], g))
					}
				}
				proxyL.Close()
			})
		}
	}
}

// echo: app writes B in pieces while reading the echo; closes after it has read everything
func TestRED_E2E_Echo(t *testing.T) {
	log.SetLevel(log.FatalLevel)
	for name, raw := range map[string]client.RawConfig{"multiplex": basicTCPConfig, "singleplex": singleplexTCPConfig} {
		t.Run(name, func(t *testing.T) {
			appAddr, proxyL := redEstablish(t, raw, "aes-gcm")
			go serveTCPEcho(proxyL)
			var wg sync.WaitGroup
			for i := 0; i < 80; i++ {
				wg.Add(1)
				go func(i int) {
					defer wg.Done()
					r := rand.New(rand.NewSource(int64(i)))
					b := make([]byte, 1+r.Intn(300000))
					r.Read(b)
					c, err := net.Dial("tcp", appAddr)
					if err != nil {
						t.Error(err)
						return
					}
					defer c.Close()
					go func() {
						off := 0
						for off < len(b) {
							k := 1 + r.Intn(40000)
							if off+k > len(b) {
								k = len(b) - off
							}
							c.Write(b[off : off+k])
							off += k
						}
					}()
					g := make([]byte, len(b))
					c.SetReadDeadline(time.Now().Add(30 * time.Second))
					if _, err := io.ReadFull(c, g); err != nil {
						t.Errorf("conn %d: %v", i, err)
						return
					}
					if !bytes.Equal(g, b) {
						t.Errorf("conn %d: echo differs", i)
					}
				}(i)
			}
			wg.Wait()
			proxyL.Close()
		})
	}
	_ = fmt.Sprint
}

// the proxy-side application answers a short request with B and closes; the application must read exactly B then EOF
func TestRED_E2E_ReplyThenClose(t *testing.T) {
	log.SetLevel(log.FatalLevel)
	for name, raw := range map[string]client.RawConfig{"multiplex": basicTCPConfig, "singleplex": singleplexTCPConfig} {
		t.Run(name, func(t *testing.T) {
			appAddr, proxyL := redEstablish(t, raw, "chacha20-poly1305")
			mk := func(seed int64) []byte {
				r := rand.New(rand.NewSource(seed))
				b := make([]byte, r.Intn(200000))
				r.Read(b)
				return b
			}
			go func() {
				for {
					c, err := proxyL.Accept()
					if err != nil {
						return
					}
					go func() {
						defer c.Close()
						hdr := make([]byte, 8)
						if _, err := io.ReadFull(c, hdr); err != nil {
							return
						}
						c.Write(mk(int64(binary.BigEndian.Uint64(hdr))))
					}()
				}
			}()
			var wg sync.WaitGroup
			for i := 0; i < 60; i++ {
				wg.Add(1)
				go func(i int) {
					defer wg.Done()
					c, err := net.Dial("tcp", appAddr)
					if err != nil {
						t.Error(err)
						return
					}
					defer c.Close()
					hdr := make([]byte, 8)
					binary.BigEndian.PutUint64(hdr, uint64(i))
					c.Write(hdr)
					c.SetReadDeadline(time.Now().Add(30 * time.Second))
					g, err := io.ReadAll(c)
					w := mk(int64(i))
					if err != nil || !bytes.Equal(g, w) {
						t.Errorf("conn %d: err %v, got %d bytes want %d (prefix %v)", i, err, len(g), len(w), bytes.HasPrefix(w, g))
					}
				}(i)
			}
			wg.Wait()
			proxyL.Close()
		})
	}
}
