package multiplex

// shared helpers of the zz_red_* tests (copy this file together with any of them)

import (
	"math/rand"
	"net"
	"runtime"
	"sync"
	"sync/atomic"
	"testing"
	"time"

	"github.com/cbeuw/Cloak/internal/common"
)

// delayConn delays every Write by a random amount (per connection scale), to reorder frames across connections
type redDelayConn struct {
	net.Conn
	max time.Duration
	mu  sync.Mutex
	rng *rand.Rand
}

func (d *redDelayConn) Write(b []byte) (int, error) {
	d.mu.Lock()
	dl := time.Duration(d.rng.Int63n(int64(d.max) + 1))
	d.mu.Unlock()
	if dl > 0 {
		time.Sleep(dl)
	}
	return d.Conn.Write(b)
}

func redTCPPair(t testing.TB) (net.Conn, net.Conn) {
	l, err := net.Listen("tcp", "127.0.0.1:0")
	if err != nil {
		t.Fatal(err)
	}
	defer l.Close()
	ch := make(chan net.Conn, 1)
	go func() {
		c, _ := l.Accept()
		ch <- c
	}()
	c, err := net.Dial("tcp", l.Addr().String())
	if err != nil {
		t.Fatal(err)
	}
	return c, <-ch
}

func redMakePair(t testing.TB, enc byte, numConn int, singleplex bool, delay time.Duration, seed int64) (*Session, *Session) {
	var key [32]byte
	rand.New(rand.NewSource(seed)).Read(key[:])
	obfs, err := MakeObfuscator(enc, key)
	if err != nil {
		t.Fatal(err)
	}
	cc := SessionConfig{Obfuscator: obfs, Singleplex: singleplex, MsgOnWireSizeLimit: 16401, InactivityTimeout: time.Hour}
	sc := SessionConfig{Obfuscator: obfs, MsgOnWireSizeLimit: 16401, InactivityTimeout: time.Hour}
	cs := MakeSession(1, cc)
	ss := MakeSession(1, sc)
	for i := 0; i < numConn; i++ {
		a, b := redTCPPair(t)
		var ca, cb net.Conn = common.NewTLSConn(a), common.NewTLSConn(b)
		if delay > 0 {
			ca = &redDelayConn{Conn: ca, max: delay * time.Duration(i+1), rng: rand.New(rand.NewSource(seed + int64(i)))}
			cb = &redDelayConn{Conn: cb, max: delay * time.Duration(numConn-i), rng: rand.New(rand.NewSource(seed - int64(i)))}
		}
		cs.AddConnection(ca)
		ss.AddConnection(cb)
	}
	return cs, ss
}

type redTrk struct {
	net.Conn
	closed int32
}

func (c *redTrk) Close() error {
	atomic.StoreInt32(&c.closed, 1)
	return c.Conn.Close()
}

func redDumpStacks() string {
	buf := make([]byte, 1<<20)
	n := runtime.Stack(buf, true)
	return string(buf[:n])
}

