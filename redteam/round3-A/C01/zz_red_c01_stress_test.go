package multiplex

import (
	"bytes"
	"crypto/sha256"
	"fmt"
	"io"
	"math/rand"
	"net"
	"sync"
	"testing"
	"time"
)

func TestRED_C01_Stress(t *testing.T) {
	encs := []byte{EncryptionMethodPlain, EncryptionMethodAES128GCM, EncryptionMethodAES256GCM, EncryptionMethodChaha20Poly1305}
	for _, enc := range encs {
		for _, nc := range []int{1, 3, 8} {
			t.Run(fmt.Sprintf("enc%d_conn%d", enc, nc), func(t *testing.T) {
				cs, ss := redMakePair(t, enc, nc, false, 300*time.Microsecond, int64(enc)*100+int64(nc))
				const nStreams = 40
				var wg sync.WaitGroup
				errs := make(chan error, 4*nStreams)
				// server: accept, echo with hash check
				go func() {
					for {
						c, err := ss.Accept()
						if err != nil {
							return
						}
						go func(c net.Conn) {
							buf := make([]byte, 5000)
							for {
								n, err := c.Read(buf)
								if n > 0 {
									if _, werr := c.Write(buf[:n]); werr != nil {
										return
									}
								}
								if err != nil {
									c.Close()
									return
								}
							}
						}(c)
					}
				}()
				for i := 0; i < nStreams; i++ {
					wg.Add(1)
					go func(i int) {
						defer wg.Done()
						rng := rand.New(rand.NewSource(int64(i)))
						st, err := cs.OpenStream()
						if err != nil {
							errs <- err
							return
						}
						total := 20000 + rng.Intn(120000)
						data := make([]byte, total)
						rng.Read(data)
						var rwg sync.WaitGroup
						rwg.Add(1)
						go func() {
							defer rwg.Done()
							got := make([]byte, total)
							_, err := io.ReadFull(st, got)
							if err != nil {
								errs <- fmt.Errorf("stream %d read: %v", i, err)
								return
							}
							if !bytes.Equal(got, data) {
								errs <- fmt.Errorf("stream %d: data mismatch %x vs %x", i, sha256.Sum256(got), sha256.Sum256(data))
							}
						}()
						off := 0
						for off < total {
							var sz int
							switch rng.Intn(4) {
							case 0:
								sz = 1
							case 1:
								sz = 1 + rng.Intn(100)
							case 2:
								sz = 16132 + rng.Intn(3) - 1
							default:
								sz = 1 + rng.Intn(40000)
							}
							if off+sz > total {
								sz = total - off
							}
							n, err := st.Write(data[off : off+sz])
							if err != nil || n != sz {
								errs <- fmt.Errorf("stream %d write: %d %v", i, n, err)
								return
							}
							off += sz
						}
						rwg.Wait()
						st.Close()
					}(i)
				}
				done := make(chan struct{})
				go func() { wg.Wait(); close(done) }()
				select {
				case <-done:
				case <-time.After(60 * time.Second):
					t.Fatal("timeout")
				}
				close(errs)
				for e := range errs {
					t.Error(e)
				}
				if cs.IsClosed() || ss.IsClosed() {
					t.Errorf("session closed: %q %q", cs.TerminalMsg(), ss.TerminalMsg())
				}
				time.Sleep(50 * time.Millisecond)
				if cs.streamCount() != 0 || ss.streamCount() != 0 {
					t.Errorf("counts: %d %d", cs.streamCount(), ss.streamCount())
				}
				cs.Close()
				ss.Close()
			})
		}
	}
}
