package multiplex

import (
	"bytes"
	"errors"
	"fmt"
	"math/rand"
	"net"
	"sync"
	"testing"
	"time"
)

func redReadAll(c net.Conn) ([]byte, error) {
	var got []byte
	buf := make([]byte, 4096)
	for {
		n, err := c.Read(buf)
		got = append(got, buf[:n]...)
		if err != nil {
			return got, err
		}
	}
}

func TestRED_C03_WriteThenClose(t *testing.T) {
	for iter := 0; iter < 24; iter++ {
		rng := rand.New(rand.NewSource(int64(iter)))
		nc := 1 + iter%8
		singleplex := iter%6 == 5
		if singleplex {
			nc = 1
		}
		cs, ss := redMakePair(t, byte(iter%4), nc, singleplex, 400*time.Microsecond, int64(iter))
		nStreams := 12
		if singleplex {
			nStreams = 1
		}
		var wg sync.WaitGroup
		var mu sync.Mutex
		want := map[string][]byte{} // keyed by first 8 bytes
		var errs []string
		fail := func(f string, a ...interface{}) { mu.Lock(); errs = append(errs, fmt.Sprintf(f, a...)); mu.Unlock() }

		// server side: for each accepted stream: mode by first byte: 'c' client closes: read all; then (server) also
		// write-then-close back for half of them before reading
		wg.Add(1)
		go func() {
			defer wg.Done()
			for k := 0; k < nStreams; k++ {
				c, err := ss.Accept()
				if err != nil {
					fail("accept: %v", err)
					return
				}
				wg.Add(1)
				go func(c net.Conn) {
					defer wg.Done()
					got, err := redReadAll(c)
					if !errors.Is(err, ErrBrokenStream) {
						fail("server read error %v", err)
					}
					if len(got) < 8 {
						fail("server got only %d bytes", len(got))
						return
					}
					mu.Lock()
					w := want[string(got[:8])]
					mu.Unlock()
					if !bytes.Equal(got, w) {
						fail("server got %d bytes, want %d (equal prefix: %v)", len(got), len(w), bytes.HasPrefix(w, got))
					}
					if _, err := c.Write([]byte("x")); err == nil {
						fail("write after processing the peer's close succeeded")
					}
				}(c)
			}
		}()
		for s := 0; s < nStreams; s++ {
			st, err := cs.OpenStream()
			if err != nil {
				t.Fatal(err)
			}
			sz := 8 + rng.Intn(60000)
			if s%4 == 0 {
				sz = 8
			}
			data := make([]byte, sz)
			rng.Read(data)
			mu.Lock()
			want[string(data[:8])] = data
			mu.Unlock()
			wg.Add(1)
			go func(st *Stream, data []byte, r *rand.Rand) {
				defer wg.Done()
				off := 0
				for off < len(data) {
					n := 1 + r.Intn(20000)
					if off+n > len(data) {
						n = len(data) - off
					}
					if _, err := st.Write(data[off : off+n]); err != nil {
						fail("write: %v", err)
						return
					}
					off += n
				}
				if err := st.Close(); err != nil && !singleplex {
					fail("close: %v", err)
				}
				if _, err := st.Write([]byte("y")); err == nil {
					fail("write after close succeeded")
				}
			}(st, data, rand.New(rand.NewSource(rng.Int63())))
		}
		done := make(chan struct{})
		go func() { wg.Wait(); close(done) }()
		select {
		case <-done:
		case <-time.After(30 * time.Second):
			t.Fatalf("iter %d timeout\n%s", iter, redDumpStacks())
		}
		for _, e := range errs {
			t.Errorf("iter %d (conns %d singleplex %v): %s", iter, nc, singleplex, e)
		}
		cs.Close()
		ss.Close()
	}
}

// server side writes then closes (close initiated by the accepting side), client reads; and simultaneous closes
func TestRED_C03_ServerCloses_and_Simultaneous(t *testing.T) {
	for iter := 0; iter < 24; iter++ {
		rng := rand.New(rand.NewSource(int64(iter) + 1000))
		nc := 1 + iter%8
		singleplex := iter%6 == 5
		if singleplex {
			nc = 1
		}
		cs, ss := redMakePair(t, byte(iter%4), nc, singleplex, 400*time.Microsecond, int64(iter)+77)
		nStreams := 10
		if singleplex {
			nStreams = 1
		}
		var wg sync.WaitGroup
		var mu sync.Mutex
		var errs []string
		fail := func(f string, a ...interface{}) { mu.Lock(); errs = append(errs, fmt.Sprintf(f, a...)); mu.Unlock() }
		mkdata := func(seed int64) []byte {
			r := rand.New(rand.NewSource(seed))
			b := make([]byte, r.Intn(50000))
			r.Read(b)
			return b
		}
		wg.Add(1)
		go func() {
			defer wg.Done()
			for k := 0; k < nStreams; k++ {
				c, err := ss.Accept()
				if err != nil {
					fail("accept: %v", err)
					return
				}
				wg.Add(1)
				go func(c net.Conn) {
					defer wg.Done()
					hdr := make([]byte, 9)
					if _, err := readFull(c, hdr); err != nil {
						fail("hdr: %v", err)
						return
					}
					seed := int64(0)
					for i := 0; i < 8; i++ {
						seed = seed<<8 | int64(hdr[i])
					}
					simultaneous := hdr[8] == 1
					data := mkdata(seed)
					if _, err := c.Write(data); err != nil && !simultaneous {
						fail("server write: %v", err)
					}
					c.Close()
					if simultaneous {
						// whatever had arrived stays readable, then the error
						got, err := redReadAll(c)
						if !errors.Is(err, ErrBrokenStream) {
							fail("server read after own close: %v", err)
						}
						if !bytes.HasPrefix(mkdata(seed+1), got) {
							fail("server: not a prefix of the client's bytes")
						}
					}
				}(c)
			}
		}()
		for s := 0; s < nStreams; s++ {
			st, err := cs.OpenStream()
			if err != nil {
				t.Fatal(err)
			}
			seed := rng.Int63() >> 8
			simultaneous := s%2 == 1 && !singleplex
			wg.Add(1)
			go func(st *Stream) {
				defer wg.Done()
				hdr := make([]byte, 9)
				for i := 0; i < 8; i++ {
					hdr[i] = byte(seed >> (8 * (7 - i)))
				}
				if simultaneous {
					hdr[8] = 1
				}
				st.Write(hdr)
				want := mkdata(seed)
				if simultaneous {
					st.Write(mkdata(seed + 1))
					st.Close()
					got, err := redReadAll(st)
					if !errors.Is(err, ErrBrokenStream) {
						fail("client read after own close: %v", err)
					}
					if !bytes.HasPrefix(want, got) {
						fail("client: not a prefix of the server's bytes")
					}
					return
				}
				got, err := redReadAll(st)
				if !errors.Is(err, ErrBrokenStream) {
					fail("client read error: %v", err)
				}
				if !bytes.Equal(got, want) {
					fail("client got %d bytes, want %d (prefix %v)", len(got), len(want), bytes.HasPrefix(want, got))
				}
				if _, err := st.Write([]byte("z")); err == nil {
					fail("client write after processing the peer's close succeeded")
				}
			}(st)
		}
		done := make(chan struct{})
		go func() { wg.Wait(); close(done) }()
		select {
		case <-done:
		case <-time.After(30 * time.Second):
			t.Fatalf("iter %d timeout\n%s", iter, redDumpStacks())
		}
		for _, e := range errs {
			t.Errorf("iter %d (conns %d singleplex %v): %s", iter, nc, singleplex, e)
		}
		cs.Close()
		ss.Close()
	}
}

func readFull(c net.Conn, b []byte) (int, error) {
	n := 0
	for n < len(b) {
		m, err := c.Read(b[n:])
		n += m
		if err != nil {
			return n, err
		}
	}
	return n, nil
}
