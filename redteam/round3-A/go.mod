module red

go 1.24

// only here so that the parent module's ./... patterns skip this directory; the files are meant to be copied
// into internal/multiplex (and internal/test), see the notes.md files
