package server

import (
	"bytes"
	"io"
	"testing"
	"time"

	mux "github.com/cbeuw/Cloak/internal/multiplex"
)

func TestRedSmoke(t *testing.T) {
	rs := redMakeServer(t, nil, nil)
	uid := redUID(1)
	rs.addUser(t, uid, 2, 1<<30, 1<<30, time.Now().Add(time.Hour))

	c1, err := rs.handshake(uid, 7, 2*time.Second)
	if err != nil {
		t.Fatal(err)
	}
	c2, err := rs.handshake(uid, 7, 2*time.Second)
	if err != nil {
		t.Fatal(err)
	}
	if c1.key != c2.key {
		t.Fatal("keys differ")
	}
	valve := mux.MakeValve(1<<40, 1<<40)
	sesh := redClientSession(7, valve, c1, c2)
	st, err := sesh.OpenStream()
	if err != nil {
		t.Fatal(err)
	}
	msg := bytes.Repeat([]byte("x"), 50000)
	go st.Write(msg)
	got := make([]byte, len(msg))
	if _, err := io.ReadFull(st, got); err != nil {
		t.Fatal(err)
	}
	time.Sleep(100 * time.Millisecond)
	if err := rs.uploadRound(); err != nil {
		t.Fatal(err)
	}
	up, down := rs.credit(t, uid)
	t.Logf("client tx %d rx %d; server charged up %d down %d", valve.GetTx(), valve.GetRx(), 1<<30-up, 1<<30-down)
	if 1<<30-up != valve.GetTx() || 1<<30-down != valve.GetRx() {
		t.Fatal("mismatch")
	}
}
