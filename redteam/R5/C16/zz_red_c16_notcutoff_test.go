package server

// C16 demonstration: an upload leaves a user's download credit far below zero, yet NOT all of that
// user's sessions are closed: one of them keeps carrying traffic for as long as the user likes, and
// that traffic is never charged (nor is anybody else's: no later upload round can complete).
//
// Root cause (shared with the C17 demonstration): TerminateActiveUser -> closeAllSessions walks the
// user's sessions under sessionsM and calls Session.Close() on each; Session.Close() writes a closing
// frame to the client with no deadline. The first session whose client does not read (full TCP window)
// blocks the walk; the sessions that come later in the (random) map order are never closed.

import (
	"bytes"
	"io"
	"net"
	"testing"
	"time"
)

// one attempt; reproduced == false means closeAllSessions happened to visit the good session first
func redC16Attempt(t *testing.T) (reproduced bool) {
	flood := func(conn net.Conn) {
		buf := make([]byte, 32*1024)
		io.ReadFull(conn, buf[:2])
		if string(buf[:2]) != "go" { // everybody else gets an echo service
			io.Copy(conn, conn)
			return
		}
		for {
			if _, err := conn.Write(buf); err != nil {
				return
			}
		}
	}
	rs := redMakeServer(t, nil, flood)
	uid := redUID(0xC6)
	const downCredit = 100000
	rs.addUser(t, uid, 4, 1<<40, downCredit, time.Now().Add(time.Hour))

	// the session the user wants to keep
	gc, err := rs.handshake(uid, 1, 2*time.Second)
	if err != nil {
		t.Fatal(err)
	}
	good := redClientSession(1, nil, gc)

	// three sessions on which the user starts a download and stops reading
	resume := make(chan struct{})
	defer close(resume)
	for sid := uint32(2); sid <= 4; sid++ {
		c, err := rs.handshake(uid, sid, 2*time.Second)
		if err != nil {
			t.Fatal(err)
		}
		st := &stallTransport{Transport: c.Transport, resume: resume}
		st.stalled.Store(true)
		c.Transport = st
		s := redClientSession(sid, nil, c)
		stream, err := s.OpenStream()
		if err != nil {
			t.Fatal(err)
		}
		stream.Write([]byte("go"))
	}
	au := rs.activeUser(uid)
	last, stable := int64(-1), 0
	for i := 0; i < 600 && stable < 20; i++ {
		time.Sleep(10 * time.Millisecond)
		if cur := au.valve.GetTx(); cur == last && cur > 0 {
			stable++
		} else {
			last, stable = cur, 0
		}
	}
	if stable < 20 {
		t.Skip("could not fill the TCP windows on this machine")
	}

	// the periodic usage upload
	done := make(chan error, 1)
	go func() { done <- rs.uploadRound() }()
	if !redEventually(2*time.Second, func() bool { _, d := rs.credit(t, uid); return d <= 0 }) {
		t.Fatal("upload did not store the usage")
	}
	_, stored := rs.credit(t, uid)
	t.Logf("an upload has left the user's stored download credit at %d", stored)

	// 2 seconds later ...
	time.Sleep(2 * time.Second)
	if good.IsClosed() {
		return false
	}
	stream, err := good.OpenStream()
	if err != nil {
		return false
	}
	msg := bytes.Repeat([]byte("still here "), 20000) // 220 kB up, 220 kB down
	go stream.Write(append([]byte("xx"), msg...))
	got := make([]byte, len(msg))
	stream.SetReadDeadline(time.Now().Add(3 * time.Second))
	if _, err := io.ReadFull(stream, got); err != nil || !bytes.Equal(got, msg) {
		return false
	}
	select {
	case <-done:
		t.Logf("(upload round returned)")
	default:
		t.Logf("the upload round that found the credit exhausted is still blocked in TerminateActiveUser")
	}
	_, stored2 := rs.credit(t, uid)
	t.Errorf("C16: 2s after an upload left the user's download credit at %d (<= 0), one of its sessions is still open "+
		"and has just carried %d bytes in each direction; stored credit still %d (that traffic is not charged)",
		stored, len(msg), stored2)
	return true
}

func TestRedC16_ExhaustedUserNotCutOff(t *testing.T) {
	// closeAllSessions ranges over a map: with 3 stalled sessions and 1 good one the good one survives
	// with probability 3/4 per attempt
	for attempt := 1; attempt <= 8; attempt++ {
		if redC16Attempt(t) {
			t.Logf("reproduced at attempt %d", attempt)
			return
		}
	}
	t.Log("not reproduced in 8 attempts")
}
