package server

// Red-team helpers: a real ck-server State (bolt user database, real Serve loop on a loopback TCP
// listener) and a real ck-client transport handshake. Nothing in the project code is modified.

import (
	"encoding/base64"
	"fmt"
	"io"
	"net"
	"path/filepath"
	"sync"
	"sync/atomic"
	"testing"
	"time"

	"github.com/cbeuw/Cloak/internal/client"
	"github.com/cbeuw/Cloak/internal/common"
	mux "github.com/cbeuw/Cloak/internal/multiplex"
	"github.com/cbeuw/Cloak/internal/server/usermanager"
	log "github.com/sirupsen/logrus"
)

var redPublicKey, _ = base64.StdEncoding.DecodeString("7f7TuKrs264VNSgMno8PkDlyhGhVuOSR8JHLE6H4Ljc=")
var redPrivateKey, _ = base64.StdEncoding.DecodeString("SMWeC6VuZF8S/id65VuFQFlfa7hTEJBpL6wWhqPP100=")
var redAdminUID = []byte{0xAD, 0xAD, 0xAD, 0xAD, 0xAD, 0xAD, 0xAD, 0xAD, 0xAD, 0xAD, 0xAD, 0xAD, 0xAD, 0xAD, 0xAD, 0xAD}

func redUID(b byte) []byte {
	u := make([]byte, 16)
	for i := range u {
		u[i] = b
	}
	return u
}

// funcDialer lets the test play the proxy server behind ck-server
type funcDialer func(network, address string) (net.Conn, error)

func (f funcDialer) Dial(network, address string) (net.Conn, error) { return f(network, address) }

type redServer struct {
	sta     *State
	l       net.Listener
	manager usermanager.UserManager
}

// redMakeServer builds a State exactly as ck-server does (InitState), with a local bolt user database,
// and runs the real Serve loop on a loopback TCP listener. wrap, if not nil, may wrap the UserManager
// (e.g. to delay a database lookup); proxy plays the upstream proxy server.
func redMakeServer(t *testing.T, wrap func(usermanager.UserManager) usermanager.UserManager, proxy func(conn net.Conn)) *redServer {
	log.SetLevel(log.FatalLevel)
	raw := RawConfig{
		ProxyBook:    map[string][]string{"shadowsocks": {"tcp", "127.0.0.1:9"}},
		BindAddr:     []string{"127.0.0.1:0"},
		RedirAddr:    "127.0.0.1",
		PrivateKey:   redPrivateKey,
		AdminUID:     redAdminUID,
		DatabasePath: filepath.Join(t.TempDir(), "users.db"),
		KeepAlive:    15,
	}
	sta, err := InitState(raw, common.RealWorldState)
	if err != nil {
		t.Fatal(err)
	}
	manager := sta.Panel.Manager
	if wrap != nil {
		sta.Panel.Manager = wrap(manager)
	}
	if proxy == nil {
		proxy = func(conn net.Conn) { io.Copy(conn, conn); conn.Close() } // echo
	}
	sta.ProxyDialer = funcDialer(func(network, address string) (net.Conn, error) {
		a, b := net.Pipe()
		go proxy(b)
		return a, nil
	})
	// anything that is redirected to the "web server" is simply closed
	sta.RedirDialer = funcDialer(func(network, address string) (net.Conn, error) {
		return nil, fmt.Errorf("no redirection server in this test")
	})
	l, err := net.Listen("tcp", "127.0.0.1:0")
	if err != nil {
		t.Fatal(err)
	}
	go Serve(l, sta)
	t.Cleanup(func() { l.Close() })
	return &redServer{sta: sta, l: l, manager: manager}
}

func (rs *redServer) addUser(t *testing.T, uid []byte, cap int32, upCredit, downCredit int64, expiry time.Time) {
	err := rs.manager.WriteUserInfo(usermanager.UserInfo{
		UID:         uid,
		SessionsCap: usermanager.JustInt32(cap),
		UpRate:      usermanager.JustInt64(1 << 40),
		DownRate:    usermanager.JustInt64(1 << 40),
		UpCredit:    usermanager.JustInt64(upCredit),
		DownCredit:  usermanager.JustInt64(downCredit),
		ExpiryTime:  usermanager.JustInt64(expiry.Unix()),
	})
	if err != nil {
		t.Fatal(err)
	}
}

func (rs *redServer) credit(t *testing.T, uid []byte) (up, down int64) {
	info, err := rs.manager.GetUserInfo(uid)
	if err != nil {
		t.Fatal(err)
	}
	return *info.UpCredit, *info.DownCredit
}

func (rs *redServer) clientConfigs(uid []byte) (client.RemoteConnConfig, client.AuthInfo) {
	host, port, _ := net.SplitHostPort(rs.l.Addr().String())
	raw := client.RawConfig{
		ServerName:       "www.example.com",
		ProxyMethod:      "shadowsocks",
		EncryptionMethod: "plain",
		UID:              uid,
		PublicKey:        redPublicKey,
		NumConn:          1,
		Transport:        "direct",
		RemoteHost:       host,
		RemotePort:       port,
		LocalHost:        "127.0.0.1",
		LocalPort:        "9999",
		BrowserSig:       "firefox",
	}
	_, rcc, ai, err := raw.ProcessRawConfig(common.RealWorldState)
	if err != nil {
		panic(err)
	}
	return rcc, ai
}

type redConn struct {
	client.Transport          // the prepared connection (what ck-client adds to its session)
	raw              net.Conn // underlying TCP connection
	key              [32]byte
}

// handshake does what one goroutine of client.MakeSession does for one underlying connection:
// dial, transport handshake presenting (uid, sid), obtain the session key.
// A handshake the server does not answer within wait is reported as an error.
func (rs *redServer) handshake(uid []byte, sid uint32, wait time.Duration) (*redConn, error) {
	rcc, ai := rs.clientConfigs(uid)
	ai.SessionId = sid
	tr := rcc.Transport.CreateTransport()
	raw, err := net.Dial("tcp", rcc.RemoteAddr)
	if err != nil {
		return nil, err
	}
	raw.SetDeadline(time.Now().Add(wait))
	key, err := tr.Handshake(raw, ai)
	if err != nil {
		raw.Close()
		return nil, err
	}
	raw.SetDeadline(time.Time{})
	return &redConn{Transport: tr, raw: raw, key: key}, nil
}

// clientSession builds the ck-client side multiplexing session over already prepared connections,
// as client.MakeSession does. valve (may be nil) lets the test count the bytes on the client side.
func redClientSession(sid uint32, valve mux.Valve, conns ...*redConn) *mux.Session {
	obfs, err := mux.MakeObfuscator(mux.EncryptionMethodPlain, conns[0].key)
	if err != nil {
		panic(err)
	}
	sesh := mux.MakeSession(sid, mux.SessionConfig{
		Obfuscator:         obfs,
		Valve:              valve,
		MsgOnWireSizeLimit: appDataMaxLength,
	})
	for _, c := range conns {
		sesh.AddConnection(c.Transport)
	}
	return sesh
}

func (rs *redServer) activeUser(uid []byte) *ActiveUser {
	var arr [16]byte
	copy(arr[:], uid)
	rs.sta.Panel.activeUsersM.RLock()
	defer rs.sta.Panel.activeUsersM.RUnlock()
	return rs.sta.Panel.activeUsers[arr]
}

func (u *ActiveUser) redSession(sid uint32) *mux.Session {
	u.sessionsM.RLock()
	defer u.sessionsM.RUnlock()
	return u.sessions[sid]
}

// one round of what regularQueueUpload does every uploadInterval
func (rs *redServer) uploadRound() error {
	rs.sta.Panel.updateUsageQueue()
	return rs.sta.Panel.commitUpdate()
}

func redEventually(d time.Duration, cond func() bool) bool {
	deadline := time.Now().Add(d)
	for time.Now().Before(deadline) {
		if cond() {
			return true
		}
		time.Sleep(2 * time.Millisecond)
	}
	return cond()
}

// delayManager wraps a UserManager; hook (if set) runs at the start of every AuthoriseNewSession,
// i.e. it can make one particular database lookup slow.
type delayManager struct {
	usermanager.UserManager
	mu   sync.Mutex
	hook func(uid []byte, ainfo usermanager.AuthorisationInfo)
}

func (m *delayManager) setHook(f func(uid []byte, ainfo usermanager.AuthorisationInfo)) {
	m.mu.Lock()
	m.hook = f
	m.mu.Unlock()
}

func (m *delayManager) AuthoriseNewSession(uid []byte, ainfo usermanager.AuthorisationInfo) error {
	m.mu.Lock()
	f := m.hook
	m.mu.Unlock()
	if f != nil {
		f(uid, ainfo)
	}
	return m.UserManager.AuthoriseNewSession(uid, ainfo)
}

// stallTransport is a ck-client transport whose owner simply stops reading from the socket
type stallTransport struct {
	client.Transport
	stalled atomic.Bool
	resume  chan struct{}
}

func (s *stallTransport) Read(b []byte) (int, error) {
	if s.stalled.Load() {
		<-s.resume
	}
	return s.Transport.Read(b)
}
