package server

// C16 exploration: several limited users, several sessions each (2 connections per session), echo
// traffic, sessions opened and closed all the time (including each user's last one, i.e. the user is
// terminated and re-activated), with two overlapping streams of usage-upload rounds. At the end the
// stored credit must equal initial credit minus the volume the clients counted on their side.

import (
	"io"
	"math/rand"
	"sync"
	"sync/atomic"
	"testing"
	"time"

	mux "github.com/cbeuw/Cloak/internal/multiplex"
)

func TestRedC16_StressAccounting(t *testing.T) {
	rs := redMakeServer(t, nil, nil)
	const nUsers = 3
	const initial = int64(1) << 40
	uids := make([][]byte, nUsers)
	valves := make([]*mux.LimitedValve, nUsers)
	for i := range uids {
		uids[i] = redUID(byte(0x60 + i))
		rs.addUser(t, uids[i], 3, initial, initial, time.Now().Add(time.Hour))
		valves[i] = mux.MakeValve(1<<40, 1<<40)
	}

	var stop atomic.Bool
	var uploaders sync.WaitGroup
	for k := 0; k < 2; k++ {
		uploaders.Add(1)
		go func() {
			defer uploaders.Done()
			for !stop.Load() {
				if err := rs.uploadRound(); err != nil {
					t.Error(err)
				}
				time.Sleep(time.Duration(rand.Intn(2000)) * time.Microsecond)
			}
		}()
	}

	var sidCounter uint32 = 1000
	var wg sync.WaitGroup
	for i := 0; i < nUsers; i++ {
		for w := 0; w < 2; w++ { // two concurrent "devices" per user
			wg.Add(1)
			go func(i int) {
				defer wg.Done()
				r := rand.New(rand.NewSource(int64(i*7 + w)))
				for round := 0; round < 12; round++ {
					sid := atomic.AddUint32(&sidCounter, 1)
					c1, err := rs.handshake(uids[i], sid, 3*time.Second)
					if err != nil {
						t.Errorf("handshake: %v", err)
						return
					}
					// one connection per session: with two, the server may see the EOF of one connection
					// before it has read the client's session-closing frame from the other, and then never
					// reads (nor charges) that frame, which would blur the client-side ground truth
					sesh := redClientSession(sid, valves[i], c1)
					for s := 0; s < 1+r.Intn(3); s++ {
						st, err := sesh.OpenStream()
						if err != nil {
							t.Errorf("open stream: %v", err)
							break
						}
						n := 1 + r.Intn(60000)
						go st.Write(make([]byte, n))
						if _, err := io.ReadFull(st, make([]byte, n)); err != nil {
							t.Errorf("echo: %v", err)
						}
						st.Close()
					}
					time.Sleep(30 * time.Millisecond) // let stream-closing frames settle
					sesh.Close()
					time.Sleep(time.Duration(r.Intn(10)) * time.Millisecond)
				}
			}(i)
		}
	}
	wg.Wait()
	// traffic has stopped; wait until every user is inactive, then let uploads complete
	ok := redEventually(3*time.Second, func() bool {
		for _, u := range uids {
			if rs.sta.Panel.isActive(u) {
				return false
			}
		}
		return true
	})
	if !ok {
		t.Errorf("users still active after all their sessions were closed")
	}
	stop.Store(true)
	uploaders.Wait()
	if err := rs.uploadRound(); err != nil {
		t.Fatal(err)
	}
	for i, u := range uids {
		up, down := rs.credit(t, u)
		cu, cd := valves[i].GetTx(), valves[i].GetRx()
		t.Logf("user %d: charged up %d (client sent %d)  charged down %d (client received %d)", i, initial-up, cu, initial-down, cd)
		if initial-up != cu || initial-down != cd {
			t.Errorf("C16: user %d accounting mismatch", i)
		}
	}
}
