package server

// C16, fault path: commitUpdate empties usageUpdateQueue BEFORE it calls Manager.UploadStatus and drops
// the statuses when UploadStatus returns an error (e.g. bolt's db.Update failing to commit: disk full,
// I/O error). The usage of that interval is then never charged: after traffic has stopped and a later
// upload HAS completed, stored credit != initial credit - volume carried.

import (
	"errors"
	"io"
	"sync/atomic"
	"testing"
	"time"

	mux "github.com/cbeuw/Cloak/internal/multiplex"
	"github.com/cbeuw/Cloak/internal/server/usermanager"
)

type faultyManager struct {
	usermanager.UserManager
	failNext atomic.Bool
}

func (m *faultyManager) UploadStatus(s []usermanager.StatusUpdate) ([]usermanager.StatusResponse, error) {
	if m.failNext.CompareAndSwap(true, false) {
		return nil, errors.New("injected: transaction commit failed (no space left on device)")
	}
	return m.UserManager.UploadStatus(s)
}

func TestRedC16_UsageLostWhenOneUploadFails(t *testing.T) {
	var fm *faultyManager
	rs := redMakeServer(t, func(m usermanager.UserManager) usermanager.UserManager {
		fm = &faultyManager{UserManager: m}
		return fm
	}, nil)
	uid := redUID(0x16)
	const initial = int64(1) << 40
	rs.addUser(t, uid, 2, initial, initial, time.Now().Add(time.Hour))
	valve := mux.MakeValve(1<<40, 1<<40)
	c, err := rs.handshake(uid, 1, 2*time.Second)
	if err != nil {
		t.Fatal(err)
	}
	sesh := redClientSession(1, valve, c)
	echo := func(n int) {
		st, _ := sesh.OpenStream()
		go st.Write(make([]byte, n))
		io.ReadFull(st, make([]byte, n))
	}
	echo(100000)
	time.Sleep(50 * time.Millisecond)
	fm.failNext.Store(true)
	t.Logf("upload round 1: %v", rs.uploadRound()) // fails
	echo(5000)
	time.Sleep(50 * time.Millisecond)
	// traffic has stopped; the user stays active; an upload completes
	if err := rs.uploadRound(); err != nil {
		t.Fatal(err)
	}
	if err := rs.uploadRound(); err != nil {
		t.Fatal(err)
	}
	up, down := rs.credit(t, uid)
	t.Logf("carried: up %d down %d; charged: up %d down %d", valve.GetTx(), valve.GetRx(), initial-up, initial-down)
	if initial-up != valve.GetTx() || initial-down != valve.GetRx() {
		t.Errorf("C16 (fault path): after traffic stopped and an upload completed, stored credit != initial - carried: %d bytes up and %d bytes down were never charged",
			valve.GetTx()-(initial-up), valve.GetRx()-(initial-down))
	}
}
