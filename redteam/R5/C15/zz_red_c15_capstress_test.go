package server

// C15 exploration: simultaneous handshakes, distinct and equal session ids, caps 0..3, with sessions
// being closed and re-opened concurrently. Checks: admitted concurrent sessions <= cap; same (uid,sid)
// => same key while the session lives; exhausted / expired users are refused.

import (
	"sync"
	"sync/atomic"
	"testing"
	"time"

	"github.com/cbeuw/Cloak/internal/server/usermanager"
)

func TestRedC15_CapAndKeyStress(t *testing.T) {
	rs := redMakeServer(t, nil, nil)
	for cap := int32(0); cap <= 3; cap++ {
		uid := redUID(byte(0x30 + cap))
		rs.addUser(t, uid, cap, 1<<40, 1<<40, time.Now().Add(time.Hour))
		for round := 0; round < 5; round++ {
			var wg sync.WaitGroup
			var mu sync.Mutex
			keys := map[uint32]map[[32]byte]bool{}
			var conns []*redConn
			var admitted int32
			for i := 0; i < 12; i++ {
				wg.Add(1)
				sid := uint32(round*100 + i%6) // 6 distinct sids, 2 connections each
				go func() {
					defer wg.Done()
					c, err := rs.handshake(uid, sid, 400*time.Millisecond)
					if err != nil {
						return
					}
					atomic.AddInt32(&admitted, 1)
					mu.Lock()
					if keys[sid] == nil {
						keys[sid] = map[[32]byte]bool{}
					}
					keys[sid][c.key] = true
					conns = append(conns, c)
					mu.Unlock()
				}()
			}
			wg.Wait()
			if len(keys) > int(cap) {
				t.Errorf("C15: cap %d but %d distinct sessions admitted concurrently", cap, len(keys))
			}
			for sid, ks := range keys {
				if len(ks) != 1 {
					t.Errorf("C15: sid %d got %d keys", sid, len(ks))
				}
			}
			if u := rs.activeUser(uid); u != nil && u.NumSession() > int(cap) {
				t.Errorf("C15: cap %d but record holds %d sessions", cap, u.NumSession())
			}
			for _, c := range conns {
				c.raw.Close()
			}
			redEventually(2*time.Second, func() bool { return !rs.sta.Panel.isActive(uid) })
		}
	}
	// exhausted / expired / deleted through the admin manager
	uid := redUID(0x3F)
	rs.addUser(t, uid, 2, 1<<40, 1<<40, time.Now().Add(time.Hour))
	c, err := rs.handshake(uid, 1, time.Second)
	if err != nil {
		t.Fatal(err)
	}
	defer c.raw.Close()
	try := func(what string) {
		if _, err := rs.handshake(uid, 2, 300*time.Millisecond); err == nil {
			t.Errorf("C15: %s user started a session", what)
		}
	}
	rs.manager.WriteUserInfo(usermanager.UserInfo{UID: uid, UpCredit: usermanager.JustInt64(0)})
	try("upload-exhausted")
	rs.manager.WriteUserInfo(usermanager.UserInfo{UID: uid, UpCredit: usermanager.JustInt64(5), DownCredit: usermanager.JustInt64(-1)})
	try("download-exhausted")
	rs.manager.WriteUserInfo(usermanager.UserInfo{UID: uid, DownCredit: usermanager.JustInt64(5), ExpiryTime: usermanager.JustInt64(time.Now().Unix() - 1)})
	try("expired")
	rs.manager.WriteUserInfo(usermanager.UserInfo{UID: uid, ExpiryTime: usermanager.JustInt64(time.Now().Unix() + 100)})
	if c2, err := rs.handshake(uid, 2, 300*time.Millisecond); err != nil {
		t.Errorf("restored user refused: %v", err)
	} else {
		c2.raw.Close()
	}
	rs.manager.DeleteUser(uid)
	if _, err := rs.handshake(uid, 3, 300*time.Millisecond); err == nil {
		t.Errorf("C15: deleted user started a session")
	}
}
