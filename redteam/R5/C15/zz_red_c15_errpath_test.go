package server

// C15 demonstration: two connections presenting the same (UID, session id) are attached to two DIFFERENT
// sessions and are given two DIFFERENT session keys, although neither the client nor the server's
// accounting ever closed that session. It is killed by the error path of a THIRD connection of the same
// (UID, session id) that was refused a moment earlier because the user was at its sessions cap.
//
// internal/server/dispatcher.go (unchanged code):
//
//     249  sesh, existing, err := user.GetSession(ci.SessionId, seshConfig)   // (1) locks sessionsM ... unlocks
//     250  if err == errUserRetired { goto retry }
//     254  if err != nil {
//     255      user.CloseSession(ci.SessionId, "")                            // (2) locks sessionsM again
//
// Between (1) and (2) the refused connection's goroutine does not hold sessionsM. Schedule:
//
//     conn A (uid, Y):  (1) GetSession(Y)  -> ErrSessionsCapReached (user has X1, X2; cap 2)
//     session X1 ends   CloseSession(X1)  -- NOT the user's last session, X2 stays
//     conn B (uid, Y):  GetSession(Y) -> new session S, key K1; handshake finished with K1
//     conn A            (2) CloseSession(Y, "") -> closes and removes S
//     conn C (uid, Y):  GetSession(Y) -> new session S', key K2 != K1
//
// Everything below is the real server (InitState + Serve on loopback TCP, bolt user database) and real
// client handshakes. Only connection A is played by calling, from the test goroutine, the two statements
// (1) and (2) of dispatchConnection directly, so that the (legal) preemption between them is exact.
// A, B and C are what client.MakeSession sends for ONE client session with NumConn >= 3.

import (
	"testing"
	"time"

	"github.com/cbeuw/Cloak/internal/server/usermanager"
)

func TestRedC15_RefusedConnectionKillsSiblingSession(t *testing.T) {
	rs := redMakeServer(t, nil, nil)
	uid := redUID(0x15)
	rs.addUser(t, uid, 2, 1<<40, 1<<40, time.Now().Add(time.Hour)) // sessions cap 2

	// the user's two established sessions X1 (sid 101) and X2 (sid 102): the user is at its cap
	x1c, err := rs.handshake(uid, 101, 2*time.Second)
	if err != nil {
		t.Fatal(err)
	}
	x1 := redClientSession(101, nil, x1c)
	x2c, err := rs.handshake(uid, 102, 2*time.Second)
	if err != nil {
		t.Fatal(err)
	}
	x2 := redClientSession(102, nil, x2c)
	defer x2.Close()
	user := rs.activeUser(uid)
	if user == nil || user.NumSession() != 2 {
		t.Fatal("setup: expected 2 sessions")
	}
	const Y = 555

	// conn A, statement (1)
	_, _, errA := user.GetSession(Y, getSeshConfig(false))
	if errA != usermanager.ErrSessionsCapReached {
		t.Fatalf("setup: connection A should be refused with ErrSessionsCapReached, got %v", errA)
	}

	// session X1 ends (the client closes it); X2 stays, so this is not the user's last session
	x1.Close()
	if !redEventually(2*time.Second, func() bool { return user.NumSession() == 1 }) {
		t.Fatal("setup: X1 was not closed on the server")
	}

	// conn B: a real connection presenting (uid, Y)
	b, err := rs.handshake(uid, Y, 2*time.Second)
	if err != nil {
		t.Fatalf("connection B not admitted: %v", err)
	}
	bs := redClientSession(Y, nil, b)
	seshB := user.redSession(Y)

	// conn A, statement (2)
	user.CloseSession(Y, "")

	// conn C: a real connection presenting (uid, Y)
	c, err := rs.handshake(uid, Y, 2*time.Second)
	if err != nil {
		t.Fatalf("connection C not admitted: %v", err)
	}
	seshC := user.redSession(Y)

	if rs.activeUser(uid) != user {
		t.Fatal("the user's record changed: this would be C17's race, not the one demonstrated here")
	}
	t.Logf("conn B: key %x.. session %p (closed now: %v);  conn C: key %x.. session %p",
		b.key[:6], seshB, seshB.IsClosed(), c.key[:6], seshC)
	if b.key != c.key || seshB != seshC {
		t.Errorf("C15: two connections presenting the same UID and session id %d were attached to different sessions "+
			"and given different session keys; nobody closed session %d except the error path of a refused sibling connection", Y, Y)
	}
	// what the client sees: B's session is dead (the server sent a closing frame on it)
	if redEventually(time.Second, bs.IsClosed) {
		t.Logf("client side: the session that connection B belongs to has been closed by the server")
	}
}
