package server

// C17, variant without any misbehaving peer: Session.Close() first waits for the user's download token
// bucket (switchboard.send -> valve.txWait). juju/ratelimit lets every concurrent caller run the bucket
// into debt, so the closing frame queues behind everything the user's streams have already reserved:
// a throttled user (here 20 kB/s) with 40 busy streams keeps TerminateActiveUser - and, through
// sessionsM and usageUpdateQueueM, the following upload rounds of ALL users - blocked for
// (streams x 16 kB) / rate, about half a minute here. The client reads as fast as it can.

import (
	"io"
	"net"
	"testing"
	"time"

	"github.com/cbeuw/Cloak/internal/server/usermanager"
)

func TestRedC17_TerminationWaitsForRateLimiterDebt(t *testing.T) {
	flood := func(conn net.Conn) {
		buf := make([]byte, 32*1024)
		for {
			if _, err := conn.Write(buf); err != nil {
				return
			}
		}
	}
	rs := redMakeServer(t, nil, flood)
	uid := redUID(0x7D)
	rs.addUser(t, uid, 2, 1<<40, 50000, time.Now().Add(time.Hour))
	rs.manager.WriteUserInfo(usermanager.UserInfo{UID: uid, DownRate: usermanager.JustInt64(20000)}) // 20 kB/s plan

	c, err := rs.handshake(uid, 1, 2*time.Second)
	if err != nil {
		t.Fatal(err)
	}
	sesh := redClientSession(1, nil, c)
	for i := 0; i < 40; i++ {
		st, err := sesh.OpenStream()
		if err != nil {
			t.Fatal(err)
		}
		st.Write([]byte("go"))
		go io.Copy(io.Discard, st) // a well-behaved client: reads everything at once
	}
	time.Sleep(3500 * time.Millisecond) // ~70 kB downloaded > 50 kB credit

	round1 := make(chan error, 1)
	go func() { round1 <- rs.uploadRound() }()
	time.Sleep(500 * time.Millisecond)
	_, down := rs.credit(t, uid)
	t.Logf("stored download credit after the upload: %d", down)
	round2 := make(chan error, 1)
	go func() { round2 <- rs.uploadRound() }()
	time.Sleep(5 * time.Second)
	select {
	case <-round1:
		t.Log("round 1 completed")
	default:
		t.Errorf("C17: upload round 1 (terminating the exhausted user) still blocked after 5.5s although the client reads everything")
	}
	select {
	case <-round2:
		t.Log("round 2 completed")
	default:
		t.Errorf("C17: upload round 2 still blocked after 5s")
	}
}
