package server

// C17 demonstration: user termination (and with it the periodic usage upload, session closure and
// connection admission) blocks for as long as ONE client wishes.
//
// TerminateActiveUser -> closeAllSessions holds ActiveUser.sessionsM while it calls Session.Close(),
// and Session.Close() WRITES a closing frame to one of the session's TCP connections (switchboard.send,
// no write deadline anywhere). A client that has stopped reading (full TCP window) makes that write
// block, so sessionsM stays write-locked. The next upload round then blocks in commitUpdate ->
// user.NumSession() while holding panel.usageUpdateQueueM, after which every updateUsageQueue,
// updateUsageQueueForOne (=> every TerminateActiveUser => every CloseSession of a last session) of
// EVERY user blocks too.

import (
	"io"
	"net"
	"testing"
	"time"
)

func TestRedC17_TerminationBlocksOnStalledPeer(t *testing.T) {
	// the proxy server behind ck-server: a download that never ends
	flood := func(conn net.Conn) {
		buf := make([]byte, 32*1024)
		io.ReadFull(conn, buf[:2])
		if string(buf[:2]) != "go" { // everybody else gets an echo service
			io.Copy(conn, conn)
			return
		}
		for {
			if _, err := conn.Write(buf); err != nil {
				return
			}
		}
	}
	rs := redMakeServer(t, nil, flood)
	panel := rs.sta.Panel

	attacker, victim := redUID(0xA1), redUID(0xB2)
	rs.addUser(t, attacker, 2, 1<<40, 100000, time.Now().Add(time.Hour)) // small download credit
	rs.addUser(t, victim, 2, 1<<40, 1<<40, time.Now().Add(time.Hour))

	// --- the attacker: one session, one connection, starts a download and stops reading
	ac, err := rs.handshake(attacker, 1, 2*time.Second)
	if err != nil {
		t.Fatal(err)
	}
	st := &stallTransport{Transport: ac.Transport, resume: make(chan struct{})}
	st.stalled.Store(true)
	ac.Transport = st
	asesh := redClientSession(1, nil, ac)
	astream, err := asesh.OpenStream()
	if err != nil {
		t.Fatal(err)
	}
	if _, err := astream.Write([]byte("go")); err != nil {
		t.Fatal(err)
	}
	au := rs.activeUser(attacker)
	if au == nil {
		t.Fatal("attacker not active")
	}
	// wait until the server's writes towards the attacker are stuck on the full TCP window
	last, stable := int64(-1), 0
	for i := 0; i < 400 && stable < 20; i++ {
		time.Sleep(10 * time.Millisecond)
		if cur := au.valve.GetTx(); cur == last && cur > 0 {
			stable++
		} else {
			last, stable = cur, 0
		}
	}
	if stable < 20 {
		t.Skip("could not fill the TCP window on this machine")
	}
	t.Logf("server sent %d bytes to the attacker before its writes stalled (download credit 100000)", last)

	// --- the victim: an ordinary user doing a little echo traffic
	vc, err := rs.handshake(victim, 1, 2*time.Second)
	if err != nil {
		t.Fatal(err)
	}
	vsesh := redClientSession(1, nil, vc)
	vstream, _ := vsesh.OpenStream()
	vstream.Write(make([]byte, 2+50000))
	io.ReadFull(vstream, make([]byte, 50000))

	// --- upload round 1: finds the attacker's download credit exhausted and terminates it
	round1 := make(chan error, 1)
	go func() { round1 <- rs.uploadRound() }()
	select {
	case <-round1:
		t.Skip("round 1 completed: closing frame fitted in the socket buffer; not reproduced")
	case <-time.After(1 * time.Second):
	}
	_, down := rs.credit(t, attacker)
	t.Logf("round 1 still running after 1s; attacker's stored download credit is now %d (<=0: it must be cut off)", down)

	// --- upload round 2 (the next tick of regularQueueUpload)
	_, vDownBefore := rs.credit(t, victim)
	round2 := make(chan error, 1)
	go func() { round2 <- rs.uploadRound() }()

	// --- the victim closes its only session: server side CloseSession -> TerminateActiveUser
	time.Sleep(200 * time.Millisecond)
	vsesh.Close()

	// --- a new connection of the attacker's UID: dispatchConnection spins in its retry loop
	admitted := make(chan error, 1)
	go func() {
		_, err := rs.handshake(attacker, 2, 3*time.Second)
		admitted <- err
	}()

	const observe = 4 * time.Second
	time.Sleep(observe)

	blocked := 0
	select {
	case <-round1:
	default:
		blocked++
		t.Errorf("C17: user termination (upload round 1 -> TerminateActiveUser) still blocked after %v", observe+time.Second)
	}
	select {
	case <-round2:
	default:
		blocked++
		t.Errorf("C17: the next periodic usage upload (round 2) still blocked after %v", observe)
	}
	if panel.isActive(victim) {
		blocked++
		t.Errorf("C17: closure of the victim's last session has not completed after %v (victim record still active)", observe-200*time.Millisecond)
	}
	if err := <-admitted; err != nil {
		blocked++
		t.Errorf("C17: admission of a new connection of the terminated UID got no answer in 3s: %v", err)
	}
	_, vDownAfter := rs.credit(t, victim)
	if vDownAfter == vDownBefore {
		t.Logf("victim's usage has not been charged meanwhile (stored download credit unchanged at %d)", vDownAfter)
	}

	// --- the attacker decides when the server may continue: it resumes reading
	close(st.resume)
	st.stalled.Store(false)
	ok := redEventually(5*time.Second, func() bool {
		return len(round1) == 1 && len(round2) == 1 && !panel.isActive(victim)
	})
	t.Logf("after the attacker resumed reading: everything completed = %v (blocked operations before: %d)", ok, blocked)
}
