package server

// Observation (not a violation of C15/C16/C17 as literally stated): a session whose creating
// connection fails in finishHandshake stays in the user's table for ever and counts towards the cap.

import (
	"net"
	"testing"
	"time"
)

func TestRedObs_ZombieSessionAfterFailedHandshake(t *testing.T) {
	rs := redMakeServer(t, nil, nil)
	uid := redUID(0x2B)
	rs.addUser(t, uid, 1, 1<<40, 1<<40, time.Now().Add(time.Hour)) // cap 1

	// a client that sends its ClientHello and resets the connection at once
	rcc, ai := rs.clientConfigs(uid)
	ai.SessionId = 77
	for i := 0; i < 20 && rs.activeUser(uid) == nil; i++ {
		raw, err := net.Dial("tcp", rcc.RemoteAddr)
		if err != nil {
			t.Fatal(err)
		}
		tr := rcc.Transport.CreateTransport()
		go tr.Handshake(raw, ai)
		time.Sleep(time.Duration(i*50) * time.Microsecond)
		raw.(*net.TCPConn).SetLinger(0)
		raw.Close()
		time.Sleep(50 * time.Millisecond)
	}
	u := rs.activeUser(uid)
	if u == nil {
		t.Skip("could not make finishHandshake fail")
	}
	t.Logf("user active with %d session(s) although no connection exists", u.NumSession())
	_, err := rs.handshake(uid, 78, time.Second)
	t.Logf("a genuine new session of this cap-1 user: %v", err)
	time.Sleep(200 * time.Millisecond)
	t.Logf("sessions now: %d", u.NumSession())
}
