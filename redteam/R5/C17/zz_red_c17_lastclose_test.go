//go:build verif

package server

// C17 exploration with the project's own schedule points (-tags verif): a new connection of a user
// arrives exactly while that user's last session is being closed.

import (
	"io"
	"sync"
	"testing"
	"time"

	"github.com/cbeuw/Cloak/internal/common"
	mux "github.com/cbeuw/Cloak/internal/multiplex"
)

type redParker struct {
	mu     sync.Mutex
	label  string
	armed  bool
	parked chan struct{}
	resume chan struct{}
}

func (p *redParker) arm(label string) {
	p.mu.Lock()
	p.label, p.armed = label, true
	p.parked, p.resume = make(chan struct{}), make(chan struct{})
	p.mu.Unlock()
}

func (p *redParker) hook(label string) {
	p.mu.Lock()
	hit := p.armed && label == p.label
	if hit {
		p.armed = false
	}
	parked, resume := p.parked, p.resume
	p.mu.Unlock()
	if hit {
		close(parked)
		<-resume
	}
}

func TestRedC17_NewConnWhileLastSessionCloses(t *testing.T) {
	for _, parkAt := range []string{"ActiveUser.CloseSession:beforeTerminate", "dispatchConnection:beforeGetSession"} {
		t.Run(parkAt, func(t *testing.T) {
			p := &redParker{}
			common.SetVerifHook(p.hook)
			defer common.SetVerifHook(nil)
			rs := redMakeServer(t, nil, nil)
			uid := redUID(0x17)
			const initial = int64(1) << 40
			rs.addUser(t, uid, 1, initial, initial, time.Now().Add(time.Hour)) // cap 1
			valve := mux.MakeValve(1<<40, 1<<40)

			c1, err := rs.handshake(uid, 1, 2*time.Second)
			if err != nil {
				t.Fatal(err)
			}
			s1 := redClientSession(1, valve, c1)
			u1 := rs.activeUser(uid)

			var c2 *redConn
			if parkAt == "ActiveUser.CloseSession:beforeTerminate" {
				p.arm(parkAt)
				s1.Close() // last session closes; the closing goroutine parks before TerminateActiveUser
				<-p.parked
				c2, err = rs.handshake(uid, 2, 2*time.Second) // admitted into the record that is about to be terminated
				if err != nil {
					t.Fatalf("conn 2: %v", err)
				}
			} else {
				p.arm(parkAt)
				done := make(chan struct{})
				go func() { c2, err = rs.handshake(uid, 2, 3*time.Second); close(done) }()
				<-p.parked // conn 2 has looked the record up and parks before GetSession
				s1.Close()
				if !redEventually(2*time.Second, func() bool { return rs.activeUser(uid) != u1 }) {
					t.Fatal("u1 not terminated")
				}
				close(p.resume)
				<-done
				if err != nil {
					t.Fatalf("conn 2: %v", err)
				}
			}
			s2 := redClientSession(2, valve, c2)
			st, err := s2.OpenStream()
			if err == nil {
				go st.Write(make([]byte, 30000))
				st.SetReadDeadline(time.Now().Add(2 * time.Second))
				_, err = io.ReadFull(st, make([]byte, 30000))
			}
			t.Logf("traffic on the new session: err=%v", err)
			if parkAt == "ActiveUser.CloseSession:beforeTerminate" {
				close(p.resume)
			}
			time.Sleep(300 * time.Millisecond) // quiescence

			// every live session of the user is owned by the record in the panel
			cur := rs.activeUser(uid)
			live := !s2.IsClosed()
			t.Logf("client session 2 live=%v; record in panel: %v (same as old: %v)", live, cur != nil, cur == u1)
			if u1.NumSession() != 0 && cur != u1 {
				t.Errorf("C17: terminated record still owns %d session(s)", u1.NumSession())
			}
			if live {
				if cur == nil || cur.redSession(2) == nil || cur.redSession(2).IsClosed() {
					t.Errorf("C17: live session not owned by the user's active record")
				}
			}
			s2.Close()
			redEventually(2*time.Second, func() bool { return !rs.sta.Panel.isActive(uid) })
			time.Sleep(100 * time.Millisecond)
			rs.uploadRound()
			up, down := rs.credit(t, uid)
			t.Logf("charged up %d (client sent %d), down %d (client received %d)", initial-up, valve.GetTx(), initial-down, valve.GetRx())
		})
	}
}
