package test

import (
	"bytes"
	"crypto/rand"
	"encoding/binary"
	"errors"
	"fmt"
	"io"
	mrand "math/rand"
	"net"
	"strings"
	"testing"
	"time"

	"github.com/cbeuw/Cloak/internal/client"
	"github.com/cbeuw/Cloak/internal/common"
	"github.com/cbeuw/Cloak/internal/server"
	log "github.com/sirupsen/logrus"
)

type redRelayEnv struct {
	srvAddr string
	got     chan []byte // what the target received on its latest connection
	wantLen chan int
	reply   []byte
}

func redNewRelayEnv(t *testing.T, ws common.WorldState, mod func(*server.RawConfig)) *redRelayEnv {
	env := &redRelayEnv{got: make(chan []byte, 16), wantLen: make(chan int, 16)}
	env.reply = make([]byte, 70000)
	rand.Read(env.reply)
	target, err := net.Listen("tcp", "127.0.0.1:0")
	if err != nil {
		t.Fatal(err)
	}
	t.Cleanup(func() { target.Close() })
	go func() {
		for {
			c, err := target.Accept()
			if err != nil {
				return
			}
			go func(c net.Conn) {
				defer c.Close()
				want := <-env.wantLen
				buf := make([]byte, want+16) // room to notice extra bytes
				n := 0
				c.SetReadDeadline(time.Now().Add(3 * time.Second))
				for n < want {
					m, err := c.Read(buf[n:])
					n += m
					if err != nil {
						break
					}
				}
				// anything beyond what the peer sent?
				c.SetReadDeadline(time.Now().Add(20 * time.Millisecond))
				m, _ := c.Read(buf[n:])
				n += m
				env.got <- buf[:n]
				c.Write(env.reply)
			}(c)
		}
	}()
	cfg := server.RawConfig{
		ProxyBook:  map[string][]string{"shadowsocks": {"tcp", "127.0.0.1:9"}},
		BypassUID:  [][]byte{bypassUID[:]},
		RedirAddr:  target.Addr().String(),
		PrivateKey: privateKey,
	}
	if mod != nil {
		mod(&cfg)
	}
	sta, err := server.InitState(cfg, ws)
	if err != nil {
		t.Fatal(err)
	}
	srv, err := net.Listen("tcp", "127.0.0.1:0")
	if err != nil {
		t.Fatal(err)
	}
	t.Cleanup(func() { srv.Close() })
	go server.Serve(srv, sta)
	env.srvAddr = srv.Addr().String()
	return env
}

// sends stream in the given segmentation; the target must get exactly stream, the peer exactly reply
func (env *redRelayEnv) check(t *testing.T, name string, stream []byte, cuts []int, pause time.Duration) bool {
	t.Helper()
	peer, err := net.Dial("tcp", env.srvAddr)
	if err != nil {
		t.Fatal(err)
	}
	defer peer.Close()
	peer.(*net.TCPConn).SetNoDelay(true)
	env.wantLen <- len(stream)
	go func() {
		prev := 0
		for _, c := range cuts {
			if c <= prev || c >= len(stream) {
				continue
			}
			peer.Write(stream[prev:c])
			prev = c
			if pause > 0 {
				time.Sleep(pause)
			}
		}
		peer.Write(stream[prev:])
	}()
	ok := true
	select {
	case got := <-env.got:
		if !bytes.Equal(got, stream) {
			t.Errorf("%s: target received %d bytes, peer sent %d; first difference at %d", name, len(got), len(stream), redFirstDiff(got, stream))
			ok = false
		}
	case <-time.After(6 * time.Second):
		t.Errorf("%s: target never got a connection/data", name)
		select {
		case <-env.wantLen:
		default:
		}
		return false
	}
	peer.SetReadDeadline(time.Now().Add(5 * time.Second))
	back, _ := io.ReadAll(peer)
	if !bytes.Equal(back, env.reply) {
		t.Errorf("%s: peer received %d bytes, target replied %d; first difference at %d", name, len(back), len(env.reply), redFirstDiff(back, env.reply))
		ok = false
	}
	return ok
}

func redFirstDiff(a, b []byte) int {
	for i := 0; i < len(a) && i < len(b); i++ {
		if a[i] != b[i] {
			return i
		}
	}
	if len(a) != len(b) {
		if len(a) < len(b) {
			return len(a)
		}
		return len(b)
	}
	return -1
}

func redRand(n int) []byte { b := make([]byte, n); rand.Read(b); return b }

func TestRedC09SweepGeneric(t *testing.T) {
	log.SetLevel(log.PanicLevel)
	env := redNewRelayEnv(t, common.RealWorldState, nil)
	rng := mrand.New(mrand.NewSource(7))
	n := 0
	run := func(name string, stream []byte) {
		n++
		env.check(t, name+"/whole", stream, nil, 0)
		// a random segmentation, and the nasty fixed ones
		var cuts []int
		for i := 0; i < 4; i++ {
			cuts = append(cuts, 1+rng.Intn(len(stream)))
		}
		sortInts(cuts)
		env.check(t, name+"/randseg", stream, cuts, time.Millisecond)
	}
	// every first byte value. 0x16 and 'G' need "completion": enough bytes
	for b := 0; b < 256; b++ {
		s := redRand(3100)
		s[0] = byte(b)
		if b == 0x16 {
			continue // see record sweep below
		}
		run(fmt.Sprintf("firstbyte-%02x", b), s)
	}
	// short unrecognisable streams
	for _, l := range []int{1, 2, 5, 100} {
		s := redRand(l)
		s[0] = 0x17
		run(fmt.Sprintf("short-%d", l), s)
	}
	// TLS handshake-type records with every interesting declared length, any version bytes, complete body (+ trailing data)
	for _, l := range []int{0, 1, 2, 3, 4, 5, 37, 38, 39, 43, 100, 512, 2993, 2994, 2995, 2996, 2997, 3000, 4096, 16384, 16385, 16640, 65535} {
		for _, ver := range [][]byte{{3, 1}, {3, 3}, {0, 0}, {0xff, 0xff}} {
			body := redRand(l)
			if l > 0 {
				body[0] = 1 // looks like a ClientHello
			}
			s := append([]byte{0x16, ver[0], ver[1], byte(l >> 8), byte(l)}, body...)
			run(fmt.Sprintf("record-len%d-ver%x", l, ver), s)
			run(fmt.Sprintf("record-len%d-ver%x+trailing", l, ver), append(append([]byte{}, s...), redRand(777)...))
		}
	}
	// plausible ClientHello skeletons with inconsistent inner lengths
	for i := 0; i < 200; i++ {
		l := 50 + rng.Intn(600)
		body := redRand(l)
		body[0] = 1
		body[1] = 0
		binary.BigEndian.PutUint16(body[2:4], uint16(l-4))
		body[4], body[5] = 3, 3
		body[38] = byte(rng.Intn(64))
		s := append([]byte{0x16, 3, 1, byte(l >> 8), byte(l)}, body...)
		run(fmt.Sprintf("skeleton-%d", i), s)
	}
	// HTTP
	hidden := "hidden: " + strings.Repeat("QUJD", 32) + "\r\n" // valid base64, 96 bytes decoded, bogus content
	https := map[string]string{
		"plain-get":       "GET / HTTP/1.1\r\nHost: a\r\n\r\n",
		"get-body":        "GET / HTTP/1.1\r\nHost: a\r\nContent-Length: 5\r\n\r\nhello",
		"bogus-hidden":    "GET / HTTP/1.1\r\nHost: a\r\n" + hidden + "\r\n",
		"short-hidden":    "GET / HTTP/1.1\r\nHost: a\r\nhidden: QUJD\r\n\r\n",
		"bad-b64-hidden":  "GET / HTTP/1.1\r\nHost: a\r\nhidden: ****\r\n\r\n",
		"ws-upgrade":      "GET /ws HTTP/1.1\r\nHost: a\r\nUpgrade: websocket\r\nConnection: Upgrade\r\nSec-WebSocket-Key: dGhlIHNhbXBsZSBub25jZQ==\r\nSec-WebSocket-Version: 13\r\n\r\n",
		"not-http":        "GARBAGE\r\n\r\n",
		"long-line":       "GET /" + strings.Repeat("a", 5000) + " HTTP/1.1\r\nHost: a\r\n\r\n",
		"long-header":     "GET / HTTP/1.1\r\nX: " + strings.Repeat("b", 4000) + "\r\n\r\n",
		"many-headers":    "GET / HTTP/1.1\r\n" + strings.Repeat("X-A: b\r\n", 1000) + "\r\n",
		"just-G-3000":     "G" + strings.Repeat("x", 2999),
		"just-G-3001":     "G" + strings.Repeat("x", 3000),
		"hidden-long-val": "GET / HTTP/1.1\r\nhidden: " + strings.Repeat("QUJD", 700) + "\r\n\r\n",
	}
	for k, v := range https {
		run("http-"+k, []byte(v))
	}
	// header block ending exactly around the 3000-byte buffer edge
	for total := 2995; total <= 3005; total++ {
		base := "GET / HTTP/1.1\r\nX: "
		fill := total - len(base) - 4
		s := base + strings.Repeat("c", fill) + "\r\n\r\n"
		if len(s) != total {
			t.Fatal("bad construction")
		}
		run(fmt.Sprintf("http-edge-%d", total), []byte(s))
		run(fmt.Sprintf("http-edge-%d+body", total), []byte(s+"BODYBODY"))
	}
	t.Logf("%d streams x 2 segmentations", n)
}

func sortInts(a []int) {
	for i := range a {
		for j := i + 1; j < len(a); j++ {
			if a[j] < a[i] {
				a[i], a[j] = a[j], a[i]
			}
		}
	}
}

// ---- genuine Cloak hellos that must not be accepted ----

type redHelloGrab struct {
	net.Conn
	first []byte
}

func (c *redHelloGrab) Write(b []byte) (int, error) {
	if c.first == nil {
		c.first = append([]byte{}, b...)
	}
	return len(b), nil
}
func (c *redHelloGrab) Read(b []byte) (int, error) { return 0, errors.New("stop") }
func (c *redHelloGrab) Close() error               { return nil }

func redMakeHello(t *testing.T, raw client.RawConfig, ws common.WorldState, mod func(*client.AuthInfo)) []byte {
	_, rcc, ai, err := raw.ProcessRawConfig(ws)
	if err != nil {
		t.Fatal(err)
	}
	ai.SessionId = 1234
	if mod != nil {
		mod(&ai)
	}
	g := &redHelloGrab{}
	tr := rcc.Transport.CreateTransport()
	tr.Handshake(g, ai)
	if g.first == nil {
		t.Fatal("no hello")
	}
	return g.first
}

func TestRedC09SweepCloakHellos(t *testing.T) {
	log.SetLevel(log.PanicLevel)
	now := time.Unix(1_700_000_000, 0)
	ws := common.WorldOfTime(now)
	env := redNewRelayEnv(t, ws, nil)
	base := basicTCPConfig
	base.RemoteHost = "127.0.0.1"
	unknownUID := bytes.Repeat([]byte{0x42}, 16)

	for _, br := range []string{"chrome", "firefox", "safari"} {
		cfg := base
		cfg.BrowserSig = br
		// unauthorised UID (no database: every non-bypass UID is refused)
		h := redMakeHello(t, cfg, ws, func(ai *client.AuthInfo) { ai.UID = unknownUID })
		env.check(t, br+"/unauthorised-uid", h, nil, 0)
		h = redMakeHello(t, cfg, ws, func(ai *client.AuthInfo) { ai.UID = unknownUID })
		env.check(t, br+"/unauthorised-uid+data", append(h, redRand(5000)...), []int{1, 5, 6, 100, len(h) - 1, len(h), len(h) + 1}, time.Millisecond)
		// unknown proxy method with an authorised (bypass) UID
		h = redMakeHello(t, cfg, ws, func(ai *client.AuthInfo) { ai.ProxyMethod = "nosuchmethod" })
		env.check(t, br+"/unknown-proxy-method", h, nil, 0)
		// empty proxy method
		h = redMakeHello(t, cfg, ws, func(ai *client.AuthInfo) { ai.ProxyMethod = "" })
		env.check(t, br+"/empty-proxy-method", h, nil, 0)
		// unknown encryption method
		h = redMakeHello(t, cfg, ws, func(ai *client.AuthInfo) { ai.EncryptionMethod = 9 })
		env.check(t, br+"/unknown-encryption", h, nil, 0)
		// stale / future timestamp
		for _, d := range []time.Duration{-181 * time.Second, -180 * time.Second, 180 * time.Second, 181 * time.Second, -24 * time.Hour} {
			h = redMakeHello(t, cfg, common.WorldOfTime(now.Add(d)), nil)
			env.check(t, fmt.Sprintf("%s/timestamp%v", br, d), h, nil, 0)
		}
		// wrong server key
		h = redMakeHello(t, cfg, ws, func(ai *client.AuthInfo) { var k [32]byte; rand.Read(k[:]); ai.ServerPubKey = &k })
		env.check(t, br+"/wrong-server-key", h, nil, 0)
		// every single-byte mutation class: flip one bit in each region of a good hello
		good := redMakeHello(t, cfg, ws, func(ai *client.AuthInfo) { ai.UID = unknownUID }) // stays unauthorised even if mutation is ignored
		for _, pos := range []int{1, 2, 3, 4, 5, 6, 7, 8, 9, 10, 11, 20, 42, 43, 44, 60, 75, 76, 77, 78, 100, 150, len(good) / 2, len(good) - 40, len(good) - 1} {
			m := append([]byte{}, good...)
			m[pos] ^= 0x01
			if pos == 3 || pos == 4 {
				// declared record length changed: make the stream long enough to be a "complete record" anyway
				m = append(m, redRand(70000)...)
				m = m[:5+int(binary.BigEndian.Uint16(m[3:5]))+10]
			}
			env.check(t, fmt.Sprintf("%s/mutate@%d", br, pos), m, nil, 0)
		}
		// truncations with the record length fixed up
		for _, keep := range []int{6, 9, 10, 43, 44, 76, 77, 100, len(good) - 33, len(good) - 1} {
			m := append([]byte{}, good[:keep]...)
			binary.BigEndian.PutUint16(m[3:5], uint16(keep-5))
			env.check(t, fmt.Sprintf("%s/truncate@%d", br, keep), m, nil, 0)
		}
	}
}

// a replayed genuine hello of an authorised user: the copy (and a copy with the ignored top bit of the X25519
// value flipped) must be relayed, and the server must add nothing of its own
func TestRedC09SweepReplay(t *testing.T) {
	log.SetLevel(log.PanicLevel)
	now := time.Unix(1_700_000_000, 0)
	ws := common.WorldOfTime(now)
	env := redNewRelayEnv(t, ws, nil)
	cfg := basicTCPConfig
	h := redMakeHello(t, cfg, ws, nil) // bypass UID, shadowsocks: acceptable

	// original: the server answers with its ServerHello flight (proves the hello is good)
	c, err := net.Dial("tcp", env.srvAddr)
	if err != nil {
		t.Fatal(err)
	}
	c.Write(h)
	c.SetReadDeadline(time.Now().Add(3 * time.Second))
	hdr := make([]byte, 5)
	if _, err := io.ReadFull(c, hdr); err != nil || hdr[0] != 0x16 {
		t.Fatalf("original hello was not accepted: %v %x", err, hdr)
	}
	defer c.Close()

	env.check(t, "replay", h, nil, 0)
	m := append([]byte{}, h...)
	m[5+4+2+31] ^= 0x80
	env.check(t, "replay-topbit", m, nil, 0)
	env.check(t, "replay-again", h, []int{1, 2, 3}, time.Millisecond)
}
