package server

import (
	"bytes"
	"crypto/rand"
	"io"
	"net"
	"runtime"
	"testing"
	"time"

	"github.com/cbeuw/Cloak/internal/common"
)

// redC09State builds a server state whose redirect target is the given TCP address.
func redC09State(t *testing.T, redir string) *State {
	t.Helper()
	pv := make([]byte, 32)
	rand.Read(pv)
	sta, err := InitState(RawConfig{
		RedirAddr:  redir,
		PrivateKey: pv,
	}, common.RealWorldState)
	if err != nil {
		t.Fatal(err)
	}
	return sta
}

// The peer sends a complete (unauthenticated) request and then shuts down its sending direction
// (an ordinary TCP half close: `printf 'GET / HTTP/1.0\r\n\r\n' | nc host 443`). The target
// answers a little later. C09: "the peer receives exactly the bytes the target replies with".
func redC09HalfClose(t *testing.T, first []byte, replyDelay time.Duration) {
	reply := bytes.Repeat([]byte("REPLY-FROM-TARGET\n"), 8)

	target, err := net.Listen("tcp", "127.0.0.1:0")
	if err != nil {
		t.Fatal(err)
	}
	defer target.Close()
	gotByTarget := make(chan []byte, 1)
	go func() {
		c, err := target.Accept()
		if err != nil {
			return
		}
		defer c.Close()
		// read exactly the request, then answer after a delay (a perfectly ordinary response script)
		buf := make([]byte, len(first))
		io.ReadFull(c, buf)
		gotByTarget <- buf
		time.Sleep(replyDelay)
		c.Write(reply)
	}()

	sta := redC09State(t, target.Addr().String())
	srv, err := net.Listen("tcp", "127.0.0.1:0")
	if err != nil {
		t.Fatal(err)
	}
	defer srv.Close()
	go Serve(srv, sta)

	peer, err := net.Dial("tcp", srv.Addr().String())
	if err != nil {
		t.Fatal(err)
	}
	defer peer.Close()
	if _, err := peer.Write(first); err != nil {
		t.Fatal(err)
	}
	// half close: we have nothing more to send, but we still want the answer
	if err := peer.(*net.TCPConn).CloseWrite(); err != nil {
		t.Fatal(err)
	}

	select {
	case got := <-gotByTarget:
		if !bytes.Equal(got, first) {
			t.Fatalf("target did not receive the peer's bytes exactly: %q", got)
		}
	case <-time.After(5 * time.Second):
		t.Fatal("target never received the request")
	}

	peer.SetReadDeadline(time.Now().Add(5 * time.Second))
	got, _ := io.ReadAll(peer)
	if !bytes.Equal(got, reply) {
		t.Fatalf("peer received %d bytes %q, but the target replied with %d bytes", len(got), got, len(reply))
	}
}

func TestRedC09HalfCloseHTTP(t *testing.T) {
	redC09HalfClose(t, []byte("GET / HTTP/1.0\r\nHost: example.com\r\n\r\n"), 200*time.Millisecond)
}

func TestRedC09HalfCloseUnrecognised(t *testing.T) {
	redC09HalfClose(t, []byte("SSH-2.0-OpenSSH_9.6\r\n"), 200*time.Millisecond)
}

func TestRedC09HalfCloseTLSRecord(t *testing.T) {
	// a complete handshake record that is not a Cloak hello
	rec := append([]byte{0x16, 0x03, 0x01, 0x00, 0x20}, bytes.Repeat([]byte{0xAA}, 0x20)...)
	redC09HalfClose(t, rec, 200*time.Millisecond)
}

// control: the same exchange without the half close works, so the failure above is caused by the half close only
func TestRedC09ControlNoHalfClose(t *testing.T) {
	first := []byte("GET / HTTP/1.0\r\nHost: example.com\r\n\r\n")
	reply := []byte("REPLY-FROM-TARGET\n")
	target, _ := net.Listen("tcp", "127.0.0.1:0")
	defer target.Close()
	go func() {
		c, err := target.Accept()
		if err != nil {
			return
		}
		defer c.Close()
		buf := make([]byte, len(first))
		io.ReadFull(c, buf)
		time.Sleep(200 * time.Millisecond)
		c.Write(reply)
	}()
	sta := redC09State(t, target.Addr().String())
	srv, _ := net.Listen("tcp", "127.0.0.1:0")
	defer srv.Close()
	go Serve(srv, sta)
	peer, err := net.Dial("tcp", srv.Addr().String())
	if err != nil {
		t.Fatal(err)
	}
	defer peer.Close()
	peer.Write(first)
	peer.SetReadDeadline(time.Now().Add(5 * time.Second))
	got, _ := io.ReadAll(peer)
	if !bytes.Equal(got, reply) {
		t.Fatalf("control: peer received %q", got)
	}
}

// real TCP variant of the "redirect target is down" fault: the peer is neither relayed nor closed; the socket
// only goes away when the Go garbage collector happens to finalise the forgotten *net.TCPConn
func TestRedC09OrphanRealTCP(t *testing.T) {
	l, _ := net.Listen("tcp", "127.0.0.1:0")
	dead := l.Addr().String()
	l.Close() // nothing listens there any more: dial is refused
	sta := redC09State(t, dead)
	srv, _ := net.Listen("tcp", "127.0.0.1:0")
	defer srv.Close()
	go Serve(srv, sta)
	peer, err := net.Dial("tcp", srv.Addr().String())
	if err != nil {
		t.Fatal(err)
	}
	defer peer.Close()
	peer.Write([]byte("SSH-2.0-probe\r\n"))
	peer.SetReadDeadline(time.Now().Add(2 * time.Second))
	_, err = peer.Read(make([]byte, 1))
	if ne, ok := err.(net.Error); ok && ne.Timeout() {
		t.Errorf("2 s after the failed redirect the peer is still connected: neither relayed nor closed (%v)", err)
	} else {
		t.Logf("peer read: %v", err)
	}
	runtime.GC()
	runtime.GC()
	peer.SetReadDeadline(time.Now().Add(2 * time.Second))
	_, err = peer.Read(make([]byte, 1))
	t.Logf("after a forced GC: peer read: %v", err)
}
