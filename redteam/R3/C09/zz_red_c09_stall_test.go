//go:build goexperiment.synctest

package server

import (
	"bytes"
	"crypto/rand"
	"io"
	"net"
	"sync"
	"testing"
	"testing/synctest"
	"time"

	"github.com/cbeuw/Cloak/internal/common"
)

type redPipeDialer struct {
	mu    sync.Mutex
	ends  []net.Conn // target side ends
	dials int
}

func (d *redPipeDialer) Dial(network, address string) (net.Conn, error) {
	a, b := net.Pipe()
	d.mu.Lock()
	d.ends = append(d.ends, b)
	d.dials++
	d.mu.Unlock()
	return a, nil
}

// A complete request that begins with 'G' but whose header block is not terminated by an empty CRLF line:
//   - an HTTP/0.9 simple request ("GET /\r\n" is the whole request),
//   - a request with bare-LF line ends (accepted by nginx, Apache (default), Go, ... RFC 7230 3.5),
//   - any non-HTTP protocol whose first byte happens to be 'G'.
//
// The target answers all of them at once; Cloak holds the bytes back, the target is not even dialled, and
// after 15 s the peer is disconnected without the target ever having seen a byte.
func redC09Stall(t *testing.T, sta *State, first []byte) {
	synctest.Run(func() {
		dialer := &redPipeDialer{}
		sta.RedirDialer = dialer
		peer, srv := net.Pipe()
		done := make(chan struct{})
		go func() { dispatchConnection(srv, sta); close(done) }()

		start := time.Now()
		if _, err := peer.Write(first); err != nil {
			t.Fatalf("write: %v", err)
		}
		// the peer has sent its complete request and now waits for the answer
		peer.SetReadDeadline(time.Now().Add(60 * time.Second))
		got, err := io.ReadAll(peer)
		elapsed := time.Since(start)

		dialer.mu.Lock()
		dials := dialer.dials
		dialer.mu.Unlock()
		t.Logf("peer read ended after %v with %d bytes, err=%v; redirect target dialled %d times", elapsed, len(got), err, dials)
		if dials == 0 {
			t.Errorf("%q: the complete request was never relayed: target not contacted, peer disconnected after %v", first, elapsed)
		}
		<-done
	})
}

func redStateNoDial(t *testing.T) *State {
	pv := make([]byte, 32)
	rand.Read(pv)
	sta, err := InitState(RawConfig{RedirAddr: "127.0.0.1:1", PrivateKey: pv}, common.RealWorldState)
	if err != nil {
		t.Fatal(err)
	}
	return sta
}

func TestRedC09StallHTTP09(t *testing.T) {
	redC09Stall(t, redStateNoDial(t), []byte("GET /\r\n"))
}

func TestRedC09StallBareLF(t *testing.T) {
	redC09Stall(t, redStateNoDial(t), []byte("GET / HTTP/1.1\nHost: example.com\n\n"))
}

func TestRedC09StallNonHTTP(t *testing.T) {
	redC09Stall(t, redStateNoDial(t), append([]byte("GIOP\x01\x02\x00\x00"), bytes.Repeat([]byte{0}, 40)...))
}

// control: same harness, CRLF-terminated request is relayed at once
func TestRedC09StallControl(t *testing.T) {
	sta := redStateNoDial(t)
	synctest.Run(func() {
		dialer := &redPipeDialer{}
		sta.RedirDialer = dialer
		peer, srv := net.Pipe()
		go dispatchConnection(srv, sta)
		first := []byte("GET / HTTP/1.1\r\nHost: example.com\r\n\r\n")
		go peer.Write(first)
		synctest.Wait()
		dialer.mu.Lock()
		if dialer.dials != 1 {
			t.Fatalf("control: dials %d", dialer.dials)
		}
		target := dialer.ends[0]
		dialer.mu.Unlock()
		buf := make([]byte, len(first))
		if _, err := io.ReadFull(target, buf); err != nil || !bytes.Equal(buf, first) {
			t.Fatalf("control: %v %q", err, buf)
		}
		go func() { target.Write([]byte("OK")); target.Close() }()
		got, _ := io.ReadAll(peer)
		if string(got) != "OK" {
			t.Fatalf("control: peer got %q", got)
		}
	})
}

// ---- fault points in the redirect path: the peer is neither relayed nor closed ----

type redFailDialer struct{}

func (redFailDialer) Dial(network, address string) (net.Conn, error) {
	return nil, io.ErrClosedPipe // e.g. connection refused: the redirect target is down / restarting
}

type redWriteFailDialer struct{ closed *bool }
type redWriteFailConn struct {
	net.Conn
	closed *bool
}

func (c redWriteFailConn) Write(b []byte) (int, error) { return 0, io.ErrClosedPipe } // e.g. RST from the target
func (c redWriteFailConn) Close() error                { *c.closed = true; return c.Conn.Close() }
func (d redWriteFailDialer) Dial(network, address string) (net.Conn, error) {
	a, _ := net.Pipe()
	return redWriteFailConn{a, d.closed}, nil
}

func redC09Orphan(t *testing.T, sta *State, dialer common.Dialer) {
	synctest.Run(func() {
		sta.RedirDialer = dialer
		peer, srv := net.Pipe()
		done := make(chan struct{})
		go func() { dispatchConnection(srv, sta); close(done) }()
		peer.Write([]byte("S")) // unrecognisable first byte (net.Pipe is unbuffered, so send just the byte the server reads): must be relayed or closed
		<-done                  // the dispatcher has returned ...
		synctest.Wait()
		peer.SetReadDeadline(time.Now().Add(24 * time.Hour))
		n, err := peer.Read(make([]byte, 1))
		if ne, ok := err.(net.Error); ok && ne.Timeout() {
			t.Errorf("24 h after the dispatcher gave up the peer's connection is still open: not relayed, not closed (read: n=%d err=%v)", n, err)
		}
	})
}

func TestRedC09OrphanDialFails(t *testing.T) {
	redC09Orphan(t, redStateNoDial(t), redFailDialer{})
}

func TestRedC09OrphanFirstWriteFails(t *testing.T) {
	closed := false
	redC09Orphan(t, redStateNoDial(t), redWriteFailDialer{&closed})
	if !closed {
		t.Errorf("the connection to the redirect target was not closed either")
	}
}
