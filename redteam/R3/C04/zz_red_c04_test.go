package multiplex

import (
	"bytes"
	"crypto/aes"
	"crypto/cipher"
	"crypto/rand"
	"encoding/binary"
	"fmt"
	"io"
	mrand "math/rand"
	"net"
	"sync"
	"testing"

	"golang.org/x/crypto/chacha20poly1305"
	"golang.org/x/crypto/salsa20"
)

// ---- independent implementation of the Cloak v2 frame layout ----

func redAEAD(method byte, key [32]byte) cipher.AEAD {
	switch method {
	case EncryptionMethodPlain:
		return nil
	case EncryptionMethodAES256GCM:
		b, _ := aes.NewCipher(key[:])
		a, _ := cipher.NewGCM(b)
		return a
	case EncryptionMethodAES128GCM:
		b, _ := aes.NewCipher(key[:16])
		a, _ := cipher.NewGCM(b)
		return a
	case EncryptionMethodChaha20Poly1305:
		a, _ := chacha20poly1305.New(key[:])
		return a
	}
	panic("method")
}

func redEncode(method byte, key [32]byte, f *Frame, padLen int) []byte {
	aead := redAEAD(method, key)
	hdr := make([]byte, 14)
	binary.BigEndian.PutUint32(hdr[0:4], f.StreamID)
	binary.BigEndian.PutUint64(hdr[4:12], f.Seq)
	hdr[12] = f.Closing
	pt := make([]byte, len(f.Payload)+padLen)
	copy(pt, f.Payload)
	rand.Read(pt[len(f.Payload):])
	var body []byte
	if aead == nil {
		hdr[13] = byte(padLen + 8)
		nonce := make([]byte, 8)
		rand.Read(nonce)
		body = append(pt, nonce...)
	} else {
		hdr[13] = byte(padLen + 16)
		body = aead.Seal(nil, hdr[:12], pt, nil)
	}
	ehdr := make([]byte, 14)
	salsa20.XORKeyStream(ehdr, hdr, body[len(body)-8:], &key)
	return append(ehdr, body...)
}

func redDecode(method byte, key [32]byte, msg []byte) (*Frame, error) {
	aead := redAEAD(method, key)
	if len(msg) < 22 {
		return nil, fmt.Errorf("short")
	}
	hdr := make([]byte, 14)
	salsa20.XORKeyStream(hdr, msg[:14], msg[len(msg)-8:], &key)
	f := &Frame{
		StreamID: binary.BigEndian.Uint32(hdr[0:4]),
		Seq:      binary.BigEndian.Uint64(hdr[4:12]),
		Closing:  hdr[12],
	}
	extra := int(hdr[13])
	body := msg[14:]
	if aead == nil {
		if extra > len(body) {
			return nil, fmt.Errorf("extra")
		}
		f.Payload = append([]byte{}, body[:len(body)-extra]...)
		return f, nil
	}
	pt, err := aead.Open(nil, hdr[:12], body, nil)
	if err != nil {
		return nil, err
	}
	if extra < 16 || extra-16 > len(pt) {
		return nil, fmt.Errorf("extra")
	}
	f.Payload = pt[:len(pt)-(extra-16)]
	return f, nil
}

func redFrameEq(a, b *Frame) bool {
	return a.StreamID == b.StreamID && a.Seq == b.Seq && a.Closing == b.Closing && bytes.Equal(a.Payload, b.Payload)
}

var redMethods = []byte{EncryptionMethodPlain, EncryptionMethodAES256GCM, EncryptionMethodChaha20Poly1305, EncryptionMethodAES128GCM}

// exhaustive over payload length; each length gets a seq on one side of the threshold and a random placement,
// plus both sides / both placements at the boundaries
func TestRedC04Exhaustive(t *testing.T) {
	for _, limit := range []int{defaultMaxOnWireSize, 16401 /* appDataMaxLength used by ck-client and ck-server */} {
		redC04Exhaustive(t, limit)
	}
}

func redC04Exhaustive(t *testing.T, limit int) {
	sesh := MakeSession(0, SessionConfig{MsgOnWireSizeLimit: limit})
	maxPayload := sesh.maxStreamUnitWrite
	if maxPayload != limit-14-255 {
		t.Fatalf("max payload %v", maxPayload)
	}
	src := make([]byte, maxPayload)
	rand.Read(src)
	rng := mrand.New(mrand.NewSource(1))
	seqs := []uint64{0, 1, 4, 5, 6, 1 << 32, ^uint64(0)}
	for _, method := range redMethods {
		var key [32]byte
		rand.Read(key[:])
		o, err := MakeObfuscator(method, key)
		if err != nil {
			t.Fatal(err)
		}
		buf := make([]byte, limit)
		for n := 1; n <= maxPayload; n++ {
			reps := 1
			if n < 600 || n > maxPayload-300 {
				reps = len(seqs) * 2
			}
			for r := 0; r < reps; r++ {
				var seq uint64
				var inPlace bool
				if reps == 1 {
					seq = seqs[rng.Intn(len(seqs))]
					inPlace = rng.Intn(2) == 0
				} else {
					seq = seqs[r/2]
					inPlace = r%2 == 0
				}
				f := &Frame{StreamID: rng.Uint32(), Seq: seq, Closing: uint8(rng.Intn(256))}
				want := &Frame{StreamID: f.StreamID, Seq: f.Seq, Closing: f.Closing, Payload: src[:n]}
				var l int
				if inPlace {
					copy(buf[14:], src[:n])
					f.Payload = buf[14 : 14+n]
					l, err = o.obfuscate(f, buf, 14)
				} else {
					f.Payload = src[:n]
					l, err = o.obfuscate(f, buf, 0)
				}
				if err != nil {
					t.Fatalf("method %v n %v seq %v inplace %v: %v", method, n, seq, inPlace, err)
				}
				if l > limit {
					t.Fatalf("method %v n %v: encoded %v > limit", method, n, l)
				}
				if seq >= 5 {
					tag := 16
					if method == EncryptionMethodPlain {
						tag = 8
					}
					if l != 14+n+tag {
						t.Fatalf("unpadded length wrong %v", l)
					}
				}
				msg := append([]byte{}, buf[:l]...)
				// independent decoder
				got, err := redDecode(method, key, msg)
				if err != nil || !redFrameEq(got, want) {
					t.Fatalf("independent decode: method %v n %v seq %v inplace %v: err %v", method, n, seq, inPlace, err)
				}
				// own decoder
				var g Frame
				if err := o.deobfuscate(&g, append([]byte{}, msg...)); err != nil || !redFrameEq(&g, want) {
					t.Fatalf("own decode: method %v n %v seq %v inplace %v: err %v", method, n, seq, inPlace, err)
				}
				// independent encoder -> own decoder
				if reps > 1 || n%7 == 0 {
					tag := 16
					if method == EncryptionMethodPlain {
						tag = 8
					}
					pad := 0
					if seq < 5 {
						pad = rng.Intn(255 - tag + 1)
					}
					m2 := redEncode(method, key, want, pad)
					var g2 Frame
					if err := o.deobfuscate(&g2, m2); err != nil || !redFrameEq(&g2, want) {
						t.Fatalf("indep encode->own decode: method %v n %v seq %v pad %v: err %v", method, n, seq, pad, err)
					}
				}
			}
		}
	}
}

// the padding is random: make sure every possible padding value (incl. the max 255-tag) round-trips and fits,
// by drawing many times at the maximum payload
func TestRedC04PaddingRange(t *testing.T) {
	const limit = defaultMaxOnWireSize
	maxPayload := limit - 14 - 255
	src := make([]byte, maxPayload)
	rand.Read(src)
	for _, method := range redMethods {
		var key [32]byte
		rand.Read(key[:])
		o, _ := MakeObfuscator(method, key)
		buf := make([]byte, limit)
		seen := map[int]bool{}
		tag := 16
		if method == EncryptionMethodPlain {
			tag = 8
		}
		for i := 0; i < 6000; i++ {
			f := &Frame{StreamID: 1, Seq: uint64(i % 5), Payload: src}
			l, err := o.obfuscate(f, buf, 0)
			if err != nil {
				t.Fatal(err)
			}
			if l > limit {
				t.Fatalf("exceeds limit: %v", l)
			}
			pad := l - 14 - maxPayload - tag
			if pad < 0 || pad > 255-tag {
				t.Fatalf("pad %v", pad)
			}
			seen[pad] = true
			got, err := redDecode(method, key, append([]byte{}, buf[:l]...))
			if err != nil || !bytes.Equal(got.Payload, src) {
				t.Fatalf("decode pad %v: %v", pad, err)
			}
		}
		if !seen[0] || !seen[255-tag] {
			t.Logf("method %v: extremes seen: 0:%v max:%v (of %v values)", method, seen[0], seen[255-tag], len(seen))
		}
	}
}

// a buffer of exactly the needed size, and payload living elsewhere inside the same buffer (overlapping the destination)
func TestRedC04BufferEdges(t *testing.T) {
	for _, method := range redMethods {
		var key [32]byte
		rand.Read(key[:])
		o, _ := MakeObfuscator(method, key)
		tag := 16
		if method == EncryptionMethodPlain {
			tag = 8
		}
		for _, n := range []int{1, 2, 13, 14, 15, 100, 1000} {
			src := make([]byte, n)
			rand.Read(src)
			// exact size buffer, unpadded
			buf := make([]byte, 14+n+tag)
			f := &Frame{StreamID: 7, Seq: 9, Payload: src}
			l, err := o.obfuscate(f, buf, 0)
			if err != nil || l != len(buf) {
				t.Fatalf("exact buffer: %v %v", l, err)
			}
			got, err := redDecode(method, key, buf[:l])
			if err != nil || !bytes.Equal(got.Payload, src) {
				t.Fatalf("exact buffer decode: %v", err)
			}
			// one byte too small must be refused, not overflow
			small := make([]byte, 14+n+tag-1)
			if _, err := o.obfuscate(f, small, 0); err == nil {
				t.Fatalf("too small buffer accepted")
			}
			// payload inside buf at offsets overlapping the destination
			for _, off := range []int{0, 1, 13, 15, 20} {
				big := make([]byte, 14+n+255+32)
				copy(big[off:], src)
				f := &Frame{StreamID: 7, Seq: 2, Payload: big[off : off+n]}
				l, err := o.obfuscate(f, big, off)
				if err != nil {
					t.Fatal(err)
				}
				got, err := redDecode(method, key, big[:l])
				if err != nil || !bytes.Equal(got.Payload, src) {
					t.Fatalf("method %v n %v overlapping offset %v: err %v equal %v", method, n, off, err, err == nil && bytes.Equal(got.Payload, src))
				}
			}
		}
	}
}

// decoder edge: shortest messages and extra-length corner values must never panic
func TestRedC04DecodeNoPanic(t *testing.T) {
	for _, method := range redMethods {
		var key [32]byte
		rand.Read(key[:])
		o, _ := MakeObfuscator(method, key)
		for l := 0; l < 64; l++ {
			for extra := 0; extra < 256; extra++ {
				msg := make([]byte, l)
				rand.Read(msg)
				if l >= 22 {
					// craft header so that extra field == extra
					hdr := make([]byte, 14)
					rand.Read(hdr)
					hdr[13] = byte(extra)
					salsa20.XORKeyStream(msg[:14], hdr, msg[l-8:], &key)
				}
				var f Frame
				func() {
					defer func() {
						if r := recover(); r != nil {
							t.Fatalf("panic method %v len %v extra %v: %v", method, l, extra, r)
						}
					}()
					o.deobfuscate(&f, msg)
				}()
			}
		}
	}
}

// ---- session level: every message handed to the underlying conn respects the configured limit ----

type redRecConn struct {
	net.Conn // nil; only the methods below are used
	mu       sync.Mutex
	msgs     [][]byte
	closed   chan struct{}
	once     sync.Once
}

func (c *redRecConn) Write(b []byte) (int, error) {
	c.mu.Lock()
	c.msgs = append(c.msgs, append([]byte{}, b...))
	c.mu.Unlock()
	return len(b), nil
}
func (c *redRecConn) Read(b []byte) (int, error) { <-c.closed; return 0, io.EOF }
func (c *redRecConn) Close() error               { c.once.Do(func() { close(c.closed) }); return nil }
func (c *redRecConn) LocalAddr() net.Addr        { return nil }
func (c *redRecConn) RemoteAddr() net.Addr       { return nil }

func TestRedC04SessionLimit(t *testing.T) {
	for _, limit := range []int{0, 16401, 1000, 526, 525, 400, 300, 271, 270} {
		for _, method := range redMethods {
			func() {
				defer func() {
					if r := recover(); r != nil {
						t.Errorf("limit %v method %v: panic %v", limit, method, r)
					}
				}()
				var key [32]byte
				rand.Read(key[:])
				o, _ := MakeObfuscator(method, key)
				sesh := MakeSession(1, SessionConfig{Obfuscator: o, MsgOnWireSizeLimit: limit})
				eff := limit
				if eff == 0 {
					eff = defaultMaxOnWireSize
				}
				rc := &redRecConn{closed: make(chan struct{})}
				sesh.AddConnection(rc)
				st, err := sesh.OpenStream()
				if err != nil {
					t.Fatal(err)
				}
				data := make([]byte, 3*eff+17)
				rand.Read(data)
				// Write path (separate buffer)
				if _, err := st.Write(data); err != nil {
					t.Fatalf("limit %v write: %v", limit, err)
				}
				// ReadFrom path (in place)
				st.ReadFrom(bytes.NewReader(data))
				cerr := st.Close()
				serr := sesh.Close()
				rc.mu.Lock()
				defer rc.mu.Unlock()
				var re []byte
				for i, m := range rc.msgs {
					if len(m) > eff {
						t.Errorf("limit %v method %v: message %d has %d bytes", limit, method, i, len(m))
					}
					f, err := redDecode(method, key, m)
					if err != nil {
						t.Errorf("limit %v method %v: message %d undecodable: %v", limit, method, i, err)
						continue
					}
					if f.Closing == closingNothing {
						re = append(re, f.Payload...)
					}
				}
				if !bytes.Equal(re, append(append([]byte{}, data...), data...)) {
					t.Errorf("limit %v method %v: reassembled payload differs (%d vs %d)", limit, method, len(re), 2*len(data))
				}
				if cerr != nil || serr != nil {
					t.Logf("limit %v method %v: stream close err=%v session close err=%v", limit, method, cerr, serr)
				}
			}()
		}
	}
}
