package test

import (
	"bytes"
	"encoding/binary"
	"fmt"
	"io"
	mrand "math/rand"
	"net"
	"sync"
	"testing"
	"time"

	"github.com/cbeuw/Cloak/internal/client"
	"github.com/cbeuw/Cloak/internal/common"
	"github.com/cbeuw/Cloak/internal/server"
	"github.com/cbeuw/connutil"
	log "github.com/sirupsen/logrus"
)

type redTapConn struct {
	net.Conn
	mu   sync.Mutex
	up   bytes.Buffer // client -> server
	down bytes.Buffer // server -> client
}

func (c *redTapConn) Write(b []byte) (int, error) {
	n, err := c.Conn.Write(b)
	c.mu.Lock()
	c.up.Write(b[:n])
	c.mu.Unlock()
	return n, err
}
func (c *redTapConn) Read(b []byte) (int, error) {
	n, err := c.Conn.Read(b)
	c.mu.Lock()
	c.down.Write(b[:n])
	c.mu.Unlock()
	return n, err
}

type redTapDialer struct {
	inner common.Dialer
	mu    sync.Mutex
	conns []*redTapConn
}

func (d *redTapDialer) Dial(network, address string) (net.Conn, error) {
	c, err := d.inner.Dial(network, address)
	if err != nil {
		return nil, err
	}
	tc := &redTapConn{Conn: c}
	d.mu.Lock()
	d.conns = append(d.conns, tc)
	d.mu.Unlock()
	return tc, nil
}

type redRecord struct {
	typ byte
	ver uint16
	n   int
}

func redSplitRecords(b []byte) (recs []redRecord, trailing int) {
	for len(b) >= 5 {
		n := int(binary.BigEndian.Uint16(b[3:5]))
		if len(b) < 5+n {
			break
		}
		recs = append(recs, redRecord{b[0], binary.BigEndian.Uint16(b[1:3]), n})
		b = b[5+n:]
	}
	return recs, len(b)
}

func redCheckDirection(t *testing.T, what string, b []byte, handshakeRecs []byte) {
	recs, trailing := redSplitRecords(b)
	if trailing != 0 {
		t.Errorf("%s: %d trailing bytes that do not form a record", what, trailing)
	}
	if len(recs) < len(handshakeRecs) {
		t.Errorf("%s: only %d records", what, len(recs))
		return
	}
	for i, typ := range handshakeRecs {
		if recs[i].typ != typ {
			t.Errorf("%s: record %d has type %d, want %d", what, i, recs[i].typ, typ)
		}
	}
	for i, r := range recs[len(handshakeRecs)-0:] {
		if r.typ != 23 || r.ver != 0x0303 || r.n == 0 || r.n > 1<<14+256 {
			t.Errorf("%s: later record %d: type %d version %04x length %d", what, i, r.typ, r.ver, r.n)
		}
	}
	// the last handshake record of the server is application data too
}

func redWireRun(t *testing.T, raw client.RawConfig, unorderedSizes bool) {
	log.SetLevel(log.ErrorLevel)
	worldState := common.WorldOfTime(time.Unix(10, 0))
	lcc, rcc, ai := generateClientConfigs(raw, worldState)
	_ = lcc
	sta := redServerState(worldState)

	netToCkServerD, ckServerListener := connutil.DialerListener(10 * 1024)
	tap := &redTapDialer{inner: netToCkServerD}
	ckServerToProxyD, proxyFromCkServerL := connutil.DialerListener(10 * 1024)
	sta.ProxyDialer = ckServerToProxyD
	go server.Serve(ckServerListener, sta)
	go serveTCPEcho(proxyFromCkServerL)

	ai.SessionId = 0x01020304
	sesh := client.MakeSession(rcc, ai, tap)

	sizes := []int{1, 2, 13, 255, 256, 1000, 16131, 16132, 16133, 16400, 16401, 16640, 16641, 32768, 65536, 100000}
	var wg sync.WaitGroup
	for s := 0; s < 6; s++ {
		st, err := sesh.OpenStream()
		if err != nil {
			t.Fatal(err)
		}
		wg.Add(1)
		go func(s int) {
			defer wg.Done()
			rng := mrand.New(mrand.NewSource(int64(42 + s))) // one source per goroutine: *rand.Rand is not goroutine safe
			for _, sz := range sizes {
				msg := make([]byte, sz)
				rng.Read(msg)
				go st.Write(msg)
				got := make([]byte, sz)
				st.SetReadDeadline(time.Now().Add(5 * time.Second))
				if _, err := io.ReadFull(st, got); err != nil {
					t.Errorf("echo %d: %v", sz, err)
					return
				}
				if !bytes.Equal(got, msg) {
					t.Errorf("echo mismatch %d", sz)
				}
			}
			st.Write(nil)
			st.Write([]byte{})
			if s%2 == 0 {
				st.Close()
			}
		}(s)
	}
	wg.Wait()
	time.Sleep(100 * time.Millisecond)
	sesh.Close()
	time.Sleep(200 * time.Millisecond)

	tap.mu.Lock()
	defer tap.mu.Unlock()
	if len(tap.conns) != rcc.NumConn {
		t.Errorf("%d conns", len(tap.conns))
	}
	total := 0
	for i, c := range tap.conns {
		c.mu.Lock()
		up := append([]byte{}, c.up.Bytes()...)
		down := append([]byte{}, c.down.Bytes()...)
		c.mu.Unlock()
		// client: one handshake record (22, version 0301), then only application data
		recs, _ := redSplitRecords(up)
		if len(recs) == 0 || recs[0].typ != 22 {
			t.Errorf("conn %d: first client record %+v", i, recs)
			continue
		}
		redCheckDirection(t, fmt.Sprintf("conn %d client->server", i), up[5+recs[0].n:], nil)
		// server: ServerHello (22), CCS (20), appdata, then only appdata
		drecs, _ := redSplitRecords(down)
		if len(drecs) < 3 || drecs[0].typ != 22 || drecs[1].typ != 20 || drecs[1].n != 1 || drecs[2].typ != 23 {
			t.Errorf("conn %d: server first flight %+v", i, drecs)
			continue
		}
		// session id echo
		chSid := up[5+4+2+32+1 : 5+4+2+32+1+32]
		shSid := down[5+4+2+32+1 : 5+4+2+32+1+32]
		if up[5+4+2+32] != 32 || down[5+4+2+32] != 32 || !bytes.Equal(chSid, shSid) {
			t.Errorf("conn %d: session id not echoed", i)
		}
		off := 5 + drecs[0].n + 5 + drecs[1].n
		redCheckDirection(t, fmt.Sprintf("conn %d server->client", i), down[off:], nil)
		total += len(recs) + len(drecs)
	}
	t.Logf("checked %d records", total)
}

func TestRedC10WireTCP(t *testing.T) {
	for _, enc := range []string{"plain", "aes-256-gcm", "aes-128-gcm", "chacha20-poly1305"} {
		for _, br := range []string{"chrome", "firefox", "safari"} {
			cfg := basicTCPConfig
			cfg.EncryptionMethod = enc
			cfg.BrowserSig = br
			t.Run(enc+"/"+br, func(t *testing.T) { redWireRun(t, cfg, false) })
		}
	}
}

func TestRedC10WireSingleplex(t *testing.T) {
	cfg := singleplexTCPConfig
	t.Run("singleplex", func(t *testing.T) {
		log.SetLevel(log.ErrorLevel)
		worldState := common.WorldOfTime(time.Unix(10, 0))
		_, rcc, ai := generateClientConfigs(cfg, worldState)
		sta := redServerState(worldState)
		netToCkServerD, ckServerListener := connutil.DialerListener(10 * 1024)
		tap := &redTapDialer{inner: netToCkServerD}
		ckServerToProxyD, proxyFromCkServerL := connutil.DialerListener(10 * 1024)
		sta.ProxyDialer = ckServerToProxyD
		go server.Serve(ckServerListener, sta)
		go serveTCPEcho(proxyFromCkServerL)
		ai.SessionId = 99
		sesh := client.MakeSession(rcc, ai, tap)
		st, err := sesh.OpenStream()
		if err != nil {
			t.Fatal(err)
		}
		msg := make([]byte, 50000)
		go st.Write(msg)
		io.ReadFull(st, make([]byte, len(msg)))
		st.Close() // closes the session too (singleplex)
		time.Sleep(200 * time.Millisecond)
		for i, c := range tap.conns {
			c.mu.Lock()
			up := append([]byte{}, c.up.Bytes()...)
			down := append([]byte{}, c.down.Bytes()...)
			c.mu.Unlock()
			recs, _ := redSplitRecords(up)
			redCheckDirection(t, fmt.Sprintf("conn %d up", i), up[5+recs[0].n:], nil)
			drecs, _ := redSplitRecords(down)
			redCheckDirection(t, fmt.Sprintf("conn %d down", i), down[5+drecs[0].n+5+drecs[1].n:], nil)
		}
	})
}

func redServerState(ws common.WorldState) *server.State {
	var serverConfig = server.RawConfig{
		ProxyBook:  map[string][]string{"shadowsocks": {"tcp", "127.0.0.1:9999"}, "openvpn": {"udp", "127.0.0.1:9999"}},
		BindAddr:   []string{"127.0.0.1:9999"},
		BypassUID:  [][]byte{bypassUID[:]},
		RedirAddr:  "127.0.0.1:9999",
		PrivateKey: privateKey,
		KeepAlive:  15,
	}
	state, err := server.InitState(serverConfig, ws)
	if err != nil {
		log.Fatal(err)
	}
	return state
}
