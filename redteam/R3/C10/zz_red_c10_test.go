package client

import (
	"bytes"
	"crypto/rand"
	"crypto/tls"
	"encoding/binary"
	"errors"
	"fmt"
	"io"
	"net"
	"strings"
	"testing"
	"time"

	"github.com/cbeuw/Cloak/internal/common"
	"github.com/cbeuw/Cloak/internal/ecdh"
)

type redRecConn struct {
	net.Conn
	writes [][]byte
}

func (c *redRecConn) Write(b []byte) (int, error) {
	c.writes = append(c.writes, append([]byte{}, b...))
	return len(b), nil
}
func (c *redRecConn) Read(b []byte) (int, error) { return 0, io.EOF }
func (c *redRecConn) Close() error               { return nil }

type redHello struct {
	sessionID  []byte
	sni        *string // nil when there is no server_name extension
	x25519     [][]byte
	extensions []uint16
}

// independent ClientHello parser (RFC 8446 4.1.2), strict about lengths
func redParseHello(rec []byte) (*redHello, error) {
	if len(rec) < 5 || rec[0] != 22 {
		return nil, errors.New("not a handshake record")
	}
	if int(binary.BigEndian.Uint16(rec[3:5])) != len(rec)-5 {
		return nil, fmt.Errorf("first flight is not exactly one record: declared %d, have %d", binary.BigEndian.Uint16(rec[3:5]), len(rec)-5)
	}
	b := rec[5:]
	if len(b) < 4 || b[0] != 1 {
		return nil, errors.New("not a ClientHello")
	}
	if int(b[1])<<16|int(b[2])<<8|int(b[3]) != len(b)-4 {
		return nil, errors.New("handshake length mismatch")
	}
	b = b[4:]
	take := func(n int) ([]byte, error) {
		if len(b) < n {
			return nil, errors.New("truncated")
		}
		r := b[:n]
		b = b[n:]
		return r, nil
	}
	if _, err := take(2 + 32); err != nil {
		return nil, err
	}
	h := &redHello{}
	l, err := take(1)
	if err != nil {
		return nil, err
	}
	if h.sessionID, err = take(int(l[0])); err != nil {
		return nil, err
	}
	if l, err = take(2); err != nil {
		return nil, err
	}
	if _, err = take(int(binary.BigEndian.Uint16(l))); err != nil {
		return nil, err
	}
	if l, err = take(1); err != nil {
		return nil, err
	}
	if _, err = take(int(l[0])); err != nil {
		return nil, err
	}
	if l, err = take(2); err != nil {
		return nil, err
	}
	if int(binary.BigEndian.Uint16(l)) != len(b) {
		return nil, errors.New("extensions length mismatch")
	}
	for len(b) > 0 {
		hd, err := take(4)
		if err != nil {
			return nil, err
		}
		typ := binary.BigEndian.Uint16(hd[:2])
		data, err := take(int(binary.BigEndian.Uint16(hd[2:])))
		if err != nil {
			return nil, err
		}
		h.extensions = append(h.extensions, typ)
		switch typ {
		case 0: // server_name
			if len(data) < 5 || int(binary.BigEndian.Uint16(data)) != len(data)-2 || data[2] != 0 ||
				int(binary.BigEndian.Uint16(data[3:])) != len(data)-5 {
				return nil, errors.New("malformed server_name")
			}
			s := string(data[5:])
			h.sni = &s
		case 51: // key_share
			if len(data) < 2 || int(binary.BigEndian.Uint16(data)) != len(data)-2 {
				return nil, errors.New("malformed key_share")
			}
			d := data[2:]
			for len(d) > 0 {
				if len(d) < 4 || len(d) < 4+int(binary.BigEndian.Uint16(d[2:])) {
					return nil, errors.New("malformed key_share entry")
				}
				kl := int(binary.BigEndian.Uint16(d[2:]))
				if binary.BigEndian.Uint16(d) == 0x001d {
					h.x25519 = append(h.x25519, d[4:4+kl])
				}
				d = d[4+kl:]
			}
		}
	}
	return h, nil
}

func redAuthInfo(serverName string) AuthInfo {
	_, pub, _ := ecdh.GenerateKey(rand.Reader)
	return AuthInfo{
		UID:              bytes.Repeat([]byte{1}, 16),
		SessionId:        7,
		ProxyMethod:      "shadowsocks",
		EncryptionMethod: 1,
		ServerPubKey:     pub,
		MockDomain:       serverName,
		WorldState:       common.RealWorldState,
	}
}

// what a stock TLS server sees in the hello (nil error => structurally acceptable to crypto/tls)
func redStockServerSees(first []byte) (serverName string, err error) {
	c, s := net.Pipe()
	defer c.Close()
	defer s.Close()
	seen := make(chan string, 1)
	srv := tls.Server(s, &tls.Config{GetConfigForClient: func(chi *tls.ClientHelloInfo) (*tls.Config, error) {
		seen <- chi.ServerName
		return nil, errors.New("stop here")
	}})
	go func() { c.Write(first) }()
	go func() { io.Copy(io.Discard, c) }()
	errCh := make(chan error, 1)
	go func() { errCh <- srv.Handshake() }()
	select {
	case n := <-seen:
		return n, nil
	case e := <-errCh:
		select {
		case n := <-seen:
			return n, nil
		default:
		}
		return "", e
	case <-time.After(3 * time.Second):
		return "", errors.New("timeout")
	}
}

func redFirstFlight(t *testing.T, br browser, serverName string) (flight []byte, payload []byte) {
	t.Helper()
	rc := &redRecConn{}
	d := &DirectTLS{browser: br}
	_, err := d.Handshake(rc, redAuthInfo(serverName))
	if err == nil {
		t.Fatal("expected EOF from the fake conn")
	}
	if len(rc.writes) != 1 {
		t.Fatalf("first flight made of %d writes (err %v)", len(rc.writes), err)
	}
	return rc.writes[0], nil
}

func TestRedC10ClientHelloServerName(t *testing.T) {
	names := []string{
		"www.bing.com",
		"WWW.Example.COM",
		"localhost",
		"a.b",
		strings.Repeat("a", 63) + "." + strings.Repeat("b", 63) + "." + strings.Repeat("c", 63) + "." + strings.Repeat("d", 61),
		"www.bing.com.", // absolute FQDN
		"1.2.3.4",       // the camouflage "domain" given as an address
		"2001:db8::1",
		"[2001:db8::1]",
	}
	for bi, bn := range []string{"chrome", "firefox", "safari"} {
		for _, name := range names {
			flight, _ := redFirstFlight(t, browser(bi), name)
			h, err := redParseHello(flight)
			if err != nil {
				t.Errorf("%s/%q: %v", bn, name, err)
				continue
			}
			if len(h.sessionID) != 32 {
				t.Errorf("%s/%q: session id of %d bytes", bn, name, len(h.sessionID))
			}
			if len(h.x25519) != 1 || len(h.x25519[0]) != 32 {
				t.Errorf("%s/%q: x25519 key shares: %d", bn, name, len(h.x25519))
			}
			if h.sni == nil {
				t.Errorf("%s/%q: ClientHello carries NO server_name extension at all", bn, name)
			} else if *h.sni != name {
				t.Errorf("%s/%q: ClientHello carries server name %q", bn, name, *h.sni)
			}
			if sn, err := redStockServerSees(flight); err != nil {
				t.Errorf("%s/%q: stock TLS server rejects the hello: %v", bn, name, err)
			} else if h.sni != nil && sn != strings.ToLower(*h.sni) && sn != *h.sni {
				t.Errorf("%s/%q: stock server saw %q", bn, name, sn)
			}
		}
	}
}

func TestRedC10RandomServerName(t *testing.T) {
	for bi := range []string{"chrome", "firefox", "safari"} {
		for _, cfg := range []string{"random", "RANDOM", "Random"} {
			for i := 0; i < 30; i++ {
				flight, _ := redFirstFlight(t, browser(bi), cfg)
				h, err := redParseHello(flight)
				if err != nil {
					t.Fatal(err)
				}
				if h.sni == nil || strings.EqualFold(*h.sni, "random") || !strings.Contains(*h.sni, ".") {
					t.Fatalf("random server name: %v", h.sni)
				}
				if len(h.sessionID) != 32 || len(h.x25519) != 1 {
					t.Fatal("sid/keyshare")
				}
				if _, err := redStockServerSees(flight); err != nil {
					t.Fatalf("stock server rejects: %v", err)
				}
			}
		}
	}
}
