package common

import (
	"bytes"
	"encoding/binary"
	"io"
	"math/rand"
	"net"
	"sync"
	"testing"
	"time"

	"github.com/cbeuw/connutil"
)

// redReplayConn is the receiving end of a recorded byte stream, delivered in given segments, then EOF.
type redReplayConn struct {
	net.Conn // nil, only for the method set
	segs     [][]byte
}

func (c *redReplayConn) Read(p []byte) (int, error) {
	for len(c.segs) > 0 && len(c.segs[0]) == 0 {
		c.segs = c.segs[1:]
	}
	if len(c.segs) == 0 {
		return 0, io.EOF
	}
	n := copy(p, c.segs[0])
	c.segs[0] = c.segs[0][n:]
	return n, nil
}
func (c *redReplayConn) Close() error { return nil }

// redRecConn records writes.
type redRecConn struct {
	net.Conn
	mu  sync.Mutex
	buf bytes.Buffer
}

func (c *redRecConn) Write(p []byte) (int, error) {
	c.mu.Lock()
	defer c.mu.Unlock()
	return c.buf.Write(p)
}

func redSplit(b []byte, cuts ...int) [][]byte {
	var out [][]byte
	prev := 0
	for _, c := range cuts {
		out = append(out, b[prev:c])
		prev = c
	}
	return append(out, b[prev:])
}

func redReadAll(t *testing.T, conn net.Conn, bufSize int) (msgs [][]byte, err error) {
	buf := make([]byte, bufSize)
	for {
		n, e := conn.Read(buf)
		if e != nil {
			return msgs, e
		}
		msgs = append(msgs, append([]byte(nil), buf[:n]...))
	}
}

// NONE-FOUND evidence, TLSConn: every single cut and every pair of cuts of a short exchange
// (messages of length 0,1,2,5,6,17 so that cuts fall inside headers and payloads), random
// multi-cuts of a long exchange with lengths over 0..16640, 16641 refused.
func TestRedC05_TLS_Segmentation(t *testing.T) {
	rec := &redRecConn{}
	w := NewTLSConn(rec)
	var want [][]byte
	for i, n := range []int{0, 1, 2, 5, 0, 6, 17, 3} {
		m := bytes.Repeat([]byte{byte(i + 1)}, n)
		if k, err := w.Write(m); err != nil || k != n {
			t.Fatalf("write: %d %v", k, err)
		}
		want = append(want, m)
	}
	wire := rec.buf.Bytes()
	check := func(segs [][]byte, what string) {
		got, err := redReadAll(t, NewTLSConn(&redReplayConn{segs: segs}), 64)
		if err != io.EOF {
			t.Fatalf("%s: final err %v", what, err)
		}
		if len(got) != len(want) {
			t.Fatalf("%s: %d messages, want %d", what, len(got), len(want))
		}
		for i := range got {
			if !bytes.Equal(got[i], want[i]) {
				t.Fatalf("%s: message %d differs", what, i)
			}
		}
	}
	for c1 := 0; c1 <= len(wire); c1++ {
		check(redSplit(wire, c1), "1 cut")
		for c2 := c1; c2 <= len(wire); c2++ {
			check(redSplit(wire, c1, c2), "2 cuts")
		}
	}
	// byte by byte
	var cuts []int
	for i := 1; i < len(wire); i++ {
		cuts = append(cuts, i)
	}
	check(redSplit(wire, cuts...), "every byte")

	// long exchange, random cuts, reader buffer exactly the limit
	rng := rand.New(rand.NewSource(1))
	rec = &redRecConn{}
	w = NewTLSConn(rec)
	want = nil
	lens := []int{0, 1, 16640, 16639, 16384, 16385, 255, 256, 257, 65535 & 0x3fff}
	for i := 0; i < 60; i++ {
		lens = append(lens, rng.Intn(16641))
	}
	for _, n := range lens {
		m := make([]byte, n)
		rng.Read(m)
		if k, err := w.Write(m); err != nil || k != n {
			t.Fatalf("write %d: %d %v", n, k, err)
		}
		want = append(want, m)
	}
	if k, err := w.Write(make([]byte, 16641)); err == nil {
		t.Errorf("16641-byte message accepted (n=%d)", k)
	}
	wire = rec.buf.Bytes()
	for round := 0; round < 30; round++ {
		var cuts []int
		pos := 0
		for pos < len(wire) {
			var step int
			switch rng.Intn(4) {
			case 0:
				step = 1 + rng.Intn(3)
			case 1:
				step = 1 + rng.Intn(1460)
			case 2:
				step = 1460
			default:
				step = 1 + rng.Intn(70000)
			}
			pos += step
			if pos < len(wire) {
				cuts = append(cuts, pos)
			}
		}
		got, err := redReadAll(t, NewTLSConn(&redReplayConn{segs: redSplit(wire, cuts...)}), 16640)
		if err != io.EOF || len(got) != len(want) {
			t.Fatalf("round %d: %d msgs err %v", round, len(got), err)
		}
		for i := range got {
			if !bytes.Equal(got[i], want[i]) {
				t.Fatalf("round %d: message %d differs", round, i)
			}
		}
	}
}

// NONE-FOUND evidence, TLSConn: 1..32 concurrent writers on one TLSConn (over a bounded async pipe
// so that writes block and get scheduled differently), every message arrives whole, per-writer order kept.
func TestRedC05_TLS_ConcurrentWriters(t *testing.T) {
	for _, writers := range []int{1, 2, 3, 8, 32} {
		for _, limit := range []int{0, 100, 20000, -1} {
			var a, b net.Conn
			if limit >= 0 {
				a, b = connutil.LimitedAsyncPipe(limit)
			} else {
				// real TCP over loopback
				l, err := net.Listen("tcp", "127.0.0.1:0")
				if err != nil {
					t.Logf("no loopback TCP: %v", err)
					continue
				}
				acc := make(chan net.Conn, 1)
				go func() { c, _ := l.Accept(); acc <- c }()
				a, err = net.Dial("tcp", l.Addr().String())
				if err != nil {
					t.Fatal(err)
				}
				b = <-acc
				l.Close()
			}
			w, r := NewTLSConn(a), NewTLSConn(b)
			const per = 200
			var wg sync.WaitGroup
			for g := 0; g < writers; g++ {
				wg.Add(1)
				go func(g int) {
					defer wg.Done()
					rng := rand.New(rand.NewSource(int64(g)))
					for i := 0; i < per; i++ {
						n := 8 + rng.Intn(3000)
						if i%50 == 0 {
							n = 16640
						}
						m := make([]byte, n)
						binary.BigEndian.PutUint16(m[0:], uint16(g))
						binary.BigEndian.PutUint16(m[2:], uint16(i))
						binary.BigEndian.PutUint32(m[4:], uint32(n))
						for k := 8; k < n; k++ {
							m[k] = byte(g*31 + i*7 + k)
						}
						if k, err := w.Write(m); err != nil || k != n {
							t.Errorf("write: %d %v", k, err)
							return
						}
					}
				}(g)
			}
			b.SetReadDeadline(time.Now().Add(20 * time.Second))
			next := make([]int, writers)
			buf := make([]byte, 20480)
			total := 0
			for total < writers*per {
				n, err := r.Read(buf)
				if err != nil {
					t.Fatalf("writers=%d limit=%d: read error after %d messages: %v", writers, limit, total, err)
				}
				g := int(binary.BigEndian.Uint16(buf[0:]))
				i := int(binary.BigEndian.Uint16(buf[2:]))
				sz := int(binary.BigEndian.Uint32(buf[4:]))
				if g >= writers || sz != n || i != next[g] {
					t.Fatalf("writers=%d: interleaved/garbled message: g=%d i=%d (want %d) sz=%d n=%d", writers, g, i, next[g], sz, n)
				}
				for k := 8; k < n; k++ {
					if buf[k] != byte(g*31+i*7+k) {
						t.Fatalf("writers=%d: content garbled", writers)
					}
				}
				next[g]++
				total++
			}
			wg.Wait()
			a.Close()
		}
	}
}

// C05 demonstration (TLSConn): "a record larger than the reader's buffer is reported as an error,
// never delivered truncated" and "every message passed to one write call is received by exactly
// one read call, whole and unaltered".
//
// TLSConn.Read consumes the 5-byte header, sees that the record does not fit, returns
// io.ErrShortBuffer - and leaves the record's body in the byte stream. The next Read call parses
// bytes 0..4 of that body as a record header and hands a piece of the oversize record to the caller
// as a message with a nil error; the messages written after it are lost or garbled as well.
func TestRedC05_TLS_OversizeRecordIsLaterDeliveredInPieces(t *testing.T) {
	rec := &redRecConn{}
	w := NewTLSConn(rec)

	big := make([]byte, 100) // larger than the reader's 64-byte buffer
	for i := range big {
		big[i] = byte(0xA0 + i%16)
	}
	big[3], big[4] = 0, 10 // whatever the application wrote here is taken for a length
	second := []byte("second message")
	w.Write(big)
	w.Write(second)
	// the whole byte stream arrives in one piece, then EOF
	r := NewTLSConn(&redReplayConn{segs: [][]byte{rec.buf.Bytes()}})

	buf := make([]byte, 64)
	n, err := r.Read(buf)
	if err == nil {
		t.Fatalf("oversize record delivered: n=%d", n)
	}
	t.Logf("read 1: n=%d err=%v   (the oversize record is reported: fine)", n, err)

	for i := 2; ; i++ {
		n, err = r.Read(buf)
		if err != nil {
			t.Logf("read %d: n=%d err=%v", i, n, err)
			break
		}
		got := buf[:n]
		t.Logf("read %d: n=%d err=nil data=%x", i, n, got)
		if bytes.Equal(got, second) {
			continue // the message written after the oversize one, whole: fine
		}
		if bytes.Contains(big, got) && n > 0 {
			t.Errorf("VIOLATION: read %d returned, with a nil error, %d bytes that are a fragment (offset %d) of the oversize record: it was delivered truncated", i, n, bytes.Index(big, got))
		} else {
			t.Errorf("VIOLATION: read %d returned, with a nil error, a message that no write call ever sent", i)
		}
	}
}
