package common

import (
	"bytes"
	"encoding/binary"
	"errors"
	"io"
	"math/rand"
	"net"
	"net/http"
	"net/url"
	"sync"
	"testing"
	"time"

	"github.com/cbeuw/connutil"
	"github.com/gorilla/websocket"
)

// redChopConn delivers what the wrapped conn delivers, but never more than chunk() bytes per Read
// once armed: a stand-in for arbitrary TCP segmentation.
type redChopConn struct {
	net.Conn
	mu    sync.Mutex
	chunk func() int
	// if eofWithData is set, the conn reports io.EOF together with the last bytes of `final`
	// bytes (legal for an io.Reader; crypto/tls does it when close_notify follows the data).
}

func (c *redChopConn) Read(p []byte) (int, error) {
	c.mu.Lock()
	f := c.chunk
	c.mu.Unlock()
	if f != nil {
		if k := f(); k < len(p) {
			p = p[:k]
		}
	}
	return c.Conn.Read(p)
}
func (c *redChopConn) arm(f func() int) { c.mu.Lock(); c.chunk = f; c.mu.Unlock() }

type redOnce struct {
	c    net.Conn
	done bool
	mu   sync.Mutex
}

func (l *redOnce) Accept() (net.Conn, error) {
	l.mu.Lock()
	defer l.mu.Unlock()
	if l.done {
		return nil, errors.New("done")
	}
	l.done = true
	return l.c, nil
}
func (l *redOnce) Close() error   { return nil }
func (l *redOnce) Addr() net.Addr { return l.c.LocalAddr() }

// redWSPair builds client and server WebSocketConn the way internal/client/websocket.go and
// internal/server/websocketAux.go do (client: NewClient with 16480-byte buffers; server:
// default Upgrader inside an http.Serve on a one-connection listener).
func redWSPair(t *testing.T, limit int) (client, server *WebSocketConn, cRaw, sRaw *redChopConn) {
	a, b := connutil.LimitedAsyncPipe(limit)
	cRaw = &redChopConn{Conn: a}
	sRaw = &redChopConn{Conn: b}
	got := make(chan *websocket.Conn, 1)
	go http.Serve(&redOnce{c: sRaw}, http.HandlerFunc(func(w http.ResponseWriter, r *http.Request) {
		up := websocket.Upgrader{}
		c, err := up.Upgrade(w, r, nil)
		if err != nil {
			t.Errorf("upgrade: %v", err)
			return
		}
		got <- c
	}))
	u, _ := url.Parse("ws://example.com/")
	cc, _, err := websocket.NewClient(cRaw, u, http.Header{}, 16480, 16480)
	if err != nil {
		t.Fatal(err)
	}
	client = &WebSocketConn{Conn: cc}
	select {
	case sc := <-got:
		server = &WebSocketConn{Conn: sc}
	case <-time.After(3 * time.Second):
		t.Fatal("no upgrade")
	}
	return
}

func redChunker(seed int64) func() int {
	rng := rand.New(rand.NewSource(seed))
	var mu sync.Mutex
	return func() int {
		mu.Lock()
		defer mu.Unlock()
		switch rng.Intn(5) {
		case 0:
			return 1
		case 1:
			return 1 + rng.Intn(8)
		case 2:
			return 1 + rng.Intn(1460)
		case 3:
			return 1460
		}
		return 1 + rng.Intn(70000)
	}
}

// NONE-FOUND evidence, WebSocketConn: random segmentation (1-byte reads included) in both directions
// (masked client->server frames, unmasked server->client), lengths 0..20480 with a 20480-byte
// reader buffer (exact fit included), every message whole, once, in order.
func TestRedC05_WS_Segmentation(t *testing.T) {
	for seed := int64(0); seed < 6; seed++ {
		client, server, cRaw, sRaw := redWSPair(t, 0)
		cRaw.arm(redChunker(seed))
		sRaw.arm(redChunker(seed + 100))
		rng := rand.New(rand.NewSource(seed))
		lens := []int{0, 1, 2, 125, 126, 127, 65535, 65536, 16401, 16480, 16466, 16467, 4096, 4095, 4097, 20480, 20479, 0, 0, 5}
		for i := 0; i < 40; i++ {
			lens = append(lens, rng.Intn(20481))
		}
		for dir, pair := range [][2]*WebSocketConn{{client, server}, {server, client}} {
			w, r := pair[0], pair[1]
			var want [][]byte
			go func() {
				for _, n := range lens {
					if n > 20480 {
						continue
					}
					m := make([]byte, n)
					rand.New(rand.NewSource(int64(n))).Read(m)
					if k, err := w.Write(m); err != nil || k != n {
						t.Errorf("write %d: %d %v", n, k, err)
					}
				}
			}()
			for _, n := range lens {
				if n > 20480 {
					continue
				}
				m := make([]byte, n)
				rand.New(rand.NewSource(int64(n))).Read(m)
				want = append(want, m)
			}
			buf := make([]byte, 20480)
			for i, m := range want {
				n, err := r.Read(buf)
				if err != nil || !bytes.Equal(buf[:n], m) {
					t.Fatalf("seed %d dir %d msg %d (len %d): n=%d err=%v", seed, dir, i, len(m), n, err)
				}
			}
		}
		client.Close()
		server.Close()
	}
}

// NONE-FOUND evidence, WebSocketConn: a message larger than the reader's buffer is reported as an
// error (buffer+1, buffer+5000), a message of exactly the buffer size is delivered, and the messages
// that follow an oversize one are still delivered whole.
func TestRedC05_WS_Oversize(t *testing.T) {
	client, server, cRaw, sRaw := redWSPair(t, 0)
	cRaw.arm(redChunker(5))
	sRaw.arm(redChunker(6))
	for dir, pair := range [][2]*WebSocketConn{{client, server}, {server, client}} {
		w, r := pair[0], pair[1]
		const B = 1000
		seq := []int{B, B + 1, 10, B + 5000, B, 0, B - 1}
		go func() {
			for i, n := range seq {
				w.Write(bytes.Repeat([]byte{byte(i + 1)}, n))
			}
		}()
		buf := make([]byte, B)
		for i, n := range seq {
			k, err := r.Read(buf)
			if n > B {
				if err == nil {
					t.Errorf("dir %d: oversize message %d delivered as %d bytes with nil error", dir, n, k)
				}
				continue
			}
			if err != nil || !bytes.Equal(buf[:k], bytes.Repeat([]byte{byte(i + 1)}, n)) {
				t.Errorf("dir %d: message %d (len %d): n=%d err=%v", dir, i, n, k, err)
			}
		}
	}
}

// NONE-FOUND evidence, WebSocketConn: concurrent writers never interleave.
func TestRedC05_WS_ConcurrentWriters(t *testing.T) {
	for _, writers := range []int{2, 8, 32} {
		client, server, cRaw, sRaw := redWSPair(t, 3000)
		cRaw.arm(redChunker(1))
		sRaw.arm(redChunker(2))
		for dir, pair := range [][2]*WebSocketConn{{client, server}, {server, client}} {
			w, r := pair[0], pair[1]
			const per = 100
			var wg sync.WaitGroup
			for g := 0; g < writers; g++ {
				wg.Add(1)
				go func(g int) {
					defer wg.Done()
					rng := rand.New(rand.NewSource(int64(g)))
					for i := 0; i < per; i++ {
						n := 8 + rng.Intn(5000)
						if i%25 == 0 {
							n = 16401
						}
						m := make([]byte, n)
						binary.BigEndian.PutUint16(m[0:], uint16(g))
						binary.BigEndian.PutUint16(m[2:], uint16(i))
						binary.BigEndian.PutUint32(m[4:], uint32(n))
						for k := 8; k < n; k++ {
							m[k] = byte(g*31 + i*7 + k)
						}
						if k, err := w.Write(m); err != nil || k != n {
							t.Errorf("write: %d %v", k, err)
							return
						}
					}
				}(g)
			}
			next := make([]int, writers)
			buf := make([]byte, 20480)
			for total := 0; total < writers*per; total++ {
				n, err := r.Read(buf)
				if err != nil {
					t.Fatalf("read: %v", err)
				}
				g := int(binary.BigEndian.Uint16(buf[0:]))
				i := int(binary.BigEndian.Uint16(buf[2:]))
				sz := int(binary.BigEndian.Uint32(buf[4:]))
				if g >= writers || sz != n || i != next[g] {
					t.Fatalf("dir %d writers=%d: garbled: g=%d i=%d want %d sz=%d n=%d", dir, writers, g, i, next[g], sz, n)
				}
				for k := 8; k < n; k++ {
					if buf[k] != byte(g*31+i*7+k) {
						t.Fatalf("content garbled")
					}
				}
				next[g]++
			}
			wg.Wait()
		}
		client.Close()
		server.Close()
	}
}

// redEOFConn reports io.EOF together with the last bytes it delivers (allowed by io.Reader;
// crypto/tls and utls connections do this when a close_notify directly follows the data).
type redEOFConn struct {
	net.Conn
	mu       sync.Mutex
	data     []byte
	armed    bool
	firstLen int
}

func (c *redEOFConn) Read(p []byte) (int, error) {
	c.mu.Lock()
	if !c.armed {
		c.mu.Unlock()
		return c.Conn.Read(p)
	}
	defer c.mu.Unlock()
	if len(c.data) == 0 {
		return 0, io.EOF
	}
	if c.firstLen > 0 { // deliver the frame header on its own first
		n := copy(p, c.data[:c.firstLen])
		c.data = c.data[n:]
		c.firstLen -= n
		return n, nil
	}
	n := copy(p, c.data)
	c.data = c.data[n:]
	if len(c.data) == 0 {
		return n, io.EOF
	}
	return n, nil
}

// Latent defect (NOT counted as the C05 verdict, see notes): WebSocketConn.Read drops the bytes
// returned together with io.EOF by the gorilla message reader (`n += read` is skipped), so with an
// underlying conn that returns (n>0, io.EOF) the last message is delivered truncated with err == nil.
func TestRedC05_WS_DataWithEOF(t *testing.T) {
	_, server, _, sRaw := redWSPair(t, 0)
	// build one unmasked?? no: client->server frames must be masked. Build a masked binary frame by hand.
	payload := bytes.Repeat([]byte{0x5A}, 6000)
	frame := []byte{0x82, 0x80 | 126, byte(len(payload) >> 8), byte(len(payload)), 0, 0, 0, 0} // mask key 0 => payload unchanged
	frame = append(frame, payload...)
	e := &redEOFConn{Conn: sRaw.Conn, data: frame, firstLen: 8, armed: true}
	sRaw.Conn = e
	buf := make([]byte, 20480)
	n, err := server.Read(buf)
	t.Logf("message of %d bytes: Read returned n=%d err=%v", len(payload), n, err)
	if err == nil && n != len(payload) {
		t.Errorf("latent: message delivered truncated (%d of %d bytes) with a nil error", n, len(payload))
	}
}
