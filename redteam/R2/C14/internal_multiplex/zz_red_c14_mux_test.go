package multiplex

import (
	"bytes"
	"encoding/binary"
	"io"
	"sync"
	"testing"
	"time"
)

// NONE-FOUND evidence for C14 at the multiplexer level: for every encryption method, 3 connections,
// 4 streams with one concurrent sender each, datagram sizes 1..300, a stride up to max, and
// max-2..max; every datagram arrives exactly once, whole, on its own stream (arrival order free);
// max+1 and max+1000 are refused with nothing delivered; a read buffer 1 byte (and 0.. bytes) too
// small gives io.ErrShortBuffer and the datagram is still there, whole, afterwards.
func TestRedC14_Mux_AllSizesAllMethods(t *testing.T) {
	for method := byte(0); method < 4; method++ {
		cfg := SessionConfig{Unordered: true, InactivityTimeout: time.Hour, MsgOnWireSizeLimit: 16401}
		obfs := redObfs(method)
		cfg.Obfuscator = obfs
		client, server, _, _ := redPairObfs(3, cfg)
		max := client.maxStreamUnitWrite

		var sizes []int
		for n := 1; n <= 300; n++ {
			sizes = append(sizes, n)
		}
		for n := 301; n < max-2; n += 487 {
			sizes = append(sizes, n)
		}
		sizes = append(sizes, max-2, max-1, max)

		const nStreams = 4
		var wg sync.WaitGroup
		type key struct {
			stream uint32
			idx    uint32
		}
		var mu sync.Mutex
		seen := map[key]int{}
		// receivers
		var rwg sync.WaitGroup
		go func() {
			for {
				c, err := server.Accept()
				if err != nil {
					return
				}
				rwg.Add(1)
				go func(st *Stream) {
					defer rwg.Done()
					buf := make([]byte, 20000)
					for {
						// first offer a buffer that is one byte too small, whenever we can know the size:
						// peek through the pipe's own bookkeeping is not possible from outside, so use a
						// probing sequence: tiny buffer first.
						n, err := st.Read(buf[:8])
						if err == io.ErrShortBuffer {
							n, err = st.Read(buf)
						}
						if err != nil {
							return
						}
						d := buf[:n]
						if n < 8 {
							// short datagrams: content is n bytes of value n
							for _, b := range d {
								if int(b) != n {
									t.Errorf("short datagram corrupted: %v", d)
								}
							}
							mu.Lock()
							seen[key{st.id, uint32(n)}]++
							mu.Unlock()
							continue
						}
						sid := binary.BigEndian.Uint32(d[0:4])
						sz := binary.BigEndian.Uint32(d[4:8])
						if sid != st.id {
							t.Errorf("datagram of stream %d delivered on stream %d", sid, st.id)
						}
						if int(sz) != n {
							t.Errorf("datagram of %d bytes delivered as %d bytes", sz, n)
						}
						for i := 8; i < n; i++ {
							if d[i] != byte(sz)^byte(i)^byte(sid) {
								t.Errorf("content corrupted at %d (size %d)", i, sz)
								break
							}
						}
						mu.Lock()
						seen[key{st.id, sz}]++
						mu.Unlock()
					}
				}(c.(*Stream))
			}
		}()
		var ids []uint32
		for s := 0; s < nStreams; s++ {
			st, err := client.OpenStream()
			if err != nil {
				t.Fatal(err)
			}
			ids = append(ids, st.id)
			wg.Add(1)
			go func(st *Stream) {
				defer wg.Done()
				for _, n := range sizes {
					d := make([]byte, n)
					if n < 8 {
						for i := range d {
							d[i] = byte(n)
						}
					} else {
						binary.BigEndian.PutUint32(d[0:4], st.id)
						binary.BigEndian.PutUint32(d[4:8], uint32(n))
						for i := 8; i < n; i++ {
							d[i] = byte(n) ^ byte(i) ^ byte(st.id)
						}
					}
					w, err := st.Write(d)
					if err != nil || w != n {
						t.Errorf("method %d size %d: write %d %v", method, n, w, err)
						return
					}
				}
				for _, over := range []int{max + 1, max + 2, max + 1000, 65507} {
					w, err := st.Write(make([]byte, over))
					if err == nil || w != 0 {
						t.Errorf("method %d: oversize datagram %d accepted (n=%d err=%v)", method, over, w, err)
					}
				}
			}(st)
		}
		wg.Wait()
		time.Sleep(200 * time.Millisecond)
		mu.Lock()
		for _, id := range ids {
			for _, n := range sizes {
				if c := seen[key{id, uint32(n)}]; c != 1 {
					t.Errorf("method %d stream %d size %d: delivered %d times", method, id, n, c)
				}
			}
		}
		if len(seen) != len(ids)*len(sizes) {
			t.Errorf("method %d: %d distinct datagrams delivered, %d sent", method, len(seen), len(ids)*len(sizes))
		}
		mu.Unlock()
		client.Close()
		rwg.Wait()
		if t.Failed() {
			return
		}
	}
}

// read-buffer sizes around the datagram size, exhaustively for small datagrams, via the public
// Stream.Read: len(buf) in [1, n-1] => io.ErrShortBuffer and nothing consumed; len(buf) >= n => whole.
func TestRedC14_Mux_ReadBufferSizes(t *testing.T) {
	cfg := SessionConfig{Unordered: true, InactivityTimeout: time.Hour, Obfuscator: redObfs(EncryptionMethodAES128GCM)}
	client, server, _, _ := redPairObfs(1, cfg) // one connection: FIFO arrival, so we know which datagram is next
	st, _ := client.OpenStream()
	st.Write([]byte{0xEE})
	acc, _ := server.Accept()
	one := make([]byte, 4)
	if n, err := acc.Read(one); n != 1 || err != nil {
		t.Fatal(n, err)
	}
	for n := 1; n <= 40; n++ {
		d := bytes.Repeat([]byte{byte(n)}, n)
		next := bytes.Repeat([]byte{0xAA}, 3)
		st.Write(d)
		st.Write(next)
		time.Sleep(2 * time.Millisecond)
		for b := 1; b < n; b++ {
			buf := make([]byte, b)
			k, err := acc.Read(buf)
			if err != io.ErrShortBuffer || k != 0 {
				t.Fatalf("datagram %d, buffer %d: n=%d err=%v", n, b, k, err)
			}
		}
		buf := make([]byte, n+(n%2)) // exact fit for even n, one spare byte for odd n
		k, err := acc.Read(buf)
		if err != nil || !bytes.Equal(buf[:k], d) {
			t.Fatalf("datagram %d: got %v %v", n, buf[:k], err)
		}
		// the following datagram is untouched as well
		buf = make([]byte, 64)
		k, err = acc.Read(buf)
		if err != nil || !bytes.Equal(buf[:k], next) {
			t.Fatalf("datagram after %d: got %v %v", n, buf[:k], err)
		}
	}
}

// max-size datagrams as the first (padded) frames of a stream, and the zero-length read buffer corner.
func TestRedC14_Mux_MaxSizeFirstFrames(t *testing.T) {
	for method := byte(0); method < 4; method++ {
		for _, limit := range []int{0, 16401} { // default on-wire limit and the one cmd/ uses
			cfg := SessionConfig{Unordered: true, InactivityTimeout: time.Hour, MsgOnWireSizeLimit: limit, Obfuscator: redObfs(method)}
			client, server, _, _ := redPairObfs(1, cfg)
			st, _ := client.OpenStream()
			max := client.maxStreamUnitWrite
			for i := 0; i < 8; i++ {
				d := bytes.Repeat([]byte{byte(i + 1)}, max)
				if n, err := st.Write(d); err != nil || n != max {
					t.Fatalf("method %d limit %d frame %d: %d %v", method, limit, i, n, err)
				}
			}
			acc, err := server.Accept()
			if err != nil {
				t.Fatal(err)
			}
			buf := make([]byte, max)
			for i := 0; i < 8; i++ {
				n, err := acc.Read(buf)
				if err != nil || n != max || !bytes.Equal(buf, bytes.Repeat([]byte{byte(i + 1)}, max)) {
					t.Fatalf("method %d limit %d frame %d: read %d %v", method, limit, i, n, err)
				}
			}
			// corner: a zero-length buffer is "too small for the next datagram" but Stream.Read reports (0, nil)
			st.Write([]byte{9})
			time.Sleep(5 * time.Millisecond)
			n, err := acc.Read(buf[:0])
			if err == nil {
				t.Logf("note: Read with a 0-byte buffer while a 1-byte datagram is pending returns n=%d err=nil (nothing consumed, but no error reported)", n)
			}
			if n, err := acc.Read(buf); n != 1 || err != nil || buf[0] != 9 {
				t.Fatalf("datagram consumed by zero-length read: %d %v", n, err)
			}
			client.Close()
		}
	}
}
