package multiplex

import (
	"bytes"
	"net"
	"testing"
	"time"

	"github.com/cbeuw/Cloak/internal/common"
)

// C14 demonstration B (server direction): cmd/ck-server pipes the UDP socket towards the proxied
// service into the stream with common.Copy(newStream, localConn), which ends up in
// Stream.ReadFrom(localConn). ReadFrom reads the socket with a buffer of exactly
// maxStreamUnitWrite bytes, so a datagram that is "too large for one frame" is not refused: the
// kernel truncates it to the buffer and the truncated datagram is sent and delivered to the peer
// as if it were a whole message.
func TestRedC14_ReadFromTruncatesOversizeDatagram(t *testing.T) {
	cfg := SessionConfig{Unordered: true, InactivityTimeout: time.Hour, Obfuscator: redObfs(EncryptionMethodChaha20Poly1305), MsgOnWireSizeLimit: 16401}
	client, server, _, _ := redPairObfs(2, cfg)
	max := server.maxStreamUnitWrite

	// the "proxied UDP service"
	svc, err := net.ListenUDP("udp", &net.UDPAddr{IP: net.IPv4(127, 0, 0, 1)})
	if err != nil {
		t.Skipf("no loopback UDP: %v", err)
	}
	defer svc.Close()

	// client opens a stream and sends a first datagram, the server accepts and dials the service
	cst, _ := client.OpenStream()
	cst.Write([]byte("hello"))
	sst, err := server.Accept()
	if err != nil {
		t.Fatal(err)
	}
	local, err := net.DialUDP("udp", nil, svc.LocalAddr().(*net.UDPAddr))
	if err != nil {
		t.Fatal(err)
	}
	go common.Copy(local, sst) // stream -> service
	go common.Copy(sst, local) // service -> stream   (Stream.ReadFrom)

	buf := make([]byte, 65536)
	svc.SetReadDeadline(time.Now().Add(3 * time.Second))
	n, from, err := svc.ReadFromUDP(buf)
	if err != nil || string(buf[:n]) != "hello" {
		t.Fatalf("service got %q %v", buf[:n], err)
	}

	// the service answers: one datagram that fits, one that is 1 byte too large for a frame
	fits := bytes.Repeat([]byte{1}, max)
	tooBig := make([]byte, max+1)
	for i := range tooBig {
		tooBig[i] = byte(i % 251)
	}
	svc.WriteToUDP(fits, from)
	time.Sleep(50 * time.Millisecond)
	svc.WriteToUDP(tooBig, from)
	time.Sleep(50 * time.Millisecond)
	svc.WriteToUDP([]byte("after"), from)

	cst.SetReadDeadline(time.Now().Add(3 * time.Second))
	n, err = cst.Read(buf)
	if err != nil || !bytes.Equal(buf[:n], fits) {
		t.Fatalf("max-size datagram: n=%d err=%v", n, err)
	}
	n, err = cst.Read(buf)
	if err != nil {
		t.Logf("second read: %v (datagram refused, fine)", err)
		return
	}
	got := append([]byte(nil), buf[:n]...)
	switch {
	case bytes.Equal(got, tooBig):
		t.Logf("oversize datagram delivered whole")
	case string(got) == "after":
		t.Logf("oversize datagram was refused/dropped at the sender, fine")
	default:
		t.Errorf("VIOLATION: a %d-byte datagram (max for one frame is %d) was neither refused at the sender nor delivered whole: "+
			"the peer read a %d-byte message which is a truncated copy of it (prefix equal: %v)",
			len(tooBig), max, len(got), bytes.Equal(got, tooBig[:len(got)]))
	}
}
