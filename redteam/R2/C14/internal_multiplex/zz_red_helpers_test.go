package multiplex

import (
	"net"
	"sync"
	"testing"
	"time"

	"github.com/cbeuw/Cloak/internal/common"
	"github.com/cbeuw/connutil"
)

// redPair builds a client and a server session joined by numConn in-memory connections
// (TLS record framing over connutil.AsyncPipe, exactly like the project's own makeSessionPair).
func redPair(numConn int, cfg SessionConfig) (client, server *Session, cconns, sconns []net.Conn) {
	return redPair2(numConn, cfg, cfg)
}

func redPair2(numConn int, cfg, scfg SessionConfig) (client, server *Session, cconns, sconns []net.Conn) {
	var key [32]byte
	for i := range key {
		key[i] = byte(i)
	}
	obfs, err := MakeObfuscator(EncryptionMethodChaha20Poly1305, key)
	if err != nil {
		panic(err)
	}
	cfg.Obfuscator = obfs
	scfg.Obfuscator = obfs
	client = MakeSession(1, cfg)
	server = MakeSession(1, scfg)
	for i := 0; i < numConn; i++ {
		c, s := connutil.AsyncPipe()
		cc := &redTrackedConn{Conn: common.NewTLSConn(c)}
		sc := &redTrackedConn{Conn: common.NewTLSConn(s)}
		cconns = append(cconns, cc)
		sconns = append(sconns, sc)
		client.AddConnection(cc)
		server.AddConnection(sc)
	}
	return
}

// redTrackedConn remembers whether Close has been called on it.
type redTrackedConn struct {
	net.Conn
	mu     sync.Mutex
	closed bool
}

func (c *redTrackedConn) Close() error {
	c.mu.Lock()
	c.closed = true
	c.mu.Unlock()
	return c.Conn.Close()
}

func (c *redTrackedConn) isClosed() bool {
	c.mu.Lock()
	defer c.mu.Unlock()
	return c.closed
}

func redEventually(t *testing.T, d time.Duration, what string, cond func() bool) bool {
	t.Helper()
	deadline := time.Now().Add(d)
	for time.Now().Before(deadline) {
		if cond() {
			return true
		}
		time.Sleep(5 * time.Millisecond)
	}
	if cond() {
		return true
	}
	t.Errorf("did not happen within %v: %s", d, what)
	return false
}

// redDone runs f in a goroutine and reports whether it returned within d.
func redDone(d time.Duration, f func()) bool {
	ch := make(chan struct{})
	go func() { f(); close(ch) }()
	select {
	case <-ch:
		return true
	case <-time.After(d):
		return false
	}
}

// redPairObfs is redPair but keeps the obfuscator given in cfg.
func redPairObfs(numConn int, cfg SessionConfig) (client, server *Session, cconns, sconns []net.Conn) {
	client = MakeSession(1, cfg)
	server = MakeSession(1, cfg)
	for i := 0; i < numConn; i++ {
		c, s := connutil.AsyncPipe()
		cc := &redTrackedConn{Conn: common.NewTLSConn(c)}
		sc := &redTrackedConn{Conn: common.NewTLSConn(s)}
		cconns = append(cconns, cc)
		sconns = append(sconns, sc)
		client.AddConnection(cc)
		server.AddConnection(sc)
	}
	return
}

func redObfs(method byte) Obfuscator {
	var key [32]byte
	for i := range key {
		key[i] = byte(i * 3)
	}
	o, err := MakeObfuscator(method, key)
	if err != nil {
		panic(err)
	}
	return o
}
