package client

import (
	"bytes"
	"net"
	"testing"
	"time"

	"github.com/cbeuw/Cloak/internal/common"
	mux "github.com/cbeuw/Cloak/internal/multiplex"
	"github.com/cbeuw/connutil"
)

// C14 demonstration A (client direction, internal/client/piper.go): RouteUDP reads the local UDP
// socket into a fixed 8192-byte buffer. A datagram of 8193..16132 bytes fits into one frame (so it is
// not "too large for one frame"), but it is neither refused nor delivered whole: the kernel truncates
// it to 8192 bytes and the truncated datagram is written to the stream and delivered to the peer as
// a normal message. Datagrams above 16132 bytes are not refused either, they are truncated the same way.
func TestRedC14_RouteUDPTruncatesDatagrams(t *testing.T) {
	var key [32]byte
	obfs, err := mux.MakeObfuscator(mux.EncryptionMethodAES256GCM, key)
	if err != nil {
		t.Fatal(err)
	}
	cfg := mux.SessionConfig{Obfuscator: obfs, Unordered: true, MsgOnWireSizeLimit: appDataMaxLength}
	server := mux.MakeSession(1, cfg)
	newSesh := func() *mux.Session {
		c := mux.MakeSession(1, cfg)
		for i := 0; i < 2; i++ {
			a, b := connutil.AsyncPipe()
			c.AddConnection(common.NewTLSConn(a))
			server.AddConnection(common.NewTLSConn(b))
		}
		return c
	}

	bound := make(chan *net.UDPConn, 1)
	bind := func() (*net.UDPConn, error) {
		l, err := net.ListenUDP("udp", &net.UDPAddr{IP: net.IPv4(127, 0, 0, 1)})
		if err == nil {
			bound <- l
		}
		return l, err
	}
	probe, err := net.ListenUDP("udp", &net.UDPAddr{IP: net.IPv4(127, 0, 0, 1)})
	if err != nil {
		t.Skipf("no loopback UDP: %v", err)
	}
	probe.Close()

	go RouteUDP(bind, 5*time.Second, false, newSesh)
	local := <-bound
	// local is deliberately not closed: RouteUDP has no way to stop and would spin on the read error

	app, err := net.DialUDP("udp", nil, local.LocalAddr().(*net.UDPAddr))
	if err != nil {
		t.Fatal(err)
	}
	defer app.Close()

	mk := func(n int) []byte {
		d := make([]byte, n)
		for i := range d {
			d[i] = byte((i + n) % 253)
		}
		d[0], d[1] = byte(n>>8), byte(n) // every datagram says how long it is
		return d
	}
	sizes := []int{100, 8192, 8193, 9000, 16132, 16133, 30000}
	for _, n := range sizes {
		if _, err := app.Write(mk(n)); err != nil {
			t.Fatalf("app write %d: %v", n, err)
		}
		time.Sleep(30 * time.Millisecond)
	}

	st, err := server.Accept()
	if err != nil {
		t.Fatal(err)
	}
	buf := make([]byte, 65536)
	st.(*mux.Stream).SetReadDeadline(time.Now().Add(2 * time.Second))
	var got []int
	for {
		n, err := st.Read(buf)
		if err != nil {
			break
		}
		got = append(got, n)
		// which datagram is it?
		whole := false
		for _, s := range sizes {
			if n == s && bytes.Equal(buf[:n], mk(s)) {
				whole = true
			}
		}
		if !whole {
			claimed := int(buf[0])<<8 | int(buf[1])
			t.Errorf("VIOLATION: the peer read a %d-byte message which is the truncated head of the %d-byte datagram (max for one frame: 16132)", n, claimed)
		}
	}
	t.Logf("sent datagram sizes %v", sizes)
	t.Logf("peer received sizes  %v", got)
}
