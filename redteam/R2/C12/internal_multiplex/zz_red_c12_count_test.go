package multiplex

import (
	"math/rand"
	"testing"
	"time"
)

func redOpenStreams(s *Session) int {
	s.streamsM.Lock()
	defer s.streamsM.Unlock()
	n := 0
	for _, st := range s.streams {
		if st != nil && !st.isClosed() {
			n++
		}
	}
	return n
}

// NONE-FOUND evidence for the counting clause of C12: random open / write / close-from-either-side
// on a live 3-connection session (ordered and unordered, so frames and closing frames overtake each
// other); at each quiescent moment activeStreamCount == number of open streams on both sides.
func TestRedC12_CountEqualsOpenStreamsAtQuiescence(t *testing.T) {
	for _, unordered := range []bool{false, true} {
		rng := rand.New(rand.NewSource(42))
		client, server, _, _ := redPair(3, SessionConfig{Unordered: unordered, InactivityTimeout: time.Hour})
		var cs []*Stream
		var ss []*Stream
		go func() {}()
		for round := 0; round < 60; round++ {
			nops := 1 + rng.Intn(12)
			for k := 0; k < nops; k++ {
				switch op := rng.Intn(6); {
				case op <= 1:
					s, err := client.OpenStream()
					if err != nil {
						t.Fatal(err)
					}
					cs = append(cs, s)
					if rng.Intn(4) != 0 { // sometimes never write before closing
						s.Write(make([]byte, 1+rng.Intn(5000)))
					}
				case op == 2 && len(cs) > 0:
					s := cs[rng.Intn(len(cs))]
					for j := 0; j < 1+rng.Intn(8); j++ {
						s.Write(make([]byte, 1+rng.Intn(9000)))
					}
				case op == 3 && len(cs) > 0:
					i := rng.Intn(len(cs))
					cs[i].Close()
					cs = append(cs[:i], cs[i+1:]...)
				case op == 4 && len(ss) > 0:
					i := rng.Intn(len(ss))
					ss[i].Close() // close from the accepting side
					ss = append(ss[:i], ss[i+1:]...)
				case op == 5 && len(ss) > 0:
					ss[rng.Intn(len(ss))].Write(make([]byte, 1+rng.Intn(9000)))
				}
			}
			// quiesce
			time.Sleep(30 * time.Millisecond)
			for len(server.acceptCh) > 0 {
				c, _ := server.Accept()
				ss = append(ss, c.(*Stream))
			}
			if c, o := int(client.streamCount()), redOpenStreams(client); c != o {
				t.Fatalf("unordered=%v round %d client: count %d open %d", unordered, round, c, o)
			}
			if c, o := int(server.streamCount()), redOpenStreams(server); c != o {
				t.Fatalf("unordered=%v round %d server: count %d open %d", unordered, round, c, o)
			}
		}
		if client.IsClosed() || server.IsClosed() {
			t.Fatalf("session died")
		}
	}
}
