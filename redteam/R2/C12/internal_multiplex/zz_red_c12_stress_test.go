package multiplex

import (
	"io"
	"math/rand"
	"net"
	"os"
	"strconv"
	"sync"
	"testing"
	"time"

	"github.com/cbeuw/Cloak/internal/common"
	"github.com/cbeuw/connutil"
	log "github.com/sirupsen/logrus"
)

// Randomised teardown stress (NONE-FOUND evidence apart from the demonstrations A-C):
// bounded pipes (so writes really block), 1-3 connections, ordered/unordered, concurrent
// open/write/read/close on both sides; the fault is a connection failure, a client Close or a
// server Close at a random moment. Afterwards everything must have returned and be closed.
func TestRedC12_Stress_Teardown(t *testing.T) {
	iters := 300
	if s := os.Getenv("RED_ITERS"); s != "" {
		iters, _ = strconv.Atoi(s)
	}
	seed := time.Now().UnixNano()
	if s := os.Getenv("RED_SEED"); s != "" {
		seed, _ = strconv.ParseInt(s, 10, 64)
	}
	t.Logf("seed %d", seed)
	log.SetOutput(io.Discard)
	defer log.SetOutput(os.Stderr)
	rng := rand.New(rand.NewSource(seed))
	for it := 0; it < iters; it++ {
		unordered := rng.Intn(2) == 0
		nconn := 1 + rng.Intn(3)
		limit := []int{0, 64, 4096, 100000}[rng.Intn(4)]
		obfs := redObfs(byte(rng.Intn(4)))
		cfg := SessionConfig{Obfuscator: obfs, Unordered: unordered, InactivityTimeout: time.Hour}
		client := MakeSession(1, cfg)
		server := MakeSession(1, cfg)
		var raw []net.Conn
		var tracked []*redTrackedConn
		for i := 0; i < nconn; i++ {
			c, s := connutil.LimitedAsyncPipe(limit)
			cc := &redTrackedConn{Conn: common.NewTLSConn(c)}
			sc := &redTrackedConn{Conn: common.NewTLSConn(s)}
			raw = append(raw, c)
			tracked = append(tracked, cc, sc)
			client.AddConnection(cc)
			server.AddConnection(sc)
		}
		var wg sync.WaitGroup
		// server: accept, echo a bit, sometimes close
		wg.Add(1)
		go func() {
			defer wg.Done()
			for {
				c, err := server.Accept()
				if err != nil {
					return
				}
				wg.Add(1)
				go func(c net.Conn, closeAfter int) {
					defer wg.Done()
					buf := make([]byte, 20000)
					for k := 0; ; k++ {
						n, err := c.Read(buf)
						if err != nil {
							return
						}
						if _, err := c.Write(buf[:n]); err != nil {
							return
						}
						if k == closeAfter {
							c.Close()
							return
						}
					}
				}(c, rand.Intn(20))
			}
		}()
		// client: openers
		nOpeners := 1 + rng.Intn(4)
		for o := 0; o < nOpeners; o++ {
			wg.Add(1)
			go func(r *rand.Rand) {
				defer wg.Done()
				for {
					s, err := client.OpenStream()
					if err != nil {
						return
					}
					wg.Add(2)
					go func() { // reader
						defer wg.Done()
						buf := make([]byte, 20000)
						for {
							if _, err := s.Read(buf); err != nil {
								return
							}
						}
					}()
					nw := r.Intn(10)
					sz := 1 + r.Intn(9000)
					go func() { // writer
						defer wg.Done()
						msg := make([]byte, sz)
						for k := 0; k < nw; k++ {
							if _, err := s.Write(msg); err != nil {
								return
							}
						}
						if nw%2 == 0 {
							s.Close()
						}
					}()
					time.Sleep(time.Duration(r.Intn(300)) * time.Microsecond)
				}
			}(rand.New(rand.NewSource(rng.Int63())))
		}
		time.Sleep(time.Duration(rng.Intn(3000)) * time.Microsecond)
		fault := rng.Intn(3)
		switch fault {
		case 0:
			raw[rng.Intn(nconn)].Close()
		case 1:
			go client.Close()
		case 2:
			go server.Close()
		}
		if !redDone(10*time.Second, wg.Wait) {
			t.Fatalf("iter %d (seed %d, fault %d, nconn %d, limit %d, unordered %v): goroutines still blocked after 10s", it, seed, fault, nconn, limit, unordered)
		}
		ok := redEventually(t, 5*time.Second, "sessions closed and all conns closed", func() bool {
			if !client.IsClosed() || !server.IsClosed() {
				return false
			}
			for _, c := range tracked {
				if !c.isClosed() {
					return false
				}
			}
			return true
		})
		if !ok {
			for i, c := range tracked {
				t.Logf("conn %d closed=%v", i, c.isClosed())
			}
			t.Fatalf("iter %d (seed %d, fault %d, nconn %d, limit %d, unordered %v) client closed=%v server closed=%v", it, seed, fault, nconn, limit, unordered, client.IsClosed(), server.IsClosed())
		}
		if _, err := client.OpenStream(); err == nil {
			t.Fatalf("iter %d: OpenStream accepted on closed session", it)
		}
	}
}
