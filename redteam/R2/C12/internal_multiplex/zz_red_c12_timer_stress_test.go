package multiplex

import (
	"os"
	"strconv"
	"testing"
	"time"
)

// Natural (un-instrumented) search for the same interleaving as
// TestRedC12_InactivityTimerClosesSessionWithOpenStream: OpenStream is called at about the moment
// the inactivity timer fires. A trial is a hit when OpenStream SUCCEEDED and the session was
// nevertheless closed with terminal message "timeout" (nobody closed the stream).
func TestRedC12_InactivityTimerRace_Stress(t *testing.T) {
	trials := 60000
	if s := os.Getenv("RED_TRIALS"); s != "" {
		trials, _ = strconv.Atoi(s)
	}
	const timeout = 300 * time.Microsecond
	hits := 0
	opened := 0
	for i := 0; i < trials; i++ {
		sesh := MakeSession(uint32(i), SessionConfig{InactivityTimeout: timeout})
		start := time.Now()
		// aim at the firing time, sweeping the offset
		target := timeout + time.Duration(i%400-200)*100*time.Nanosecond
		for time.Since(start) < target {
		}
		st, err := sesh.OpenStream()
		if err == nil {
			opened++
			time.Sleep(50 * time.Microsecond)
			if i%64 == 0 {
				time.Sleep(time.Millisecond)
			}
			if sesh.IsClosed() && sesh.TerminalMsg() == "timeout" && st != nil {
				hits++
			}
		}
	}
	t.Logf("trials=%d opened=%d hits=%d", trials, opened, hits)
	if hits > 0 {
		t.Errorf("VIOLATION (natural schedule): in %d of %d trials OpenStream succeeded and the inactivity timer then closed the session", hits, trials)
	}
}
