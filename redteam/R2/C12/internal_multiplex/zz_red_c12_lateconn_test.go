package multiplex

import (
	"testing"
	"time"

	"github.com/cbeuw/Cloak/internal/common"
	"github.com/cbeuw/connutil"
)

// C12 demonstration C: "all of the session's connections end up closed".
//
// switchboard.addConn never looks at sb.broken / the session's closed flag. A connection that is
// handed to AddConnection after (or while) the session is torn down is stored, gets a deplex
// goroutine, and is never closed by anybody on this side: closeAll has already run (and is
// one-shot), and deplex only closes the connection when a Read fails.
//
// Both real callers add connections to a session that is already live and can therefore already
// have failed: server/dispatcher.go does GetSession -> finishHandshake (network I/O) ->
// sesh.AddConnection, client/connector.go adds NumConn connections one after the other.
//
// Here connection A carries the session, connection B has finished its handshake on both sides
// and is about to be added when A fails (both ends see the EOF). Both sessions close; B is then
// added on both sides and stays open for ever on both sides, each with a parked deplex goroutine.
func TestRedC12_ConnectionAddedDuringTeardownIsNeverClosed(t *testing.T) {
	client, server, cconns, _ := redPair(1, SessionConfig{InactivityTimeout: time.Hour})

	st, err := client.OpenStream()
	if err != nil {
		t.Fatal(err)
	}
	st.Write([]byte("x"))
	if _, err := server.Accept(); err != nil {
		t.Fatal(err)
	}

	// B: second underlying connection, handshake finished, not yet added
	bc, bs := connutil.AsyncPipe()
	bClient := &redTrackedConn{Conn: common.NewTLSConn(bc)}
	bServer := &redTrackedConn{Conn: common.NewTLSConn(bs)}

	// fault on A, seen by both ends
	cconns[0].(*redTrackedConn).Conn.Close()
	redEventually(t, 2*time.Second, "both sessions closed", func() bool { return client.IsClosed() && server.IsClosed() })

	// the callers that were in the middle of adding B now do so
	client.AddConnection(bClient)
	server.AddConnection(bServer)

	time.Sleep(time.Second)
	if !bClient.isClosed() {
		t.Errorf("VIOLATION: client session is closed but its connection B is still open 1s later")
	}
	if !bServer.isClosed() {
		t.Errorf("VIOLATION: server session is closed but its connection B is still open 1s later")
	}
	// and it is really alive, not just unflagged: bytes still flow over it
	if _, err := bClient.Conn.Write([]byte("still alive")); err != nil {
		t.Logf("write on B: %v", err)
	} else {
		t.Logf("connection B still carries data between the two closed sessions")
	}
}
