package multiplex

import (
	"testing"
	"time"
)

// NONE-FOUND evidence: a singleplex session closes with its single stream (active close, passive
// close), refuses a second stream, and both ends' connections get closed.
func TestRedC12_SingleplexClosesWithStream(t *testing.T) {
	for _, passive := range []bool{false, true} {
		client, server, cconns, sconns := redPair2(2, SessionConfig{Singleplex: true, InactivityTimeout: time.Hour}, SessionConfig{InactivityTimeout: time.Hour})
		s, err := client.OpenStream()
		if err != nil {
			t.Fatal(err)
		}
		if _, err := client.OpenStream(); err == nil {
			t.Errorf("second stream accepted on singleplex session")
		}
		s.Write([]byte("abc"))
		p, err := server.Accept()
		if err != nil {
			t.Fatal(err)
		}
		buf := make([]byte, 10)
		p.Read(buf)
		if client.IsClosed() {
			t.Fatalf("closed early")
		}
		if passive {
			p.Close()
		} else {
			s.Close()
		}
		redEventually(t, 2*time.Second, "client closed", client.IsClosed)
		redEventually(t, 2*time.Second, "server closed", server.IsClosed)
		for _, c := range append(cconns, sconns...) {
			redEventually(t, 2*time.Second, "conn closed", c.(*redTrackedConn).isClosed)
		}
	}
}
