package multiplex

import (
	"bytes"
	"io"
	"net"
	"sync"
	"testing"
	"time"

	"github.com/cbeuw/Cloak/internal/common"
	"github.com/cbeuw/connutil"
)

// redSink is a net.Conn that records everything written to it; Read blocks until Close.
type redSink struct {
	mu   sync.Mutex
	buf  bytes.Buffer
	done chan struct{}
	once sync.Once
}

func newRedSink() *redSink                    { return &redSink{done: make(chan struct{})} }
func (s *redSink) Read(b []byte) (int, error) { <-s.done; return 0, io.EOF }
func (s *redSink) Write(b []byte) (int, error) {
	s.mu.Lock()
	defer s.mu.Unlock()
	return s.buf.Write(b)
}
func (s *redSink) Close() error                       { s.once.Do(func() { close(s.done) }); return nil }
func (s *redSink) LocalAddr() net.Addr                { return nil }
func (s *redSink) RemoteAddr() net.Addr               { return nil }
func (s *redSink) SetDeadline(t time.Time) error      { return nil }
func (s *redSink) SetReadDeadline(t time.Time) error  { return nil }
func (s *redSink) SetWriteDeadline(t time.Time) error { return nil }
func (s *redSink) bytes() []byte {
	s.mu.Lock()
	defer s.mu.Unlock()
	return append([]byte(nil), s.buf.Bytes()...)
}

// NONE-FOUND sweep for C12: the client->server byte stream of a short exchange (3 streams, several
// frames each, one stream closed, ordered or unordered) is cut at EVERY byte offset; the server sees
// the prefix and then EOF. For every cut: every reader gets a prefix (ordered) / a sub-sequence of
// whole datagrams in order (unordered, one conn) and then an error, Accept and OpenStream fail,
// the connection is closed.
func TestRedC12_Sweep_EveryCut(t *testing.T) {
	for _, unordered := range []bool{false, true} {
		for _, method := range []byte{EncryptionMethodPlain, EncryptionMethodAES256GCM, EncryptionMethodChaha20Poly1305} {
			redSweep(t, unordered, method)
		}
	}
}

func redSweep(t *testing.T, unordered bool, method byte) {
	obfs := redObfs(method)
	sink := newRedSink()
	rec := MakeSession(7, SessionConfig{Obfuscator: obfs, Unordered: unordered, InactivityTimeout: time.Hour})
	rec.AddConnection(common.NewTLSConn(sink))
	// what is written to each stream, as a list of writes
	written := map[uint32][][]byte{}
	var streams []*Stream
	for i := 0; i < 3; i++ {
		s, _ := rec.OpenStream()
		streams = append(streams, s)
	}
	for round := 0; round < 3; round++ {
		for i, s := range streams {
			msg := bytes.Repeat([]byte{byte('a' + i)}, 5+round*7+i)
			msg[0] = byte('0' + round)
			if _, err := s.Write(msg); err != nil {
				t.Fatal(err)
			}
			written[s.id] = append(written[s.id], msg)
		}
		if round == 1 {
			streams[0].Close()
			streams = streams[1:]
		}
	}
	wire := sink.bytes()
	sink.Close()

	for cut := 0; cut <= len(wire); cut++ {
		srv := MakeSession(7, SessionConfig{Obfuscator: obfs, Unordered: unordered, InactivityTimeout: time.Hour})
		a, b := connutil.AsyncPipe()
		sc := &redTrackedConn{Conn: common.NewTLSConn(b)}
		srv.AddConnection(sc)

		type result struct {
			id   uint32
			msgs [][]byte
			err  error
		}
		results := make(chan result, 16)
		var rwg sync.WaitGroup
		acceptDone := make(chan error, 1)
		go func() {
			for {
				c, err := srv.Accept()
				if err != nil {
					acceptDone <- err
					return
				}
				rwg.Add(1)
				go func(st *Stream) {
					defer rwg.Done()
					var r result
					r.id = st.id
					buf := make([]byte, 4096)
					for {
						n, err := st.Read(buf)
						if n > 0 {
							r.msgs = append(r.msgs, append([]byte(nil), buf[:n]...))
						}
						if err != nil {
							r.err = err
							results <- r
							return
						}
					}
				}(c.(*Stream))
			}
		}()

		a.Write(wire[:cut])
		a.Close() // EOF seen by both ends

		select {
		case <-acceptDone:
		case <-time.After(3 * time.Second):
			t.Fatalf("cut %d: Accept never returned", cut)
		}
		if !redDone(3*time.Second, rwg.Wait) {
			t.Fatalf("cut %d: a reader is still blocked", cut)
		}
		close(results)
		for r := range results {
			if r.err != ErrBrokenStream {
				t.Errorf("cut %d stream %d: err %v", cut, r.id, r.err)
			}
			if unordered {
				// whole datagrams, in order, a prefix of the list (single connection => FIFO)
				w := written[r.id]
				if len(r.msgs) > len(w) {
					t.Errorf("cut %d stream %d: more datagrams than written", cut, r.id)
					continue
				}
				for i := range r.msgs {
					if !bytes.Equal(r.msgs[i], w[i]) {
						t.Errorf("cut %d stream %d: datagram %d differs", cut, r.id, i)
					}
				}
			} else {
				got := bytes.Join(r.msgs, nil)
				want := bytes.Join(written[r.id], nil)
				if !bytes.HasPrefix(want, got) {
					t.Errorf("cut %d stream %d: not a prefix: %q of %q", cut, r.id, got, want)
				}
			}
		}
		if !srv.IsClosed() {
			t.Errorf("cut %d: not closed", cut)
		}
		if _, err := srv.OpenStream(); err == nil {
			t.Errorf("cut %d: OpenStream accepted after failure", cut)
		}
		redEventually(t, time.Second, "conn closed", sc.isClosed)
		if t.Failed() {
			t.Fatalf("stopping at cut %d (unordered=%v method=%d)", cut, unordered, method)
		}
	}
	t.Logf("unordered=%v method=%d: %d cuts ok", unordered, method, len(wire)+1)
}
