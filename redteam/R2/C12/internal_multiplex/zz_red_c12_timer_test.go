package multiplex

import (
	"io"
	"sync"
	"testing"
	"time"

	log "github.com/sirupsen/logrus"
)

// redParkHook parks the goroutine that logs a given message until released. It is only a way
// of choosing a schedule: Session.checkTimeout calls SetTerminalMsg("timeout"), which logs at
// debug level, between its `streamCount() == 0` test and the call of Close().
type redParkHook struct {
	msg     string
	once    sync.Once
	parked  chan struct{}
	release chan struct{}
}

func (h *redParkHook) Levels() []log.Level { return log.AllLevels }
func (h *redParkHook) Fire(e *log.Entry) error {
	if e.Message == h.msg {
		h.once.Do(func() {
			close(h.parked)
			<-h.release
		})
	}
	return nil
}

// C12 demonstration B: "a multiplexed session closes itself on its inactivity timer only while it
// has no open stream" - timer phase "between the idle test and the close".
//
// checkTimeout is
//
//	if sesh.streamCount() == 0 && !sesh.IsClosed() { sesh.SetTerminalMsg("timeout"); sesh.Close() }
//
// The test and the close are not atomic with respect to OpenStream (or to a stream being created
// by an incoming frame). A stream opened in between is returned to the caller as a healthy, open
// stream (OpenStream err == nil, stream counted, peer can receive on it) and the timer then closes
// the session under it.
func TestRedC12_InactivityTimerClosesSessionWithOpenStream(t *testing.T) {
	hook := &redParkHook{msg: "terminal message set to timeout", parked: make(chan struct{}), release: make(chan struct{})}
	oldLevel := log.GetLevel()
	oldOut := log.StandardLogger().Out
	log.SetOutput(io.Discard)
	log.SetLevel(log.DebugLevel)
	log.AddHook(hook)
	defer func() {
		log.SetLevel(oldLevel)
		log.SetOutput(oldOut)
		log.StandardLogger().ReplaceHooks(make(log.LevelHooks))
	}()

	// the server must not time out on its own during the test
	client, server, _, _ := redPair2(2, SessionConfig{InactivityTimeout: 300 * time.Millisecond}, SessionConfig{InactivityTimeout: time.Hour})

	// The client's inactivity timer fires at t=300ms with no stream open: the idle test succeeds.
	select {
	case <-hook.parked:
	case <-time.After(5 * time.Second):
		t.Fatal("timer never fired")
	}
	if client.IsClosed() {
		t.Fatal("unexpected: already closed")
	}

	// A stream is opened now. Nothing has been closed yet, so it is accepted.
	stream, err := client.OpenStream()
	if err != nil {
		t.Fatalf("OpenStream refused: %v", err)
	}
	if _, err := stream.Write([]byte("ping")); err != nil {
		t.Fatalf("write on fresh stream: %v", err)
	}
	peer, err := server.Accept()
	if err != nil {
		t.Fatal(err)
	}
	buf := make([]byte, 8)
	if n, err := peer.Read(buf); err != nil || string(buf[:n]) != "ping" {
		t.Fatalf("peer read %q %v", buf[:n], err)
	}
	// quiescent moment of a live session: exactly one open stream, counted as such
	if client.IsClosed() || client.streamCount() != 1 || stream.isClosed() {
		t.Fatalf("setup: closed=%v count=%v", client.IsClosed(), client.streamCount())
	}

	// let the timer goroutine continue
	close(hook.release)
	redEventually(t, 2*time.Second, "client session closed", client.IsClosed)

	if client.TerminalMsg() == "timeout" {
		t.Errorf("VIOLATION: session closed itself on its inactivity timer (terminal message %q) although it had an open stream "+
			"(opened successfully before the close, never closed by its owner, data already exchanged on it)", client.TerminalMsg())
	}
	if _, err := stream.Write([]byte("x")); err != nil {
		t.Logf("the healthy stream is now dead: %v", err)
	}
}
