package multiplex

import (
	"testing"
	"time"
)

// C12 demonstration A.
//
// The peer opens more streams than the accept backlog (1024) can hold while the local
// application is slow to call Accept (cmd/ck-server's serveSession dials the upstream
// proxy synchronously inside its Accept loop, so a slow upstream is enough).
// recvDataFromRemote then blocks on `sesh.acceptCh <- newStream` WHILE HOLDING streamsM.
// From that moment:
//   - Session.Close() sets closed=1 and then blocks for ever on streamsM.Lock()
//   - a reader blocked on an already accepted stream is never woken up
//   - the connections are never closed
//   - after Close() has set closed=1, Accept() returns ErrBrokenSession without draining the
//     channel, so nothing can ever unblock the deplex goroutine again: the state is permanent.
//   - a connection failure (peer closes every connection) is not even noticed, because the only
//     goroutine that reads the connection is the one that is stuck.
func TestRedC12_AcceptBacklogFull_CloseHangs(t *testing.T) {
	client, server, _, sconns := redPair(1, SessionConfig{InactivityTimeout: time.Hour})

	// one fully established stream with a reader blocked on the server side
	first, err := client.OpenStream()
	if err != nil {
		t.Fatal(err)
	}
	if _, err = first.Write([]byte("hello")); err != nil {
		t.Fatal(err)
	}
	acc, err := server.Accept()
	if err != nil {
		t.Fatal(err)
	}
	buf := make([]byte, 16)
	if n, err := acc.Read(buf); err != nil || string(buf[:n]) != "hello" {
		t.Fatalf("setup read: %q %v", buf[:n], err)
	}
	readReturned := make(chan error, 1)
	go func() {
		_, err := acc.Read(buf) // blocks: nothing more is coming
		readReturned <- err
	}()

	// the peer now opens acceptBacklog+1 further streams; nobody accepts them for the moment
	for i := 0; i < acceptBacklog+1; i++ {
		s, err := client.OpenStream()
		if err != nil {
			t.Fatal(err)
		}
		if _, err = s.Write([]byte{1}); err != nil {
			t.Fatal(err)
		}
	}
	redEventually(t, 5*time.Second, "server backlog filled", func() bool { return len(server.acceptCh) == acceptBacklog })
	time.Sleep(100 * time.Millisecond) // let deplex reach the 1025th stream

	// Either side closes the session (property: "or either side closes the session").
	closeReturned := redDone(3*time.Second, func() { server.Close() })
	if !closeReturned {
		t.Errorf("VIOLATION: Session.Close() did not return within 3s (blocked on streamsM held by the deplex goroutine stuck in acceptCh<-)")
	}
	select {
	case err := <-readReturned:
		t.Logf("blocked read returned: %v", err)
	case <-time.After(3 * time.Second):
		t.Errorf("VIOLATION: a Read that was blocked on a stream of the closed session never returned")
	}
	if !sconns[0].(*redTrackedConn).isClosed() {
		t.Errorf("VIOLATION: the session's connection was not closed after Session.Close()")
	}
	if !server.IsClosed() {
		t.Errorf("session is not even marked closed")
	}
	// once closed=1, Accept no longer drains the backlog, so the deadlock is permanent
	if _, err := server.Accept(); err == nil {
		t.Logf("Accept still hands out a stream after Close")
	}
	time.Sleep(200 * time.Millisecond)
	if !sconns[0].(*redTrackedConn).isClosed() {
		t.Logf("connection still open 200ms later: the deadlock is permanent")
	}
}

// Same situation, but the fault is a connection failure seen by both ends (the peer goes away).
// The server never notices: its only reader goroutine is stuck, so the session stays "live" with a
// dead connection, the blocked Read never returns and the connection is never closed.
func TestRedC12_AcceptBacklogFull_ConnFailureUnnoticed(t *testing.T) {
	client, server, cconns, sconns := redPair(1, SessionConfig{InactivityTimeout: time.Hour})

	first, _ := client.OpenStream()
	first.Write([]byte("hello"))
	acc, err := server.Accept()
	if err != nil {
		t.Fatal(err)
	}
	buf := make([]byte, 16)
	acc.Read(buf)
	readReturned := make(chan error, 1)
	go func() {
		_, err := acc.Read(buf)
		readReturned <- err
	}()

	for i := 0; i < acceptBacklog+1; i++ {
		s, err := client.OpenStream()
		if err != nil {
			t.Fatal(err)
		}
		s.Write([]byte{1})
	}
	redEventually(t, 5*time.Second, "server backlog filled", func() bool { return len(server.acceptCh) == acceptBacklog })
	time.Sleep(100 * time.Millisecond)

	// connection failure: AsyncPipe.Close closes both directions, both ends see EOF
	cconns[0].(*redTrackedConn).Conn.Close()

	select {
	case err := <-readReturned:
		t.Logf("blocked read returned: %v", err)
	case <-time.After(3 * time.Second):
		t.Errorf("VIOLATION: connection failed 3s ago, Read blocked on a stream has not returned")
	}
	if !server.IsClosed() {
		t.Errorf("VIOLATION: connection failed 3s ago, server session still not closed")
	}
	if !sconns[0].(*redTrackedConn).isClosed() {
		t.Errorf("VIOLATION: connection failed 3s ago, server never closed its end")
	}
	// OpenStream on the wedged session blocks too (needs streamsM)
	if !redDone(time.Second, func() { server.OpenStream() }) {
		t.Errorf("VIOLATION: OpenStream on the wedged session blocks (neither succeeds nor is refused)")
	}
}
