#!/bin/bash
# usage: RED/run.sh C18|C19|C20 [extra go test args]
# Copies the demonstration files of one property into the source packages, runs them, removes them again.
# (files are stored as *.go.txt so that `go build ./...` / `go test ./...` in the worktree ignore RED/)
set -u
cd "$(dirname "$0")/.."
export GOTOOLCHAIN=local GOFLAGS=-mod=mod GOPROXY=off GOSUMDB=off GOEXPERIMENT=synctest
GO=/root/go/pkg/mod/golang.org/toolchain@v0.0.1-go1.24.2.linux-amd64/bin/go
prop=$1; shift
declare -A DEST=( [usermanager]=internal/server/usermanager [server]=internal/server [multiplex]=internal/multiplex [client]=internal/client )
copied=()
for d in RED/$prop/*/; do
  pkg=$(basename "$d")
  for f in "$d"*.go.txt; do
    t="${DEST[$pkg]}/$(basename "${f%.txt}")"
    cp "$f" "$t"; copied+=("$t")
  done
done
trap 'rm -f "${copied[@]}"' EXIT
case $prop in
  C18) $GO test ./internal/server/usermanager -run 'TestRedC18_' -count=1 -v "$@" 2>&1 | grep -v 'level=' | cut -c1-400
       echo "=== fatal-fault demonstration (expected to crash the test binary) ==="
       RED_C18_CRASH=plain $GO test ./internal/server/usermanager -run 'TestRedC18Crash' -count=1 -v "$@" 2>&1 | cut -c1-300 | head -12
       $GO test ./internal/server -run 'TestRedC18_' -count=1 -v "$@" 2>&1 | grep -v 'level=' | cut -c1-400 ;;
  C19) $GO test ./internal/multiplex -run 'TestRedC19' -count=1 -v "$@" 2>&1 | grep -v 'level=' | cut -c1-400
       $GO test ./internal/server -run 'TestRedC19' -count=1 -v "$@" 2>&1 | grep -v 'level=' | cut -c1-400 ;;
  C20) $GO test ./internal/client -run 'TestRedC20' -count=1 -v "$@" 2>&1 | cut -c1-600 ;;
esac
