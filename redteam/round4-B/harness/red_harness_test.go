package server

// Shared end-to-end harness of the red-team tests (C15, C16, C17): a real State/userPanel/localManager, real
// dispatchConnection on in-memory pipes, real client handshakes (internal/client), real mux sessions on both sides.
// Nothing of the code under test is replaced; the only instrumentation is a byte-counting wrapper around the
// server's end of each raw connection.

import (
	"bytes"
	"encoding/base64"
	"encoding/json"
	"errors"
	"fmt"
	"io"
	"net"
	"net/http"
	"net/http/httptest"
	"os"
	"sync"
	"sync/atomic"
	"testing"
	"time"

	"github.com/cbeuw/Cloak/internal/client"
	"github.com/cbeuw/Cloak/internal/common"
	mux "github.com/cbeuw/Cloak/internal/multiplex"
	"github.com/cbeuw/Cloak/internal/server/usermanager"
	"github.com/cbeuw/connutil"
	log "github.com/sirupsen/logrus"
)

var redPub, _ = base64.StdEncoding.DecodeString("7f7TuKrs264VNSgMno8PkDlyhGhVuOSR8JHLE6H4Ljc=")
var redPriv, _ = base64.StdEncoding.DecodeString("SMWeC6VuZF8S/id65VuFQFlfa7hTEJBpL6wWhqPP100=")
var redAdminUID = []byte{0xAD, 0xAD, 0xAD, 0xAD, 0xAD, 0xAD, 0xAD, 0xAD, 0xAD, 0xAD, 0xAD, 0xAD, 0xAD, 0xAD, 0xAD, 0xAD}

type redDialer func() (net.Conn, error)

func (d redDialer) Dial(_, _ string) (net.Conn, error) { return d() }

// redWire wraps the server's end of a raw connection and counts the tunnel payload (what the valve is supposed to
// count): inbound, the payload of every TLS record after the first one (the ClientHello); outbound, every Write after
// the first one (the handshake reply, a single Write) less its 5-byte record header.
type redWire struct {
	net.Conn
	uid [16]byte

	nWrites   int64
	txPayload int64

	// inbound record parser (single reader at a time)
	hdr       [5]byte
	hdrHave   int
	payLeft   int
	recIdx    int
	rxPayload int64

	closed int32
}

func (w *redWire) Write(b []byte) (int, error) {
	n, err := w.Conn.Write(b)
	if atomic.AddInt64(&w.nWrites, 1) > 1 && n > 5 {
		atomic.AddInt64(&w.txPayload, int64(n-5))
	}
	return n, err
}

func (w *redWire) Read(b []byte) (int, error) {
	n, err := w.Conn.Read(b)
	p := b[:n]
	for len(p) > 0 {
		if w.payLeft == 0 {
			k := copy(w.hdr[w.hdrHave:], p)
			w.hdrHave += k
			p = p[k:]
			if w.hdrHave == 5 {
				w.payLeft = int(w.hdr[3])<<8 | int(w.hdr[4])
				w.hdrHave = 0
				if w.payLeft == 0 {
					w.recIdx++
				}
			}
			continue
		}
		k := len(p)
		if k > w.payLeft {
			k = w.payLeft
		}
		if w.recIdx >= 1 {
			atomic.AddInt64(&w.rxPayload, int64(k))
		}
		w.payLeft -= k
		p = p[k:]
		if w.payLeft == 0 {
			w.recIdx++
		}
	}
	return n, err
}

func (w *redWire) Close() error {
	atomic.StoreInt32(&w.closed, 1)
	return w.Conn.Close()
}

type redEnv struct {
	t      testing.TB
	sta    *State
	panel  *userPanel
	mgr    usermanager.UserManager
	api    http.Handler
	dbPath string

	rmt  client.RemoteConnConfig
	auth client.AuthInfo

	mu    sync.Mutex
	wires []*redWire

	proxyDials int64
	webDials   int64
}

func newRedEnv(t testing.TB) *redEnv {
	log.SetLevel(log.PanicLevel)
	f, err := os.CreateTemp("", "red_ck_userinfo")
	if err != nil {
		t.Fatal(err)
	}
	f.Close()
	e := &redEnv{t: t, dbPath: f.Name()}
	sta, err := InitState(RawConfig{
		ProxyBook:    map[string][]string{"shadowsocks": {"tcp", "127.0.0.1:9999"}},
		BindAddr:     []string{"127.0.0.1:9999"},
		RedirAddr:    "127.0.0.1:9999",
		PrivateKey:   redPriv,
		AdminUID:     redAdminUID,
		DatabasePath: f.Name(),
		KeepAlive:    15,
	}, common.RealWorldState)
	if err != nil {
		t.Fatal(err)
	}
	e.sta = sta
	e.panel = sta.Panel
	e.mgr = sta.Panel.Manager
	e.api = usermanager.APIRouterOf(e.mgr)
	// the proxy server echoes
	sta.ProxyDialer = redDialer(func() (net.Conn, error) {
		atomic.AddInt64(&e.proxyDials, 1)
		a, b := connutil.AsyncPipe()
		go func() { io.Copy(b, b); b.Close() }()
		return a, nil
	})
	// the web server the refused are sent to reads the request and hangs up
	sta.RedirDialer = redDialer(func() (net.Conn, error) {
		atomic.AddInt64(&e.webDials, 1)
		a, b := connutil.AsyncPipe()
		go func() {
			buf := make([]byte, 4096)
			b.Read(buf)
			b.Close()
		}()
		return a, nil
	})

	raw := client.RawConfig{
		ServerName:       "www.example.com",
		ProxyMethod:      "shadowsocks",
		EncryptionMethod: "plain",
		UID:              redAdminUID,
		PublicKey:        redPub,
		NumConn:          1,
		Transport:        "direct",
		RemoteHost:       "127.0.0.1",
		RemotePort:       "9999",
		LocalHost:        "127.0.0.1",
		LocalPort:        "9999",
		BrowserSig:       "firefox",
	}
	_, rmt, auth, err := raw.ProcessRawConfig(common.RealWorldState)
	if err != nil {
		t.Fatal(err)
	}
	e.rmt, e.auth = rmt, auth
	t.Cleanup(func() {
		if c, ok := e.mgr.(io.Closer); ok {
			c.Close()
		}
		os.Remove(e.dbPath)
	})
	return e
}

// adminPost writes user info through the admin API's HTTP handler
func (e *redEnv) adminPost(info usermanager.UserInfo) {
	body, _ := json.Marshal(info)
	req := httptest.NewRequest("POST", "/admin/users/"+base64.URLEncoding.EncodeToString(info.UID), bytes.NewReader(body))
	rec := httptest.NewRecorder()
	e.api.ServeHTTP(rec, req)
	if rec.Code != http.StatusCreated {
		e.t.Errorf("admin POST: %d %s", rec.Code, rec.Body.String())
	}
}

func (e *redEnv) adminDelete(uid []byte) {
	req := httptest.NewRequest("DELETE", "/admin/users/"+base64.URLEncoding.EncodeToString(uid), nil)
	rec := httptest.NewRecorder()
	e.api.ServeHTTP(rec, req)
	if rec.Code != http.StatusOK {
		e.t.Errorf("admin DELETE: %d %s", rec.Code, rec.Body.String())
	}
}

func (e *redEnv) info(uid []byte) usermanager.UserInfo {
	ui, err := e.mgr.GetUserInfo(uid)
	if err != nil {
		e.t.Errorf("GetUserInfo: %v", err)
	}
	return ui
}

type redConn struct {
	tr   client.Transport
	raw  *connutil.StreamPipe
	wire *redWire
	key  [32]byte
}

var errRedHandshakeTimeout = errors.New("red: client handshake did not finish in time")

// connect makes one connection for (uid, sid) and runs the real client handshake against the real dispatchConnection
func (e *redEnv) connect(uid []byte, sid uint32) (*redConn, error) {
	c, s := connutil.AsyncPipe()
	w := &redWire{Conn: s}
	copy(w.uid[:], uid)
	e.mu.Lock()
	e.wires = append(e.wires, w)
	e.mu.Unlock()
	go dispatchConnection(w, e.sta)

	tr := e.rmt.Transport.CreateTransport()
	ai := e.auth
	ai.UID = uid
	ai.SessionId = sid
	type res struct {
		key [32]byte
		err error
	}
	done := make(chan res, 1)
	go func() {
		k, err := tr.Handshake(c, ai)
		done <- res{k, err}
	}()
	select {
	case r := <-done:
		if r.err != nil {
			c.Close()
			return nil, r.err
		}
		return &redConn{tr: tr, raw: c, wire: w, key: r.key}, nil
	case <-time.After(60 * time.Second):
		c.Close()
		return nil, errRedHandshakeTimeout
	}
}

// redAbortConn hangs up when the client starts to wait for the server's reply: the ClientHello has been sent
type redAbortConn struct{ net.Conn }

func (a redAbortConn) Read(b []byte) (int, error) {
	a.Conn.Close()
	return 0, io.ErrClosedPipe
}

// connectAbort presents (uid, sid) and is gone before the server's reply can be delivered
func (e *redEnv) connectAbort(uid []byte, sid uint32) {
	c, s := connutil.AsyncPipe()
	w := &redWire{Conn: s}
	copy(w.uid[:], uid)
	e.mu.Lock()
	e.wires = append(e.wires, w)
	e.mu.Unlock()
	go dispatchConnection(w, e.sta)
	tr := e.rmt.Transport.CreateTransport()
	ai := e.auth
	ai.UID = uid
	ai.SessionId = sid
	tr.Handshake(redAbortConn{c}, ai)
}

type redSession struct {
	uid   []byte
	sid   uint32
	sesh  *mux.Session
	conns []*redConn
	key   [32]byte

	echoTimeout time.Duration // 0: 30 s
}

// openSession does what client.MakeSession does, with n connections, but reports refusals instead of retrying
func (e *redEnv) openSession(uid []byte, sid uint32, n int) (*redSession, error) {
	conns := make([]*redConn, n)
	errs := make([]error, n)
	var wg sync.WaitGroup
	for i := 0; i < n; i++ {
		wg.Add(1)
		go func() {
			defer wg.Done()
			conns[i], errs[i] = e.connect(uid, sid)
		}()
	}
	wg.Wait()
	var ok []*redConn
	var firstErr error
	for i := range conns {
		if errs[i] != nil {
			if firstErr == nil {
				firstErr = errs[i]
			}
			continue
		}
		ok = append(ok, conns[i])
	}
	if len(ok) == 0 {
		return nil, firstErr
	}
	for _, c := range ok[1:] {
		if c.key != ok[0].key {
			for _, c := range ok {
				c.raw.Close()
			}
			return nil, fmt.Errorf("red: connections of one session were given different keys")
		}
	}
	obfs, err := mux.MakeObfuscator(mux.EncryptionMethodPlain, ok[0].key)
	if err != nil {
		return nil, err
	}
	sesh := mux.MakeSession(sid, mux.SessionConfig{Obfuscator: obfs, MsgOnWireSizeLimit: appDataMaxLength})
	for _, c := range ok {
		sesh.AddConnection(c.tr)
	}
	return &redSession{uid: uid, sid: sid, sesh: sesh, conns: ok, key: ok[0].key}, nil
}

// echo opens a stream, sends n bytes in chunks and reads them back
func (s *redSession) echo(n int, chunk int) error {
	st, err := s.sesh.OpenStream()
	if err != nil {
		return err
	}
	defer st.Close()
	out := make([]byte, chunk)
	in := make([]byte, chunk)
	for sent := 0; sent < n; sent += chunk {
		for i := range out {
			out[i] = byte(sent + i)
		}
		if _, err := st.Write(out); err != nil {
			return err
		}
		to := s.echoTimeout
		if to == 0 {
			to = 30 * time.Second
		}
		st.SetReadDeadline(time.Now().Add(to))
		if _, err := io.ReadFull(st, in); err != nil {
			return err
		}
		if !bytes.Equal(in, out) {
			return errors.New("red: echo differs")
		}
	}
	return nil
}

// record returns the user's record in the panel, or nil
func (e *redEnv) record(uid []byte) *ActiveUser {
	var arr [16]byte
	copy(arr[:], uid)
	e.panel.activeUsersM.RLock()
	defer e.panel.activeUsersM.RUnlock()
	return e.panel.activeUsers[arr]
}

// liveSessions lists the sessions of the user's record that are not closed
func (e *redEnv) liveSessions(uid []byte) map[uint32]*mux.Session {
	ret := map[uint32]*mux.Session{}
	u := e.record(uid)
	if u == nil {
		return ret
	}
	u.sessionsM.RLock()
	defer u.sessionsM.RUnlock()
	for id, s := range u.sessions {
		if !s.IsClosed() {
			ret[id] = s
		}
	}
	return ret
}

// upload is one round of what regularQueueUpload does
func (e *redEnv) upload() error {
	e.panel.updateUsageQueue()
	return e.panel.commitUpdate()
}

// wireTotals sums the tunnel payload the server read from / wrote to the connections of the user
func (e *redEnv) wireTotals(uid []byte) (rx, tx int64) {
	var arr [16]byte
	copy(arr[:], uid)
	e.mu.Lock()
	defer e.mu.Unlock()
	for _, w := range e.wires {
		if w.uid == arr {
			rx += atomic.LoadInt64(&w.rxPayload)
			tx += atomic.LoadInt64(&w.txPayload)
		}
	}
	return
}

func redWaitFor(d time.Duration, cond func() bool) bool {
	deadline := time.Now().Add(d)
	for time.Now().Before(deadline) {
		if cond() {
			return true
		}
		time.Sleep(5 * time.Millisecond)
	}
	return cond()
}

func redUID(b byte) []byte {
	u := make([]byte, 16)
	for i := range u {
		u[i] = b
	}
	u[15] = byte(i15(b))
	return u
}

func i15(b byte) int { return int(b) ^ 0x5a }

func redUser(uid []byte, cap int32, upRate, downRate, upCredit, downCredit, expiry int64) usermanager.UserInfo {
	return usermanager.UserInfo{
		UID:         uid,
		SessionsCap: usermanager.JustInt32(cap),
		UpRate:      usermanager.JustInt64(upRate),
		DownRate:    usermanager.JustInt64(downRate),
		UpCredit:    usermanager.JustInt64(upCredit),
		DownCredit:  usermanager.JustInt64(downCredit),
		ExpiryTime:  usermanager.JustInt64(expiry),
	}
}

// a smoke test of the harness itself: a limited user, one session of 3 connections, echo, upload, exact charge
func TestRedHarnessSmoke(t *testing.T) {
	e := newRedEnv(t)
	uid := redUID(1)
	e.adminPost(redUser(uid, 3, 1<<30, 1<<30, 1<<40, 1<<40, time.Now().Unix()+100000))
	s, err := e.openSession(uid, 77, 3)
	if err != nil {
		t.Fatal(err)
	}
	if len(s.conns) != 3 {
		t.Fatalf("%d conns", len(s.conns))
	}
	if err := s.echo(200000, 10000); err != nil {
		t.Fatal(err)
	}
	live := e.liveSessions(uid)
	if len(live) != 1 || live[77] == nil || live[77].GetSessionKey() != s.key {
		t.Fatalf("live sessions %v", live)
	}
	time.Sleep(200 * time.Millisecond)
	if err := e.upload(); err != nil {
		t.Fatal(err)
	}
	rx, tx := e.wireTotals(uid)
	ui := e.info(uid)
	t.Logf("wire rx %d tx %d; credit up %d down %d", rx, tx, (1<<40)-*ui.UpCredit, (1<<40)-*ui.DownCredit)
	if (1<<40)-*ui.UpCredit != rx || (1<<40)-*ui.DownCredit != tx {
		t.Errorf("charge differs from the wire")
	}
	s.sesh.Close()
	if !redWaitFor(5*time.Second, func() bool { return e.record(uid) == nil }) {
		t.Errorf("record not removed after the last session closed")
	}
}
