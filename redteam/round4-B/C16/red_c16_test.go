//go:build verif

package server

// Red-team test for C16: traffic of several users on several sessions, overlapping usage uploads, session closures
// (also the last one), admin-API changes. The charge in the database is compared with what the server really read from
// and wrote to the users' connections (counted below the TLS record layer by the harness' redWire).

import (
	"math/rand"
	"sync"
	"sync/atomic"
	"testing"
	"time"
)

const redC0 = int64(1) << 40

type redC16User struct {
	uid      []byte
	baseUp   int64 // stored credit at the last quiescent check
	baseDown int64
	baseRx   int64 // wire totals at the last quiescent check
	baseTx   int64
}

func TestRedC16_ChargedExactlyOnce(t *testing.T) {
	for seed := int64(1); seed <= 6; seed++ {
		redC16Run(t, seed)
	}
}

func redC16Run(t *testing.T, seed int64) {
	e := newRedEnv(t)
	restore := redRandomDelays(seed, 2*time.Millisecond)
	defer restore()
	rng := rand.New(rand.NewSource(seed))
	far := time.Now().Unix() + 1000000

	mkUser := func(b byte) *redC16User {
		u := &redC16User{uid: redUID(b), baseUp: redC0, baseDown: redC0}
		e.adminPost(redUser(u.uid, 6, 1<<30, 1<<30, redC0, redC0, far))
		return u
	}
	// A and B stay active throughout (an anchor session each); C closes all its sessions again and again
	A, B, C := mkUser(0xA1), mkUser(0xB1), mkUser(0xC1)

	var uploadErrs int32
	runPhase := func(d time.Duration) {
		stop := make(chan struct{})
		var wg sync.WaitGroup
		// two uploaders whose rounds overlap
		for i := 0; i < 2; i++ {
			wg.Add(1)
			r := rand.New(rand.NewSource(rng.Int63()))
			go func() {
				defer wg.Done()
				for {
					select {
					case <-stop:
						return
					default:
					}
					if err := e.upload(); err != nil {
						atomic.AddInt32(&uploadErrs, 1)
					}
					time.Sleep(time.Duration(r.Intn(8)) * time.Millisecond)
				}
			}()
		}
		worker := func(u *redC16User, keepAnchor bool, r *rand.Rand) {
			defer wg.Done()
			var anchor *redSession
			if keepAnchor {
				var err error
				anchor, err = e.openSession(u.uid, 1, 2)
				if err != nil {
					t.Errorf("anchor: %v", err)
					return
				}
			}
			sid := uint32(r.Intn(1 << 20))
			for {
				select {
				case <-stop:
					if anchor != nil {
						// traffic on the anchor too, then leave it open until the check
						anchor.echo(5000, 1000)
						u := u
						_ = u
					}
					return
				default:
				}
				sid++
				s, err := e.openSession(u.uid, sid, 1+r.Intn(3))
				if err != nil {
					time.Sleep(time.Millisecond)
					continue
				}
				var inner sync.WaitGroup
				for k := 0; k < 1+r.Intn(3); k++ {
					inner.Add(1)
					n, chunk := 1000+r.Intn(60000), 100+r.Intn(20000)
					go func() {
						defer inner.Done()
						s.echo(n, chunk) // may fail when the session is closed under it
					}()
				}
				if anchor != nil && r.Intn(2) == 0 {
					anchor.echo(1+r.Intn(30000), 1+r.Intn(16000))
				}
				if r.Intn(3) == 0 {
					// close while the echoes run
					time.Sleep(time.Duration(r.Intn(3000)) * time.Microsecond)
					s.sesh.Close()
				}
				inner.Wait()
				s.sesh.Close()
			}
		}
		anchors := []*redC16User{A, B}
		for _, u := range anchors {
			for w := 0; w < 2; w++ {
				wg.Add(1)
				go worker(u, w == 0, rand.New(rand.NewSource(rng.Int63())))
			}
		}
		wg.Add(1)
		go worker(C, false, rand.New(rand.NewSource(rng.Int63())))
		time.Sleep(d)
		close(stop)
		wg.Wait()
	}

	check := func(phase string) {
		// traffic has stopped; let the server finish reading what is in the pipes, then complete an upload (two, in case
		// one of the background rounds took something out of the queue late)
		time.Sleep(300 * time.Millisecond)
		for i := 0; i < 2; i++ {
			if err := e.upload(); err != nil {
				t.Fatal(err)
			}
		}
		for _, u := range []*redC16User{A, B, C} {
			ui := e.info(u.uid)
			rx, tx := e.wireTotals(u.uid)
			chargedUp, chargedDown := u.baseUp-*ui.UpCredit, u.baseDown-*ui.DownCredit
			carriedUp, carriedDown := rx-u.baseRx, tx-u.baseTx
			staysActive := u != C
			switch {
			case chargedUp > carriedUp || chargedDown > carriedDown:
				t.Errorf("seed %d %s user %x: charged MORE than carried: up %d/%d down %d/%d", seed, phase, u.uid[0], chargedUp, carriedUp, chargedDown, carriedDown)
			case staysActive && (chargedUp != carriedUp || chargedDown != carriedDown):
				t.Errorf("seed %d %s user %x (stays active): charged up %d carried %d; charged down %d carried %d", seed, phase, u.uid[0], chargedUp, carriedUp, chargedDown, carriedDown)
			default:
				t.Logf("seed %d %s user %x: up %d/%d down %d/%d (charged/carried)", seed, phase, u.uid[0], chargedUp, carriedUp, chargedDown, carriedDown)
			}
			u.baseUp, u.baseDown, u.baseRx, u.baseTx = *ui.UpCredit, *ui.DownCredit, rx, tx
		}
	}

	runPhase(1500 * time.Millisecond)
	check("phase1")

	// a top-up through the admin API at a quiescent moment, then more of the same
	for _, u := range []*redC16User{A, B, C} {
		up, down := redC0/2+rng.Int63n(1000), redC0/4+rng.Int63n(1000)
		e.adminPost(redUser(u.uid, 6, 1<<30, 1<<30, up, down, far))
		u.baseUp, u.baseDown = up, down
	}
	runPhase(1000 * time.Millisecond)
	check("phase2")
	if uploadErrs != 0 {
		t.Errorf("%d uploads failed", uploadErrs)
	}

	// close A's and B's anchors now (they were left open): records must go
	// (anchors are not reachable from here; closing every wire of the users does the same from the network side)
	e.mu.Lock()
	for _, w := range e.wires {
		w.Conn.Close()
	}
	e.mu.Unlock()
	if !redWaitFor(10*time.Second, func() bool { return e.record(A.uid) == nil && e.record(B.uid) == nil && e.record(C.uid) == nil }) {
		t.Errorf("seed %d: records remain after all connections were closed", seed)
	}
	check("phase3-all-closed")
}

// the cut-off clause: an upload that leaves the credit at or below zero, or finds the user expired or deleted, closes
// all the user's sessions; and the user cannot come back
func TestRedC16_CutOff(t *testing.T) {
	e := newRedEnv(t)
	restore := redRandomDelays(5, 2*time.Millisecond)
	defer restore()
	far := time.Now().Unix() + 1000000
	type cas struct {
		name  string
		setup func(uid []byte)
		cut   func(uid []byte, ss []*redSession)
	}
	cases := []cas{
		{"up credit exactly used up", func(uid []byte) {
			e.adminPost(redUser(uid, 6, 1<<30, 1<<30, 1<<40, 1<<40, far))
		}, func(uid []byte, ss []*redSession) {
			ss[0].echo(30000, 3000)
			time.Sleep(100 * time.Millisecond)
			rx, _ := e.wireTotals(uid)
			// the stored credit becomes exactly what has been used and not yet uploaded: the upload leaves 0
			e.adminPost(redUser(uid, 6, 1<<30, 1<<30, rx, 1<<40, far))
		}},
		{"down credit below zero", func(uid []byte) {
			e.adminPost(redUser(uid, 6, 1<<30, 1<<30, 1<<40, 20000, far))
		}, func(uid []byte, ss []*redSession) {
			ss[1].echo(30000, 3000)
			time.Sleep(100 * time.Millisecond)
		}},
		{"expired", func(uid []byte) {
			e.adminPost(redUser(uid, 6, 1<<30, 1<<30, 1<<40, 1<<40, far))
		}, func(uid []byte, ss []*redSession) {
			e.adminPost(redUser(uid, 6, 1<<30, 1<<30, 1<<40, 1<<40, time.Now().Unix()-1))
		}},
		{"deleted", func(uid []byte) {
			e.adminPost(redUser(uid, 6, 1<<30, 1<<30, 1<<40, 1<<40, far))
		}, func(uid []byte, ss []*redSession) {
			e.adminDelete(uid)
		}},
	}
	for i, c := range cases {
		uid := redUID(byte(0x30 + i))
		other := redUID(byte(0x40 + i))
		c.setup(uid)
		e.adminPost(redUser(other, 6, 1<<30, 1<<30, 1<<40, 1<<40, far))
		var ss []*redSession
		for k := 0; k < 3; k++ {
			s, err := e.openSession(uid, uint32(10+k), 2)
			if err != nil {
				t.Fatalf("%s: %v", c.name, err)
			}
			ss = append(ss, s)
		}
		os, err := e.openSession(other, 10, 2)
		if err != nil {
			t.Fatal(err)
		}
		c.cut(uid, ss)
		// two overlapping rounds
		var wg sync.WaitGroup
		for k := 0; k < 2; k++ {
			wg.Add(1)
			go func() { defer wg.Done(); e.upload() }()
		}
		wg.Wait()
		if n := len(e.liveSessions(uid)); n != 0 || e.record(uid) != nil {
			t.Errorf("%s: after the upload the user still has %d live sessions (record %v)", c.name, n, e.record(uid) != nil)
		}
		if !redWaitFor(5*time.Second, func() bool {
			for _, s := range ss {
				if s.conns[0].isOpen() || s.conns[1].isOpen() {
					return false
				}
			}
			return true
		}) {
			t.Errorf("%s: connections of the user are still open", c.name)
		}
		if s, err := e.openSession(uid, 99, 1); err == nil {
			t.Errorf("%s: the user could start a session again", c.name)
			s.sesh.Close()
		}
		if err := os.echo(5000, 1000); err != nil {
			t.Errorf("%s: another user's session suffered: %v", c.name, err)
		}
		os.sesh.Close()
	}
}
