//go:build verif

package server

// Red-team tests for C17 (run with -tags verif).
//
// TestRedC17_Stress: connection admission (new sessions, joins, the same session ids again and again), session
// closures (all of them "last session" candidates: no anchor), user terminations (direct and through uploads that find
// the user exhausted / expired / deleted) and three back-to-back upload loops run together, with random delays at the
// schedule points. A watchdog fails the test if an operation does not finish; every so often everything is paused and
// the quiescent-state clause is checked from the network side: every connection the server still holds open after a
// successful handshake must belong to a live session listed, under its id and with its key, in the user's record that
// the panel knows.
//
// TestRedC17_Schedules: the two orders of "a new connection arrives while the user's last session is being closed",
// and the same with an upload-driven termination, forced with the schedule points.

import (
	"math/rand"
	"os"
	"runtime"
	"strconv"
	"sync"
	"sync/atomic"
	"testing"
	"time"

	"github.com/cbeuw/Cloak/internal/common"
)

type redReg struct {
	mu    sync.Mutex
	conns []*redRegConn
}
type redRegConn struct {
	c   *redConn
	uid []byte
	sid uint32
}

func (r *redReg) add(s *redSession) {
	r.mu.Lock()
	for _, c := range s.conns {
		r.conns = append(r.conns, &redRegConn{c, s.uid, s.sid})
	}
	r.mu.Unlock()
}

// check returns the number of connections found open and the violations
func (r *redReg) check(e *redEnv) (open int, bad []string) {
	r.mu.Lock()
	defer r.mu.Unlock()
	kept := r.conns[:0]
	for _, rc := range r.conns {
		if atomic.LoadInt32(&rc.c.wire.closed) == 1 {
			continue
		}
		kept = append(kept, rc)
		open++
		rec := e.record(rc.uid)
		if rec == nil {
			bad = append(bad, "server holds a connection of user "+strconv.Itoa(int(rc.uid[0]))+" open, but the panel has no record of the user")
			continue
		}
		rec.sessionsM.RLock()
		s := rec.sessions[rc.sid]
		retired := rec.retired
		rec.sessionsM.RUnlock()
		switch {
		case s == nil:
			bad = append(bad, "server holds a connection open whose session is not listed in the user's record")
		case s.IsClosed():
			bad = append(bad, "server holds a connection open whose listed session is closed")
		case s.GetSessionKey() != rc.c.key:
			bad = append(bad, "server holds a connection open whose key is not that of the session listed under its id")
		case retired:
			bad = append(bad, "the record known to the panel is retired but has a live session")
		}
	}
	r.conns = kept
	return
}

func TestRedC17_Stress(t *testing.T) {
	secs := 25
	if s := os.Getenv("RED_C17_SECONDS"); s != "" {
		secs, _ = strconv.Atoi(s)
	}
	seed := int64(1)
	if s := os.Getenv("RED_SEED"); s != "" {
		seed, _ = strconv.ParseInt(s, 10, 64)
	}
	e := newRedEnv(t)
	restore := redRandomDelays(seed, 3*time.Millisecond)
	defer restore()
	far := time.Now().Unix() + 1000000
	const nUsers = 4
	uids := make([][]byte, nUsers)
	good := func(i int) { e.adminPost(redUser(uids[i], 3, 1<<30, 1<<30, 1<<40, 1<<40, far)) }
	for i := range uids {
		uids[i] = redUID(byte(i + 1))
		good(i)
	}
	reg := &redReg{}

	var paused int32     // 1: nobody starts a new operation
	var inFlight int32   // operations running
	var opsDone int64    // for the log
	var oldestStart atomic.Value // not used for exactness, only the watchdog below
	_ = oldestStart
	type opRec struct {
		name  string
		start time.Time
	}
	var opMu sync.Mutex
	ops := map[int64]opRec{}
	var opSeq int64
	begin := func(name string) int64 {
		for atomic.LoadInt32(&paused) == 1 {
			time.Sleep(time.Millisecond)
		}
		atomic.AddInt32(&inFlight, 1)
		id := atomic.AddInt64(&opSeq, 1)
		opMu.Lock()
		ops[id] = opRec{name, time.Now()}
		opMu.Unlock()
		return id
	}
	slow := map[string]int{}
	end := func(id int64) {
		opMu.Lock()
		if o := ops[id]; time.Since(o.start) > 3*time.Second {
			slow[o.name]++
		}
		delete(ops, id)
		opMu.Unlock()
		atomic.AddInt32(&inFlight, -1)
		atomic.AddInt64(&opsDone, 1)
	}

	stop := make(chan struct{})
	stopped := func() bool {
		select {
		case <-stop:
			return true
		default:
			return false
		}
	}
	var wg sync.WaitGroup
	rootRng := rand.New(rand.NewSource(seed))

	// workers: admission and closure
	for u := 0; u < nUsers; u++ {
		for w := 0; w < 3; w++ {
			wg.Add(1)
			r := rand.New(rand.NewSource(rootRng.Int63()))
			go func() {
				defer wg.Done()
				var held []*redSession
				for !stopped() {
					if len(held) < 2 && r.Intn(3) != 0 {
						id := begin("open")
						s, err := e.openSession(uids[u], uint32(1+r.Intn(4)), 1+r.Intn(3))
						end(id)
						if err == nil {
							reg.add(s)
							held = append(held, s)
							// several workers may hold client sessions that joined ONE server session (same id): their
							// stream ids collide and an echo may never come back - that is the harness, not the server
							s.echoTimeout = 300 * time.Millisecond
							if r.Intn(2) == 0 {
								id := begin("echo")
								s.echo(1+r.Intn(20000), 1+r.Intn(5000))
								end(id)
							}
						}
					} else if len(held) > 0 {
						i := r.Intn(len(held))
						s := held[i]
						held = append(held[:i], held[i+1:]...)
						id := begin("close")
						if r.Intn(2) == 0 {
							s.sesh.Close() // closing frame, then the connections
						} else {
							s.conns[r.Intn(len(s.conns))].raw.Close() // a connection drops
						}
						end(id)
					}
					time.Sleep(time.Duration(r.Intn(2000)) * time.Microsecond)
				}
				for _, s := range held {
					s.sesh.Close()
				}
			}()
		}
	}
	// upload loops, overlapping each other
	for i := 0; i < 3; i++ {
		wg.Add(1)
		go func() {
			defer wg.Done()
			for !stopped() {
				id := begin("updateUsageQueue")
				e.panel.updateUsageQueue()
				end(id)
				id = begin("commitUpdate")
				e.panel.commitUpdate()
				end(id)
			}
		}()
	}
	// terminations: direct, and through what the next upload finds
	wg.Add(1)
	go func() {
		defer wg.Done()
		r := rand.New(rand.NewSource(rootRng.Int63()))
		for !stopped() {
			i := r.Intn(nUsers)
			id := begin("terminate")
			switch r.Intn(5) {
			case 0:
				if rec := e.record(uids[i]); rec != nil {
					e.panel.TerminateActiveUser(rec, "red")
				}
			case 1:
				e.adminPost(redUser(uids[i], 3, 1<<30, 1<<30, 1<<40, 1<<40, time.Now().Unix()-10))
				time.Sleep(time.Duration(r.Intn(5)) * time.Millisecond)
				good(i)
			case 2:
				e.adminPost(redUser(uids[i], 3, 1<<30, 1<<30, 0, 1<<40, far))
				time.Sleep(time.Duration(r.Intn(5)) * time.Millisecond)
				good(i)
			case 3:
				e.adminDelete(uids[i])
				time.Sleep(time.Duration(r.Intn(5)) * time.Millisecond)
				good(i)
			case 4:
				e.adminPost(redUser(uids[i], int32(r.Intn(2)), 1<<30, 1<<30, 1<<40, 1<<40, far)) // cap 0 or 1: refusals
				time.Sleep(time.Duration(r.Intn(5)) * time.Millisecond)
				good(i)
			}
			end(id)
			time.Sleep(time.Duration(r.Intn(20)) * time.Millisecond)
		}
	}()

	// watchdog
	var stuck atomic.Value
	wdDone := make(chan struct{})
	go func() {
		defer close(wdDone)
		for !stopped() {
			time.Sleep(500 * time.Millisecond)
			opMu.Lock()
			for _, o := range ops {
				if time.Since(o.start) > 90*time.Second {
					stuck.Store(o.name)
				}
			}
			opMu.Unlock()
			if stuck.Load() != nil {
				buf := make([]byte, 1<<22)
				n := runtime.Stack(buf, true)
				os.WriteFile("/tmp/red4-B/RED/C17/stuck-goroutines.txt", buf[:n], 0644)
				return
			}
		}
	}()

	deadline := time.Now().Add(time.Duration(secs) * time.Second)
	checks, totalOpen := 0, 0
	for time.Now().Before(deadline) && stuck.Load() == nil {
		time.Sleep(700 * time.Millisecond)
		// quiescent moment
		atomic.StoreInt32(&paused, 1)
		if !redWaitFor(120*time.Second, func() bool { return atomic.LoadInt32(&inFlight) == 0 }) {
			stuck.Store("an operation did not finish within 120 s of the pause")
			break
		}
		restore()
		time.Sleep(250 * time.Millisecond) // serveSession goroutines finish their CloseSession
		open, bad := reg.check(e)
		if len(bad) > 0 {
			// once more after a longer rest, to tell a slow machine from a lost session
			time.Sleep(2 * time.Second)
			open, bad = reg.check(e)
		}
		checks++
		totalOpen += open
		for _, b := range bad {
			t.Errorf("quiescent check %d: %s", checks, b)
		}
		restore = redRandomDelays(seed+int64(checks), 3*time.Millisecond)
		atomic.StoreInt32(&paused, 0)
		if len(bad) > 0 {
			break
		}
	}
	atomic.StoreInt32(&paused, 0)
	close(stop)
	fin := make(chan struct{})
	go func() { wg.Wait(); close(fin) }()
	select {
	case <-fin:
	case <-time.After(150 * time.Second):
		stuck.Store("workers did not stop")
	}
	if s := stuck.Load(); s != nil {
		t.Errorf("an operation blocked: %v (goroutine dump in RED/C17/stuck-goroutines.txt)", s)
	}
	opMu.Lock()
	if len(slow) > 0 {
		t.Logf("operations that took more than 3 s: %v", slow)
	}
	opMu.Unlock()
	t.Logf("seed %d: %d operations, %d quiescent checks, %d open connections checked in all", seed, atomic.LoadInt64(&opsDone), checks, totalOpen)

	// at the end everything is closed: no record may remain, and none may remain with live sessions
	time.Sleep(500 * time.Millisecond)
	e.upload()
	for i := range uids {
		if rec := e.record(uids[i]); rec != nil {
			t.Logf("note: user %d still has a record with %d sessions after all its connections were closed", i, rec.NumSession())
		}
	}
}

// redGate parks the goroutines that reach a schedule point until released
type redGate struct {
	mu      sync.Mutex
	parked  map[string]int
	release map[string]chan struct{}
	armed   map[string]bool
}

func newRedGate() *redGate {
	g := &redGate{parked: map[string]int{}, release: map[string]chan struct{}{}, armed: map[string]bool{}}
	common.SetVerifHook(func(label string) {
		g.mu.Lock()
		if !g.armed[label] {
			g.mu.Unlock()
			return
		}
		ch := g.release[label]
		g.parked[label]++
		g.mu.Unlock()
		<-ch
	})
	return g
}
func (g *redGate) arm(label string) {
	g.mu.Lock()
	g.armed[label] = true
	g.release[label] = make(chan struct{})
	g.parked[label] = 0
	g.mu.Unlock()
}
func (g *redGate) waitParked(label string, n int) bool {
	return redWaitFor(20*time.Second, func() bool { g.mu.Lock(); defer g.mu.Unlock(); return g.parked[label] >= n })
}
func (g *redGate) open(label string) {
	g.mu.Lock()
	g.armed[label] = false
	close(g.release[label])
	g.mu.Unlock()
}

func TestRedC17_Schedules(t *testing.T) {
	far := time.Now().Unix() + 1000000
	type result struct {
		s   *redSession
		err error
	}
	checkOwned := func(t *testing.T, e *redEnv, s *redSession) {
		t.Helper()
		time.Sleep(200 * time.Millisecond)
		live := e.liveSessions(s.uid)[s.sid]
		if live == nil || live.GetSessionKey() != s.key {
			t.Errorf("the new session is not owned by the user's record in the panel (record %v)", e.record(s.uid) != nil)
		}
		if atomic.LoadInt32(&s.conns[0].wire.closed) == 1 {
			t.Errorf("the new connection was closed by the server")
		}
		if err := s.echo(3000, 1000); err != nil {
			t.Errorf("the new session does not work: %v", err)
		}
		time.Sleep(100 * time.Millisecond)
		if err := e.upload(); err != nil {
			t.Error(err)
		}
		rx, tx := e.wireTotals(s.uid)
		ui := e.info(s.uid)
		if (1<<40)-*ui.UpCredit != rx || (1<<40)-*ui.DownCredit != tx {
			t.Errorf("usage not reported: charged %d/%d, carried %d/%d", (1<<40)-*ui.UpCredit, (1<<40)-*ui.DownCredit, rx, tx)
		}
		// and it can be terminated
		rec := e.record(s.uid)
		if rec == nil {
			t.Errorf("no record of the user in the panel")
			return
		}
		e.panel.TerminateActiveUser(rec, "red")
		if !redWaitFor(5*time.Second, func() bool { return atomic.LoadInt32(&s.conns[0].wire.closed) == 1 }) {
			t.Errorf("the session survived the termination of its user")
		}
	}

	t.Run("close parked before terminate, new connection arrives", func(t *testing.T) {
		e := newRedEnv(t)
		g := newRedGate()
		defer common.SetVerifHook(nil)
		uid := redUID(1)
		e.adminPost(redUser(uid, 3, 1<<30, 1<<30, 1<<40, 1<<40, far))
		old, err := e.openSession(uid, 1, 1)
		if err != nil {
			t.Fatal(err)
		}
		g.arm("ActiveUser.CloseSession:beforeTerminate")
		old.sesh.Close()
		if !g.waitParked("ActiveUser.CloseSession:beforeTerminate", 1) {
			t.Fatal("CloseSession did not reach the schedule point")
		}
		ch := make(chan result, 1)
		go func() { s, err := e.openSession(uid, 2, 1); ch <- result{s, err} }()
		time.Sleep(300 * time.Millisecond) // the new connection finds the retired record and waits
		g.open("ActiveUser.CloseSession:beforeTerminate")
		select {
		case r := <-ch:
			if r.err != nil {
				t.Fatalf("the new connection was refused: %v", r.err)
			}
			checkOwned(t, e, r.s)
		case <-time.After(30 * time.Second):
			t.Fatal("the new connection never finished")
		}
	})

	t.Run("new connection parked after the lookup, last session closes completely", func(t *testing.T) {
		e := newRedEnv(t)
		g := newRedGate()
		defer common.SetVerifHook(nil)
		uid := redUID(2)
		e.adminPost(redUser(uid, 3, 1<<30, 1<<30, 1<<40, 1<<40, far))
		old, err := e.openSession(uid, 1, 1)
		if err != nil {
			t.Fatal(err)
		}
		oldRec := e.record(uid)
		g.arm("dispatchConnection:beforeGetSession")
		ch := make(chan result, 1)
		go func() { s, err := e.openSession(uid, 2, 1); ch <- result{s, err} }()
		if !g.waitParked("dispatchConnection:beforeGetSession", 1) {
			t.Fatal("not parked")
		}
		old.sesh.Close()
		if !redWaitFor(10*time.Second, func() bool { return e.record(uid) != oldRec }) {
			t.Fatal("old record not removed")
		}
		g.open("dispatchConnection:beforeGetSession")
		select {
		case r := <-ch:
			if r.err != nil {
				t.Fatalf("the new connection was refused: %v", r.err)
			}
			checkOwned(t, e, r.s)
		case <-time.After(30 * time.Second):
			t.Fatal("the new connection never finished")
		}
	})

	t.Run("new connection parked after the lookup, an upload terminates the (restored) user, two rounds overlap", func(t *testing.T) {
		e := newRedEnv(t)
		g := newRedGate()
		defer common.SetVerifHook(nil)
		uid := redUID(3)
		e.adminPost(redUser(uid, 3, 1<<30, 1<<30, 1<<40, 1<<40, far))
		old, err := e.openSession(uid, 1, 2)
		if err != nil {
			t.Fatal(err)
		}
		oldRec := e.record(uid)
		g.arm("dispatchConnection:beforeGetSession")
		g.arm("userPanel.updateUsageQueue:betweenLocks")
		ch := make(chan result, 1)
		go func() { s, err := e.openSession(uid, 2, 1); ch <- result{s, err} }()
		if !g.waitParked("dispatchConnection:beforeGetSession", 1) {
			t.Fatal("not parked")
		}
		// the user is expired for one upload, and in good standing again afterwards
		e.adminPost(redUser(uid, 3, 1<<30, 1<<30, 1<<40, 1<<40, time.Now().Unix()-10))
		done := make(chan struct{}, 3)
		for i := 0; i < 2; i++ {
			go func() { e.upload(); done <- struct{}{} }() // both rounds park between the two locks of updateUsageQueue...
		}
		time.Sleep(200 * time.Millisecond)
		go func() { e.panel.commitUpdate(); done <- struct{}{} }() // ...while a third one commits
		time.Sleep(200 * time.Millisecond)
		g.open("userPanel.updateUsageQueue:betweenLocks")
		for i := 0; i < 3; i++ {
			select {
			case <-done:
			case <-time.After(30 * time.Second):
				t.Fatal("an upload round never finished")
			}
		}
		if !redWaitFor(10*time.Second, func() bool { return e.record(uid) != oldRec }) {
			t.Fatal("expired user not terminated by the upload")
		}
		if !redWaitFor(5*time.Second, func() bool { return atomic.LoadInt32(&old.conns[0].wire.closed) == 1 && atomic.LoadInt32(&old.conns[1].wire.closed) == 1 }) {
			t.Error("sessions of the terminated user still open")
		}
		e.adminPost(redUser(uid, 3, 1<<30, 1<<30, 1<<40, 1<<40, far))
		g.open("dispatchConnection:beforeGetSession")
		select {
		case r := <-ch:
			if r.err != nil {
				t.Fatalf("the new connection was refused: %v", r.err)
			}
			checkOwned(t, e, r.s)
		case <-time.After(30 * time.Second):
			t.Fatal("the new connection never finished")
		}
	})
}
