//go:build verif

package server

// Red-team tests for C15 (run with -tags verif: the schedule points get random delays).

import (
	"math/rand"
	"sync"
	"sync/atomic"
	"testing"
	"time"

	"github.com/cbeuw/Cloak/internal/common"
	mux "github.com/cbeuw/Cloak/internal/multiplex"
)

func redRandomDelays(seed int64, maxDelay time.Duration) func() {
	var mu sync.Mutex
	rng := rand.New(rand.NewSource(seed))
	common.SetVerifHook(func(label string) {
		mu.Lock()
		p := rng.Intn(3)
		d := time.Duration(rng.Int63n(int64(maxDelay)))
		mu.Unlock()
		if p == 0 {
			time.Sleep(d)
		}
	})
	return func() { common.SetVerifHook(nil) }
}

// isOpen tells whether the server still holds the connection open (nothing is sent to an idle connection)
func (c *redConn) isOpen() bool {
	c.raw.SetReadDeadline(time.Now().Add(30 * time.Millisecond))
	var b [1]byte
	_, err := c.raw.Read(b[:])
	c.raw.SetReadDeadline(time.Time{})
	return err != nil && err.Error() != "io: read/write on closed pipe"
}

// N simultaneous handshakes for one (UID, session id), while another session of the user is opened and closed and
// while the session itself is dropped and re-opened: at rest, all connections the server still holds for the pair have
// one key, that of the one live session the user's record has under that id.
func TestRedC15_SameSessionSameKey(t *testing.T) {
	e := newRedEnv(t)
	rounds := 60
	var statOpen, statClosed, statKeys, statNoLive int
	for r := 0; r < rounds; r++ {
		restore := redRandomDelays(int64(r)+1, 4*time.Millisecond)
		rng := rand.New(rand.NewSource(int64(r) + 1000))
		uids := [][]byte{redUID(byte(2*r + 1)), redUID(byte(2*r + 2))}
		anchors := []*redSession{}
		for _, uid := range uids {
			e.adminPost(redUser(uid, 4, 1<<30, 1<<30, 1<<40, 1<<40, time.Now().Unix()+100000))
			a, err := e.openSession(uid, 1, 1)
			if err != nil {
				t.Fatal(err)
			}
			anchors = append(anchors, a)
		}
		type pair struct {
			uid []byte
			sid uint32
		}
		pairs := []pair{{uids[0], 7}, {uids[0], 8}, {uids[1], 7}}
		var mu sync.Mutex
		got := map[int][]*redConn{}
		var wg sync.WaitGroup
		for pi, p := range pairs {
			n := 3 + rng.Intn(8)
			dropFirst := rng.Intn(2) == 0
			if rng.Intn(2) == 0 {
				// the connection that makes the session is lost before the server's reply reaches it
				wg.Add(1)
				go func() { defer wg.Done(); e.connectAbort(p.uid, p.sid) }()
			}
			var dropped int32
			for i := 0; i < n; i++ {
				wg.Add(1)
				d := time.Duration(rng.Intn(3000)) * time.Microsecond
				go func() {
					defer wg.Done()
					time.Sleep(d)
					c, err := e.connect(p.uid, p.sid)
					if err != nil {
						return
					}
					if dropFirst && atomic.CompareAndSwapInt32(&dropped, 0, 1) {
						// the client loses this connection: the server tears the session down; the others re-open it
						c.raw.Close()
						return
					}
					mu.Lock()
					got[pi] = append(got[pi], c)
					mu.Unlock()
				}()
			}
		}
		// another session of user 0 comes and goes meanwhile
		wg.Add(1)
		go func() {
			defer wg.Done()
			for i := 0; i < 3; i++ {
				s, err := e.openSession(uids[0], 2, 2)
				if err == nil {
					s.sesh.Close()
				}
			}
		}()
		wg.Wait()
		restore()
		time.Sleep(100 * time.Millisecond)

		seen := map[*mux.Session]pair{}
		for pi, p := range pairs {
			live := e.liveSessions(p.uid)[p.sid]
			var open []*redConn
			keys := map[[32]byte]bool{}
			for _, c := range got[pi] {
				keys[c.key] = true
				if c.isOpen() {
					open = append(open, c)
				} else {
					statClosed++
				}
			}
			statOpen += len(open)
			statKeys += len(keys)
			if live == nil {
				statNoLive++
			}
			for _, c := range open {
				if live == nil {
					t.Errorf("round %d pair %d: the server holds a connection open but the user's record has no live session %d", r, pi, p.sid)
					break
				}
				if c.key != live.GetSessionKey() {
					t.Errorf("round %d pair %d: an open connection was given a key that is not the live session's", r, pi)
				}
			}
			if live != nil {
				if q, dup := seen[live]; dup {
					t.Errorf("round %d: pairs %v and %v share a session", r, q, p)
				}
				seen[live] = p
			}
		}
		if r == rounds-1 {
			t.Logf("%d rounds x %d pairs: %d connections still open at rest (all checked), %d closed by the server, %d session incarnations (keys) seen, %d pairs without live session at rest",
				rounds, len(pairs), statOpen, statClosed, statKeys, statNoLive)
		}
		for _, a := range anchors {
			a.sesh.Close()
		}
		for _, cs := range got {
			for _, c := range cs {
				c.raw.Close()
			}
		}
	}
}

// caps 0..3: more sessions than the cap are attempted at once, sessions (never all) are closed and others opened
// meanwhile; a sampler looks at the user's record all the time
func TestRedC15_SessionCap(t *testing.T) {
	e := newRedEnv(t)
	for capv := int32(0); capv <= 3; capv++ {
		for r := 0; r < 15; r++ {
			restore := redRandomDelays(int64(r)+77, 3*time.Millisecond)
			uid := redUID(byte(100 + int(capv)*20 + r))
			e.adminPost(redUser(uid, capv, 1<<30, 1<<30, 1<<40, 1<<40, time.Now().Unix()+100000))
			stop := make(chan struct{})
			var maxLive, maxListed int32
			var samplerDone sync.WaitGroup
			samplerDone.Add(1)
			go func() {
				defer samplerDone.Done()
				for {
					select {
					case <-stop:
						return
					default:
					}
					if n := int32(len(e.liveSessions(uid))); n > atomic.LoadInt32(&maxLive) {
						atomic.StoreInt32(&maxLive, n)
					}
					if u := e.record(uid); u != nil {
						if n := int32(u.NumSession()); n > atomic.LoadInt32(&maxListed) {
							atomic.StoreInt32(&maxListed, n)
						}
					}
					time.Sleep(50 * time.Microsecond)
				}
			}()
			var anchor *redSession
			if capv > 0 {
				var err error
				anchor, err = e.openSession(uid, 1, 1)
				if err != nil {
					t.Fatalf("cap %d: anchor refused: %v", capv, err)
				}
			}
			var okCount int32
			var wg sync.WaitGroup
			var mu sync.Mutex
			var opened []*redSession
			for i := 0; i < int(capv)+4; i++ {
				wg.Add(1)
				go func() {
					defer wg.Done()
					for k := 0; k < 3; k++ {
						s, err := e.openSession(uid, uint32(10+i*10+k), 2)
						if err != nil {
							continue
						}
						atomic.AddInt32(&okCount, 1)
						if k%2 == 0 {
							s.sesh.Close() // makes room: somebody else may get in
						} else {
							mu.Lock()
							opened = append(opened, s)
							mu.Unlock()
						}
					}
				}()
			}
			wg.Wait()
			restore()
			time.Sleep(50 * time.Millisecond)
			close(stop)
			samplerDone.Wait()
			nOpenClient := 0
			for _, s := range opened {
				if !s.sesh.IsClosed() && s.conns[0].isOpen() {
					nOpenClient++
				}
			}
			if anchor != nil {
				nOpenClient++
			}
			if maxLive > capv || maxListed > capv || int32(nOpenClient) > capv {
				t.Errorf("cap %d round %d: up to %d live sessions (%d listed) seen in the record, %d open on the client side",
					capv, r, maxLive, maxListed, nOpenClient)
			}
			if capv == 0 && okCount > 0 {
				t.Errorf("cap 0: %d sessions were started", okCount)
			}
			for _, s := range opened {
				s.sesh.Close()
			}
			if anchor != nil {
				anchor.sesh.Close()
			}
		}
	}
}

// histories of credit and expiry changes made through the admin API: a user who is exhausted or expired at the
// moment of the attempt cannot start a session, whether or not he is active at that moment
func TestRedC15_ExhaustedOrExpiredCannotStart(t *testing.T) {
	e := newRedEnv(t)
	uid := redUID(0xE0)
	now := time.Now().Unix()
	type step struct {
		up, down, expiry int64
		mayStart         bool
	}
	steps := []step{
		{0, 100, now + 1000, false},
		{100, 0, now + 1000, false},
		{-5, 100, now + 1000, false},
		{100, -5, now + 1000, false},
		{100, 100, now - 1, false},
		{100, 100, 0, false},
		{100, 100, -1, false},
		{100, 100, now + 1000, true},
		{0, 0, now + 1000, false},
		{1 << 40, 1 << 40, now - 100, false},
		{1, 1, now + 1000, true},
		{1 << 62, 1 << 62, now + 1000, true},
		{-1 << 62, 1 << 62, now + 1000, false},
	}
	var anchor *redSession
	sid := uint32(100)
	for pass := 0; pass < 2; pass++ {
		// pass 0: the user is not active when he tries; pass 1: he has a session (started while he was in good standing)
		if pass == 1 {
			e.adminPost(redUser(uid, 5, 1<<30, 1<<30, 1000, 1000, now+1000))
			var err error
			anchor, err = e.openSession(uid, 1, 1)
			if err != nil {
				t.Fatal(err)
			}
		}
		for i, st := range steps {
			e.adminPost(redUser(uid, 5, 1<<30, 1<<30, st.up, st.down, st.expiry))
			sid++
			s, err := e.openSession(uid, sid, 2)
			if err == nil && !st.mayStart {
				t.Errorf("pass %d step %d (up %d down %d expiry %+d): a session was started", pass, i, st.up, st.down, st.expiry-now)
			}
			if err != nil && st.mayStart {
				t.Logf("pass %d step %d: refused although in good standing: %v", pass, i, err)
			}
			if s != nil {
				s.sesh.Close()
				time.Sleep(20 * time.Millisecond)
			}
			if pass == 1 && anchor.sesh.IsClosed() {
				t.Logf("pass 1 step %d: anchor closed", i)
			}
		}
		// deleted
		e.adminDelete(uid)
		sid++
		if s, err := e.openSession(uid, sid, 1); err == nil {
			t.Errorf("pass %d: a deleted user started a session", pass)
			s.sesh.Close()
		}
	}
	if anchor != nil {
		anchor.sesh.Close()
	}
}

// STRICT READING / by design: connections that present the admin UID with session id 0 are each given a session of
// their own and a key of their own (dispatchConnection's admin branch calls MakeSession per connection). The shipped
// client forces NumConn=1 in admin mode, so this is listed as an observation, not as a defect.
func TestRedC15_Observation_AdminConnectionsDoNotShareASession(t *testing.T) {
	e := newRedEnv(t)
	a, err := e.connect(redAdminUID, 0)
	if err != nil {
		t.Fatal(err)
	}
	b, err := e.connect(redAdminUID, 0)
	if err != nil {
		t.Fatal(err)
	}
	if a.key != b.key {
		t.Errorf("two connections presenting the same UID (the admin's) and session id 0 were given different session keys")
	}
	a.raw.Close()
	b.raw.Close()
}
