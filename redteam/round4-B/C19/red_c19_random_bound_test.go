//go:build goexperiment.synctest

package multiplex

// Randomised search (virtual clock) for a violation of the UPPER bound of C19: several sessions, connections and
// streams share one LimitedValve (what ActiveUser.GetSession arranges); random write sizes and pauses in both
// directions; every interval between two release events is checked. Rates are >= 20480 so that the known finding
// (rate below the largest message) is not re-reported. No violation was found with it.

import (
	"fmt"
	"io"
	"math/rand"
	"net"
	"os"
	"sort"
	"strconv"
	"sync"
	"testing"
	"testing/synctest"
	"time"

	"github.com/cbeuw/Cloak/internal/common"
	"github.com/cbeuw/connutil"
)

type redEv struct {
	at time.Time
	n  int64
}
type redRec struct {
	mu sync.Mutex
	ev []redEv
}

func (r *redRec) add(n int) {
	if n <= 0 {
		return
	}
	r.mu.Lock()
	r.ev = append(r.ev, redEv{time.Now(), int64(n)})
	r.mu.Unlock()
}

// redValve delegates to the real valve and notes when received bytes are let through
type redValve struct {
	Valve
	rx *redRec
}

func (v redValve) rxWait(n int) { v.Valve.rxWait(n); v.rx.add(n) }

// redWire notes when bytes are put on the wire towards the client
type redWire struct {
	net.Conn
	tx *redRec
}

func (w redWire) Write(b []byte) (int, error) {
	w.tx.add(len(b)) // the limiter has let them go: they are on their way
	return w.Conn.Write(b)
}

func redCheckBound(name string, ev []redEv, rate int64) error {
	sort.Slice(ev, func(i, j int) bool { return ev[i].at.Before(ev[j].at) })
	for i := range ev {
		var sum int64
		for j := i; j < len(ev); j++ {
			sum += ev[j].n
			dt := ev[j].at.Sub(ev[i].at).Seconds()
			bound := 1.01*float64(rate)*dt + 1.01*float64(rate) + 1
			if float64(sum) > bound {
				return fmt.Errorf("%s: %d B in an interval of %.6fs (events %d..%d), bound rate*t+burst = %.0f (rate %d)",
					name, sum, dt, i, j, bound, rate)
			}
		}
	}
	return nil
}

func redC19Random(t *testing.T, seed int64) {
	rng := rand.New(rand.NewSource(seed))
	rates := []int64{20480, 20481, 25000, 33333, 65536, 100000, 123457, 1000000, 3000000}
	rxRate := rates[rng.Intn(len(rates))]
	txRate := rates[rng.Intn(len(rates))]
	nSesh := 1 + rng.Intn(3)
	synctest.Run(func() {
		valve := MakeValve(rxRate, txRate)
		rx, tx := &redRec{}, &redRec{}
		var clis, srvs []*Session
		for s := 0; s < nSesh; s++ {
			var key [32]byte
			rng.Read(key[:])
			obfs, _ := MakeObfuscator(EncryptionMethodPlain, key)
			unordered := false
			srv := MakeSession(uint32(s+1), SessionConfig{Obfuscator: obfs, Valve: redValve{valve, rx}, Unordered: unordered, MsgOnWireSizeLimit: 16401})
			cli := MakeSession(uint32(s+1), SessionConfig{Obfuscator: obfs, Unordered: unordered, MsgOnWireSizeLimit: 16401})
			for c, nc := 0, 1+rng.Intn(4); c < nc; c++ {
				a, b := connutil.AsyncPipe() // never blocks a writer (net.Pipe serialises writers with a mutex, which a synctest bubble cannot wait on)
				srv.AddConnection(common.NewTLSConn(redWire{b, tx}))
				cli.AddConnection(common.NewTLSConn(a))
			}
			srvs, clis = append(srvs, srv), append(clis, cli)
		}
		stop := make(chan struct{})
		pump := func(w io.Writer, r *rand.Rand) {
			buf := make([]byte, 70000)
			for {
				select {
				case <-stop:
					return
				default:
				}
				var n int
				switch r.Intn(4) {
				case 0:
					n = 1 + r.Intn(100)
				case 1:
					n = 1 + r.Intn(16000)
				case 2:
					n = 16000 + r.Intn(400)
				default:
					n = 1 + r.Intn(len(buf))
				}
				if _, err := w.Write(buf[:n]); err != nil {
					return
				}
				if r.Intn(3) == 0 {
					time.Sleep(time.Duration(r.Int63n(int64(700 * time.Millisecond))))
				}
			}
		}
		for i, srv := range srvs {
			go func() {
				for {
					st, err := srv.Accept()
					if err != nil {
						return
					}
					go io.Copy(io.Discard, st)
					go pump(st, rand.New(rand.NewSource(rng.Int63())))
				}
			}()
			for k, ns := 0, 1+rng.Intn(6); k < ns; k++ {
				st, err := clis[i].OpenStream()
				if err != nil {
					t.Error(err)
					continue
				}
				st.Write([]byte{1})
				go io.Copy(io.Discard, st)
				go pump(st, rand.New(rand.NewSource(rng.Int63())))
			}
		}
		time.Sleep(time.Duration(4+rng.Intn(5)) * time.Second)
		close(stop)
		time.Sleep(20 * time.Second)
		for i := range srvs {
			clis[i].passiveClose()
			srvs[i].passiveClose()
		}
		time.Sleep(400 * time.Second)
		synctest.Wait()
		if err := redCheckBound("tx (server->client wire)", tx.ev, txRate); err != nil {
			t.Errorf("seed %d: %v", seed, err)
		}
		if err := redCheckBound("rx (let through by rxWait)", rx.ev, rxRate); err != nil {
			t.Errorf("seed %d: %v", seed, err)
		}
		t.Logf("seed %d: rx %d B/s tx %d B/s, %d sessions, %d tx events, %d rx events", seed, rxRate, txRate, nSesh, len(tx.ev), len(rx.ev))
	})
}

func TestRedC19_RandomUpperBound(t *testing.T) {
	n := 30
	if s := os.Getenv("RED_SEEDS"); s != "" {
		n, _ = strconv.Atoi(s)
	}
	for seed := int64(1); seed <= int64(n); seed++ {
		redC19Random(t, seed)
	}
}
