//go:build goexperiment.synctest

package server

// C19, second clause: "... counted across all of the user's sessions and connections together; and a
// backlogged sender is not held below that rate."
//
// Scenario (virtual clock, testing/synctest): one limited user (DownRate 100 000 B/s) with two sessions A and B
// that share the user's allowance (ActiveUser.GetSession hands both the same valve). Session A carries K streams,
// each with a backlogged server->client writer. Every writer reserves its frame in the token bucket
// (switchboard.send: valve.txWait) and sleeps until its turn. At t=1s the client closes session A. The sleeping
// writers cannot be cancelled and their reservations are never given back: when they wake up they find the
// switchboard broken and send nothing. A backlogged sender on the user's other, healthy session B therefore queues
// behind ~K*16 KB of tokens that nobody will ever use: for many seconds the user receives NOTHING although it has
// a backlogged sender and a configured rate of 100 000 B/s.

import (
	"crypto/rand"
	"io"
	"net"
	"os"
	"sync"
	"testing"
	"testing/synctest"
	"time"

	"github.com/cbeuw/Cloak/internal/common"
	mux "github.com/cbeuw/Cloak/internal/multiplex"
	"github.com/cbeuw/Cloak/internal/server/usermanager"
)

type redC19Write struct {
	at time.Time
	n  int
}

// redC19Conn records when how many bytes the server put on the wire of this connection
type redC19Conn struct {
	net.Conn
	mu  sync.Mutex
	log []redC19Write
}

func (c *redC19Conn) Write(b []byte) (int, error) {
	n, err := c.Conn.Write(b)
	c.mu.Lock()
	c.log = append(c.log, redC19Write{time.Now(), n})
	c.mu.Unlock()
	return n, err
}

func (c *redC19Conn) bytesBetween(from, to time.Time) (sum int64) {
	c.mu.Lock()
	defer c.mu.Unlock()
	for _, w := range c.log {
		if !w.at.Before(from) && w.at.Before(to) {
			sum += int64(w.n)
		}
	}
	return
}

func (c *redC19Conn) firstAfter(from time.Time) (time.Time, bool) {
	c.mu.Lock()
	defer c.mu.Unlock()
	for _, w := range c.log {
		if !w.at.Before(from) && w.n > 0 {
			return w.at, true
		}
	}
	return time.Time{}, false
}

// control: the same scenario, but session A is not closed: the user as a whole is served at the rate (this passes)
func TestRedC19_Control_NoSessionClosed(t *testing.T) { redC19Scenario(t, false) }

// the violation: session A is closed at t=1s
func TestRedC19_ClosedSessionBurnsTheUsersTokens(t *testing.T) { redC19Scenario(t, true) }

func redC19Scenario(t *testing.T, closeA bool) {
	const (
		downRate = 100_000 // bytes per second, server -> client
		upRate   = 100_000_000
		K        = 100 // streams of session A with a backlogged writer each
		window   = 10 * time.Second
	)

	tmpDB, _ := os.CreateTemp("", "ck_user_info")
	defer os.Remove(tmpDB.Name())
	manager, err := usermanager.MakeLocalManager(tmpDB.Name(), common.RealWorldState)
	if err != nil {
		t.Fatal(err)
	}
	defer manager.Close()
	uid := []byte{9, 9, 9, 9, 0, 1, 2, 3, 4, 5, 6, 7, 8, 9, 10, 11}
	err = manager.WriteUserInfo(usermanager.UserInfo{
		UID:         uid,
		SessionsCap: usermanager.JustInt32(4),
		UpRate:      usermanager.JustInt64(upRate),
		DownRate:    usermanager.JustInt64(downRate),
		UpCredit:    usermanager.JustInt64(1 << 50),
		DownCredit:  usermanager.JustInt64(1 << 50),
		ExpiryTime:  usermanager.JustInt64(1 << 40),
	})
	if err != nil {
		t.Fatal(err)
	}
	// made outside the bubble: its upload goroutine sleeps for ever (real time, first round after a minute)
	panel := MakeUserPanel(manager)

	synctest.Run(func() {
		user, err := panel.GetUser(uid)
		if err != nil {
			t.Fatal(err)
		}

		mk := func(id uint32) (srv, cli *mux.Session, wire *redC19Conn) {
			var key [32]byte
			rand.Read(key[:])
			obfs, err := mux.MakeObfuscator(mux.EncryptionMethodPlain, key)
			if err != nil {
				t.Fatal(err)
			}
			cfg := mux.SessionConfig{Obfuscator: obfs, MsgOnWireSizeLimit: appDataMaxLength}
			srv, existing, err := user.GetSession(id, cfg) // sets cfg.Valve = the user's valve
			if err != nil || existing {
				t.Fatal(err, existing)
			}
			c, s := net.Pipe()
			wire = &redC19Conn{Conn: s}
			srv.AddConnection(common.NewTLSConn(wire)) // what dispatchConnection does after the handshake
			cli = mux.MakeSession(id, cfg)             // the client has no valve
			cli.AddConnection(common.NewTLSConn(c))
			return
		}

		// what serveSession + common.Copy(newStream, localConn) do for a proxy server with plenty to send
		serve := func(srv *mux.Session) {
			for {
				st, err := srv.Accept()
				if err != nil {
					return
				}
				go func() {
					buf := make([]byte, 16000)
					for {
						if _, err := st.Write(buf); err != nil {
							return
						}
					}
				}()
			}
		}
		open := func(cli *mux.Session) {
			st, err := cli.OpenStream()
			if err != nil {
				t.Error(err)
				return
			}
			if _, err = st.Write([]byte{0}); err != nil {
				t.Error(err)
				return
			}
			go io.Copy(io.Discard, st)
		}

		start := time.Now()
		srvA, cliA, wireA := mk(1)
		srvB, cliB, wireB := mk(2)
		go serve(srvA)
		go serve(srvB)

		for i := 0; i < K; i++ {
			open(cliA)
		}
		time.Sleep(time.Second)
		synctest.Wait()

		// t = 1s: the client ends session A; session B goes on and now gets a backlogged sender
		if closeA {
			cliA.Close()
			synctest.Wait()
			if !srvA.IsClosed() {
				t.Fatal("session A is still open on the server")
			}
		}
		open(cliB)

		time.Sleep(time.Second)
		synctest.Wait()
		from := time.Now() // t = 2s
		time.Sleep(window)
		synctest.Wait()
		to := time.Now() // t = 12s

		gotB := wireB.bytesBetween(from, to)
		gotA := wireA.bytesBetween(from, to)
		// a backlogged sender is served at the rate: over 10 s at least 0.99*rate*10 less one frame in flight
		want := int64(0.99*downRate*window.Seconds()) - 2*appDataMaxLength
		t.Logf("virtual interval [%v, %v): user received %d B on session B, %d B on session A; rate*t = %d B",
			from.Sub(start), to.Sub(start), gotB, gotA, int64(downRate*window.Seconds()))

		// let the test end: wait for the sleepers, close B
		time.Sleep(60 * time.Second)
		if first, ok := wireB.firstAfter(from); ok {
			t.Logf("session B's backlogged sender got its first byte through %v after it started (t=1s)",
				first.Sub(start)-time.Second)
		}
		cliB.Close()
		cliA.Close()
		time.Sleep(60 * time.Second)
		synctest.Wait()
		user.CloseSession(1, "")
		user.CloseSession(2, "")

		if gotA+gotB < want {
			t.Errorf("C19 violated: a backlogged sender of a user limited to %d B/s was given %d B in %v (at least %d expected): "+
				"the tokens reserved by the writers of the closed session were burnt", downRate, gotA+gotB, window, want)
		}
	})
}
