//go:build goexperiment.synctest

package multiplex

// OBSERVATION (strict reading of "for all rates" + "a backlogged sender is not held below that rate"):
// fix ae725d2 makes MakeValve cap the rate handed to the token bucket at 16 GiB/s, so a user whose configured
// rate is larger (the usual way to write "no limit", e.g. 1<<40) is held at 16 GiB/s on the virtual clock.
// The commit message says this is deliberate ("beyond what a session can carry"); it is listed as an observation.

import (
	"testing"
	"testing/synctest"
	"time"
)

func TestRedC19_Observation_RateAbove16GiBIsHeldAt16GiB(t *testing.T) {
	const rate = int64(1) << 40
	synctest.Run(func() {
		v := MakeValve(rate, rate)
		// drain the burst
		start := time.Now()
		var sent int64
		const msg = 1 << 30 // one txWait stands for 65536 frames of 16 KiB; the bucket does not care
		for time.Since(start) < 10*time.Second {
			v.txWait(msg)
			sent += msg
		}
		el := time.Since(start).Seconds()
		t.Logf("configured %d B/s; backlogged sender got %d B in %.3fs = %.0f B/s (%.2f%% of the configured rate)",
			rate, sent, el, float64(sent)/el, 100*float64(sent)/el/float64(rate))
		if float64(sent) < 0.99*float64(rate)*el {
			t.Errorf("backlogged sender held below the configured rate: %d B in %.3fs, rate*t = %.0f", sent, el, float64(rate)*el)
		}
	})
}
