package server

// The burnt-token scenario of red_c19_burnt_tokens_test.go once more, end to end and in real time: real
// dispatchConnection and serveSession, real client handshakes, a proxy server with plenty to send on every stream.
// (Real time, so the numbers are approximate; the effect is not: nothing at all arrives for seconds.)

import (
	"io"
	"net"
	"testing"
	"time"

	"github.com/cbeuw/connutil"
)

func TestRedC19_E2E_ClosedSessionBurnsTheUsersTokens(t *testing.T) {
	const (
		downRate = 200_000
		K        = 100
	)
	e := newRedEnv(t)
	// the proxy server sends as fast as it is allowed to
	e.sta.ProxyDialer = redDialer(func() (net.Conn, error) {
		a, b := connutil.LimitedAsyncPipe(64 * 1024)
		go func() {
			go io.Copy(io.Discard, b)
			buf := make([]byte, 32*1024)
			for {
				if _, err := b.Write(buf); err != nil {
					return
				}
			}
		}()
		return a, nil
	})
	uid := redUID(0x19)
	e.adminPost(redUser(uid, 4, 1<<30, downRate, 1<<40, 1<<40, time.Now().Unix()+100000))

	sA, err := e.openSession(uid, 1, 2)
	if err != nil {
		t.Fatal(err)
	}
	sB, err := e.openSession(uid, 2, 2)
	if err != nil {
		t.Fatal(err)
	}
	open := func(s *redSession) {
		st, err := s.sesh.OpenStream()
		if err != nil {
			t.Error(err)
			return
		}
		st.Write([]byte{0})
		go io.Copy(io.Discard, st)
	}
	txOf := func(s *redSession) (sum int64) {
		for _, c := range s.conns {
			sum += c.wire.txPayload
		}
		return
	}
	start := time.Now()
	for i := 0; i < K; i++ {
		open(sA)
	}
	time.Sleep(time.Second)
	sA.sesh.Close() // the client ends session A
	open(sB)        // session B has a backlogged sender from now on
	time.Sleep(time.Second)
	t0, b0, a0 := time.Since(start), txOf(sB), txOf(sA)
	time.Sleep(4 * time.Second)
	t1, b1, a1 := time.Since(start), txOf(sB), txOf(sA)
	got := (b1 - b0) + (a1 - a0)
	want := int64(0.9*downRate*(t1-t0).Seconds()) - 2*appDataMaxLength
	t.Logf("[%v, %v]: the user received %d B on session B and %d B on session A; rate*t = %.0f B",
		t0.Round(time.Millisecond), t1.Round(time.Millisecond), b1-b0, a1-a0, downRate*(t1-t0).Seconds())
	first := time.Duration(0)
	for time.Since(start) < 30*time.Second {
		if txOf(sB) > b1 {
			first = time.Since(start)
			break
		}
		time.Sleep(10 * time.Millisecond)
	}
	t.Logf("session B's sender got its first byte through %v after it started", (first - time.Second).Round(10*time.Millisecond))
	sB.sesh.Close()
	if got < want {
		t.Errorf("C19 violated: a backlogged sender of a user limited to %d B/s was given %d B in %v (at least %d expected)",
			downRate, got, (t1 - t0).Round(time.Millisecond), want)
	}
}
