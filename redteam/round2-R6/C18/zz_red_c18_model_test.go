//go:build goexperiment.synctest

package server

// RED TEAM (round 2, R6) - C18: randomized model check of the admin API as a keyed store, with close/reopen, plus
// "owner connects / is listed / has usage uploaded" after every step. Exploration only (it passes).

import (
	"bytes"
	"encoding/base64"
	"encoding/json"
	"fmt"
	"io"
	"math"
	"math/rand"
	"net/http"
	"net/http/httptest"
	"path/filepath"
	"reflect"
	"sort"
	"testing"
	"testing/synctest"
	"time"

	"github.com/cbeuw/Cloak/internal/common"
	mux "github.com/cbeuw/Cloak/internal/multiplex"
	"github.com/cbeuw/Cloak/internal/server/usermanager"
	log "github.com/sirupsen/logrus"
)

type redRec struct {
	SessionsCap                                          int32
	UpRate, DownRate, UpCredit, DownCredit, ExpiryTime int64
}

func TestRedC18_Model(t *testing.T) {
	log.SetOutput(io.Discard)
	for seed := int64(1); seed <= 30; seed++ {
		dir := t.TempDir()
		synctest.Run(func() { redC18Run(t, seed, dir) })
	}
}

func redC18Run(t *testing.T, seed int64, dir string) {
	rng := rand.New(rand.NewSource(seed))
	path := filepath.Join(dir, "db")
	world := common.WorldOfTime(time.Unix(1_700_000_000, 0))
	mgr, err := usermanager.MakeLocalManager(path, world)
	if err != nil {
		t.Fatal(err)
	}
	router := usermanager.APIRouterOf(mgr)
	newPanel := func() *userPanel {
		return &userPanel{Manager: mgr, activeUsers: make(map[[16]byte]*ActiveUser), usageUpdateQueue: make(map[[16]byte]*usagePair)}
	}
	panel := newPanel()

	uids := [][]byte{
		[]byte("0123456789abcdef"),
		bytes.Repeat([]byte{0xff}, 16),
		bytes.Repeat([]byte{0}, 16),
		[]byte("short"),
		[]byte("0123456789abcdefXYZ"), // shares its first 16 bytes with uids[0]
		{0xfb, 0xff, 0xbf, 0x3e, 0x3f, 1, 2, 3, 4, 5, 6, 7, 8, 9, 10, 11},
	}
	model := map[string]*redRec{}
	i64s := []int64{0, 1, -1, 2, 1000, math.MaxInt64, math.MinInt64, math.MaxInt32, math.MinInt32, 1 << 50, 1<<50 - 1, 1 << 62, -(1 << 62), 1_700_000_000, 1_700_000_001, 1_699_999_999}
	i32s := []int32{0, 1, -1, 2, math.MaxInt32, math.MinInt32, 100}
	u := func(b []byte) string { return base64.URLEncoding.EncodeToString(b) }

	do := func(method, url string, body []byte) (int, []byte) {
		req := httptest.NewRequest(method, url, bytes.NewReader(body))
		rr := httptest.NewRecorder()
		router.ServeHTTP(rr, req)
		return rr.Code, rr.Body.Bytes()
	}
	check := func(step int, what string) {
		// reads
		for _, uid := range uids {
			code, body := do("GET", "/admin/users/"+u(uid), nil)
			want, ok := model[string(uid)]
			if !ok {
				if code != http.StatusNotFound {
					t.Fatalf("seed %d step %d (%s): GET of absent user %x gives %d %s", seed, step, what, uid, code, body)
				}
				continue
			}
			if code != 200 {
				t.Fatalf("seed %d step %d (%s): GET %x gives %d %s", seed, step, what, uid, code, body)
			}
			var got usermanager.UserInfo
			if err := json.Unmarshal(body, &got); err != nil {
				t.Fatal(err)
			}
			g := redRec{*got.SessionsCap, *got.UpRate, *got.DownRate, *got.UpCredit, *got.DownCredit, *got.ExpiryTime}
			if !bytes.Equal(got.UID, uid) || g != *want {
				t.Fatalf("seed %d step %d (%s): GET %x = %+v, model %+v", seed, step, what, uid, g, *want)
			}
		}
		// list
		code, body := do("GET", "/admin/users", nil)
		if code != 200 {
			t.Fatalf("list: %d", code)
		}
		var lst []usermanager.UserInfo
		if err := json.Unmarshal(body, &lst); err != nil {
			t.Fatal(err)
		}
		var gotKeys, wantKeys []string
		for _, e := range lst {
			gotKeys = append(gotKeys, string(e.UID))
			w := model[string(e.UID)]
			if w == nil {
				t.Fatalf("seed %d step %d (%s): list has %x, model has not", seed, step, what, e.UID)
			}
			g := redRec{*e.SessionsCap, *e.UpRate, *e.DownRate, *e.UpCredit, *e.DownCredit, *e.ExpiryTime}
			if g != *w {
				t.Fatalf("seed %d step %d (%s): list %x = %+v, model %+v", seed, step, what, e.UID, g, *w)
			}
		}
		for k := range model {
			wantKeys = append(wantKeys, k)
		}
		sort.Strings(gotKeys)
		sort.Strings(wantKeys)
		if !reflect.DeepEqual(gotKeys, wantKeys) {
			t.Fatalf("seed %d step %d (%s): list keys %x, model %x", seed, step, what, gotKeys, wantKeys)
		}
	}
	connectAndUpload := func(step int) {
		// owner connects, and has usage uploaded; only 16-byte UIDs can connect
		for _, uid := range uids {
			if len(uid) != 16 {
				continue
			}
			func() {
				defer func() {
					if r := recover(); r != nil {
						t.Fatalf("seed %d step %d: PANIC when owner %x connects/uploads: %v (model %+v)", seed, step, uid, r, model[string(uid)])
					}
				}()
				user, err := panel.GetUser(uid)
				if err != nil {
					return
				}
				var key [32]byte
				obfs, _ := mux.MakeObfuscator(mux.EncryptionMethodPlain, key)
				sesh, _, err := user.GetSession(7, mux.SessionConfig{Obfuscator: obfs})
				if err != nil {
					user.terminateIfEmpty()
					return
				}
				_ = sesh
				user.valve.AddRx(int64(rng.Intn(5)))
				user.valve.AddTx(int64(rng.Intn(5)))
				// usage upload changes the credits: keep the model in step
				rx, tx := user.valve.GetRx(), user.valve.GetTx()
				panel.updateUsageQueue()
				if err := panel.commitUpdate(); err != nil {
					t.Fatal(err)
				}
				if m := model[string(uid)]; m != nil {
					m.UpCredit -= rx
					m.DownCredit -= tx
				}
				if panel.isActive(uid) {
					user.CloseSession(7, "")
					// termination queues the (zero) remaining usage
					if err := panel.commitUpdate(); err != nil {
						t.Fatal(err)
					}
				}
			}()
		}
	}

	for step := 0; step < 200; step++ {
		uid := uids[rng.Intn(len(uids))]
		what := ""
		switch op := rng.Intn(12); {
		case op < 5: // write with a random subset of fields
			fields := map[string]interface{}{"UID": uid}
			next := redRec{}
			if m := model[string(uid)]; m != nil {
				next = *m
			}
			if rng.Intn(2) == 0 {
				v := i32s[rng.Intn(len(i32s))]
				fields["SessionsCap"] = v
				next.SessionsCap = v
			}
			for _, f := range []struct {
				name string
				p    *int64
			}{{"UpRate", &next.UpRate}, {"DownRate", &next.DownRate}, {"UpCredit", &next.UpCredit}, {"DownCredit", &next.DownCredit}, {"ExpiryTime", &next.ExpiryTime}} {
				switch rng.Intn(5) {
				case 0, 1:
					v := i64s[rng.Intn(len(i64s))]
					fields[f.name] = v
					*f.p = v
				case 2:
					fields[f.name] = nil // explicit null: not mentioned
				}
			}
			body, _ := json.Marshal(fields)
			code, resp := do("POST", "/admin/users/"+u(uid), body)
			what = fmt.Sprintf("POST %x %s -> %d", uid, body, code)
			if code != http.StatusCreated {
				t.Fatalf("seed %d step %d: %s %s", seed, step, what, resp)
			}
			model[string(uid)] = &next
		case op < 7: // rejected writes
			other := uids[rng.Intn(len(uids))]
			var body []byte
			switch rng.Intn(6) {
			case 0:
				if bytes.Equal(other, uid) {
					continue
				}
				body, _ = json.Marshal(map[string]interface{}{"UID": other, "UpRate": 5})
			case 1:
				body = []byte(`{"UID":"` + base64.StdEncoding.EncodeToString(uid) + `","UpRate":1,"DownRate":9223372036854775808}`)
			case 2:
				body = []byte(`{"UID":"` + base64.StdEncoding.EncodeToString(uid) + `","UpCredit":7,"SessionsCap":2147483648}`)
			case 3:
				body = []byte(`{"UID":"` + base64.StdEncoding.EncodeToString(uid) + `","UpCredit":7,"SessionsCap":"3"}`)
			case 4:
				body = []byte(`{"UID":"` + base64.StdEncoding.EncodeToString(uid) + `","UpCredit":7`)
			case 5:
				body = []byte(`{"UpCredit":7}`)
			}
			code, _ := do("POST", "/admin/users/"+u(uid), body)
			what = fmt.Sprintf("bad POST %x %s -> %d", uid, body, code)
			if code/100 == 2 {
				t.Fatalf("seed %d step %d: accepted %s", seed, step, what)
			}
		case op < 9:
			code, _ := do("DELETE", "/admin/users/"+u(uid), nil)
			what = fmt.Sprintf("DELETE %x -> %d", uid, code)
			delete(model, string(uid))
		case op < 10:
			what = "reopen"
			if err := mgr.Close(); err != nil {
				t.Fatal(err)
			}
			mgr, err = usermanager.MakeLocalManager(path, world)
			if err != nil {
				t.Fatal(err)
			}
			router = usermanager.APIRouterOf(mgr)
			panel = newPanel()
		default:
			what = "connect+upload"
			connectAndUpload(step)
		}
		check(step, what)
	}
	mgr.Close()
}
