package multiplex

import (
	"math"
	"math/rand"
	"testing"
)

func TestRedSweepMakeValve(t *testing.T) {
	rng := rand.New(rand.NewSource(42))
	try := func(r int64) {
		defer func() {
			if x := recover(); x != nil {
				t.Fatalf("rate %d panics: %v", r, x)
			}
		}()
		v := MakeValve(r, r)
		v.rxtb.TakeAvailable(1)
		v.rxtb.Take(20480)
	}
	for r := int64(1); r < 100000; r++ {
		try(r)
	}
	for i := 0; i < 2000000; i++ {
		e := rng.Float64() * 63
		r := int64(math.Exp2(e))
		if r < 1 {
			r = 1
		}
		try(r)
	}
	for sh := 0; sh < 63; sh++ {
		for d := int64(-3); d <= 3; d++ {
			r := int64(1)<<sh + d
			if r > 0 {
				try(r)
			}
		}
	}
	try(math.MaxInt64)
	try(math.MaxInt64 - 1)
}
