package usermanager

import (
	"bytes"
	"encoding/base64"
	"encoding/json"
	"net/http/httptest"
	"path/filepath"
	"testing"

	"github.com/cbeuw/Cloak/internal/common"
)

func TestRedBigUID(t *testing.T) {
	path := filepath.Join(t.TempDir(), "db")
	mgr, err := MakeLocalManager(path, common.RealWorldState)
	if err != nil {
		t.Fatal(err)
	}
	router := APIRouterOf(mgr)
	for _, sz := range []int{17, 100, 4000, 5000, 32768, 32769, 70000, 700000} {
		uid := bytes.Repeat([]byte{0xAB}, sz)
		body, _ := json.Marshal(UserInfo{UID: uid, UpRate: JustInt64(5)})
		req := httptest.NewRequest("POST", "/admin/users/"+base64.URLEncoding.EncodeToString(uid), bytes.NewReader(body))
		rr := httptest.NewRecorder()
		func() {
			defer func() {
				if r := recover(); r != nil {
					t.Errorf("size %d: PANIC %v", sz, r)
				}
			}()
			router.ServeHTTP(rr, req)
		}()
		t.Logf("size %d -> %d %s", sz, rr.Code, rr.Body.String())
		infos, err := mgr.ListAllUsers()
		t.Logf("  list: %d users, err %v", len(infos), err)
	}
	if err := mgr.Close(); err != nil {
		t.Fatal(err)
	}
	mgr, err = MakeLocalManager(path, common.RealWorldState)
	if err != nil {
		t.Fatal(err)
	}
	infos, err := mgr.ListAllUsers()
	t.Logf("after reopen: %d users, err %v", len(infos), err)
	for _, i := range infos {
		t.Logf("   uid len %d uprate %d", len(i.UID), *i.UpRate)
	}
}
