//go:build goexperiment.synctest

package multiplex

import (
	"io"
	"math/rand"
	"net"
	"sync"
	"testing"
	"testing/synctest"
	"time"

	log "github.com/sirupsen/logrus"
)

type redTxConn struct {
	net.Conn
	on     func(n int)
	closed chan struct{}
	once   sync.Once
}

func (c *redTxConn) Write(b []byte) (int, error) { c.on(len(b)); return len(b), nil }
func (c *redTxConn) Read(b []byte) (int, error)  { <-c.closed; return 0, io.EOF }
func (c *redTxConn) Close() error                { c.once.Do(func() { close(c.closed) }); return nil }
func (c *redTxConn) LocalAddr() net.Addr         { return &net.TCPAddr{} }
func (c *redTxConn) RemoteAddr() net.Addr        { return &net.TCPAddr{} }

func TestRedC19_TxExplore(t *testing.T) {
	log.SetOutput(io.Discard)
	for _, rate := range []int64{20_000, 100_000, 1_000_000, 7_777_777} {
		var evs []redRxEvent
		synctest.Run(func() {
			var key [32]byte
			obfs, _ := MakeObfuscator(EncryptionMethodPlain, key)
			valve := MakeValve(rate, rate)
			start := time.Now()
			var m sync.Mutex
			var conns []*redTxConn
			stop := make(chan struct{})
			var wg sync.WaitGroup
			rng := rand.New(rand.NewSource(1))
			for s := 0; s < 3; s++ {
				sesh := MakeSession(uint32(s), SessionConfig{Obfuscator: obfs, Valve: valve})
				for c := 0; c < 4; c++ {
					cc := &redTxConn{closed: make(chan struct{}), on: func(n int) {
						m.Lock()
						evs = append(evs, redRxEvent{time.Since(start), n})
						m.Unlock()
					}}
					conns = append(conns, cc)
					sesh.AddConnection(cc)
				}
				for k := 0; k < 10; k++ {
					st, _ := sesh.OpenStream()
					sz := 1 + rng.Intn(40000)
					pause := time.Duration(rng.Intn(3)) * time.Duration(rng.Intn(2000)) * time.Millisecond
					wg.Add(1)
					go func() {
						defer wg.Done()
						b := make([]byte, sz)
						for {
							select {
							case <-stop:
								return
							default:
							}
							if _, err := st.Write(b); err != nil {
								return
							}
							time.Sleep(pause)
						}
					}()
				}
			}
			time.Sleep(20 * time.Second)
			close(stop)
			for _, c := range conns {
				c.Close()
			}
			wg.Wait()
			synctest.Wait()
		})
		total := 0
		for _, e := range evs {
			total += e.n
		}
		worst, from, to, bytes := redWorstExcess(evs, float64(rate))
		t.Logf("rate=%d total=%d (%.0f B/s) events=%d worst [%v,%v] bytes=%d excess=%.0f", rate, total, float64(total)/20, len(evs), from, to, bytes, worst)
	}
}
