//go:build goexperiment.synctest

package server

// RED TEAM (round 2, R6) - property C19 x C18 interaction: a rate written through the admin API is not applied to a
// user who is active. userPanel.GetUser builds the token buckets once, from the rates stored at the moment the
// ActiveUser record is created, and every later connection/session of that user gets the same *ActiveUser (and
// valve) back from the activeUsers map. As long as the user keeps at least one session open - which a normal
// multiplexing client does for as long as it runs - the rates configured in the database are never read again.
// The server therefore keeps sending to (and accepting from) the user at the OLD rate for an unbounded time, far
// above "configured rate x t + one second of burst". (Symmetrically, a user whose rate is raised stays held at the
// old, lower rate: the "a backlogged sender is not held below that rate" half.)
//
// Run (three times):
//   GOEXPERIMENT=synctest go test ./internal/server/ -run TestRedC19_RateUpdate -count=3 -v

import (
	"io"
	"net"
	"os"
	"path/filepath"
	"sync"
	"testing"
	"testing/synctest"
	"time"

	"github.com/cbeuw/Cloak/internal/common"
	mux "github.com/cbeuw/Cloak/internal/multiplex"
	"github.com/cbeuw/Cloak/internal/server/usermanager"
	log "github.com/sirupsen/logrus"
)

type redSink struct {
	mu    sync.Mutex
	start time.Time
	evs   []redTxEvent
}
type redTxEvent struct {
	at time.Duration
	n  int
}

func (s *redSink) add(n int) {
	s.mu.Lock()
	s.evs = append(s.evs, redTxEvent{time.Since(s.start), n})
	s.mu.Unlock()
}

// bytesBetween returns the bytes the server wrote to the user's connections in [from, to]
func (s *redSink) bytesBetween(from, to time.Duration) (n int) {
	s.mu.Lock()
	defer s.mu.Unlock()
	for _, e := range s.evs {
		if e.at >= from && e.at <= to {
			n += e.n
		}
	}
	return
}

// redUserConn is the server's end of one of the user's connections: everything the server writes is counted and
// dropped, reads block until the connection is closed
type redUserConn struct {
	net.Conn
	sink   *redSink
	closed chan struct{}
	once   sync.Once
}

func (c *redUserConn) Write(b []byte) (int, error) { c.sink.add(len(b)); return len(b), nil }
func (c *redUserConn) Read(b []byte) (int, error)  { <-c.closed; return 0, io.EOF }
func (c *redUserConn) Close() error                { c.once.Do(func() { close(c.closed) }); return nil }
func (c *redUserConn) LocalAddr() net.Addr         { return &net.TCPAddr{} }
func (c *redUserConn) RemoteAddr() net.Addr        { return &net.TCPAddr{} }

func TestRedC19_RateUpdateIsNotAppliedToAnActiveUser(t *testing.T) {
	log.SetOutput(io.Discard)
	dir := t.TempDir()
	synctest.Run(func() {
		manager, err := usermanager.MakeLocalManager(filepath.Join(dir, "userinfo.db"), common.RealWorldState)
		if err != nil {
			t.Fatal(err)
		}
		defer os.Remove(filepath.Join(dir, "userinfo.db"))
		defer manager.Close()
		// same as MakeUserPanel, minus the once-a-minute upload goroutine (it never exits, which synctest.Run waits for)
		panel := &userPanel{
			Manager:          manager,
			activeUsers:      make(map[[16]byte]*ActiveUser),
			usageUpdateQueue: make(map[[16]byte]*usagePair),
			uploadInterval:   defaultUploadInterval,
		}

		UID := []byte("0123456789abcdef")
		const oldRate, newRate = int64(1_000_000), int64(10_000)
		err = manager.WriteUserInfo(usermanager.UserInfo{
			UID:         UID,
			SessionsCap: usermanager.JustInt32(10),
			UpRate:      usermanager.JustInt64(oldRate),
			DownRate:    usermanager.JustInt64(oldRate),
			UpCredit:    usermanager.JustInt64(1 << 50),
			DownCredit:  usermanager.JustInt64(1 << 50),
			ExpiryTime:  usermanager.JustInt64(time.Now().Add(1000 * time.Hour).Unix()),
		})
		if err != nil {
			t.Fatal(err)
		}

		var key [32]byte
		obfs, _ := mux.MakeObfuscator(mux.EncryptionMethodPlain, key)
		sink := &redSink{start: time.Now()}
		var conns []*redUserConn

		// what dispatchConnection does for an authenticated connection of this user
		connect := func(sessionID uint32) *mux.Session {
			user, err := panel.GetUser(UID)
			if err != nil {
				t.Fatal(err)
			}
			sesh, _, err := user.GetSession(sessionID, mux.SessionConfig{Obfuscator: obfs})
			if err != nil {
				t.Fatal(err)
			}
			c := &redUserConn{sink: sink, closed: make(chan struct{})}
			conns = append(conns, c)
			sesh.AddConnection(c)
			return sesh
		}
		// a backlogged download: the proxy server has unlimited data for the user
		stop := make(chan struct{})
		var wg sync.WaitGroup
		download := func(sesh *mux.Session) {
			stream, err := sesh.OpenStream()
			if err != nil {
				t.Error(err)
				return
			}
			wg.Add(1)
			go func() {
				defer wg.Done()
				chunk := make([]byte, 8192)
				for {
					select {
					case <-stop:
						return
					default:
					}
					if _, err := stream.Write(chunk); err != nil {
						return
					}
				}
			}()
		}

		sesh1 := connect(1)
		download(sesh1)
		time.Sleep(5 * time.Second)

		// t = 5s: the administrator lowers the user's rates to 10 kB/s through the admin API's manager
		err = manager.WriteUserInfo(usermanager.UserInfo{
			UID:      UID,
			UpRate:   usermanager.JustInt64(newRate),
			DownRate: usermanager.JustInt64(newRate),
		})
		if err != nil {
			t.Fatal(err)
		}
		info, _ := manager.GetUserInfo(UID)
		if *info.DownRate != newRate || *info.UpRate != newRate {
			t.Fatalf("the database does not hold the new rate: %v %v", *info.DownRate, *info.UpRate)
		}
		changedAt := time.Since(sink.start)

		// the user even makes a brand-new session after the change (second device / restarted client)
		time.Sleep(1 * time.Second)
		sesh2 := connect(2)
		download(sesh2)

		const observe = 60 * time.Second
		time.Sleep(observe)
		end := time.Since(sink.start)

		got := sink.bytesBetween(changedAt, end)
		dt := (end - changedAt).Seconds()
		allowed := 1.01*float64(newRate)*dt + 1.01*float64(newRate)
		t.Logf("rate configured since t=%v: %d B/s. Sent to the user in the following %.0fs: %d bytes (%.0f B/s); "+
			"rate*t + one second of burst (+1%%) allows %.0f bytes", changedAt, newRate, dt, got, float64(got)/dt, allowed)
		if float64(got) > allowed {
			t.Errorf("C19 violated: %d bytes sent to the user in %.0fs after its rate was configured to %d B/s; allowed %.0f",
				got, dt, newRate, allowed)
		}

		close(stop)
		for _, c := range conns {
			c.Close()
		}
		wg.Wait()
		synctest.Wait()
	})
}
