//go:build goexperiment.synctest

package multiplex

// RED TEAM (round 2, R6) - property C19, upload ("accepts from") direction.
//
// switchboard.deplex reads from the connection FIRST and only then calls valve.rxWait(n). ratelimit.Bucket.Wait
// always takes the tokens (the balance goes negative) and sleeps afterwards. Every connection of the user has its
// own deplex goroutine, so at any instant each of the user's K connections can have one buffer-full (up to 20480
// bytes, in practice one ~16 KiB TLS record) that has been accepted from the user but not yet paid for. The amount
// accepted in an interval is therefore bounded by rate*t + capacity + K*(record size), not by rate*t + capacity, and
// K is chosen by the client (NumConn times the number of sessions).
//
// This is not the known "rate below the size of a single message" case: here the rate (100 kB/s) is six times the
// size of the largest message (16 kB). To keep that known item (one whole message can burst) out of the verdict, the
// assertion below is WEAKER than the property text: it grants one extra receive buffer (20480 bytes) on top of
// "rate x t + one second of burst + 1%". With one connection the test passes; from four connections on it fails,
// and the excess grows linearly with the number of connections. (The literal bound is logged too.)
//
// Severity: low. The excess is bounded by (number of connections) x (one TLS record); it is paid back afterwards
// (each deplex goroutine sleeps off its own debt before it reads again, and before it forwards the data), so the
// long-term average still respects the rate. But the number of connections is entirely the client's choice - the
// server puts no cap on connections per session - so the size of the burst is not bounded by anything the
// administrator configured.
//
// Run (three times):
//   GOEXPERIMENT=synctest go test ./internal/multiplex/ -run TestRedC19_Rx -count=3 -v

import (
	"io"
	"net"
	"sync"
	"testing"
	"testing/synctest"
	"time"

	log "github.com/sirupsen/logrus"
)

type redRxEvent struct {
	at time.Duration
	n  int
}

type redCountingConn struct {
	net.Conn
	onRead func(n int)
}

func (c *redCountingConn) Read(b []byte) (int, error) {
	n, err := c.Conn.Read(b)
	if n > 0 {
		c.onRead(n)
	}
	return n, err
}

// worstExcess returns the largest value, over all closed intervals [t_i, t_j] that start and end at an event, of
// bytes(i..j) - (1.01*rate*(t_j-t_i) + 1.01*rate): positive means the property's bound is exceeded.
func redWorstExcess(evs []redRxEvent, rate float64) (worst float64, from, to time.Duration, bytes int) {
	return redWorstExcessSlack(evs, rate, 0)
}

func redWorstExcessSlack(evs []redRxEvent, rate float64, slack float64) (worst float64, from, to time.Duration, bytes int) {
	worst = -1e18
	for i := range evs {
		sum := 0
		for j := i; j < len(evs); j++ {
			sum += evs[j].n
			dt := (evs[j].at - evs[i].at).Seconds()
			allowed := 1.01*rate*dt + 1.01*rate + slack
			if ex := float64(sum) - allowed; ex > worst {
				worst, from, to, bytes = ex, evs[i].at, evs[j].at, sum
			}
		}
	}
	return
}

func redRunRx(t *testing.T, rate int64, numConn int, payloadLen int, dur time.Duration) []redRxEvent {
	log.SetOutput(io.Discard)
	var evs []redRxEvent
	synctest.Run(func() {
		var key [32]byte
		obfs, err := MakeObfuscator(EncryptionMethodPlain, key)
		if err != nil {
			t.Fatal(err)
		}
		valve := MakeValve(rate, rate) // rx (client->server) limited to `rate` bytes per second
		sesh := MakeSession(1, SessionConfig{Obfuscator: obfs, Valve: valve})

		// the server side consumes whatever arrives, as serveSession does
		go func() {
			for {
				s, err := sesh.Accept()
				if err != nil {
					return
				}
				go io.Copy(io.Discard, s)
			}
		}()

		start := time.Now()
		var evM sync.Mutex
		clientEnds := make([]net.Conn, numConn)
		for i := 0; i < numConn; i++ {
			c, s := net.Pipe()
			clientEnds[i] = c
			sesh.AddConnection(&redCountingConn{Conn: s, onRead: func(n int) {
				evM.Lock()
				evs = append(evs, redRxEvent{time.Since(start), n})
				evM.Unlock()
			}})
		}
		// the user: a backlogged uploader on every connection, one stream per connection, valid frames
		for i := 0; i < numConn; i++ {
			go func(i int, c net.Conn) {
				f := &Frame{StreamID: uint32(i + 1)}
				buf := make([]byte, payloadLen+frameHeaderLength+maxExtraLen)
				payload := make([]byte, payloadLen)
				for {
					f.Payload = payload
					n, err := obfs.obfuscate(f, buf, 0)
					if err != nil {
						t.Error(err)
						return
					}
					f.Seq++
					if _, err = c.Write(buf[:n]); err != nil {
						return
					}
				}
			}(i, clientEnds[i])
		}

		time.Sleep(dur)
		for _, c := range clientEnds {
			c.Close()
		}
		synctest.Wait()
		sesh.Close()
	})
	return evs
}

func TestRedC19_RxBurstGrowsWithNumberOfConnections(t *testing.T) {
	const rate = 100_000 // bytes per second; the largest message is ~16 kB, far below it
	for _, numConn := range []int{1, 4, 16, 32, 64} {
		evs := redRunRx(t, rate, numConn, 16000, 5*time.Second)
		total := 0
		for _, e := range evs {
			total += e.n
		}
		lit, _, _, _ := redWorstExcess(evs, rate)
		worst, from, to, bytes := redWorstExcessSlack(evs, rate, 20480)
		t.Logf("conns=%-3d accepted %d bytes in 5s; worst interval [%v, %v]: %d bytes accepted; excess over the literal bound %.0f, "+
			"over the literal bound + one receive buffer %.0f", numConn, total, from, to, bytes, lit, worst)
		if worst > 0 {
			t.Errorf("C19 violated with %d connections: %d bytes accepted from the user in the interval [%v, %v] of length %v; "+
				"rate*t + one second of burst (+1%%) + one 20480-byte buffer = %.0f",
				numConn, bytes, from, to, to-from, float64(bytes)-worst)
		}
	}
}
