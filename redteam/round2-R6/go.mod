module red

go 1.24
