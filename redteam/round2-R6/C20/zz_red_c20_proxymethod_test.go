package test

// RED TEAM (round 2, R6) - property C20, option ProxyMethod.
//
// README (client): "`ProxyMethod` is the name of the proxy method you are using. This must match one of the entries
// in the server's `ProxyBook` exactly."  README (server): "`ProxyBook` is an object whose key is the name of the
// ProxyMethod used on the client-side (case-sensitive)."
//
// Two independent defects make a client configuration that follows this to the letter unusable, without any error at
// configuration time on either side:
//   (1) the name travels in a fixed 12-byte field (client/auth.go: copy(plaintext[16:28], authInfo.ProxyMethod)):
//       a longer name is silently cut to 12 bytes by ProcessRawConfig/makeAuthenticationPayload instead of being
//       rejected, so it can never match the server's (identical) entry;
//   (2) the server lower-cases the ProxyBook keys when it loads its configuration (server/state.go parseProxyBook)
//       but looks the client's name up as sent (dispatcher.go: sta.ProxyBook[ci.ProxyMethod]), so a name with an
//       upper-case letter never matches the identical entry either.
// In both cases the authenticated client is handed to the redirection web server like a prober, and ck-client retries
// for ever with "Failed to prepare connection to remote".
//
// Run (three times):  go test ./internal/test/ -run TestRedC20_ProxyMethod -count=3 -v

import (
	"io"
	"net"
	"testing"
	"time"

	"github.com/cbeuw/Cloak/internal/client"
	"github.com/cbeuw/Cloak/internal/common"
	"github.com/cbeuw/Cloak/internal/server"
	log "github.com/sirupsen/logrus"
)

func redC20Try(t *testing.T, proxyMethod string) (reachedProxy bool, reachedWeb bool) {
	log.SetOutput(io.Discard)
	ws := common.RealWorldState

	// the same name, byte for byte, in the server's ProxyBook and in the client's ProxyMethod
	serverState, err := server.InitState(server.RawConfig{
		ProxyBook:  map[string][]string{proxyMethod: {"tcp", "127.0.0.1:9999"}},
		BindAddr:   []string{"127.0.0.1:9999"},
		BypassUID:  [][]byte{bypassUID[:]},
		RedirAddr:  "127.0.0.1:9999",
		PrivateKey: privateKey,
	}, ws)
	if err != nil {
		t.Fatalf("server rejects the configuration: %v", err)
	}
	raw := client.RawConfig{
		ServerName:       "www.example.com",
		ProxyMethod:      proxyMethod,
		EncryptionMethod: "plain",
		UID:              bypassUID[:],
		PublicKey:        publicKey,
		NumConn:          1,
		Transport:        "direct",
		RemoteHost:       "127.0.0.1",
		RemotePort:       "9999",
		LocalHost:        "127.0.0.1",
		LocalPort:        "9999",
		BrowserSig:       "firefox",
	}
	lcc, rcc, ai, err := raw.ProcessRawConfig(ws)
	if err != nil {
		// an error here would be the acceptable outcome for an invalid name
		t.Logf("ProxyMethod %q: client rejects the configuration: %v", proxyMethod, err)
		return true, false
	}
	proxyToCkClientD, proxyFromCkServerL, _, redirFromCkServerL, err := establishSession(lcc, rcc, ai, serverState)
	if err != nil {
		t.Fatal(err)
	}
	proxyCh := make(chan struct{}, 1)
	webCh := make(chan struct{}, 1)
	go func() {
		if _, err := proxyFromCkServerL.Accept(); err == nil {
			proxyCh <- struct{}{}
		}
	}()
	go func() {
		if _, err := redirFromCkServerL.Accept(); err == nil {
			webCh <- struct{}{}
		}
	}()
	go func() {
		var conn net.Conn
		conn, err := proxyToCkClientD.Dial("", "")
		if err == nil {
			conn.Write([]byte("hello proxy server"))
		}
	}()
	select {
	case <-proxyCh:
		return true, false
	case <-webCh:
		return false, true
	case <-time.After(5 * time.Second):
		return false, false
	}
}

func TestRedC20_ProxyMethodControl(t *testing.T) {
	if proxy, _ := redC20Try(t, "shadowsocks"); !proxy {
		t.Fatal("control failed: the harness does not work")
	}
}

func TestRedC20_ProxyMethodLongerThan12Bytes(t *testing.T) {
	proxy, web := redC20Try(t, "shadowsocks-2") // 13 bytes
	if !proxy {
		t.Errorf("ProxyMethod \"shadowsocks-2\" is configured identically on server and client, is accepted by both, "+
			"but the client never reaches the proxy server (handed to the redirection web server: %v)", web)
	}
}

func TestRedC20_ProxyMethodWithUpperCase(t *testing.T) {
	proxy, web := redC20Try(t, "OpenVPN")
	if !proxy {
		t.Errorf("ProxyMethod \"OpenVPN\" is configured identically on server and client, is accepted by both, "+
			"but the client never reaches the proxy server (handed to the redirection web server: %v)", web)
	}
}
