package client

// RED TEAM (round 2, R6) - C20 minor observations (logged, some asserted). See notes.md.

import (
	"os"
	"path/filepath"
	"testing"

	"github.com/cbeuw/Cloak/internal/common"
)

const redBase = `"Transport":"direct","ProxyMethod":"shadowsocks","EncryptionMethod":"plain",
"UID":"iGAO85zysIyR4c09CyZSLQ==","PublicKey":"IYoUzkle/T/kriE+Ufdm7AHQtIeGnBWbhhlTbmDpUUI=","ServerName":"www.bing.com",
"LocalHost":"127.0.0.1","LocalPort":"1984","RemoteHost":"127.0.0.1","RemotePort":"443"`

func redProcess(t *testing.T, extra string) (LocalConnConfig, RemoteConnConfig, error) {
	p := filepath.Join(t.TempDir(), "c.json")
	os.WriteFile(p, []byte(`{`+redBase+extra+`}`), 0600)
	raw, err := ParseConfig(p)
	if err != nil {
		return LocalConnConfig{}, RemoteConnConfig{}, err
	}
	l, r, _, err := raw.ProcessRawConfig(common.RealWorldState)
	return l, r, err
}

// a positive KeepAlive / StreamTimeout above 9223372036 seconds overflows time.Duration and comes out negative:
// keep-alive silently disabled, resp. every local connection times out at once
func TestRedC20_SecondsOverflow(t *testing.T) {
	l, r, err := redProcess(t, `,"KeepAlive":9223372037,"StreamTimeout":9223372037`)
	if err != nil {
		t.Logf("rejected (good): %v", err)
		return
	}
	if r.KeepAlive <= 0 {
		t.Errorf("KeepAlive=9223372037 (positive) is accepted and yields keep-alive period %v", r.KeepAlive)
	}
	if l.Timeout <= 0 {
		t.Errorf("StreamTimeout=9223372037 is accepted and yields timeout %v", l.Timeout)
	}
}

// a negative StreamTimeout is accepted and gives a deadline in the past for every connection from the proxy program
func TestRedC20_NegativeStreamTimeout(t *testing.T) {
	l, _, err := redProcess(t, `,"StreamTimeout":-1`)
	t.Logf("StreamTimeout=-1: err=%v timeout=%v", err, l.Timeout)
}

// an unknown Transport / BrowserSig is not rejected (an unknown EncryptionMethod is)
func TestRedC20_UnknownEnumValues(t *testing.T) {
	_, r, err := redProcess(t, `,"Transport":"CDN ","BrowserSig":"edge"`)
	t.Logf(`Transport="CDN " (trailing blank), BrowserSig="edge": err=%v transport=%+v`, err, r.Transport)
}

// option names in the options string are matched case-sensitively for the numeric/boolean/list options only
func TestRedC20_LowerCaseKeys(t *testing.T) {
	p := filepath.Join(t.TempDir(), "c.json")
	os.WriteFile(p, []byte(`{"numconn":4,"servername":"a.com","alternativenames":["b.com"]}`), 0600)
	rj, ej := ParseConfig(p)
	rs, es := ParseConfig(`numconn=4;servername=a.com;alternativenames=b.com`)
	t.Logf("JSON: %+v %v", rj, ej)
	t.Logf("SSV : %+v %v", rs, es)
}
