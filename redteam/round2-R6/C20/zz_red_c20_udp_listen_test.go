package main

// RED TEAM (round 2, R6) - property C20, "invalid or incomplete configurations are rejected with an error".
//
// cmd/ck-client/ck-client.go, UDP branch:
//
//	acceptor := func() (*net.UDPConn, error) {
//		udpAddr, _ := net.ResolveUDPAddr("udp", localConfig.LocalAddr)   // error dropped
//		return net.ListenUDP("udp", udpAddr)                              // udpAddr == nil
//	}
//
// With UDP=true and a LocalPort/LocalHost that does not resolve (port out of range, not a number, a host name that
// does not resolve) the error is dropped, ListenUDP(nil) succeeds, and ck-client - after logging
// "Listening on UDP 127.0.0.1:80800" - serves the proxy entrance on ALL interfaces on a random port. The very same
// configuration with UDP=false is rejected ("listen tcp: address 80800: invalid port").
//
// The test builds ck-client, starts it with such a configuration in both input syntaxes, and looks at what the
// process is really listening on (Linux: /proc/<pid>/fd + /proc/net/udp*).
//
// Run (three times):  go test ./cmd/ck-client/ -run TestRedC20_InvalidLocalPort -count=3 -v

import (
	"bufio"
	"fmt"
	"os"
	"os/exec"
	"path/filepath"
	"runtime"
	"strings"
	"testing"
	"time"
)

func redBuild(t *testing.T) string {
	bin := filepath.Join(t.TempDir(), "ck-client")
	gobin := filepath.Join(runtime.GOROOT(), "bin", "go")
	out, err := exec.Command(gobin, "build", "-o", bin, ".").CombinedOutput()
	if err != nil {
		t.Fatalf("build: %v\n%s", err, out)
	}
	return bin
}

// redUDPSockets lists the local addresses (hex, as in /proc/net/udp) of the UDP sockets held by pid
func redUDPSockets(pid int) (addrs []string) {
	inodes := map[string]bool{}
	fds, _ := os.ReadDir(fmt.Sprintf("/proc/%d/fd", pid))
	for _, fd := range fds {
		l, err := os.Readlink(fmt.Sprintf("/proc/%d/fd/%s", pid, fd.Name()))
		if err == nil && strings.HasPrefix(l, "socket:[") {
			inodes[strings.TrimSuffix(strings.TrimPrefix(l, "socket:["), "]")] = true
		}
	}
	for _, f := range []string{"udp", "udp6"} {
		fh, err := os.Open(fmt.Sprintf("/proc/%d/net/%s", pid, f))
		if err != nil {
			continue
		}
		sc := bufio.NewScanner(fh)
		for sc.Scan() {
			fields := strings.Fields(sc.Text())
			if len(fields) > 9 && inodes[fields[9]] {
				addrs = append(addrs, f+" "+fields[1])
			}
		}
		fh.Close()
	}
	return
}

func redRun(t *testing.T, bin string, args ...string) (exited bool, output string, socks []string) {
	cmd := exec.Command(bin, args...)
	cmd.Env = []string{"PATH=/usr/bin:/bin"}
	var sb strings.Builder
	cmd.Stdout, cmd.Stderr = &sb, &sb
	if err := cmd.Start(); err != nil {
		t.Fatal(err)
	}
	done := make(chan struct{})
	go func() { cmd.Wait(); close(done) }()
	select {
	case <-done:
		return true, sb.String(), nil
	case <-time.After(1500 * time.Millisecond):
	}
	socks = redUDPSockets(cmd.Process.Pid)
	cmd.Process.Kill()
	<-done
	return false, sb.String(), socks
}

const redCommon = `"Transport":"direct","ProxyMethod":"openvpn","EncryptionMethod":"plain","UID":"iGAO85zysIyR4c09CyZSLQ==",` +
	`"PublicKey":"IYoUzkle/T/kriE+Ufdm7AHQtIeGnBWbhhlTbmDpUUI=","ServerName":"www.bing.com","NumConn":4,` +
	`"LocalHost":"127.0.0.1","RemoteHost":"127.0.0.1","RemotePort":"443"`

func TestRedC20_InvalidLocalPortUDP(t *testing.T) {
	if runtime.GOOS != "linux" {
		t.Skip("needs /proc")
	}
	bin := redBuild(t)
	dir := t.TempDir()

	// control: the same invalid port without UDP is rejected with an error
	tcp := filepath.Join(dir, "tcp.json")
	os.WriteFile(tcp, []byte(`{`+redCommon+`,"UDP":false,"LocalPort":"80800"}`), 0600)
	exited, out, _ := redRun(t, bin, "-c", tcp)
	if !exited || !strings.Contains(out, "invalid port") {
		t.Fatalf("control: TCP mode with LocalPort 80800 should be rejected; exited=%v\n%s", exited, out)
	}
	t.Logf("TCP mode, LocalPort=80800: rejected, as it should be:\n%s", out)

	udp := filepath.Join(dir, "udp.json")
	os.WriteFile(udp, []byte(`{`+redCommon+`,"UDP":true,"LocalPort":"80800"}`), 0600)
	ssv := `Transport=direct;ProxyMethod=openvpn;EncryptionMethod=plain;UID=iGAO85zysIyR4c09CyZSLQ\=\=;` +
		`PublicKey=IYoUzkle/T/kriE+Ufdm7AHQtIeGnBWbhhlTbmDpUUI\=;ServerName=www.bing.com;NumConn=4;UDP=true;` +
		`LocalHost=127.0.0.1;LocalPort=80800;RemoteHost=127.0.0.1;RemotePort=443`
	for name, conf := range map[string]string{"JSON": udp, "options string": ssv} {
		exited, out, socks := redRun(t, bin, "-c", conf)
		if exited {
			t.Logf("%s: rejected (good):\n%s", name, out)
			continue
		}
		t.Errorf("%s: UDP=true with the invalid LocalPort 80800 is NOT rejected. ck-client says:\n%s"+
			"and is really listening on (hex addr:port from /proc/net/udp*): %v  -- all interfaces, random port",
			name, out, socks)
	}
}
