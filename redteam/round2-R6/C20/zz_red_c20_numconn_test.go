package client

// RED TEAM (round 2, R6) - C20, "invalid ... configurations are rejected with an error rather than a crash":
// NumConn has no upper bound. ProcessRawConfig accepts any positive int; the first session then executes
// make(chan net.Conn, NumConn) in MakeSession (connector.go), which panics ("makechan: size out of range") for large
// values - in ck-client this is the main goroutine (RouteTCP calls the session maker), so the client crashes on the
// first connection from the proxy program instead of reporting a configuration error at start-up. (Values that are
// merely large, e.g. 1e9, do not panic but start NumConn dialling goroutines and allocate a 16 GB channel.)
//
// Run: go test ./internal/client/ -run TestRedC20_NumConnHuge -count=3 -v

import (
	"os"
	"path/filepath"
	"testing"

	"github.com/cbeuw/Cloak/internal/common"
)

func TestRedC20_NumConnHuge(t *testing.T) {
	p := filepath.Join(t.TempDir(), "c.json")
	os.WriteFile(p, []byte(`{"Transport":"direct","ProxyMethod":"shadowsocks","EncryptionMethod":"plain",
"UID":"iGAO85zysIyR4c09CyZSLQ==","PublicKey":"IYoUzkle/T/kriE+Ufdm7AHQtIeGnBWbhhlTbmDpUUI=","ServerName":"www.bing.com",
"NumConn":4611686018427387904,"LocalHost":"127.0.0.1","LocalPort":"1984","RemoteHost":"127.0.0.1","RemotePort":"443"}`), 0600)
	raw, err := ParseConfig(p)
	if err != nil {
		t.Logf("rejected at parse time (good): %v", err)
		return
	}
	_, remote, auth, err := raw.ProcessRawConfig(common.RealWorldState)
	if err != nil {
		t.Logf("rejected by ProcessRawConfig (good): %v", err)
		return
	}
	t.Logf("configuration accepted: NumConn=%d Singleplex=%v", remote.NumConn, remote.Singleplex)
	defer func() {
		if r := recover(); r != nil {
			t.Errorf("the accepted configuration crashes the client when the first session is made: panic: %v", r)
		}
	}()
	MakeSession(remote, auth, nil)
}
