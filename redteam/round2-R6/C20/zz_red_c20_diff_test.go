package client

// RED TEAM (round 2, R6) - C20 exploration: differential test JSON file vs semicolon-separated options, plus the
// mapping of every documented option. Logs every difference found.

import (
	"encoding/json"
	"fmt"
	"math/rand"
	"os"
	"path/filepath"
	"reflect"
	"strings"
	"testing"
	"time"

	"github.com/cbeuw/Cloak/internal/common"
)

func redEsc(v string) string {
	// what shadowsocks plugin hosts do to option values
	v = strings.ReplaceAll(v, `\`, `\\`)
	v = strings.ReplaceAll(v, `=`, `\=`)
	v = strings.ReplaceAll(v, `;`, `\;`)
	return v
}

func TestRedC20_Differential(t *testing.T) {
	rng := rand.New(rand.NewSource(7))
	dir := t.TempDir()
	type opt struct {
		key  string
		vals []interface{}
	}
	opts := []opt{
		{"ServerName", []interface{}{"www.bing.com", "random", "Random", "a.b-c.example"}},
		{"ProxyMethod", []interface{}{"shadowsocks", "openvpn"}},
		{"EncryptionMethod", []interface{}{"plain", "aes-gcm", "AES-256-GCM", "aes-128-gcm", "ChaCha20-Poly1305", "bogus"}},
		{"UID", []interface{}{"iGAO85zysIyR4c09CyZSLQ==", "+/+/+/+/+/+/+/+/+/+/+w==", "AAAAAAAAAAAAAAAAAAAAAA=="}},
		{"PublicKey", []interface{}{"IYoUzkle/T/kriE+Ufdm7AHQtIeGnBWbhhlTbmDpUUI=", "7f7TuKrs264VNSgMno8PkDlyhGhVuOSR8JHLE6H4Ljc="}},
		{"NumConn", []interface{}{0, 1, 4, -1, 100}},
		{"UDP", []interface{}{true, false}},
		{"BrowserSig", []interface{}{"chrome", "firefox", "Safari", "FIREFOX", "edge"}},
		{"Transport", []interface{}{"direct", "CDN", "cdn", "Direct"}},
		{"CDNOriginHost", []interface{}{"origin.example.com", "::1", ""}},
		{"CDNWsUrlPath", []interface{}{"/ws", "/a/b?x=1", "/p?a=b&c=d", ""}},
		{"StreamTimeout", []interface{}{0, 1, 300, 86400}},
		{"KeepAlive", []interface{}{0, 1, 15, -3}},
		{"RemoteHost", []interface{}{"1.2.3.4", "example.org", "::1"}},
		{"RemotePort", []interface{}{"443", "8443"}},
		{"LocalHost", []interface{}{"127.0.0.1"}},
		{"LocalPort", []interface{}{"1984"}},
		{"AlternativeNames", []interface{}{[]string{}, []string{""}, []string{"a.com"}, []string{"a.com", "b.com"}, []string{"a.com", ""}, []string{"", "b.com"}}},
	}
	diffs := map[string]int{}
	for iter := 0; iter < 5000; iter++ {
		cfg := map[string]interface{}{}
		var ssv []string
		for _, o := range opts {
			required := o.key == "UID" || o.key == "PublicKey" || o.key == "ServerName"
			if !required && rng.Intn(3) == 0 {
				continue
			}
			v := o.vals[rng.Intn(len(o.vals))]
			cfg[o.key] = v
			switch x := v.(type) {
			case string:
				ssv = append(ssv, o.key+"="+redEsc(x))
			case []string:
				ssv = append(ssv, o.key+"="+redEsc(strings.Join(x, ",")))
			default:
				ssv = append(ssv, fmt.Sprintf("%s=%v", o.key, x))
			}
		}
		rng.Shuffle(len(ssv), func(i, j int) { ssv[i], ssv[j] = ssv[j], ssv[i] })
		ssvStr := strings.Join(ssv, ";")
		if rng.Intn(2) == 0 {
			ssvStr += ";"
		}
		js, _ := json.Marshal(cfg)
		p := filepath.Join(dir, "c.json")
		os.WriteFile(p, js, 0600)

		var rj, rs *RawConfig
		var ej, es error
		func() {
			defer func() {
				if r := recover(); r != nil {
					t.Fatalf("PANIC json %s: %v", js, r)
				}
			}()
			rj, ej = ParseConfig(p)
		}()
		func() {
			defer func() {
				if r := recover(); r != nil {
					t.Fatalf("PANIC ssv %s: %v", ssvStr, r)
				}
			}()
			rs, es = ParseConfig(ssvStr)
		}()
		if (ej == nil) != (es == nil) {
			k := fmt.Sprintf("parse error differs: json=%v ssv=%v", ej, es)
			if diffs[k] == 0 {
				t.Logf("%s\n   json %s\n   ssv  %s", k, js, ssvStr)
			}
			diffs[k]++
			continue
		}
		if ej != nil {
			continue
		}
		lj, mj, aj, ej2 := rj.ProcessRawConfig(common.RealWorldState)
		ls, ms, as, es2 := rs.ProcessRawConfig(common.RealWorldState)
		if (ej2 == nil) != (es2 == nil) || (ej2 != nil && ej2.Error() != es2.Error()) {
			k := fmt.Sprintf("process error differs: json=%v ssv=%v", ej2, es2)
			if diffs[k] == 0 {
				t.Logf("%s\n   json %s\n   ssv  %s", k, js, ssvStr)
			}
			diffs[k]++
			continue
		}
		if ej2 != nil {
			continue
		}
		aj.WorldState, as.WorldState = common.WorldState{}, common.WorldState{}
		if !reflect.DeepEqual(lj, ls) || !reflect.DeepEqual(mj, ms) || !reflect.DeepEqual(aj, as) {
			k := "processed config differs"
			if diffs[k] < 5 {
				t.Logf("%s\n   json %s\n   ssv  %s\n  %+v\n  %+v\n  %+v\n  %+v", k, js, ssvStr, lj, ls, mj, ms)
			}
			diffs[k]++
			continue
		}
		// documented meaning
		if n, ok := cfg["NumConn"].(int); ok {
			if (n <= 0) != mj.Singleplex || (n > 0 && mj.NumConn != n) || (n <= 0 && mj.NumConn != 1) {
				t.Errorf("NumConn %d -> %+v", n, mj)
			}
		}
		if n, ok := cfg["KeepAlive"].(int); ok && n > 0 && mj.KeepAlive != time.Duration(n)*time.Second {
			t.Errorf("KeepAlive %d -> %v", n, mj.KeepAlive)
		}
		if n, ok := cfg["KeepAlive"].(int); (!ok || n <= 0) && mj.KeepAlive >= 0 {
			t.Errorf("KeepAlive %v -> %v", cfg["KeepAlive"], mj.KeepAlive)
		}
		if n, ok := cfg["StreamTimeout"].(int); ok && n > 0 && lj.Timeout != time.Duration(n)*time.Second {
			t.Errorf("StreamTimeout %d -> %v", n, lj.Timeout)
		}
		tr, _ := cfg["Transport"].(string)
		if strings.EqualFold(tr, "cdn") {
			host, _ := cfg["CDNOriginHost"].(string)
			if host == "" {
				host, _ = cfg["RemoteHost"].(string)
			}
			port, _ := cfg["RemotePort"].(string)
			if port == "" {
				t.Fatal("?")
			}
			path, _ := cfg["CDNWsUrlPath"].(string)
			if path == "" {
				path = "/"
			}
			h := host
			if strings.Contains(h, ":") {
				h = "[" + h + "]"
			}
			if want := "ws://" + h + ":" + port + path; mj.Transport.mode != "cdn" || mj.Transport.wsUrl != want {
				t.Errorf("CDN: %+v want %s", mj.Transport, want)
			}
		} else {
			want := browser(chrome)
			b, _ := cfg["BrowserSig"].(string)
			switch strings.ToLower(b) {
			case "firefox":
				want = firefox
			case "safari":
				want = safari
			}
			if mj.Transport.mode != "direct" || mj.Transport.browser != want {
				t.Errorf("direct: %+v want %v (%s)", mj.Transport, want, js)
			}
		}
	}
	for k, v := range diffs {
		t.Logf("%5d x %s", v, k)
	}
}
