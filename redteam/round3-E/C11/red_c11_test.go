package multiplex

// Red-team tests for C11 (forged, foreign or modified frames are rejected; garbage never breaks a session).
// Copy into internal/multiplex and run:
//   go test ./internal/multiplex -run 'TestRedC11' -count=1
//
// The two header bytes 12 (closing flag) and 13 (extra length) are outside the AEAD nonce; that modifications there
// are not detected is a KNOWN finding and is not counted here: flips at these two positions are skipped (and only
// counted in the log).

import (
	"bytes"
	crand "crypto/rand"
	"errors"
	"io"
	"math/rand"
	"net"
	"sync"
	"testing"
	"time"
)

var redC11AEAD = []byte{EncryptionMethodAES256GCM, EncryptionMethodChaha20Poly1305, EncryptionMethodAES128GCM}
var redC11All = []byte{EncryptionMethodPlain, EncryptionMethodAES256GCM, EncryptionMethodChaha20Poly1305, EncryptionMethodAES128GCM}

func redC11Obfs(t testing.TB, method byte, key [32]byte) Obfuscator {
	o, err := MakeObfuscator(method, key)
	if err != nil {
		t.Fatal(err)
	}
	return o
}

func redC11Seal(t testing.TB, o *Obfuscator, f *Frame) []byte {
	buf := make([]byte, len(f.Payload)+frameHeaderLength+maxExtraLen)
	n, err := o.obfuscate(f, buf, 0)
	if err != nil {
		t.Fatal(err)
	}
	return buf[:n]
}

type redC11Probe struct {
	sesh *Session
}

// a fresh session that must show no trace of a rejected message
func redC11NewProbe(t testing.TB, method byte, key [32]byte, unordered bool) *redC11Probe {
	return &redC11Probe{sesh: MakeSession(0, SessionConfig{Obfuscator: redC11Obfs(t, method, key), Unordered: unordered, InactivityTimeout: time.Hour})}
}

func (p *redC11Probe) untouched() error {
	s := p.sesh
	if s.IsClosed() {
		return errors.New("session closed")
	}
	s.streamsM.Lock()
	defer s.streamsM.Unlock()
	if len(s.streams) != 0 {
		return errors.New("a stream table entry appeared")
	}
	if len(s.acceptCh) != 0 {
		return errors.New("a stream was queued for Accept")
	}
	if s.streamCount() != 0 {
		return errors.New("stream count changed")
	}
	return nil
}

// every single-bit flip at every position
func TestRedC11BitFlips(t *testing.T) {
	rng := rand.New(rand.NewSource(11))
	lens := []int{1, 2, 7, 8, 15, 16, 17, 100, 1000}
	if !testing.Short() {
		lens = append(lens, 16132)
	}
	knownSkipped := 0
	for _, method := range redC11AEAD {
		var key [32]byte
		rng.Read(key[:])
		o := redC11Obfs(t, method, key)
		probe := redC11NewProbe(t, method, key, false)
		for _, l := range lens {
			if l == 16132 && method != EncryptionMethodAES256GCM {
				continue
			}
			for _, seq := range []uint64{0, 3, 5, 1 << 40} {
				for _, closing := range []uint8{closingNothing, closingStream, closingSession} {
					if l > 100 && closing != closingNothing {
						continue
					}
					p := make([]byte, l)
					rng.Read(p)
					msg := redC11Seal(t, &o, &Frame{StreamID: 1 + uint32(rng.Intn(5)), Seq: seq, Closing: closing, Payload: p})
					work := make([]byte, len(msg))
					for pos := 0; pos < len(msg); pos++ {
						if pos == 12 || pos == 13 {
							knownSkipped += 8
							continue
						}
						for bit := 0; bit < 8; bit++ {
							copy(work, msg)
							work[pos] ^= 1 << uint(bit)
							var f Frame
							if err := o.deobfuscate(&f, work); err == nil {
								t.Fatalf("method %d len %d seq %d closing %d: flip of bit %d at byte %d (of %d) accepted: stream %d seq %d closing %d payload %d bytes",
									method, l, seq, closing, bit, pos, len(msg), f.StreamID, f.Seq, f.Closing, len(f.Payload))
							}
							if l <= 17 {
								copy(work, msg)
								work[pos] ^= 1 << uint(bit)
								if err := probe.sesh.recvDataFromRemote(work); err == nil {
									t.Fatalf("session accepted a flipped message (byte %d bit %d)", pos, bit)
								}
							}
						}
					}
					if err := probe.untouched(); err != nil {
						t.Fatalf("method %d: flipped messages left a trace: %v", method, err)
					}
					// the unmodified message still decodes afterwards
					var f Frame
					copy(work, msg)
					if err := o.deobfuscate(&f, work); err != nil || !bytes.Equal(f.Payload, p) {
						t.Fatalf("original no longer decodes: %v", err)
					}
				}
			}
		}
	}
	t.Logf("flips at the two known unauthenticated positions skipped: %d", knownSkipped)
}

// all truncations, extensions at either end, splices, random multi-byte corruptions
func TestRedC11TruncateExtendCorrupt(t *testing.T) {
	rng := rand.New(rand.NewSource(111))
	for _, method := range redC11AEAD {
		var key [32]byte
		rng.Read(key[:])
		o := redC11Obfs(t, method, key)
		probe := redC11NewProbe(t, method, key, true)
		for _, l := range []int{1, 16, 50, 700, 4000} {
			for _, seq := range []uint64{1, 77} {
				p := make([]byte, l)
				rng.Read(p)
				msg := redC11Seal(t, &o, &Frame{StreamID: 3, Seq: seq, Payload: p})
				try := func(what string, m []byte) {
					w := append([]byte{}, m...)
					var f Frame
					if err := o.deobfuscate(&f, w); err == nil {
						t.Fatalf("method %d len %d: %s accepted (stream %d seq %d closing %d, %d bytes)", method, l, what, f.StreamID, f.Seq, f.Closing, len(f.Payload))
					}
					w = append(w[:0], m...)
					if err := probe.sesh.recvDataFromRemote(w); err == nil {
						t.Fatalf("method %d len %d: session accepted %s", method, l, what)
					}
				}
				for cut := 0; cut < len(msg); cut++ {
					try("truncation at the end", msg[:cut])
					if cut > 0 {
						try("truncation at the front", msg[cut:])
					}
				}
				for ext := 1; ext <= 300; ext++ {
					e := make([]byte, ext)
					rng.Read(e)
					try("extension at the end", append(append([]byte{}, msg...), e...))
					try("extension at the front", append(e, msg...))
					if ext <= 40 {
						try("extension by zeros", append(append([]byte{}, msg...), make([]byte, ext)...))
						// extension by a copy of the message's own tail (keeps a plausible salsa nonce at the end)
						if ext <= len(msg) {
							try("extension by own tail", append(append([]byte{}, msg...), msg[len(msg)-ext:]...))
						}
					}
				}
				// two messages glued together, a message glued to itself
				msg2 := redC11Seal(t, &o, &Frame{StreamID: 3, Seq: seq + 1, Payload: p})
				try("concatenation of two messages", append(append([]byte{}, msg...), msg2...))
				try("message doubled", append(append([]byte{}, msg...), msg...))
				// header of one on the body of another
				try("header swap", append(append([]byte{}, msg2[:frameHeaderLength]...), msg[frameHeaderLength:]...))
				try("tag swap", append(append([]byte{}, msg[:len(msg)-16]...), msg2[len(msg2)-16:]...))
				for i := 0; i < 3000; i++ {
					w := append([]byte{}, msg...)
					k := 1 + rng.Intn(6)
					touchedOther := false
					for j := 0; j < k; j++ {
						pos := rng.Intn(len(w))
						old := w[pos]
						w[pos] = byte(rng.Intn(256))
						if w[pos] != old && pos != 12 && pos != 13 {
							touchedOther = true
						}
					}
					if !touchedOther {
						continue
					}
					try("random corruption", w)
				}
			}
		}
		if err := probe.untouched(); err != nil {
			t.Fatalf("method %d: %v", method, err)
		}
	}
}

// messages sealed under other keys (differing in one bit, in the half not used by AES-128, completely) and under the
// other methods with the same key
func TestRedC11ForeignKeysAndMethods(t *testing.T) {
	rng := rand.New(rand.NewSource(1111))
	for _, method := range redC11AEAD {
		var key [32]byte
		rng.Read(key[:])
		o := redC11Obfs(t, method, key)
		probe := redC11NewProbe(t, method, key, false)
		for i := 0; i < 400; i++ {
			p := make([]byte, 1+rng.Intn(600))
			rng.Read(p)
			fr := &Frame{StreamID: uint32(rng.Intn(4)), Seq: uint64(rng.Intn(9)), Closing: uint8(rng.Intn(3)), Payload: p}
			var msgs [][]byte
			// other keys, same method
			for _, bit := range []int{rng.Intn(256), rng.Intn(128), 128 + rng.Intn(128), 255, 0} {
				k2 := key
				k2[bit/8] ^= 1 << uint(bit%8)
				o2 := redC11Obfs(t, method, k2)
				msgs = append(msgs, redC11Seal(t, &o2, fr))
			}
			var k3 [32]byte
			rng.Read(k3[:])
			o3 := redC11Obfs(t, method, k3)
			msgs = append(msgs, redC11Seal(t, &o3, fr))
			// same key, other methods (plain included)
			for _, m2 := range redC11All {
				if m2 == method {
					continue
				}
				o4 := redC11Obfs(t, m2, key)
				msgs = append(msgs, redC11Seal(t, &o4, fr))
			}
			for j, m := range msgs {
				w := append([]byte{}, m...)
				var f Frame
				if err := o.deobfuscate(&f, w); err == nil {
					t.Fatalf("method %d: foreign message %d accepted", method, j)
				}
				w = append(w[:0], m...)
				if err := probe.sesh.recvDataFromRemote(w); err == nil {
					t.Fatalf("method %d: session accepted foreign message %d", method, j)
				}
			}
		}
		if err := probe.untouched(); err != nil {
			t.Fatalf("method %d: %v", method, err)
		}
	}
}

func redC11Garbage(rng *rand.Rand, max int) []byte {
	var l int
	switch rng.Intn(6) {
	case 0:
		l = rng.Intn(40)
	case 1:
		l = rng.Intn(300)
	case 2:
		l = max - rng.Intn(3)
	default:
		l = rng.Intn(max + 1)
	}
	b := make([]byte, l)
	switch rng.Intn(5) {
	case 0: // zeros
	case 1:
		for i := range b {
			b[i] = 0xff
		}
	case 2:
		for i := range b {
			b[i] = byte(i)
		}
	default:
		rng.Read(b)
	}
	return b
}

// arbitrary byte strings of length 0..receive buffer size straight into Session.recvDataFromRemote: no panic under any
// method, ordered and unordered, multiplexed and singleplexed; under the AEAD methods no effect at all, and valid
// frames interleaved with the garbage are all delivered.
func TestRedC11GarbageIntoSession(t *testing.T) {
	rng := rand.New(rand.NewSource(11111))
	iters := 6000
	if testing.Short() {
		iters = 1000
	}
	for _, method := range redC11All {
		for _, unordered := range []bool{false, true} {
			for _, singleplex := range []bool{false, true} {
				var key [32]byte
				rng.Read(key[:])
				o := redC11Obfs(t, method, key)
				sesh := MakeSession(0, SessionConfig{Obfuscator: o, Unordered: unordered, Singleplex: singleplex, InactivityTimeout: time.Hour})
				a, b := net.Pipe()
				go io.Copy(io.Discard, b)
				sesh.AddConnection(a)
				var expect [][]byte
				seq := uint64(0)
				for i := 0; i < iters; i++ {
					g := redC11Garbage(rng, sesh.connReceiveBufferSize)
					func() {
						defer func() {
							if r := recover(); r != nil {
								t.Fatalf("method %d unordered %v: PANIC on %d garbage bytes: %v", method, unordered, len(g), r)
							}
						}()
						err := sesh.recvDataFromRemote(g)
						if method != EncryptionMethodPlain && err == nil {
							t.Fatalf("method %d: %d garbage bytes accepted", method, len(g))
						}
					}()
					if method != EncryptionMethodPlain && i%50 == 0 {
						p := make([]byte, 1+rng.Intn(3000))
						rng.Read(p)
						m := redC11Seal(t, &o, &Frame{StreamID: 1, Seq: seq, Payload: p})
						seq++
						if err := sesh.recvDataFromRemote(m); err != nil {
							t.Fatalf("method %d: valid frame refused after garbage: %v", method, err)
						}
						expect = append(expect, p)
					}
				}
				if method == EncryptionMethodPlain {
					b.Close()
					continue
				}
				if sesh.IsClosed() {
					t.Fatalf("method %d: session closed by garbage", method)
				}
				sesh.streamsM.Lock()
				ns := len(sesh.streams)
				sesh.streamsM.Unlock()
				if ns != 1 || len(sesh.acceptCh) != 1 {
					t.Fatalf("method %d: %d streams, %d queued; expected exactly the one valid stream", method, ns, len(sesh.acceptCh))
				}
				st, _ := sesh.Accept()
				st.SetReadDeadline(time.Now().Add(5 * time.Second))
				if unordered {
					buf := make([]byte, 4000)
					for i, p := range expect {
						n, err := st.Read(buf)
						if err != nil || !bytes.Equal(buf[:n], p) {
							t.Fatalf("method %d: datagram %d wrong: %v", method, i, err)
						}
					}
				} else {
					want := bytes.Join(expect, nil)
					got := make([]byte, len(want))
					if _, err := io.ReadFull(st, got); err != nil || !bytes.Equal(got, want) {
						t.Fatalf("method %d: stream data wrong: %v", method, err)
					}
				}
				b.Close()
			}
		}
	}
}

// decodable garbage for the plain method: every field arbitrary (stream id 0 and huge, any closing value, any sequence
// number, empty payloads via extra length = body length): no panic, whatever the mode
func TestRedC11PlainStructuredGarbage(t *testing.T) {
	rng := rand.New(rand.NewSource(5))
	for _, unordered := range []bool{false, true} {
		for _, singleplex := range []bool{false, true} {
			for round := 0; round < 30; round++ {
				var key [32]byte
				rng.Read(key[:])
				o := redC11Obfs(t, EncryptionMethodPlain, key)
				sesh := MakeSession(0, SessionConfig{Obfuscator: o, Unordered: unordered, Singleplex: singleplex, InactivityTimeout: time.Hour})
				a, b := net.Pipe()
				go io.Copy(io.Discard, b)
				sesh.AddConnection(a)
				var wg sync.WaitGroup
				stop := make(chan struct{})
				// a reader of whatever gets accepted, with zero-length and tiny buffers too
				wg.Add(1)
				go func() {
					defer wg.Done()
					for {
						c, err := sesh.Accept()
						if err != nil {
							return
						}
						go func() {
							buf := make([]byte, 70000)
							for {
								c.SetReadDeadline(time.Now().Add(50 * time.Millisecond))
								if _, err := c.Read(buf); err != nil && !errors.Is(err, io.ErrShortBuffer) {
									return
								}
								select {
								case <-stop:
									return
								default:
								}
							}
						}()
					}
				}()
				for w := 0; w < 3; w++ {
					wg.Add(1)
					seed := rng.Int63()
					go func() {
						defer wg.Done()
						rng := rand.New(rand.NewSource(seed))
						for i := 0; i < 1500; i++ {
							f := &Frame{StreamID: uint32(rng.Intn(6)), Seq: uint64(rng.Intn(12)), Closing: 0}
							switch rng.Intn(8) {
							case 0:
								f.StreamID = ^uint32(0) - uint32(rng.Intn(2))
							case 1:
								f.StreamID = rng.Uint32()
							}
							switch rng.Intn(8) {
							case 0:
								f.Seq = ^uint64(0) - uint64(rng.Intn(3))
							case 1:
								f.Seq = rng.Uint64()
							}
							switch rng.Intn(10) {
							case 0:
								f.Closing = closingStream
							case 1:
								f.Closing = uint8(3 + rng.Intn(253))
							case 2:
								if round%3 == 0 && i > 1200 {
									f.Closing = closingSession
								}
							}
							f.Payload = make([]byte, 1+rng.Intn(300))
							m := redC11Seal(t, &o, f)
							if rng.Intn(6) == 0 {
								// turn the payload into "extra": re-encrypt the header with extra = whole body
								hdr := m[:frameHeaderLength]
								nonce := m[len(m)-8:]
								redC11Salsa(hdr, nonce, &key)
								body := len(m) - frameHeaderLength
								if body <= 255 {
									hdr[13] = byte(body)
								}
								redC11Salsa(hdr, nonce, &key)
							}
							func() {
								defer func() {
									if r := recover(); r != nil {
										t.Errorf("PANIC: %v", r)
									}
								}()
								sesh.recvDataFromRemote(m)
							}()
						}
					}()
				}
				time.Sleep(time.Millisecond)
				// wait for the writers (not the acceptor)
				done := make(chan struct{})
				go func() { wg.Wait(); close(done) }()
				time.Sleep(20 * time.Millisecond)
				close(stop)
				if !sesh.IsClosed() {
					sesh.Close()
				}
				b.Close()
				select {
				case <-done:
				case <-time.After(20 * time.Second):
					t.Fatalf("unordered %v singleplex %v: stuck", unordered, singleplex)
				}
			}
		}
	}
}

func redC11Salsa(header, nonce []byte, key *[32]byte) {
	o := Obfuscator{sessionKey: *key}
	// use the decoder's own first step on a scratch message: header || 8 filler bytes || nonce
	// (simpler: XOR with the keystream obtained by encrypting zeros the same way)
	zero := make([]byte, frameHeaderLength)
	scratch := append(append([]byte{}, zero...), nonce...)
	var f Frame
	// plain deobfuscate XORs the header in place with the keystream for this nonce
	_ = o.deobfuscate(&f, scratch)
	for i := range header {
		header[i] ^= scratch[i]
	}
}

// through the real receive loop: garbage and valid messages over a connection (message boundaries kept by a record
// layer like the TLS transport's), several connections, AEAD methods; the valid ones all arrive, the session lives.
type redC11RecConn struct {
	net.Conn
	wm sync.Mutex
}

func (c *redC11RecConn) Write(b []byte) (int, error) {
	c.wm.Lock()
	defer c.wm.Unlock()
	hdr := []byte{byte(len(b) >> 8), byte(len(b))}
	if _, err := c.Conn.Write(append(hdr, b...)); err != nil {
		return 0, err
	}
	return len(b), nil
}
func (c *redC11RecConn) Read(b []byte) (int, error) {
	var hdr [2]byte
	if _, err := io.ReadFull(c.Conn, hdr[:]); err != nil {
		return 0, err
	}
	return io.ReadFull(c.Conn, b[:int(hdr[0])<<8|int(hdr[1])])
}

func TestRedC11GarbageThroughReceiveLoop(t *testing.T) {
	rng := rand.New(rand.NewSource(99))
	for _, method := range redC11AEAD {
		for _, unordered := range []bool{false, true} {
			var key [32]byte
			crand.Read(key[:])
			o := redC11Obfs(t, method, key)
			sesh := MakeSession(0, SessionConfig{Obfuscator: o, Unordered: unordered, InactivityTimeout: time.Hour})
			l, err := net.Listen("tcp", "127.0.0.1:0")
			if err != nil {
				t.Fatal(err)
			}
			var far []*redC11RecConn
			for i := 0; i < 3; i++ {
				c, err := net.Dial("tcp", l.Addr().String())
				if err != nil {
					t.Fatal(err)
				}
				s, _ := l.Accept()
				sesh.AddConnection(&redC11RecConn{Conn: s})
				far = append(far, &redC11RecConn{Conn: c})
			}
			l.Close()
			const valid = 300
			var expect [][]byte
			for i := 0; i < valid; i++ {
				p := make([]byte, 1+rng.Intn(2000))
				rng.Read(p)
				expect = append(expect, p)
			}
			go func() {
				rng := rand.New(rand.NewSource(98))
				for i := 0; i < valid; i++ {
					for j := 0; j < 10; j++ {
						far[rng.Intn(3)].Write(redC11Garbage(rng, 20480))
					}
					// all valid frames of the stream over one connection in unordered mode so that the order of
					// datagrams is defined; spread in ordered mode
					c := far[0]
					if !unordered {
						c = far[rng.Intn(3)]
					}
					c.Write(redC11Seal(t, &o, &Frame{StreamID: 1, Seq: uint64(i), Payload: expect[i]}))
				}
			}()
			st, err := sesh.Accept()
			if err != nil {
				t.Fatal(err)
			}
			st.SetReadDeadline(time.Now().Add(30 * time.Second))
			if unordered {
				buf := make([]byte, 3000)
				for i := range expect {
					n, err := st.Read(buf)
					if err != nil || !bytes.Equal(buf[:n], expect[i]) {
						t.Fatalf("method %d: datagram %d: %v", method, i, err)
					}
				}
			} else {
				want := bytes.Join(expect, nil)
				got := make([]byte, len(want))
				if _, err := io.ReadFull(st, got); err != nil || !bytes.Equal(got, want) {
					t.Fatalf("method %d ordered: %v", method, err)
				}
			}
			if sesh.IsClosed() {
				t.Fatalf("session closed")
			}
			sesh.streamsM.Lock()
			ns := len(sesh.streams)
			sesh.streamsM.Unlock()
			if ns != 1 {
				t.Fatalf("method %d: %d stream entries after garbage, expected 1", method, ns)
			}
			sesh.Close()
			for _, c := range far {
				c.Close()
			}
		}
	}
}
