package multiplex

// Red-team tests for C04 (frame encoding round-trips, respects the size limit, keeps the wire format).
// Copy into internal/multiplex and run:
//   go test ./internal/multiplex -run 'TestRedC04' -count=1

import (
	"bytes"
	"crypto/aes"
	"crypto/cipher"
	crand "crypto/rand"
	"encoding/binary"
	"errors"
	"fmt"
	"math/rand"
	"net"
	"sync"
	"testing"
	"time"

	"golang.org/x/crypto/chacha20poly1305"
	"golang.org/x/crypto/salsa20/salsa"
)

// ---- an independent implementation of the Cloak v2 frame layout ----------------------------------------------------
//
//   message  = E_salsa20(header) || body
//   header   = streamID(4, BE) || seq(8, BE) || closing(1) || extraLen(1)           (14 bytes)
//   plain:     body = payload || padding || nonce(8 random);   extraLen = len(padding)+8
//   AEAD:      body = AEAD-Seal(key, nonce=header[0:12], payload || padding);        extraLen = len(padding)+16
//   the header is XORed with the Salsa20 keystream under the 32-byte session key, nonce = last 8 bytes of the message
//   AEAD key: AES-256-GCM and ChaCha20-Poly1305 use the session key, AES-128-GCM its first 16 bytes.

func redC04Salsa(header []byte, nonce []byte, key *[32]byte) {
	var ctr [16]byte
	copy(ctr[:8], nonce)
	salsa.XORKeyStream(header, header, &ctr, key)
}

func redC04AEAD(method byte, key [32]byte) cipher.AEAD {
	switch method {
	case EncryptionMethodPlain:
		return nil
	case EncryptionMethodAES256GCM:
		b, _ := aes.NewCipher(key[:])
		a, _ := cipher.NewGCM(b)
		return a
	case EncryptionMethodAES128GCM:
		b, _ := aes.NewCipher(key[:16])
		a, _ := cipher.NewGCM(b)
		return a
	case EncryptionMethodChaha20Poly1305:
		a, _ := chacha20poly1305.New(key[:])
		return a
	}
	panic("method")
}

func redC04RefEncode(method byte, key [32]byte, f *Frame, padLen int) []byte {
	aead := redC04AEAD(method, key)
	header := make([]byte, 14)
	binary.BigEndian.PutUint32(header[0:4], f.StreamID)
	binary.BigEndian.PutUint64(header[4:12], f.Seq)
	header[12] = f.Closing
	pad := make([]byte, padLen)
	crand.Read(pad)
	var body []byte
	if aead == nil {
		header[13] = byte(padLen + 8)
		nonce := make([]byte, 8)
		crand.Read(nonce)
		body = append(append(append([]byte{}, f.Payload...), pad...), nonce...)
	} else {
		header[13] = byte(padLen + 16)
		body = aead.Seal(nil, header[:12], append(append([]byte{}, f.Payload...), pad...), nil)
	}
	redC04Salsa(header, body[len(body)-8:], &key)
	return append(header, body...)
}

func redC04RefDecode(method byte, key [32]byte, msg []byte) (*Frame, error) {
	aead := redC04AEAD(method, key)
	if len(msg) < 14+8 {
		return nil, errors.New("short")
	}
	m := append([]byte{}, msg...)
	header := m[:14]
	body := m[14:]
	redC04Salsa(header, m[len(m)-8:], &key)
	f := &Frame{
		StreamID: binary.BigEndian.Uint32(header[0:4]),
		Seq:      binary.BigEndian.Uint64(header[4:12]),
		Closing:  header[12],
	}
	extra := int(header[13])
	if extra > len(body) {
		return nil, errors.New("extra")
	}
	if aead == nil {
		f.Payload = body[:len(body)-extra]
		return f, nil
	}
	pt, err := aead.Open(nil, header[:12], body, nil)
	if err != nil {
		return nil, err
	}
	if extra < 16 {
		return nil, errors.New("extra below tag size")
	}
	f.Payload = pt[:len(body)-extra]
	return f, nil
}

func redC04Same(a, b *Frame) bool {
	return a.StreamID == b.StreamID && a.Seq == b.Seq && a.Closing == b.Closing && bytes.Equal(a.Payload, b.Payload)
}

var redC04Methods = []byte{EncryptionMethodPlain, EncryptionMethodAES256GCM, EncryptionMethodChaha20Poly1305, EncryptionMethodAES128GCM}

func redC04TagLen(method byte) int {
	if method == EncryptionMethodPlain {
		return 8
	}
	return 16
}

// Exhaustive over payload lengths 1..max, all methods, both placements, a padded and an unpadded sequence number.
// Cloak encode -> Cloak decode, Cloak encode -> reference decode, reference encode -> Cloak decode.
func TestRedC04ExhaustiveLengths(t *testing.T) {
	const limit = 16401 // what client and server configure
	max := limit - frameHeaderLength - maxExtraLen
	step := 1
	if testing.Short() {
		step = 13
	}
	rng := rand.New(rand.NewSource(4))
	src := make([]byte, max)
	rng.Read(src)
	var wg sync.WaitGroup
	for _, method := range redC04Methods {
		method := method
		wg.Add(1)
		go func() {
			defer wg.Done()
			rng := rand.New(rand.NewSource(int64(method)))
			var key [32]byte
			rng.Read(key[:])
			o, err := MakeObfuscator(method, key)
			if err != nil {
				t.Error(err)
				return
			}
			buf := make([]byte, limit)
			dec := make([]byte, limit)
			for l := 1; l <= max; l += step {
				for _, seq := range []uint64{uint64(l % padFirstNFrames), padFirstNFrames + uint64(l)%3, rng.Uint64() | 8} {
					for _, inPlace := range []bool{false, true} {
						f := &Frame{StreamID: rng.Uint32(), Seq: seq, Closing: uint8(rng.Intn(3))}
						var n int
						if inPlace {
							copy(buf[frameHeaderLength:], src[:l])
							f.Payload = buf[frameHeaderLength : frameHeaderLength+l]
							n, err = o.obfuscate(f, buf, frameHeaderLength)
						} else {
							f.Payload = src[:l]
							n, err = o.obfuscate(f, buf, 0)
						}
						if err != nil {
							t.Errorf("method %d len %d seq %d inPlace %v: %v", method, l, seq, inPlace, err)
							return
						}
						want := &Frame{StreamID: f.StreamID, Seq: f.Seq, Closing: f.Closing, Payload: src[:l]}
						if n > limit {
							t.Errorf("method %d len %d: %d bytes on the wire, limit %d", method, l, n, limit)
							return
						}
						minLen := frameHeaderLength + l + redC04TagLen(method)
						if seq >= padFirstNFrames && n != minLen {
							t.Errorf("method %d len %d seq %d: unpadded frame has %d bytes, expected %d", method, l, seq, n, minLen)
							return
						}
						if n < minLen || n > minLen+maxExtraLen-redC04TagLen(method) {
							t.Errorf("method %d len %d seq %d: size %d out of range", method, l, seq, n)
							return
						}
						rf, err := redC04RefDecode(method, key, buf[:n])
						if err != nil || !redC04Same(rf, want) {
							t.Errorf("method %d len %d seq %d inPlace %v: reference decoder: err %v same %v", method, l, seq, inPlace, err, err == nil && redC04Same(rf, want))
							return
						}
						copy(dec, buf[:n])
						var got Frame
						if err := o.deobfuscate(&got, dec[:n]); err != nil || !redC04Same(&got, want) {
							t.Errorf("method %d len %d seq %d inPlace %v: own decoder: err %v", method, l, seq, inPlace, err)
							return
						}
					}
				}
				// reference encoder -> Cloak decoder, with paddings 0, random, maximal
				for _, pad := range []int{0, rng.Intn(maxExtraLen - redC04TagLen(method) + 1), maxExtraLen - redC04TagLen(method)} {
					want := &Frame{StreamID: rng.Uint32(), Seq: rng.Uint64(), Closing: uint8(rng.Intn(2)), Payload: src[max-l:]}
					msg := redC04RefEncode(method, key, want, pad)
					if len(msg) > limit {
						t.Errorf("reference encoder exceeded the limit?! %d", len(msg))
						return
					}
					var got Frame
					if err := o.deobfuscate(&got, msg); err != nil || !redC04Same(&got, want) {
						t.Errorf("method %d len %d pad %d: Cloak failed to decode a reference message: %v", method, l, pad, err)
						return
					}
				}
			}
		}()
	}
	wg.Wait()
}

// The padding drawn on each call: never pushes the extra-length byte beyond 255 and the message beyond the limit, even
// with a maximal payload; it does take its extreme values; decoding strips it exactly.
func TestRedC04PaddingExtremes(t *testing.T) {
	const limit = 16401
	max := limit - frameHeaderLength - maxExtraLen
	for _, method := range redC04Methods {
		var key [32]byte
		crand.Read(key[:])
		o, _ := MakeObfuscator(method, key)
		buf := make([]byte, limit)
		payload := make([]byte, max)
		crand.Read(payload)
		seen := map[int]int{}
		for i := 0; i < 6000; i++ {
			f := &Frame{StreamID: 1, Seq: uint64(i % padFirstNFrames), Payload: payload}
			n, err := o.obfuscate(f, buf, 0)
			if err != nil {
				t.Fatalf("method %d: %v", method, err)
			}
			if n > limit {
				t.Fatalf("method %d: message of %d bytes exceeds limit %d", method, n, limit)
			}
			pad := n - frameHeaderLength - max - redC04TagLen(method)
			seen[pad]++
			var got Frame
			if err := o.deobfuscate(&got, buf[:n]); err != nil || !bytes.Equal(got.Payload, payload) {
				t.Fatalf("method %d pad %d: round trip failed: %v", method, pad, err)
			}
		}
		maxPad := maxExtraLen - redC04TagLen(method)
		for p := range seen {
			if p < 0 || p > maxPad {
				t.Fatalf("method %d: padding %d outside 0..%d", method, p, maxPad)
			}
		}
		if seen[0] == 0 || seen[maxPad] == 0 {
			t.Logf("method %d: extreme paddings not all drawn in 6000 calls (0: %d, %d: %d) - unlucky, not a failure", method, seen[0], maxPad, seen[maxPad])
		}
		// exactly-fitting and one-too-small output buffers
		for i := 0; i < 2000; i++ {
			l := 1 + rand.Intn(300)
			f := &Frame{StreamID: 1, Seq: uint64(rand.Intn(10)), Payload: payload[:l]}
			small := make([]byte, frameHeaderLength+l+redC04TagLen(method)+rand.Intn(260))
			n, err := o.obfuscate(f, small, 0)
			if err != nil {
				continue // refused: fine, nothing was promised
			}
			if n > len(small) {
				t.Fatalf("wrote beyond buffer")
			}
			var got Frame
			if err := o.deobfuscate(&got, small[:n]); err != nil || !bytes.Equal(got.Payload, payload[:l]) {
				t.Fatalf("method %d tight buffer: round trip failed: %v", method, err)
			}
		}
	}
}

// Random frames: arbitrary stream ids, sequence numbers, closing flags (all 256 values), keys.
func TestRedC04RandomFrames(t *testing.T) {
	rng := rand.New(rand.NewSource(44))
	iters := 40000
	if testing.Short() {
		iters = 4000
	}
	buf := make([]byte, 17000)
	for i := 0; i < iters; i++ {
		method := redC04Methods[i%4]
		var key [32]byte
		rng.Read(key[:])
		o, _ := MakeObfuscator(method, key)
		l := 1 + rng.Intn(16132)
		if i%3 == 0 {
			l = 1 + rng.Intn(40)
		}
		p := make([]byte, l)
		rng.Read(p)
		f := &Frame{StreamID: rng.Uint32(), Seq: rng.Uint64(), Closing: uint8(rng.Intn(256)), Payload: p}
		switch i % 5 {
		case 0:
			f.Seq = uint64(rng.Intn(8))
		case 1:
			f.Seq = ^uint64(0) - uint64(rng.Intn(3))
			f.StreamID = ^uint32(0) - uint32(rng.Intn(2))
		case 2:
			f.Seq = 1<<32 - 2 + uint64(rng.Intn(4))
			f.StreamID = 0
		}
		want := *f
		n, err := o.obfuscate(f, buf, 0)
		if err != nil {
			t.Fatal(err)
		}
		rf, err := redC04RefDecode(method, key, buf[:n])
		if err != nil || !redC04Same(rf, &want) {
			t.Fatalf("iter %d: reference decode failed %v", i, err)
		}
		var got Frame
		if err := o.deobfuscate(&got, buf[:n]); err != nil || !redC04Same(&got, &want) {
			t.Fatalf("iter %d: decode failed %v", i, err)
		}
	}
}

// The payload may lie anywhere inside the output buffer (overlapping the place it is moved to, the header, the padding
// and tag area) as long as payloadOffsetInBuf says where; and a payload lying exactly at the frame position may be
// announced with any offset.
func TestRedC04OverlappingPlacement(t *testing.T) {
	rng := rand.New(rand.NewSource(404))
	for _, method := range redC04Methods {
		var key [32]byte
		rng.Read(key[:])
		o, _ := MakeObfuscator(method, key)
		for _, l := range []int{1, 2, 13, 14, 15, 16, 17, 31, 100, 255, 256, 1000} {
			for off := 0; off <= 300; off++ {
				for _, seq := range []uint64{0, 9} {
					buf := make([]byte, off+l+600)
					orig := make([]byte, l)
					rng.Read(orig)
					copy(buf[off:], orig)
					f := &Frame{StreamID: 5, Seq: seq, Closing: 0, Payload: buf[off : off+l]}
					n, err := o.obfuscate(f, buf, off)
					if err != nil {
						t.Fatal(err)
					}
					rf, err := redC04RefDecode(method, key, buf[:n])
					if err != nil || !bytes.Equal(rf.Payload, orig) || rf.Seq != seq || rf.StreamID != 5 {
						t.Fatalf("method %d len %d offset %d seq %d: in-buffer payload not encoded faithfully (err %v)", method, l, off, seq, err)
					}
				}
			}
			// payload at the frame position, announced with a different offset
			for _, claimed := range []int{0, 1, 13, 15, 9999} {
				buf := make([]byte, l+600)
				orig := make([]byte, l)
				rng.Read(orig)
				copy(buf[frameHeaderLength:], orig)
				f := &Frame{StreamID: 5, Seq: 1, Payload: buf[frameHeaderLength : frameHeaderLength+l]}
				n, err := o.obfuscate(f, buf, claimed)
				if err != nil {
					t.Fatal(err)
				}
				rf, err := redC04RefDecode(method, key, buf[:n])
				if err != nil || !bytes.Equal(rf.Payload, orig) {
					t.Fatalf("method %d len %d claimed offset %d: wrong (err %v)", method, l, claimed, err)
				}
			}
		}
	}
}

// What a session really puts on the wire: Stream.Write with arbitrary chunkings, Stream.ReadFrom, the stream-closing
// frame and the session-closing notice, captured from the connection and decoded by the reference decoder.
type redC04Capture struct {
	mu   sync.Mutex
	msgs [][]byte
	done chan struct{}
}

func (c *redC04Capture) Read(b []byte) (int, error) { <-c.done; return 0, errors.New("closed") }
func (c *redC04Capture) Write(b []byte) (int, error) {
	c.mu.Lock()
	c.msgs = append(c.msgs, append([]byte{}, b...))
	c.mu.Unlock()
	return len(b), nil
}
func (c *redC04Capture) Close() error {
	select {
	case <-c.done:
	default:
		close(c.done)
	}
	return nil
}
func (c *redC04Capture) LocalAddr() net.Addr                { return &net.TCPAddr{} }
func (c *redC04Capture) RemoteAddr() net.Addr               { return &net.TCPAddr{} }
func (c *redC04Capture) SetDeadline(t time.Time) error      { return nil }
func (c *redC04Capture) SetReadDeadline(t time.Time) error  { return nil }
func (c *redC04Capture) SetWriteDeadline(t time.Time) error { return nil }

func TestRedC04SessionWire(t *testing.T) {
	rng := rand.New(rand.NewSource(4004))
	for _, limit := range []int{0, 16401, 16640, 1000, 600} {
		for _, method := range redC04Methods {
			var key [32]byte
			rng.Read(key[:])
			o, _ := MakeObfuscator(method, key)
			sesh := MakeSession(9, SessionConfig{Obfuscator: o, MsgOnWireSizeLimit: limit, InactivityTimeout: time.Hour})
			eff := limit
			if eff == 0 {
				eff = defaultMaxOnWireSize
			}
			capt := &redC04Capture{done: make(chan struct{})}
			sesh.AddConnection(capt)
			st, err := sesh.OpenStream()
			if err != nil {
				t.Fatal(err)
			}
			total := 200000
			data := make([]byte, total)
			rng.Read(data)
			for off := 0; off < total; {
				l := 1 + rng.Intn(3*eff)
				if rng.Intn(4) == 0 {
					l = sesh.maxStreamUnitWrite + rng.Intn(3) - 1
				}
				if off+l > total {
					l = total - off
				}
				n, err := st.Write(data[off : off+l])
				if err != nil || n != l {
					t.Fatalf("write: %d %v", n, err)
				}
				off += l
			}
			// ReadFrom path (in-place encoding)
			more := make([]byte, 50000)
			rng.Read(more)
			n, err := st.ReadFrom(&redC04EOFReader{r: bytes.NewReader(more), rng: rng})
			if n != int64(len(more)) {
				t.Fatalf("ReadFrom: %d %v", n, err)
			}
			if err := st.Close(); err != nil {
				t.Fatalf("limit %d method %d: stream close: %v", limit, method, err)
			}
			if err := sesh.Close(); err != nil {
				t.Fatalf("limit %d method %d: session close: %v", limit, method, err)
			}
			var got []byte
			var seq uint64
			sawStreamClose, sawSessionClose := false, false
			for i, m := range capt.msgs {
				if len(m) > eff {
					t.Fatalf("limit %d method %d: message %d has %d bytes", eff, method, i, len(m))
				}
				f, err := redC04RefDecode(method, key, m)
				if err != nil {
					t.Fatalf("message %d: reference decoder: %v", i, err)
				}
				switch f.Closing {
				case closingNothing:
					if f.StreamID != st.id || f.Seq != seq {
						t.Fatalf("message %d: stream %d seq %d, expected %d/%d", i, f.StreamID, f.Seq, st.id, seq)
					}
					if len(f.Payload) == 0 || len(f.Payload) > sesh.maxStreamUnitWrite {
						t.Fatalf("message %d: payload %d", i, len(f.Payload))
					}
					seq++
					got = append(got, f.Payload...)
				case closingStream:
					if f.StreamID != st.id || f.Seq != seq {
						t.Fatalf("closing frame: stream %d seq %d, expected %d/%d", f.StreamID, f.Seq, st.id, seq)
					}
					sawStreamClose = true
				case closingSession:
					sawSessionClose = true
				}
			}
			if !bytes.Equal(got, append(append([]byte{}, data...), more...)) {
				t.Fatalf("limit %d method %d: decoded data differs (%d vs %d bytes)", limit, method, len(got), total+len(more))
			}
			if !sawStreamClose || !sawSessionClose {
				t.Fatalf("limit %d method %d: closing frames missing: stream %v session %v", limit, method, sawStreamClose, sawSessionClose)
			}
		}
	}
}

// a reader that returns random-sized pieces and finally io.EOF-like error
type redC04EOFReader struct {
	r   *bytes.Reader
	rng *rand.Rand
}

func (e *redC04EOFReader) Read(b []byte) (int, error) {
	if e.r.Len() == 0 {
		return 0, fmt.Errorf("done")
	}
	l := 1 + e.rng.Intn(len(b))
	return e.r.Read(b[:l])
}
