package test

// Red-team whole-chain test for C14: real client pieces (client.RouteUDP, client.MakeSession with the direct TLS
// transport) and real server pieces (server.Serve -> dispatchConnection -> serveSession) over real loopback TCP and UDP
// sockets:
//
//   apps (N UDP sockets) <-UDP-> RouteUDP == 4 TCP connections ==> server.Serve <-UDP (one socket per stream)-> UDP echo
//
// Copy into internal/test and run:
//   go test ./internal/test -run 'TestRedC14Chain' -count=1

import (
	"bytes"
	"encoding/binary"
	"fmt"
	"math/rand"
	"net"
	"sync"
	"testing"
	"time"

	"github.com/cbeuw/Cloak/internal/client"
	"github.com/cbeuw/Cloak/internal/common"
	mux "github.com/cbeuw/Cloak/internal/multiplex"
	"github.com/cbeuw/Cloak/internal/server"
	log "github.com/sirupsen/logrus"
)

func redC14Datagram(tag uint32, serial uint32, size int) []byte {
	b := make([]byte, size)
	r := rand.New(rand.NewSource(int64(tag)<<32 | int64(serial)))
	r.Read(b)
	var hdr [8]byte
	binary.BigEndian.PutUint32(hdr[0:4], tag)
	binary.BigEndian.PutUint32(hdr[4:8], serial)
	copy(b, hdr[:])
	return b
}

type redC14Chain struct {
	clientUDP *net.UDPAddr
	echo      *net.UDPConn
	echoSeen  sync.Map // source address of the server-side socket -> count
}

func redC14StartChain(t *testing.T, method string, streamTimeoutSec int, numConn int) *redC14Chain {
	log.SetLevel(log.ErrorLevel)
	ch := &redC14Chain{}
	// UDP echo server (the proxied service)
	echo, err := net.ListenUDP("udp", &net.UDPAddr{IP: net.IPv4(127, 0, 0, 1)})
	if err != nil {
		t.Fatal(err)
	}
	echo.SetReadBuffer(8 << 20)
	echo.SetWriteBuffer(8 << 20)
	ch.echo = echo
	go func() {
		buf := make([]byte, 70000)
		for {
			n, addr, err := echo.ReadFromUDP(buf)
			if err != nil {
				return
			}
			echo.WriteToUDP(buf[:n], addr)
		}
	}()

	worldState := common.WorldOfTime(time.Unix(10, 0))

	// server
	serverConfig := server.RawConfig{
		ProxyBook:  map[string][]string{"openvpn": {"udp", echo.LocalAddr().String()}},
		BindAddr:   []string{"127.0.0.1:0"},
		BypassUID:  [][]byte{bypassUID[:]},
		RedirAddr:  "127.0.0.1:9",
		PrivateKey: privateKey,
		KeepAlive:  15,
	}
	sta, err := server.InitState(serverConfig, worldState)
	if err != nil {
		t.Fatal(err)
	}
	l, err := net.Listen("tcp", "127.0.0.1:0")
	if err != nil {
		t.Fatal(err)
	}
	go server.Serve(l, sta)

	// client
	_, port, _ := net.SplitHostPort(l.Addr().String())
	raw := client.RawConfig{
		ServerName:       "www.example.com",
		ProxyMethod:      "openvpn",
		EncryptionMethod: method,
		UID:              bypassUID[:],
		PublicKey:        publicKey,
		NumConn:          numConn,
		UDP:              true,
		Transport:        "direct",
		RemoteHost:       "127.0.0.1",
		RemotePort:       port,
		LocalHost:        "127.0.0.1",
		LocalPort:        "0",
		BrowserSig:       "firefox",
		StreamTimeout:    streamTimeoutSec,
	}
	lcc, rcc, ai := generateClientConfigs(raw, worldState)
	seshMaker := func() *mux.Session {
		ai := ai
		quad := make([]byte, 4)
		common.RandRead(ai.WorldState.Rand, quad)
		ai.SessionId = binary.BigEndian.Uint32(quad)
		return client.MakeSession(rcc, ai, &net.Dialer{})
	}
	addrCh := make(chan *net.UDPAddr, 1)
	acceptor := func() (*net.UDPConn, error) {
		conn, err := net.ListenUDP("udp", &net.UDPAddr{IP: net.IPv4(127, 0, 0, 1)})
		if err == nil {
			conn.SetReadBuffer(8 << 20)
			conn.SetWriteBuffer(8 << 20)
			addrCh <- conn.LocalAddr().(*net.UDPAddr)
		}
		return conn, err
	}
	go client.RouteUDP(acceptor, lcc.Timeout, rcc.Singleplex, seshMaker)
	ch.clientUDP = <-addrCh
	return ch
}

// one application: a UDP socket of its own; sends its datagrams in a window and expects each echoed exactly once,
// whole, to itself
func redC14App(t *testing.T, ch *redC14Chain, tag uint32, sizes []int, window int) (lost int, err error) {
	conn, e := net.DialUDP("udp", nil, ch.clientUDP)
	if e != nil {
		return 0, e
	}
	defer conn.Close()
	conn.SetReadBuffer(8 << 20)
	pending := map[uint32]int{} // serial -> size
	got := map[uint32]bool{}
	buf := make([]byte, 70000)
	next := 0
	recvOne := func(timeout time.Duration) (bool, error) {
		conn.SetReadDeadline(time.Now().Add(timeout))
		n, e := conn.Read(buf)
		if e != nil {
			return false, nil // timeout
		}
		if n < 8 {
			// datagrams shorter than 8 bytes carry as much of the header as fits: identify by size
			for serial, size := range pending {
				if size == n && bytes.Equal(buf[:n], redC14Datagram(tag, serial, size)) {
					delete(pending, serial)
					got[serial] = true
					return true, nil
				}
			}
			return true, fmt.Errorf("app %d: unexpected short datagram of %d bytes", tag, n)
		}
		tg := binary.BigEndian.Uint32(buf[0:4])
		serial := binary.BigEndian.Uint32(buf[4:8])
		if tg != tag {
			return true, fmt.Errorf("app %d received a datagram of app %d", tag, tg)
		}
		if got[serial] {
			return true, fmt.Errorf("app %d: datagram %d delivered twice", tag, serial)
		}
		size, ok := pending[serial]
		if !ok {
			return true, fmt.Errorf("app %d: datagram %d was never sent / not pending", tag, serial)
		}
		if n != size || !bytes.Equal(buf[:n], redC14Datagram(tag, serial, size)) {
			return true, fmt.Errorf("app %d: datagram %d came back with %d bytes instead of %d or altered", tag, serial, n, size)
		}
		delete(pending, serial)
		got[serial] = true
		return true, nil
	}
	for next < len(sizes) || len(pending) > 0 {
		for next < len(sizes) && len(pending) < window {
			s := sizes[next]
			if _, e := conn.Write(redC14Datagram(tag, uint32(next), s)); e != nil {
				return 0, e
			}
			pending[uint32(next)] = s
			next++
		}
		ok, e := recvOne(3 * time.Second)
		if e != nil {
			return 0, e
		}
		if !ok {
			// nothing for 3 seconds: whatever is pending is lost
			lost += len(pending)
			for s, size := range pending {
				t.Logf("app %d: datagram %d (size %d) never came back", tag, s, size)
			}
			pending = map[uint32]int{}
		}
	}
	return lost, nil
}

func TestRedC14ChainAllSizes(t *testing.T) {
	for _, method := range []string{"plain", "aes-256-gcm", "chacha20-poly1305", "aes-128-gcm"} {
		ch := redC14StartChain(t, method, 300, 4)
		step := 5
		if testing.Short() {
			step = 61
		}
		const apps = 4
		var wg sync.WaitGroup
		for a := 0; a < apps; a++ {
			var sizes []int
			for s := 1 + a; s <= 16132; s += step {
				sizes = append(sizes, s)
			}
			sizes = append(sizes, 16132, 16131, 1, 2, 16132)
			wg.Add(1)
			go func(a int) {
				defer wg.Done()
				lost, err := redC14App(t, ch, uint32(50+a), sizes, 4)
				if err != nil {
					t.Errorf("method %s: %v", method, err)
				}
				if lost > 0 {
					t.Errorf("method %s app %d: %d datagrams lost on an open stream of a healthy session", method, a, lost)
				}
			}(a)
		}
		wg.Wait()
		ch.echo.Close()
	}
}

// datagrams above the frame maximum: refused at the sender (the client closes that application's stream); the
// application's later datagrams travel on a new stream and are still delivered whole
func TestRedC14ChainOversized(t *testing.T) {
	ch := redC14StartChain(t, "aes-256-gcm", 300, 3)
	conn, err := net.DialUDP("udp", nil, ch.clientUDP)
	if err != nil {
		t.Fatal(err)
	}
	buf := make([]byte, 70000)
	roundtrip := func(serial uint32, size int) error {
		d := redC14Datagram(1, serial, size)
		conn.Write(d)
		conn.SetReadDeadline(time.Now().Add(3 * time.Second))
		n, err := conn.Read(buf)
		if err != nil {
			return err
		}
		if !bytes.Equal(buf[:n], d) {
			return fmt.Errorf("size %d: got %d bytes, different", size, n)
		}
		return nil
	}
	if err := roundtrip(0, 1000); err != nil {
		t.Fatal(err)
	}
	for i, over := range []int{16133, 16134, 20000, 40000, 65507} {
		conn.Write(redC14Datagram(1, uint32(100+i), over))
		conn.SetReadDeadline(time.Now().Add(300 * time.Millisecond))
		if n, err := conn.Read(buf); err == nil {
			t.Fatalf("oversized datagram of %d: %d bytes came back", over, n)
		}
		if err := roundtrip(uint32(1+i), 16132-i); err != nil {
			t.Fatalf("after an oversized datagram of %d: %v", over, err)
		}
	}
}

// stream timeouts: an application that pauses longer than the stream timeout gets a new stream; its datagrams before
// and after are delivered; many applications at once
func TestRedC14ChainStreamTimeouts(t *testing.T) {
	ch := redC14StartChain(t, "chacha20-poly1305", 1, 4)
	var wg sync.WaitGroup
	for a := 0; a < 6; a++ {
		wg.Add(1)
		go func(a int) {
			defer wg.Done()
			conn, err := net.DialUDP("udp", nil, ch.clientUDP)
			if err != nil {
				t.Error(err)
				return
			}
			defer conn.Close()
			buf := make([]byte, 70000)
			serial := uint32(0)
			for phase := 0; phase < 3; phase++ {
				for i := 0; i < 40; i++ {
					size := 8 + rand.Intn(3000)
					d := redC14Datagram(uint32(a), serial, size)
					serial++
					conn.Write(d)
					conn.SetReadDeadline(time.Now().Add(3 * time.Second))
					n, err := conn.Read(buf)
					if err != nil {
						t.Errorf("app %d phase %d datagram %d: no echo: %v", a, phase, i, err)
						return
					}
					if !bytes.Equal(buf[:n], d) {
						t.Errorf("app %d phase %d datagram %d: echo differs (%d bytes, tag %d serial %d)", a, phase, i, n,
							binary.BigEndian.Uint32(buf[0:4]), binary.BigEndian.Uint32(buf[4:8]))
						return
					}
				}
				// idle beyond the stream timeout (1s): the stream is closed by the client's reader
				time.Sleep(1600 * time.Millisecond)
			}
		}(a)
	}
	wg.Wait()
}
