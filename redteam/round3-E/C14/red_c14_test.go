package multiplex

// Red-team tests for C14 (datagram mode preserves message boundaries and stream isolation), multiplex level.
// Copy into internal/multiplex and run:
//   go test ./internal/multiplex -run 'TestRedC14' -count=1
// (the whole-chain test with the real client and server pieces is red_c14_chain_test.go, for internal/test)

import (
	"bytes"
	crand "crypto/rand"
	"encoding/binary"
	"errors"
	"io"
	"math/rand"
	"net"
	"sync"
	"testing"
	"time"
)

var redC14Methods = []byte{EncryptionMethodPlain, EncryptionMethodAES256GCM, EncryptionMethodChaha20Poly1305, EncryptionMethodAES128GCM}

// a connection that keeps message boundaries over TCP, like the TLS transport's record layer
type redC14RecConn struct {
	net.Conn
	wm sync.Mutex
}

func (c *redC14RecConn) Write(b []byte) (int, error) {
	c.wm.Lock()
	defer c.wm.Unlock()
	hdr := []byte{byte(len(b) >> 8), byte(len(b))}
	if _, err := c.Conn.Write(append(hdr, b...)); err != nil {
		return 0, err
	}
	return len(b), nil
}
func (c *redC14RecConn) Read(b []byte) (int, error) {
	var hdr [2]byte
	if _, err := io.ReadFull(c.Conn, hdr[:]); err != nil {
		return 0, err
	}
	return io.ReadFull(c.Conn, b[:int(hdr[0])<<8|int(hdr[1])])
}

func redC14Pair(t testing.TB, method byte, nconn int, limit int) (*Session, *Session) {
	var key [32]byte
	crand.Read(key[:])
	o1, _ := MakeObfuscator(method, key)
	o2, _ := MakeObfuscator(method, key)
	a := MakeSession(1, SessionConfig{Obfuscator: o1, Unordered: true, InactivityTimeout: time.Hour, MsgOnWireSizeLimit: limit})
	b := MakeSession(1, SessionConfig{Obfuscator: o2, Unordered: true, InactivityTimeout: time.Hour, MsgOnWireSizeLimit: limit})
	l, err := net.Listen("tcp", "127.0.0.1:0")
	if err != nil {
		t.Fatal(err)
	}
	defer l.Close()
	for i := 0; i < nconn; i++ {
		c, err := net.Dial("tcp", l.Addr().String())
		if err != nil {
			t.Fatal(err)
		}
		s, err := l.Accept()
		if err != nil {
			t.Fatal(err)
		}
		a.AddConnection(&redC14RecConn{Conn: c})
		b.AddConnection(&redC14RecConn{Conn: s})
	}
	return a, b
}

// the content of a datagram is a function of (stream tag, serial, size) so that any merge, split, truncation or
// cross-stream mix shows
func redC14Datagram(tag uint32, serial uint32, size int) []byte {
	b := make([]byte, size)
	r := rand.New(rand.NewSource(int64(tag)<<32 | int64(serial)))
	r.Read(b)
	var hdr [8]byte
	binary.BigEndian.PutUint32(hdr[0:4], tag)
	binary.BigEndian.PutUint32(hdr[4:8], serial)
	copy(b, hdr[:]) // as much of it as fits
	return b
}

// All datagram sizes 1..max (exhaustively), each sent once, over 4 connections (so any arrival order), every method:
// each is read exactly once, whole, unchanged. Sizes max+1.. are refused by Write and nothing of them is sent.
func TestRedC14AllSizes(t *testing.T) {
	for _, method := range redC14Methods {
		a, b := redC14Pair(t, method, 4, 16401)
		max := a.maxStreamUnitWrite
		if max != 16132 {
			t.Fatalf("max %d", max)
		}
		step := 1
		if testing.Short() {
			step = 7
		}
		st, err := a.OpenStream()
		if err != nil {
			t.Fatal(err)
		}
		count := 0
		for s := 1; s <= max; s += step {
			count++
		}
		errc := make(chan error, 1)
		go func() {
			conn, err := b.Accept()
			if err != nil {
				errc <- err
				return
			}
			seen := make(map[int]bool)
			buf := make([]byte, max+10)
			for len(seen) < count {
				conn.SetReadDeadline(time.Now().Add(20 * time.Second))
				n, err := conn.Read(buf)
				if err != nil {
					errc <- err
					return
				}
				if seen[n] {
					t.Errorf("method %d: a datagram of size %d delivered twice (or a split/merge produced that size)", method, n)
				}
				seen[n] = true
				if !bytes.Equal(buf[:n], redC14Datagram(7, uint32(n), n)) {
					t.Errorf("method %d: datagram of size %d has wrong content", method, n)
				}
			}
			// nothing else may follow
			conn.SetReadDeadline(time.Now().Add(200 * time.Millisecond))
			n, err := conn.Read(buf)
			if !errors.Is(err, ErrTimeout) {
				errc <- errors.New("extra datagram after all were read")
				_ = n
				return
			}
			errc <- nil
		}()
		for s := 1; s <= max; s += step {
			d := redC14Datagram(7, uint32(s), s)
			n, err := st.Write(d)
			if err != nil || n != s {
				t.Fatalf("method %d: write of %d: %d %v", method, s, n, err)
			}
			if s%64 == 0 {
				// too large: refused, nothing sent (the receiver would see an unexpected size otherwise)
				for _, over := range []int{max + 1, max + 2, max + 300, 2 * max, 65507} {
					n, err := st.Write(make([]byte, over))
					if err == nil || n != 0 {
						t.Fatalf("method %d: write of %d bytes accepted: %d %v", method, over, n, err)
					}
				}
			}
		}
		if err := <-errc; err != nil {
			t.Fatalf("method %d: %v", method, err)
		}
		a.Close()
		b.Close()
	}
}

// Read buffers around the datagram size: too small -> error, nothing consumed, nothing truncated; then the datagram is
// read whole with a fitting buffer. Buffer sizes size-3..size+3 and 0, 1.
func TestRedC14ShortReadBuffers(t *testing.T) {
	for _, method := range redC14Methods {
		a, b := redC14Pair(t, method, 1, 0)
		st, _ := a.OpenStream()
		sizes := []int{1, 2, 3, 8, 100, 1500, 8192, 8193, a.maxStreamUnitWrite - 1, a.maxStreamUnitWrite}
		for i, s := range sizes {
			if _, err := st.Write(redC14Datagram(1, uint32(i), s)); err != nil {
				t.Fatal(err)
			}
		}
		conn, err := b.Accept()
		if err != nil {
			t.Fatal(err)
		}
		conn.SetReadDeadline(time.Now().Add(10 * time.Second))
		// wait for the first datagram to be in the pipe
		for i, s := range sizes {
			want := redC14Datagram(1, uint32(i), s)
			// make sure datagram i has arrived before probing with short buffers
			for {
				p := conn.(*Stream).recvBuf.(*datagramBufferedPipe)
				p.rwCond.L.Lock()
				k := len(p.pLens)
				p.rwCond.L.Unlock()
				if k > 0 {
					break
				}
				time.Sleep(time.Millisecond)
			}
			for _, bl := range []int{s - 1, s - 2, s - 3, 1, s / 2} {
				if bl < 1 || bl >= s {
					continue
				}
				buf := make([]byte, bl)
				n, err := conn.Read(buf)
				if err == nil || n != 0 {
					t.Fatalf("method %d: datagram of %d read with a %d byte buffer: n=%d err=%v", method, s, bl, n, err)
				}
				if !errors.Is(err, io.ErrShortBuffer) {
					t.Fatalf("method %d: unexpected error %v", method, err)
				}
			}
			buf := make([]byte, s+i%4)
			n, err := conn.Read(buf)
			if err != nil || n != s || !bytes.Equal(buf[:n], want) {
				t.Fatalf("method %d: datagram %d (size %d): n=%d err=%v equal=%v", method, i, s, n, err, bytes.Equal(buf[:n], want))
			}
		}
		a.Close()
		b.Close()
	}
}

// The smallest case of "a read buffer too small for the next datagram reports an error": a pending datagram of 1 byte
// (or any size) and a read buffer of 0 bytes. datagramBufferedPipe.Read does report io.ErrShortBuffer, but Stream.Read
// answers (0, nil) before it asks the pipe: no error is reported. (Nothing is consumed or truncated.)
func TestRedC14ZeroLengthReadBuffer(t *testing.T) {
	a, b := redC14Pair(t, EncryptionMethodAES256GCM, 1, 0)
	defer a.Close()
	defer b.Close()
	st, _ := a.OpenStream()
	if _, err := st.Write([]byte{0x42}); err != nil {
		t.Fatal(err)
	}
	conn, err := b.Accept()
	if err != nil {
		t.Fatal(err)
	}
	p := conn.(*Stream).recvBuf.(*datagramBufferedPipe)
	for {
		p.rwCond.L.Lock()
		k := len(p.pLens)
		p.rwCond.L.Unlock()
		if k > 0 {
			break
		}
		time.Sleep(time.Millisecond)
	}
	// the pipe itself behaves as the property says
	if n, err := p.Read(make([]byte, 0)); !errors.Is(err, io.ErrShortBuffer) || n != 0 {
		t.Fatalf("pipe: n=%d err=%v", n, err)
	}
	n, err := conn.Read(make([]byte, 0))
	if err == nil {
		t.Errorf("a 1-byte datagram is pending, Stream.Read with a 0-byte buffer returned n=%d err=nil: the too-small buffer is not reported", n)
	}
	// not consumed
	buf := make([]byte, 4)
	n, err = conn.Read(buf)
	if err != nil || n != 1 || buf[0] != 0x42 {
		t.Fatalf("datagram lost or changed: n=%d err=%v", n, err)
	}
}

// Concurrent senders on several streams in both directions over several connections; each stream's receiver gets
// exactly the multiset of datagrams sent on that stream - none missing, none twice, none foreign, none altered.
func TestRedC14ConcurrentStreams(t *testing.T) {
	for _, method := range redC14Methods {
		a, b := redC14Pair(t, method, 5, 16401)
		const streams = 8
		const perStream = 600
		var wg sync.WaitGroup
		// receivers on b for streams opened by a; each echoes a digest datagram back on the same stream at the end
		recvOne := func(conn net.Conn, done func(tag uint32, got map[uint32]int)) {
			defer wg.Done()
			buf := make([]byte, 17000)
			got := map[uint32]int{}
			var tag uint32
			first := true
			for len(got) < perStream {
				conn.SetReadDeadline(time.Now().Add(20 * time.Second))
				n, err := conn.Read(buf)
				if err != nil {
					t.Errorf("method %d: stream (tag %d) read error after %d datagrams: %v", method, tag, len(got), err)
					return
				}
				if n < 8 {
					t.Errorf("short datagram %d", n)
					return
				}
				tg := binary.BigEndian.Uint32(buf[0:4])
				serial := binary.BigEndian.Uint32(buf[4:8])
				if first {
					tag = tg
					first = false
				} else if tg != tag {
					t.Errorf("method %d: datagram of stream %d delivered on stream %d", method, tg, tag)
					return
				}
				size := 8 + int((uint64(serial)*2654435761+uint64(tg)*97)%uint64(16132-8+1))
				if n != size || !bytes.Equal(buf[:n], redC14Datagram(tg, serial, size)) {
					t.Errorf("method %d: stream %d serial %d: size %d (expected %d) or content wrong", method, tg, serial, n, size)
					return
				}
				got[serial]++
				if got[serial] > 1 {
					t.Errorf("method %d: stream %d serial %d delivered twice", method, tg, serial)
					return
				}
			}
			done(tag, got)
		}
		sendAll := func(st net.Conn, tag uint32) {
			defer wg.Done()
			// two goroutines write on the same stream concurrently
			var w2 sync.WaitGroup
			for half := 0; half < 2; half++ {
				w2.Add(1)
				go func(half int) {
					defer w2.Done()
					for serial := uint32(half); serial < perStream; serial += 2 {
						size := 8 + int((uint64(serial)*2654435761+uint64(tag)*97)%uint64(16132-8+1))
						if n, err := st.Write(redC14Datagram(tag, serial, size)); err != nil || n != size {
							t.Errorf("write: %d %v", n, err)
							return
						}
					}
				}(half)
			}
			w2.Wait()
		}
		var mu sync.Mutex
		finished := map[uint32]bool{}
		for s := 0; s < streams; s++ {
			st, err := a.OpenStream()
			if err != nil {
				t.Fatal(err)
			}
			wg.Add(2)
			go sendAll(st, uint32(100+s))
			// a -> b data; b answers on the same stream (b -> a direction) with its own tag
			go func() {
				conn, err := b.Accept()
				if err != nil {
					t.Errorf("accept: %v", err)
					wg.Done()
					return
				}
				wg.Add(2)
				go sendAll(conn, uint32(1000)+conn.(*Stream).id)
				go recvOne(st, func(tag uint32, got map[uint32]int) {
					if tag != uint32(1000)+st.id {
						t.Errorf("reply stream mismatch: tag %d on stream %d", tag, st.id)
					}
				})
				recvOne(conn, func(tag uint32, got map[uint32]int) {
					mu.Lock()
					finished[tag] = true
					mu.Unlock()
				})
			}()
		}
		wg.Wait()
		if len(finished) != streams && !t.Failed() {
			t.Fatalf("method %d: only %d of %d streams completed", method, len(finished), streams)
		}
		a.Close()
		b.Close()
	}
}

// ReadFrom on a datagram stream fed by a real UDP socket (what the server does with the proxied UDP endpoint): every
// datagram 1..max becomes exactly one message; one that is too large is refused, not cut.
func TestRedC14ReadFromUDP(t *testing.T) {
	a, b := redC14Pair(t, EncryptionMethodChaha20Poly1305, 3, 16401)
	defer a.Close()
	defer b.Close()
	max := a.maxStreamUnitWrite
	srv, err := net.ListenUDP("udp", &net.UDPAddr{IP: net.IPv4(127, 0, 0, 1)})
	if err != nil {
		t.Fatal(err)
	}
	defer srv.Close()
	cli, err := net.DialUDP("udp", nil, srv.LocalAddr().(*net.UDPAddr))
	if err != nil {
		t.Fatal(err)
	}
	defer cli.Close()
	// make srv "connected" the way the server's dialled proxy connection is: dial back
	cli.Write([]byte("hello"))
	tmp := make([]byte, 10)
	_, caddr, _ := srv.ReadFromUDP(tmp)
	srv.Close()
	conn, err := net.DialUDP("udp", srv.LocalAddr().(*net.UDPAddr), caddr)
	if err != nil {
		t.Fatal(err)
	}
	defer conn.Close()

	st, _ := a.OpenStream()
	rfErr := make(chan error, 1)
	go func() {
		_, err := st.ReadFrom(conn)
		rfErr <- err
	}()
	sizes := []int{1, 2, 100, 1472, 8192, 8193, max - 1, max, 9, max, 1}
	go func() {
		for _, s := range sizes {
			cli.Write(redC14Datagram(3, uint32(s), s))
			time.Sleep(2 * time.Millisecond)
		}
	}()
	rc, err := b.Accept()
	if err != nil {
		t.Fatal(err)
	}
	buf := make([]byte, 70000)
	for _, s := range sizes {
		rc.SetReadDeadline(time.Now().Add(10 * time.Second))
		n, err := rc.Read(buf)
		if err != nil || n != s || !bytes.Equal(buf[:n], redC14Datagram(3, uint32(s), s)) {
			t.Fatalf("size %d: n=%d err=%v", s, n, err)
		}
	}
	// too large: ReadFrom ends with an error, nothing is delivered
	cli.Write(redC14Datagram(3, 1, max+1))
	select {
	case err := <-rfErr:
		if err == nil {
			t.Fatalf("ReadFrom ended without error")
		}
	case <-time.After(5 * time.Second):
		t.Fatalf("ReadFrom did not refuse a datagram of max+1 bytes")
	}
	rc.SetReadDeadline(time.Now().Add(300 * time.Millisecond))
	if n, err := rc.Read(buf); err == nil {
		t.Fatalf("a piece (%d bytes) of the oversized datagram was delivered", n)
	}
}

// Datagram writes concurrent with the closing of the stream (either side): every Write either fails or its datagram
// arrives at most once and whole; nothing is delivered that was not written, nothing panics.
func TestRedC14WritesConcurrentWithClose(t *testing.T) {
	for round := 0; round < 40; round++ {
		a, b := redC14Pair(t, redC14Methods[round%4], 3, 16401)
		st, _ := a.OpenStream()
		st.Write(redC14Datagram(9, 0, 50))
		rc, err := b.Accept()
		if err != nil {
			t.Fatal(err)
		}
		accepted := make(map[uint32]bool)
		var mu sync.Mutex
		var wg sync.WaitGroup
		for w := 0; w < 3; w++ {
			wg.Add(1)
			go func(w int) {
				defer wg.Done()
				for i := uint32(1 + w); i < 3000; i += 3 {
					size := 8 + int(i%500)
					if _, err := st.Write(redC14Datagram(9, i, size)); err != nil {
						return
					}
					mu.Lock()
					accepted[i] = true
					mu.Unlock()
				}
			}(w)
		}
		go func() {
			time.Sleep(time.Duration(rand.Intn(3000)) * time.Microsecond)
			if round%2 == 0 {
				st.Close()
			} else {
				rc.Close()
			}
		}()
		got := map[uint32]int{}
		buf := make([]byte, 1000)
		for {
			rc.SetReadDeadline(time.Now().Add(500 * time.Millisecond))
			n, err := rc.Read(buf)
			if err != nil {
				break
			}
			if n < 8 {
				t.Fatalf("short datagram")
			}
			serial := binary.BigEndian.Uint32(buf[4:8])
			size := 8 + int(serial%500)
			if serial == 0 {
				size = 50
			}
			if n != size || !bytes.Equal(buf[:n], redC14Datagram(9, serial, size)) {
				t.Fatalf("round %d: datagram %d altered (n=%d, expected %d)", round, serial, n, size)
			}
			got[serial]++
			if got[serial] > 1 {
				t.Fatalf("round %d: datagram %d twice", round, serial)
			}
		}
		wg.Wait()
		a.Close()
		b.Close()
	}
}

// OBSERVATION (size 0 is outside the quantifier "1..max"): an empty datagram is accepted by Write (0, nil) and never
// delivered; an empty datagram read by ReadFrom from the proxied UDP endpoint ends ReadFrom with "payload cannot be
// empty" - on the server that closes the stream.
func TestRedC14ObservationEmptyDatagram(t *testing.T) {
	a, b := redC14Pair(t, EncryptionMethodPlain, 1, 0)
	defer a.Close()
	defer b.Close()
	st, _ := a.OpenStream()
	n, err := st.Write([]byte{})
	t.Logf("observation: Write of an empty datagram returns n=%d err=%v and sends nothing", n, err)
	r, w := net.Pipe()
	go func() { w.Write([]byte{}); time.Sleep(50 * time.Millisecond); w.Close() }()
	_, err = st.ReadFrom(r)
	t.Logf("observation: ReadFrom over a source delivering an empty read ends with: %v", err)
}

// The first five frames of a stream carry random padding: datagrams of exactly the maximum size as the very first
// frames of many fresh streams, all methods (the padded message must still fit the wire limit and come out whole).
func TestRedC14MaxSizeOnPaddedFrames(t *testing.T) {
	for _, method := range redC14Methods {
		a, b := redC14Pair(t, method, 2, 16401)
		max := a.maxStreamUnitWrite
		for round := 0; round < 150; round++ {
			st, err := a.OpenStream()
			if err != nil {
				t.Fatal(err)
			}
			for i := 0; i < 6; i++ {
				if n, err := st.Write(redC14Datagram(uint32(round), uint32(i), max-i%2)); err != nil || n != max-i%2 {
					t.Fatalf("method %d round %d: write %d: %d %v", method, round, i, n, err)
				}
			}
			rc, err := b.Accept()
			if err != nil {
				t.Fatal(err)
			}
			seen := map[uint32]bool{}
			buf := make([]byte, max)
			for i := 0; i < 6; i++ {
				rc.SetReadDeadline(time.Now().Add(10 * time.Second))
				n, err := rc.Read(buf)
				if err != nil {
					t.Fatalf("method %d round %d: read %d: %v", method, round, i, err)
				}
				serial := binary.BigEndian.Uint32(buf[4:8])
				if seen[serial] || serial > 5 || n != max-int(serial)%2 || !bytes.Equal(buf[:n], redC14Datagram(uint32(round), serial, n)) {
					t.Fatalf("method %d round %d: datagram %d wrong (n=%d)", method, round, serial, n)
				}
				seen[serial] = true
			}
			st.Close()
		}
		a.Close()
		b.Close()
	}
}
