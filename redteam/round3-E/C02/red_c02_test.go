package multiplex

// Red-team tests for C02 (stream reassembly is independent of arrival order).
// Copy into internal/multiplex and run:
//   go test ./internal/multiplex -run 'TestRedC02' -count=1

import (
	"bytes"
	"crypto/sha256"
	"errors"
	"fmt"
	"io"
	"math/rand"
	"net"
	"sync"
	"testing"
	"time"
)

func redC02Session(t testing.TB, method byte) *Session {
	var key [32]byte
	rand.Read(key[:])
	obfs, err := MakeObfuscator(method, key)
	if err != nil {
		t.Fatal(err)
	}
	return MakeSession(0, SessionConfig{Obfuscator: obfs, InactivityTimeout: time.Hour})
}

// a stream whose reorder buffer expects `base` as the next sequence number
func redC02Stream(t testing.TB, sesh *Session, base uint64) *Stream {
	st, err := sesh.OpenStream()
	if err != nil {
		t.Fatal(err)
	}
	st.recvBuf.(*streamBuffer).nextRecvSeq = base
	return st
}

func redC02Permutations(n int, visit func([]int)) {
	p := make([]int, n)
	for i := range p {
		p[i] = i
	}
	var rec func(k int)
	rec = func(k int) {
		if k == n {
			visit(p)
			return
		}
		for i := k; i < n; i++ {
			p[k], p[i] = p[i], p[k]
			rec(k + 1)
			p[k], p[i] = p[i], p[k]
		}
	}
	rec(0)
}

// one run: frames base..base+n-1, frame number closeAt (relative) is the closing frame (closeAt==-1: none),
// delivered in order perm, the reader drains everything that is available after arrival i iff drain bit i is set.
// deliver is either Stream.recvFrame or the full session path.
func redC02Run(st *Stream, base uint64, payloads [][]byte, closeAt int, perm []int, drain uint64,
	deliver func(f *Frame) error, chunk int) error {
	n := len(payloads)
	var expect []byte
	last := n
	if closeAt >= 0 {
		last = closeAt
	}
	for i := 0; i < last; i++ {
		expect = append(expect, payloads[i]...)
	}
	arrived := make([]bool, n)
	var got []byte
	rbuf := make([]byte, chunk)
	for step, idx := range perm {
		f := &Frame{StreamID: st.id, Seq: base + uint64(idx), Payload: payloads[idx]}
		if idx == closeAt {
			f.Closing = closingStream
		}
		if err := deliver(f); err != nil {
			return fmt.Errorf("step %d frame %d: delivery error %v", step, idx, err)
		}
		arrived[idx] = true
		// contiguous prefix
		prefix := 0
		for prefix < n && arrived[prefix] {
			prefix++
		}
		avail := 0
		for i := 0; i < prefix && i < last; i++ {
			avail += len(payloads[i])
		}
		shouldBeClosed := closeAt >= 0 && prefix > closeAt
		if st.isClosed() != shouldBeClosed {
			return fmt.Errorf("step %d (perm %v closeAt %d): closed=%v, expected %v", step, perm, closeAt, st.isClosed(), shouldBeClosed)
		}
		if drain&(1<<uint(step%64)) != 0 {
			for len(got) < avail {
				want := avail - len(got)
				b := rbuf
				if want < len(b) {
					// ask for more than there is, sometimes
					if step%2 == 0 {
						b = b[:want]
					}
				}
				r, err := st.Read(b)
				if err != nil {
					return fmt.Errorf("step %d: read error %v with %d bytes due", step, err, want)
				}
				got = append(got, b[:r]...)
			}
			if len(got) > avail {
				return fmt.Errorf("step %d: read %d bytes but only %d were in order", step, len(got), avail)
			}
			if !bytes.Equal(got, expect[:len(got)]) {
				return fmt.Errorf("step %d: wrong bytes", step)
			}
		}
	}
	// final drain
	if closeAt >= 0 {
		rest, err := io.ReadAll(readerFunc(func(b []byte) (int, error) {
			r, err := st.Read(b)
			if errors.Is(err, ErrBrokenStream) {
				return r, io.EOF
			}
			return r, err
		}))
		if err != nil {
			return fmt.Errorf("final drain: %v", err)
		}
		got = append(got, rest...)
	} else {
		for len(got) < len(expect) {
			r, err := st.Read(rbuf)
			if err != nil {
				return fmt.Errorf("final drain: %v", err)
			}
			got = append(got, rbuf[:r]...)
		}
		// nothing more must be readable (looking into the pipe is much cheaper than a Read with a deadline)
		pipe := st.recvBuf.(*streamBuffer).buf
		pipe.rwCond.L.Lock()
		left := pipe.buf.Len()
		pipe.rwCond.L.Unlock()
		if left != 0 {
			return fmt.Errorf("%d extra bytes after everything was read", left)
		}
	}
	if !bytes.Equal(got, expect) {
		return fmt.Errorf("perm %v closeAt %d drain %b: got %d bytes, want %d; content equal=%v", perm, closeAt, drain, len(got), len(expect), bytes.Equal(got, expect))
	}
	return nil
}

type readerFunc func([]byte) (int, error)

func (f readerFunc) Read(b []byte) (int, error) { return f(b) }

// Exhaustive: n = 1..7 (1..5 with -short), all n! permutations, closing frame = last frame (and, for n<=5, no closing frame),
// all 2^n drain masks, bases 0, just below 2^32, just below 2^64 (no wrap).
func TestRedC02Exhaustive(t *testing.T) {
	sesh := redC02Session(t, EncryptionMethodPlain)
	maxN := 7
	if testing.Short() {
		maxN = 5
	}
	runs := 0
	for n := 1; n <= maxN; n++ {
		bases := []uint64{0, 1<<32 - uint64(n)/2 - 1, 1<<32 - 1, ^uint64(0) - uint64(n) + 1}
		payloads := make([][]byte, n)
		for i := range payloads {
			payloads[i] = bytes.Repeat([]byte{byte('a' + i)}, 1+i%3)
		}
		for _, base := range bases {
			for _, closeAt := range []int{n - 1, -1} {
				redC02Permutations(n, func(perm []int) {
					for drain := uint64(0); drain < 1<<uint(n); drain++ {
						st := redC02Stream(t, sesh, base)
						err := redC02Run(st, base, payloads, closeAt, perm, drain, st.recvFrame, 2)
						if err != nil {
							t.Fatalf("n=%d base=%d: %v", n, base, err)
						}
						runs++
					}
				})
			}
		}
	}
	t.Logf("%d runs", runs)
}

// The same through the whole receive path (obfuscate -> Session.recvDataFromRemote), all methods, closing frame at
// every sequence position (frames above the closing frame are legitimately discarded), n <= 5, stream created by the
// first frame to arrive (base 0) or pre-opened (other bases).
func TestRedC02ExhaustiveThroughSession(t *testing.T) {
	for _, method := range []byte{EncryptionMethodPlain, EncryptionMethodAES256GCM, EncryptionMethodChaha20Poly1305, EncryptionMethodAES128GCM} {
		sesh := redC02Session(t, method)
		obuf := make([]byte, 17000)
		deliver := func(f *Frame) error {
			n, err := sesh.obfuscate(f, obuf, 0)
			if err != nil {
				return err
			}
			return sesh.recvDataFromRemote(obuf[:n])
		}
		for n := 1; n <= 5; n++ {
			payloads := make([][]byte, n)
			for i := range payloads {
				payloads[i] = bytes.Repeat([]byte{byte('A' + i)}, 1+(i*7)%5)
			}
			for _, base := range []uint64{0, 1<<32 - 2, ^uint64(0) - uint64(n) + 1} {
				for closeAt := 0; closeAt < n; closeAt++ {
					redC02Permutations(n, func(perm []int) {
						// the closing frame ends the stream: frames numbered above it that arrive later are dropped,
						// frames above it that arrived earlier stay in the heap. Restrict the check to runs in which
						// the closing frame is the highest-numbered one or explicitly allow the drop: redC02Run only
						// expects payloads below closeAt.
						for _, drain := range []uint64{0, ^uint64(0), 0x15, 0x0a} {
							st := redC02Stream(t, sesh, base)
							err := redC02Run(st, base, payloads, closeAt, perm, drain, deliver, 3)
							if err != nil {
								t.Fatalf("method %d n=%d base=%d: %v", method, n, base, err)
							}
						}
					})
				}
			}
		}
	}
}

// Sampled: large n, random permutations (full shuffles and bounded-displacement shuffles), random payload sizes up to
// the frame maximum, random reader behaviour, bases around 2^32 and just below 2^64.
func TestRedC02Sampled(t *testing.T) {
	sesh := redC02Session(t, EncryptionMethodAES128GCM)
	rng := rand.New(rand.NewSource(20260923))
	iters := 300
	if testing.Short() {
		iters = 50
	}
	for it := 0; it < iters; it++ {
		n := 2 + rng.Intn(400)
		var base uint64
		switch it % 4 {
		case 1:
			base = 1<<32 - uint64(rng.Intn(n+1))
		case 2:
			base = ^uint64(0) - uint64(n) + 1
		case 3:
			base = rng.Uint64() >> 1
		}
		payloads := make([][]byte, n)
		for i := range payloads {
			l := 1 + rng.Intn(64)
			if rng.Intn(20) == 0 {
				l = sesh.maxStreamUnitWrite - rng.Intn(3)
			}
			payloads[i] = make([]byte, l)
			rng.Read(payloads[i])
		}
		perm := rng.Perm(n)
		if it%3 == 0 {
			// local disorder only
			for i := range perm {
				perm[i] = i
			}
			for i := 0; i+1 < n; i++ {
				j := i + rng.Intn(minInt(8, n-i))
				perm[i], perm[j] = perm[j], perm[i]
			}
		}
		closeAt := n - 1
		if it%7 == 0 {
			closeAt = -1
		}
		st := redC02Stream(t, sesh, base)
		// drains: random bits for the first 64 steps, then the pattern repeats via step modulo in redC02Run's shift
		// (shift >= 64 yields 0, i.e. no drain) - so drain everything at the end; also use a variant that drains always
		drain := rng.Uint64()
		if it%2 == 0 {
			drain = ^uint64(0)
		}
		if err := redC02Run(st, base, payloads, closeAt, perm, drain, st.recvFrame, 1+rng.Intn(40000)); err != nil {
			t.Fatalf("iter %d n=%d base=%d: %v", it, n, base, err)
		}
	}
}

func minInt(a, b int) int {
	if a < b {
		return a
	}
	return b
}

// Concurrent: a blocked reader goroutine drains continuously while several goroutines (as the per-connection
// receive loops would) deliver the frames of one stream, each exactly once, in shuffled order.
func TestRedC02ConcurrentDelivery(t *testing.T) {
	rng := rand.New(rand.NewSource(7))
	for _, method := range []byte{EncryptionMethodPlain, EncryptionMethodChaha20Poly1305} {
		for it := 0; it < 30; it++ {
			recv := redC02Session(t, method)
			n := 200 + rng.Intn(800)
			msgs := make([][]byte, n)
			h := sha256.New()
			total := 0
			for i := 0; i < n; i++ {
				f := &Frame{StreamID: 77, Seq: uint64(i), Payload: make([]byte, 1+rng.Intn(2000))}
				rng.Read(f.Payload)
				if i == n-1 {
					f.Closing = closingStream
				} else {
					h.Write(f.Payload)
					total += len(f.Payload)
				}
				buf := make([]byte, len(f.Payload)+300)
				l, err := recv.obfuscate(f, buf, 0)
				if err != nil {
					t.Fatal(err)
				}
				msgs[i] = buf[:l]
			}
			want := h.Sum(nil)
			rng.Shuffle(n, func(i, j int) { msgs[i], msgs[j] = msgs[j], msgs[i] })
			const workers = 6
			var wg sync.WaitGroup
			for w := 0; w < workers; w++ {
				wg.Add(1)
				go func(w int) {
					defer wg.Done()
					for i := w; i < n; i += workers {
						if err := recv.recvDataFromRemote(msgs[i]); err != nil {
							t.Errorf("recv: %v", err)
						}
					}
				}(w)
			}
			conn, err := recv.Accept()
			if err != nil {
				t.Fatal(err)
			}
			gh := sha256.New()
			got := 0
			rb := make([]byte, 1+rng.Intn(5000))
			for {
				r, err := conn.Read(rb)
				gh.Write(rb[:r])
				got += r
				if err != nil {
					if !errors.Is(err, ErrBrokenStream) {
						t.Fatalf("read: %v", err)
					}
					break
				}
			}
			wg.Wait()
			if got != total || !bytes.Equal(gh.Sum(nil), want) {
				t.Fatalf("method %d iter %d: got %d bytes want %d, hash equal %v", method, it, got, total, bytes.Equal(gh.Sum(nil), want))
			}
		}
	}
}

// End to end over several real loopback TCP connections wrapped like the TLS transport does (one record per message):
// the sender's uniformSpread strategy spreads the frames of one ordered stream over all connections, so they arrive
// out of order for real, the closing frame included.
type redC02RecordConn struct {
	net.Conn
	wm sync.Mutex
}

func (c *redC02RecordConn) Write(b []byte) (int, error) {
	c.wm.Lock()
	defer c.wm.Unlock()
	hdr := []byte{byte(len(b) >> 8), byte(len(b))}
	if _, err := c.Conn.Write(append(hdr, b...)); err != nil {
		return 0, err
	}
	return len(b), nil
}
func (c *redC02RecordConn) Read(b []byte) (int, error) {
	var hdr [2]byte
	if _, err := io.ReadFull(c.Conn, hdr[:]); err != nil {
		return 0, err
	}
	l := int(hdr[0])<<8 | int(hdr[1])
	return io.ReadFull(c.Conn, b[:l])
}

func redC02Pair(t testing.TB, method byte, unordered bool, nconn int) (*Session, *Session) {
	var key [32]byte
	rand.Read(key[:])
	o1, _ := MakeObfuscator(method, key)
	o2, _ := MakeObfuscator(method, key)
	a := MakeSession(1, SessionConfig{Obfuscator: o1, Unordered: unordered, InactivityTimeout: time.Hour})
	b := MakeSession(1, SessionConfig{Obfuscator: o2, Unordered: unordered, InactivityTimeout: time.Hour})
	l, err := net.Listen("tcp", "127.0.0.1:0")
	if err != nil {
		t.Fatal(err)
	}
	defer l.Close()
	for i := 0; i < nconn; i++ {
		c, err := net.Dial("tcp", l.Addr().String())
		if err != nil {
			t.Fatal(err)
		}
		s, err := l.Accept()
		if err != nil {
			t.Fatal(err)
		}
		a.AddConnection(&redC02RecordConn{Conn: c})
		b.AddConnection(&redC02RecordConn{Conn: s})
	}
	return a, b
}

func TestRedC02EndToEndLoopback(t *testing.T) {
	for _, method := range []byte{EncryptionMethodPlain, EncryptionMethodAES256GCM} {
		a, b := redC02Pair(t, method, false, 8)
		const streams = 6
		var wg sync.WaitGroup
		for s := 0; s < streams; s++ {
			wg.Add(2)
			st, err := a.OpenStream()
			if err != nil {
				t.Fatal(err)
			}
			seed := int64(s + 1)
			size := 3_000_000 + s*100_001
			go func() {
				defer wg.Done()
				rng := rand.New(rand.NewSource(seed))
				data := make([]byte, size)
				rng.Read(data)
				for off := 0; off < size; {
					l := 1 + rng.Intn(40000)
					if off+l > size {
						l = size - off
					}
					if _, err := st.Write(data[off : off+l]); err != nil {
						t.Errorf("write: %v", err)
						return
					}
					off += l
				}
				st.Close()
			}()
			go func() {
				defer wg.Done()
				conn, err := b.Accept()
				if err != nil {
					t.Errorf("accept: %v", err)
					return
				}
				var got bytes.Buffer
				rb := make([]byte, 10000)
				for {
					r, err := conn.Read(rb)
					got.Write(rb[:r])
					if err != nil {
						break
					}
				}
				// which stream is it? match by length
				g := got.Bytes()
				idx := (len(g) - 3_000_000) / 100_001
				if idx < 0 || idx >= streams || 3_000_000+idx*100_001 != len(g) {
					t.Errorf("received %d bytes: not the length of any stream sent", len(g))
					return
				}
				rng := rand.New(rand.NewSource(int64(idx + 1)))
				want := make([]byte, len(g))
				rng.Read(want)
				if !bytes.Equal(g, want) {
					t.Errorf("stream %d: content differs", idx)
				}
			}()
		}
		wg.Wait()
		a.Close()
		b.Close()
	}
}

// OBSERVATION (outside the text of C02, whose frames are numbered 0..n-1 and whose quantifier asks for numbers NEAR
// 2^64, not across it): the reorder buffer compares sequence numbers as plain uint64, so a stream whose numbering
// crosses 2^64 breaks - a frame numbered 0 that arrives while 2^64-1 is outstanding is refused as "smaller than
// nextRecvSeq" and lost. Run with -run TestRedC02ObservationWrap -v to see it; it is skipped unless RED_OBS is set.
func TestRedC02ObservationWrap(t *testing.T) {
	sesh := redC02Session(t, EncryptionMethodPlain)
	base := ^uint64(0) - 1 // frames 2^64-2, 2^64-1, 0, 1
	st := redC02Stream(t, sesh, base)
	payloads := [][]byte{[]byte("a"), []byte("b"), []byte("c"), []byte("d")}
	err := redC02Run(st, base, payloads, -1, []int{2, 0, 1, 3}, 0, st.recvFrame, 8)
	if err == nil {
		t.Log("wrap handled")
		return
	}
	t.Logf("observation only: numbering across 2^64 is not reassembled: %v", err)
}
