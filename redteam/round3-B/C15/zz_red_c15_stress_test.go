package server

import (
	"net"
	"os"
	"sync"
	"testing"
	"time"
)

// C15/C17 stress through dispatchConnection: simultaneous handshakes for several (UID, session id) pairs, with the
// previous round's sessions (including each user's last) being closed at the same time and usage uploads running.
// Checks at the end of every round, for every handshake that was answered and whose connection is still open:
//   - one key per (UID, session id)
//   - at most cap distinct sessions per user
//   - the session is owned by the user's record in panel.activeUsers
func TestRedC15_Stress(t *testing.T) {
	env := redNewEnv(t)
	const nUsers, cap, nSids, nConns = 3, 2, 3, 3
	rounds := 25
	if os.Getenv("RED_ROUNDS") != "" {
		rounds = 200
	}
	var uids [][]byte
	for i := 0; i < nUsers; i++ {
		uids = append(uids, env.addUser(t, cap, 1<<40, 1<<40))
	}
	stop := make(chan struct{})
	var bg sync.WaitGroup
	for i := 0; i < 2; i++ {
		bg.Add(1)
		go func() {
			defer bg.Done()
			for {
				select {
				case <-stop:
					return
				default:
				}
				env.sta.Panel.updateUsageQueue()
				env.sta.Panel.commitUpdate()
				time.Sleep(time.Millisecond)
			}
		}()
	}

	type result struct {
		user int
		sid  uint32
		key  [32]byte
		conn net.Conn
		ok   bool
	}
	var prev []result
	sidBase := uint32(1)
	for r := 0; r < rounds; r++ {
		var wg sync.WaitGroup
		results := make([]result, nUsers*nSids*nConns)
		// close the previous round's connections while the new handshakes arrive
		wg.Add(1)
		go func(prev []result) {
			defer wg.Done()
			for _, p := range prev {
				p.conn.Close()
			}
		}(prev)
		idx := 0
		for u := 0; u < nUsers; u++ {
			for s := 0; s < nSids; s++ {
				for c := 0; c < nConns; c++ {
					wg.Add(1)
					go func(i, u int, sid uint32) {
						defer wg.Done()
						conn, _ := redDispatch(env.sta)
						conn.SetDeadline(time.Now().Add(400 * time.Millisecond))
						key, err := redTLSHandshake(conn, env.pub, redAuth{uid: uids[u], method: "shadowsocks", ts: time.Now().Unix(), sessionID: sid})
						results[i] = result{user: u, sid: sid, key: key, conn: conn, ok: err == nil}
					}(idx, u, sidBase+uint32(s))
					idx++
				}
			}
		}
		wg.Wait()
		time.Sleep(20 * time.Millisecond)
		// which answered connections are still open?
		for i := range results {
			if !results[i].ok {
				continue
			}
			results[i].conn.SetReadDeadline(time.Now().Add(5 * time.Millisecond))
			_, err := results[i].conn.Read(make([]byte, 1))
			if ne, isNet := err.(net.Error); !(isNet && ne.Timeout()) {
				results[i].ok = false
			}
			results[i].conn.SetDeadline(time.Time{})
		}
		for u := 0; u < nUsers; u++ {
			keysBySid := map[uint32]map[[32]byte]int{}
			distinct := map[[32]byte]bool{}
			for _, res := range results {
				if res.user != u || !res.ok {
					continue
				}
				if keysBySid[res.sid] == nil {
					keysBySid[res.sid] = map[[32]byte]int{}
				}
				keysBySid[res.sid][res.key]++
				distinct[res.key] = true
			}
			for sid, ks := range keysBySid {
				if len(ks) > 1 {
					t.Errorf("round %d user %d sid %d: %d different keys among live connections", r, u, sid, len(ks))
				}
			}
			if len(distinct) > cap {
				t.Errorf("round %d user %d: %d concurrent sessions with live connections, cap %d", r, u, len(distinct), cap)
			}
			rec := redUserRecord(env.sta, uids[u])
			for k := range distinct {
				owned := false
				if rec != nil {
					rec.sessionsM.RLock()
					for _, s := range rec.sessions {
						if s.GetSessionKey() == k && !s.IsClosed() {
							owned = true
						}
					}
					rec.sessionsM.RUnlock()
				}
				if !owned {
					t.Errorf("round %d user %d: a session with live connections is not owned by the user's active record (record=%v)", r, u, rec != nil)
				}
			}
			if len(distinct) == 0 {
				t.Logf("round %d user %d: no session admitted", r, u)
			}
		}
		prev = prev[:0]
		for _, res := range results {
			prev = append(prev, res)
		}
		sidBase += nSids
		if t.Failed() {
			break
		}
	}
	for _, p := range prev {
		p.conn.Close()
	}
	close(stop)
	bg.Wait()
	// quiescence: every record must go away
	dl := time.Now().Add(3 * time.Second)
	for time.Now().Before(dl) {
		env.sta.Panel.activeUsersM.RLock()
		n := len(env.sta.Panel.activeUsers)
		env.sta.Panel.activeUsersM.RUnlock()
		if n == 0 {
			return
		}
		time.Sleep(10 * time.Millisecond)
	}
	for u := range uids {
		if rec := redUserRecord(env.sta, uids[u]); rec != nil {
			t.Errorf("user %d still has an active record with %d sessions after all connections were closed", u, rec.NumSession())
		}
	}
}
