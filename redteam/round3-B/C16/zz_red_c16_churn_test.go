package server

import (
	"io"
	"sync"
	"testing"
	"time"

	"github.com/cbeuw/Cloak/internal/common"
	mux "github.com/cbeuw/Cloak/internal/multiplex"
)

// C16 conservation under churn: one limited user opens a session, carries a known volume up and (echoed) down,
// closes it - always its LAST session - and immediately opens the next one, while two upload loops run. At the end
// stored credit must equal initial credit minus the volume carried (plus framing overhead, a few per cent).
func TestRedC16_ChurnConservation(t *testing.T) {
	env := redNewEnv(t)
	env.proxy.echo = true
	const initial = int64(1) << 40
	uid := env.addUser(t, 3, initial, initial)
	stop := make(chan struct{})
	var bg sync.WaitGroup
	for i := 0; i < 2; i++ {
		bg.Add(1)
		go func() {
			defer bg.Done()
			for {
				select {
				case <-stop:
					return
				default:
				}
				env.sta.Panel.updateUsageQueue()
				env.sta.Panel.commitUpdate()
				time.Sleep(500 * time.Microsecond)
			}
		}()
	}
	const per = 60000
	var carried int64
	var prev net_conn
	for i := 0; i < 60; i++ {
		c, _ := redDispatch(env.sta)
		if prev != nil {
			go prev.Close() // the previous (last) session goes away while the new handshake arrives
		}
		c.SetDeadline(time.Now().Add(2 * time.Second))
		key, err := redTLSHandshake(c, env.pub, redAuth{uid: uid, method: "shadowsocks", ts: time.Now().Unix(), sessionID: uint32(100 + i)})
		if err != nil {
			t.Logf("iteration %d: handshake refused/failed: %v", i, err)
			prev = c
			continue
		}
		c.SetDeadline(time.Time{})
		obfs, _ := mux.MakeObfuscator(0, key)
		cs := mux.MakeSession(uint32(100+i), mux.SessionConfig{Obfuscator: obfs, MsgOnWireSizeLimit: appDataMaxLength})
		cs.AddConnection(common.NewTLSConn(c))
		st, err := cs.OpenStream()
		if err != nil {
			t.Fatal(err)
		}
		go func() {
			payload := make([]byte, 10000)
			for j := 0; j < per/len(payload); j++ {
				st.Write(payload)
			}
		}()
		st.SetReadDeadline(time.Now().Add(5 * time.Second))
		n, err := io.ReadFull(st, make([]byte, per))
		if err != nil {
			t.Logf("iteration %d: only %d bytes echoed: %v", i, n, err)
		}
		carried += int64(n)
		prev = c
	}
	if prev != nil {
		prev.Close()
	}
	// quiescence
	dl := time.Now().Add(3 * time.Second)
	for time.Now().Before(dl) && redUserRecord(env.sta, uid) != nil {
		time.Sleep(10 * time.Millisecond)
	}
	close(stop)
	bg.Wait()
	env.sta.Panel.updateUsageQueue()
	env.sta.Panel.commitUpdate()
	info, _ := env.mgr.GetUserInfo(uid)
	up, down := initial-*info.UpCredit, initial-*info.DownCredit
	t.Logf("carried %d each way; charged up %d, down %d", carried, up, down)
	for name, v := range map[string]int64{"upload": up, "download": down} {
		if v < carried {
			t.Errorf("%s: charged %d < carried %d: usage lost", name, v, carried)
		}
		if v > carried+carried/10 {
			t.Errorf("%s: charged %d for %d carried: charged more than once?", name, v, carried)
		}
	}
}

type net_conn interface{ Close() error }
