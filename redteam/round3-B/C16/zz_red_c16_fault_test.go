package server

import (
	"errors"
	"sync/atomic"
	"testing"
	"time"

	"github.com/cbeuw/Cloak/internal/common"
	mux "github.com/cbeuw/Cloak/internal/multiplex"
	"github.com/cbeuw/Cloak/internal/server/usermanager"
)

// redFlakyManager is the real localManager whose UploadStatus fails the first failN times (a failed bolt commit:
// disk full, I/O error; or any remote UserManager). Nothing is written by a failed call.
type redFlakyManager struct {
	usermanager.UserManager
	failN int32
}

func (m *redFlakyManager) UploadStatus(u []usermanager.StatusUpdate) ([]usermanager.StatusResponse, error) {
	if atomic.AddInt32(&m.failN, -1) >= 0 {
		return nil, errors.New("injected: usage upload failed")
	}
	return m.UserManager.UploadStatus(u)
}

// C16: "exactly once while the user stays active: once traffic has stopped and a usage upload has completed, stored
// credit equals initial credit minus the volume carried".
// commitUpdate empties usageUpdateQueue BEFORE it calls Manager.UploadStatus and drops the statuses when that call
// fails; the valves were already zeroed by updateUsageQueue. The usage of that round is charged zero times, for
// every active user, and no later (successful) upload makes up for it.
func redC16Run(t *testing.T, failures int32) (charged int64, carried int64) {
	env := redNewEnv(t)
	const initial = int64(1) << 30
	uid := env.addUser(t, 2, initial, initial)
	env.sta.Panel.Manager = &redFlakyManager{UserManager: env.mgr, failN: failures}

	c, _ := redDispatch(env.sta)
	key, err := redTLSHandshake(c, env.pub, redAuth{uid: uid, method: "shadowsocks", ts: time.Now().Unix(), sessionID: 1})
	if err != nil {
		t.Fatal(err)
	}
	obfs, _ := mux.MakeObfuscator(0, key)
	cs := mux.MakeSession(1, mux.SessionConfig{Obfuscator: obfs, MsgOnWireSizeLimit: appDataMaxLength})
	cs.AddConnection(common.NewTLSConn(c))
	st, err := cs.OpenStream()
	if err != nil {
		t.Fatal(err)
	}
	carried = 200000
	payload := make([]byte, 10000)
	for i := 0; i < int(carried)/len(payload); i++ {
		if _, err := st.Write(payload); err != nil {
			t.Fatal(err)
		}
	}
	dl := time.Now().Add(5 * time.Second)
	for time.Now().Before(dl) && env.proxy.received() < carried {
		time.Sleep(10 * time.Millisecond)
	}
	if env.proxy.received() < carried {
		t.Fatalf("only %d bytes reached the proxy", env.proxy.received())
	}
	// traffic has stopped; the user stays active (its session is open). Upload rounds, as regularQueueUpload runs them
	for round := int32(0); round <= failures; round++ {
		env.sta.Panel.updateUsageQueue()
		err := env.sta.Panel.commitUpdate()
		t.Logf("upload round %d: err=%v", round+1, err)
	}
	if redUserRecord(env.sta, uid) == nil {
		t.Fatal("user no longer active")
	}
	info, err := env.mgr.GetUserInfo(uid)
	if err != nil {
		t.Fatal(err)
	}
	return initial - *info.UpCredit, carried
}

func TestRedC16_Control(t *testing.T) {
	charged, carried := redC16Run(t, 0)
	if charged < carried {
		t.Fatalf("control: charged %d for %d bytes carried", charged, carried)
	}
	t.Logf("charged %d for %d payload bytes carried (frame/record overhead included)", charged, carried)
}

func TestRedC16_FailedUploadLosesUsage(t *testing.T) {
	charged, carried := redC16Run(t, 1)
	if charged < carried {
		t.Errorf("a usage upload has completed after the traffic stopped and the user stayed active, yet upload credit "+
			"was reduced by %d for %d bytes carried: the usage of the failed round was dropped", charged, carried)
	}
}
