package server

import (
	"bytes"
	"encoding/base64"
	"testing"
	"time"

	"github.com/cbeuw/Cloak/internal/common"
)

// C07, literal reading of "is unmodified ... for every single-bit modification of a valid first packet":
// X25519 ignores the most significant bit of the peer's public value and only the first 12 bytes of that value are
// used as AES-GCM nonce, so a packet whose ephemeral public key (TLS: client random, WS: first 32 bytes of "hidden")
// has bit 255 flipped decrypts to the same ClientInfo and is accepted as a Cloak handshake. Fix 3194d27 made the
// replay cache treat both forms as one, i.e. the flipped copy of an ALREADY SEEN packet is refused; the flipped form
// of a packet the server has not seen (modified in flight) is accepted.
func TestRedC07_Bit255(t *testing.T) {
	for _, tr := range []string{"TLS", "WebSocket"} {
		env := redNewEnv(t)
		uid := env.addUser(t, 2, 1<<30, 1<<30)
		randPub, ct, _ := redPayload(env.pub, redAuth{uid: uid, method: "shadowsocks", ts: time.Now().Unix(), sessionID: 3})
		randPub[31] ^= 0x80 // the single-bit modification; the server never sees the original
		var err error
		var ci ClientInfo
		if tr == "TLS" {
			ci, _, err = AuthFirstPacket(redClientHello(randPub, ct), TLS{}, env.sta)
		} else {
			ci, _, err = AuthFirstPacket(redWSRequest(randPub, ct, true), WebSocket{}, env.sta)
		}
		if err == nil {
			t.Errorf("%s: first packet with one bit of the authentication payload modified is accepted as a Cloak handshake (UID match=%v, session id %d)",
				tr, bytes.Equal(ci.UID, uid), ci.SessionId)
		}
	}
}

// C07: the admin UID with session id 0 is taken as a Cloak client (admin session) whatever proxy method it names
func TestRedC07_AdminUnknownProxyMethod(t *testing.T) {
	env := redNewEnv(t)
	c, _ := redDispatch(env.sta)
	c.SetDeadline(time.Now().Add(time.Second))
	_, err := redTLSHandshake(c, env.pub, redAuth{uid: env.adminUID, method: "nosuchmethod", ts: time.Now().Unix(), sessionID: 0})
	if err == nil {
		t.Errorf("admin UID, session id 0, proxy method the server does not serve: accepted as a Cloak handshake (redirect dialled %d times)", env.redir.count())
	}
}

// C07: window edges, server clock with and without a fractional part (NONE FOUND: all inside |offset| < 180 s)
func TestRedC07_WindowEdges(t *testing.T) {
	env := redNewEnv(t)
	uid := env.addUser(t, 2, 1<<30, 1<<30)
	base := time.Unix(1_800_000_000, 0)
	for _, frac := range []time.Duration{0, 1, 500 * time.Millisecond, 999999999} {
		serverNow := base.Add(frac)
		env.sta.WorldState = common.WorldOfTime(serverNow)
		for off := int64(-182); off <= 182; off++ {
			if off > -178 && off < 178 {
				continue
			}
			ts := base.Unix() + off
			randPub, ct, _ := redPayload(env.pub, redAuth{uid: uid, method: "shadowsocks", ts: ts, sessionID: 3})
			_, _, err := AuthFirstPacket(redClientHello(randPub, ct), TLS{}, env.sta)
			d := time.Unix(ts, 0).Sub(serverNow)
			if d < 0 {
				d = -d
			}
			strictlyInside := d < 180*time.Second
			if (err == nil) != strictlyInside {
				t.Errorf("server frac %v offset %d: |client-server|=%v accepted=%v", frac, off, d, err == nil)
			}
		}
	}
	// far-away and wrapping timestamps
	env.sta.WorldState = common.WorldOfTime(base)
	for _, ts := range []int64{0, -1, 1<<63 - 1, -1 << 63, base.Unix() + 1<<32, base.Unix() - 1<<32, -62135596800 + base.Unix()} {
		randPub, ct, _ := redPayload(env.pub, redAuth{uid: uid, method: "shadowsocks", ts: ts, sessionID: 3})
		if _, _, err := AuthFirstPacket(redClientHello(randPub, ct), TLS{}, env.sta); err == nil {
			t.Errorf("timestamp %d accepted", ts)
		}
	}
	_ = base64.StdEncoding
}
