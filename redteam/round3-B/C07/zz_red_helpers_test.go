package server

// Helpers shared by the zz_red_* demonstrations: a server State backed by a real localManager in a temporary
// directory, hand-made first packets for both transports, dialers that record what the dispatcher does.

import (
	"crypto"
	"crypto/rand"
	"encoding/base64"
	"encoding/binary"
	"net"
	"path/filepath"
	"sync"
	"testing"
	"time"

	"github.com/cbeuw/Cloak/internal/common"
	"github.com/cbeuw/Cloak/internal/ecdh"
	"github.com/cbeuw/Cloak/internal/server/usermanager"
)

type redDialer struct {
	mu    sync.Mutex
	dials int
	bytes int64
	echo  bool // write back whatever arrives
	conns []net.Conn // our end of each dialled pipe
}

func (d *redDialer) received() int64 {
	d.mu.Lock()
	defer d.mu.Unlock()
	return d.bytes
}

func (d *redDialer) Dial(network, address string) (net.Conn, error) {
	a, b := net.Pipe()
	d.mu.Lock()
	d.dials++
	d.conns = append(d.conns, b)
	d.mu.Unlock()
	// swallow whatever is written to the far end so that writers never block
	go func() {
		buf := make([]byte, 4096)
		for {
			n, err := b.Read(buf)
			d.mu.Lock()
			d.bytes += int64(n)
			echo := d.echo
			d.mu.Unlock()
			if echo && n > 0 {
				if _, werr := b.Write(buf[:n]); werr != nil {
					return
				}
			}
			if err != nil {
				return
			}
		}
	}()
	return a, nil
}

func (d *redDialer) count() int {
	d.mu.Lock()
	defer d.mu.Unlock()
	return d.dials
}

type redEnv struct {
	sta      *State
	pub      crypto.PublicKey
	adminUID []byte
	redir    *redDialer
	proxy    *redDialer
	mgr      usermanager.UserManager
}

func redNewEnv(t *testing.T) *redEnv {
	t.Helper()
	pv, pub, err := ecdh.GenerateKey(rand.Reader)
	if err != nil {
		t.Fatal(err)
	}
	pvBytes := pv.(*[32]byte)
	adminUID := make([]byte, 16)
	rand.Read(adminUID)
	raw := RawConfig{
		ProxyBook:    map[string][]string{"shadowsocks": {"tcp", "127.0.0.1:1"}},
		BindAddr:     []string{"127.0.0.1:0"},
		RedirAddr:    "127.0.0.1",
		PrivateKey:   pvBytes[:],
		AdminUID:     adminUID,
		DatabasePath: filepath.Join(t.TempDir(), "userinfo.db"),
	}
	sta, err := InitState(raw, common.RealWorldState)
	if err != nil {
		t.Fatal(err)
	}
	env := &redEnv{sta: sta, pub: pub, adminUID: adminUID, redir: &redDialer{}, proxy: &redDialer{}, mgr: sta.Panel.Manager}
	sta.RedirDialer = env.redir
	sta.ProxyDialer = env.proxy
	sta.RedirPort = "80"
	return env
}

func i64(v int64) *int64 { return &v }
func i32(v int32) *int32 { return &v }

func (e *redEnv) addUser(t *testing.T, cap int32, up, down int64) []byte {
	t.Helper()
	uid := make([]byte, 16)
	rand.Read(uid)
	err := e.mgr.WriteUserInfo(usermanager.UserInfo{
		UID:         uid,
		SessionsCap: i32(cap),
		UpRate:      i64(1 << 30),
		DownRate:    i64(1 << 30),
		UpCredit:    i64(up),
		DownCredit:  i64(down),
		ExpiryTime:  i64(time.Now().Add(24 * time.Hour).Unix()),
	})
	if err != nil {
		t.Fatal(err)
	}
	return uid
}

type redAuth struct {
	uid       []byte
	method    string
	encMethod byte
	ts        int64
	sessionID uint32
}

// redPayload does what client.makeAuthenticationPayload does
func redPayload(serverPub crypto.PublicKey, a redAuth) (randPub [32]byte, ct [64]byte, shared [32]byte) {
	ephPv, ephPub, err := ecdh.GenerateKey(rand.Reader)
	if err != nil {
		panic(err)
	}
	copy(randPub[:], ecdh.Marshal(ephPub))
	plaintext := make([]byte, 48)
	copy(plaintext, a.uid)
	copy(plaintext[16:28], a.method)
	plaintext[28] = a.encMethod
	binary.BigEndian.PutUint64(plaintext[29:37], uint64(a.ts))
	binary.BigEndian.PutUint32(plaintext[37:41], a.sessionID)
	secret, err := ecdh.GenerateSharedSecret(ephPv, serverPub)
	if err != nil {
		panic(err)
	}
	copy(shared[:], secret)
	c, _ := common.AESGCMEncrypt(randPub[:12], shared[:], plaintext)
	copy(ct[:], c)
	return
}

// redClientHello builds a minimal TLS ClientHello record carrying the payload the way the Cloak client does:
// random = ephemeral public key, session id = ciphertext[0:32], x25519 key share = ciphertext[32:64]
func redClientHello(randPub [32]byte, ct [64]byte) []byte {
	var body []byte
	body = append(body, 0x03, 0x03)
	body = append(body, randPub[:]...)
	body = append(body, 0x20)
	body = append(body, ct[0:32]...)
	body = append(body, 0x00, 0x02, 0x13, 0x02)
	body = append(body, 0x01, 0x00)
	ks := []byte{0x00, 0x24, 0x00, 0x1d, 0x00, 0x20}
	ks = append(ks, ct[32:64]...)
	ext := []byte{0x00, 0x33, 0x00, byte(len(ks))}
	ext = append(ext, ks...)
	body = append(body, byte(len(ext)>>8), byte(len(ext)))
	body = append(body, ext...)
	hs := []byte{0x01, byte(len(body) >> 16), byte(len(body) >> 8), byte(len(body))}
	hs = append(hs, body...)
	rec := []byte{0x16, 0x03, 0x01, byte(len(hs) >> 8), byte(len(hs))}
	return append(rec, hs...)
}

// redWSRequest builds the GET that reaches the server in CDN mode. upgradeable=false leaves out the
// Sec-WebSocket-Key header: the authentication payload is intact, the request just is not a valid WebSocket upgrade
func redWSRequest(randPub [32]byte, ct [64]byte, upgradeable bool) []byte {
	hidden := base64.StdEncoding.EncodeToString(append(randPub[:], ct[:]...))
	s := "GET / HTTP/1.1\r\nHost: example.com\r\nUser-Agent: Go-http-client/1.1\r\nConnection: Upgrade\r\nHidden: " + hidden + "\r\n"
	if upgradeable {
		s += "Sec-WebSocket-Key: lJYh7X8DRXW1U0h9WKwVMA==\r\n"
	}
	s += "Sec-WebSocket-Version: 13\r\nUpgrade: websocket\r\n\r\n"
	return []byte(s)
}

// redDispatch runs dispatchConnection on the server end of a pipe; done is closed when it returns
func redDispatch(sta *State) (clientEnd net.Conn, done chan struct{}) {
	c, s := net.Pipe()
	done = make(chan struct{})
	go func() {
		dispatchConnection(s, sta)
		close(done)
	}()
	return c, done
}

// redDrain keeps reading a connection so that the other side never blocks on a write
func redDrain(c net.Conn) {
	go func() {
		buf := make([]byte, 65536)
		for {
			if _, err := c.Read(buf); err != nil {
				return
			}
		}
	}()
}

func redUserRecord(sta *State, uid []byte) *ActiveUser {
	var arr [16]byte
	copy(arr[:], uid)
	sta.Panel.activeUsersM.RLock()
	defer sta.Panel.activeUsersM.RUnlock()
	return sta.Panel.activeUsers[arr]
}

// redTLSHandshake plays the client side of the TLS-transport handshake on c and returns the session key
func redTLSHandshake(c net.Conn, serverPub crypto.PublicKey, a redAuth) (sessionKey [32]byte, err error) {
	randPub, ct, shared := redPayload(serverPub, a)
	if _, err = c.Write(redClientHello(randPub, ct)); err != nil {
		return
	}
	tc := common.NewTLSConn(c)
	buf := make([]byte, 1024)
	if _, err = tc.Read(buf); err != nil {
		return
	}
	encrypted := append(append([]byte{}, buf[6:38]...), buf[84:116]...)
	var key []byte
	key, err = common.AESGCMDecrypt(encrypted[0:12], shared[:], encrypted[12:60])
	if err != nil {
		return
	}
	copy(sessionKey[:], key)
	for i := 0; i < 2; i++ {
		if _, err = tc.Read(buf); err != nil {
			return
		}
	}
	return
}
