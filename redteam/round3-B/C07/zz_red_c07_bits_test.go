package server

import (
	"bytes"
	"testing"
	"time"
)

// C07 sweep: every single-bit modification of a valid first packet, both transports. Lists which ones are still
// accepted by AuthFirstPacket and where they are.
func TestRedC07_SingleBitSweepTLS(t *testing.T) {
	env := redNewEnv(t)
	uid := env.addUser(t, 2, 1<<30, 1<<30)
	randPub, ct, _ := redPayload(env.pub, redAuth{uid: uid, method: "shadowsocks", ts: time.Now().Unix(), sessionID: 3})
	pkt := redClientHello(randPub, ct)
	if _, _, err := AuthFirstPacket(pkt, TLS{}, env.sta); err != nil {
		t.Fatalf("unmodified packet refused: %v", err)
	}
	randOff := bytes.Index(pkt, randPub[:])
	sidOff := bytes.Index(pkt, ct[0:32])
	ksOff := bytes.Index(pkt, ct[32:64])
	inPayload := func(i int) bool {
		return (i >= randOff && i < randOff+32) || (i >= sidOff && i < sidOff+32) || (i >= ksOff && i < ksOff+32)
	}
	acceptedInPayload := 0
	for i := 0; i < len(pkt); i++ {
		for b := 0; b < 8; b++ {
			env.sta.usedRandomM.Lock()
			env.sta.UsedRandom = map[[32]byte]int64{}
			env.sta.usedRandomM.Unlock()
			mod := append([]byte{}, pkt...)
			mod[i] ^= 1 << b
			ci, _, err := AuthFirstPacket(mod, TLS{}, env.sta)
			if err == nil {
				if inPayload(i) {
					acceptedInPayload++
					t.Errorf("TLS: flipping bit %d of byte %d (inside the authentication payload, offset %d of the client random) is still accepted: uid ok=%v sid=%d",
						b, i, i-randOff, bytes.Equal(ci.UID, uid), ci.SessionId)
				} else {
					t.Logf("TLS: flipping bit %d of byte %d (outside the payload) accepted", b, i)
				}
			}
		}
	}
}

func TestRedC07_SingleBitSweepWS(t *testing.T) {
	env := redNewEnv(t)
	uid := env.addUser(t, 2, 1<<30, 1<<30)
	randPub, ct, _ := redPayload(env.pub, redAuth{uid: uid, method: "shadowsocks", ts: time.Now().Unix(), sessionID: 3})
	pkt := redWSRequest(randPub, ct, true)
	if _, _, err := AuthFirstPacket(pkt, WebSocket{}, env.sta); err != nil {
		t.Fatalf("unmodified packet refused: %v", err)
	}
	hOff := bytes.Index(pkt, []byte("Hidden: ")) + 8
	for i := hOff; i < hOff+128; i++ {
		for b := 0; b < 8; b++ {
			env.sta.usedRandomM.Lock()
			env.sta.UsedRandom = map[[32]byte]int64{}
			env.sta.usedRandomM.Unlock()
			mod := append([]byte{}, pkt...)
			mod[i] ^= 1 << b
			_, _, err := AuthFirstPacket(mod, WebSocket{}, env.sta)
			if err == nil {
				t.Errorf("WS: flipping bit %d of base64 char %d of the hidden header is still accepted (%q -> %q)", b, i-hOff, pkt[i], mod[i])
			}
		}
	}
	// appended garbage after the 128 valid characters
	mod := bytes.Replace(pkt, []byte("\r\nSec-WebSocket-Key"), []byte("!!!!\r\nSec-WebSocket-Key"), 1)
	env.sta.UsedRandom = map[[32]byte]int64{}
	if _, _, err := AuthFirstPacket(mod, WebSocket{}, env.sta); err == nil {
		t.Logf("WS: hidden header with invalid base64 appended is accepted (decode error ignored)")
	}
}
