package server

import (
	"runtime"
	"strings"
	"syscall"
	"testing"
	"time"

	"github.com/cbeuw/Cloak/internal/server/usermanager"
)

func redCPU() time.Duration {
	var ru syscall.Rusage
	syscall.Getrusage(syscall.RUSAGE_SELF, &ru)
	return time.Duration(ru.Utime.Nano() + ru.Stime.Nano())
}

// C17, consequence of fix 4ef435e/a331b4f (retired flag + "goto retry" in dispatchConnection).
//
// The retry is a pure busy loop: GetUser returns the record that is still in activeUsers, GetSession answers
// errUserRetired, goto retry - no wait, no yield, no bound. It ends only when the terminator of that record reaches
// its final delete. Between setting retired (CloseSession / terminateIfEmpty) and that delete the terminator has to
// take usageUpdateQueueM (updateUsageQueueForOne), and commitUpdate holds usageUpdateQueueM while it takes the
// sessionsM of EVERY queued user (user.NumSession()). So the already known stall "Session.Close under sessionsM
// blocks on a peer that does not read" (user V below) now does more than stall V: any OTHER user U whose last
// session closes while an upload round is stuck behind V can never be admitted again, and each of U's connection
// attempts (the client re-dials every few seconds) adds a goroutine that spins at 100% CPU, hammering
// activeUsersM.Lock and U's sessionsM.Lock.
func TestRedC17_RetrySpinsWhileTerminatorWaits(t *testing.T) {
	env := redNewEnv(t)
	panel := env.sta.Panel
	vUID := env.addUser(t, 2, 1<<30, 1<<30)
	uUID := env.addUser(t, 2, 1<<30, 1<<30)

	// V: one session over a connection whose peer stops reading after the handshake
	cv, _ := redDispatch(env.sta)
	if _, err := redTLSHandshake(cv, env.pub, redAuth{uid: vUID, method: "shadowsocks", ts: time.Now().Unix(), sessionID: 1}); err != nil {
		t.Fatal(err)
	}
	// U: one session, healthy
	cu, _ := redDispatch(env.sta)
	if _, err := redTLSHandshake(cu, env.pub, redAuth{uid: uUID, method: "shadowsocks", ts: time.Now().Unix(), sessionID: 1}); err != nil {
		t.Fatal(err)
	}
	waitFor := func(what string, cond func() bool) {
		t.Helper()
		dl := time.Now().Add(3 * time.Second)
		for time.Now().Before(dl) {
			if cond() {
				return
			}
			time.Sleep(5 * time.Millisecond)
		}
		t.Fatalf("timed out waiting for %s", what)
	}
	waitFor("both sessions", func() bool {
		v, u := redUserRecord(env.sta, vUID), redUserRecord(env.sta, uUID)
		return v != nil && u != nil && v.NumSession() == 1 && u.NumSession() == 1
	})

	// V expires; the next usage upload terminates V: closeAllSessions -> Session.Close -> write of the closing frame
	// blocks on V's peer, with V.sessionsM held (the KNOWN finding, used here only as the trigger)
	if err := env.mgr.WriteUserInfo(usermanager.UserInfo{UID: vUID, ExpiryTime: i64(time.Now().Add(-time.Hour).Unix())}); err != nil {
		t.Fatal(err)
	}
	panel.updateUsageQueue()
	go panel.commitUpdate()
	vRec := redUserRecord(env.sta, vUID)
	waitFor("V's termination to hold V.sessionsM", func() bool {
		if vRec.sessionsM.TryRLock() {
			vRec.sessionsM.RUnlock()
			return false
		}
		return true
	})
	// the next upload round gets stuck in commitUpdate at V.NumSession(), holding usageUpdateQueueM
	panel.updateUsageQueue()
	go panel.commitUpdate()
	waitFor("the second round to hold usageUpdateQueueM", func() bool {
		if panel.usageUpdateQueueM.TryLock() {
			panel.usageUpdateQueueM.Unlock()
			return false
		}
		return true
	})

	// U's only session ends (the client goes away): CloseSession retires U's record, TerminateActiveUser(U) waits
	// for usageUpdateQueueM
	uRec := redUserRecord(env.sta, uUID)
	cu.Close()
	waitFor("U's record to be retired", func() bool {
		uRec.sessionsM.RLock()
		defer uRec.sessionsM.RUnlock()
		return uRec.retired
	})

	// U comes back
	cpu0 := redCPU()
	t0 := time.Now()
	cu2, done := redDispatch(env.sta)
	res := make(chan error, 1)
	go func() {
		_, err := redTLSHandshake(cu2, env.pub, redAuth{uid: uUID, method: "shadowsocks", ts: time.Now().Unix(), sessionID: 2})
		res <- err
	}()
	select {
	case err := <-res:
		t.Logf("U's new connection was answered (err=%v)", err)
		return
	case <-done:
		t.Logf("U's new connection was dispatched")
		return
	case <-time.After(2 * time.Second):
	}
	burnt := redCPU() - cpu0
	wall := time.Since(t0)
	buf := make([]byte, 1<<20)
	buf = buf[:runtime.Stack(buf, true)]
	state := "?"
	for _, g := range strings.Split(string(buf), "\n\n") {
		if strings.Contains(g, "server.dispatchConnection(") && (strings.Contains(g, "GetSession") || strings.Contains(g, "GetUser") || strings.Contains(g, "[runnable]") || strings.Contains(g, "[running]")) {
			state = strings.SplitN(g, "\n", 2)[0]
		}
	}
	t.Errorf("admission of user U (whose own sessions and peers are perfectly healthy) neither completes nor refuses: "+
		"after %v it has burnt %v of CPU in the goto-retry loop of dispatchConnection (goroutine: %s)", wall.Round(time.Millisecond), burnt.Round(time.Millisecond), state)
}
