package server

import (
	"net"
	"testing"
	"time"

	"github.com/cbeuw/Cloak/internal/common"
	mux "github.com/cbeuw/Cloak/internal/multiplex"
)

// C17 (and the cap side of C15): a WebSocket-transport first packet with a VALID authentication payload whose
// HTTP request cannot be upgraded (here: no Sec-WebSocket-Key; the same happens when the connection is lost while
// the 101 reply is written). AuthFirstPacket accepts it, GetSession makes and registers a session, then
// finishHandshake (WebSocket.makeResponder) waits on handler.finished, which wsHandshakeHandler.ServeHTTP only
// signals when Upgrade succeeded: connection admission blocks forever and the session it made is never served.
//
// Fix a52ceff handled the case "finishHandshake returns an error"; this is the case "finishHandshake never returns".
const (
	redWSGood       = iota // a well-formed upgrade request, the client reads the replies
	redWSNoKey             // valid authentication payload, but the request lacks Sec-WebSocket-Key
	redWSLostOnReply       // well-formed request, but the connection is lost before the 101 reply could be written
)

func redWSStuck(t *testing.T, mode int) (admissionReturnedOrServing bool, streamServed bool, env *redEnv, uid []byte) {
	env = redNewEnv(t)
	uid = env.addUser(t, 2, 1<<30, 1<<30)
	const sid = 7

	// connection 1: WebSocket transport, makes session 7
	randPub, ct, _ := redPayload(env.pub, redAuth{uid: uid, method: "shadowsocks", encMethod: 0, ts: time.Now().Unix(), sessionID: sid})
	c1, done1 := redDispatch(env.sta)
	if mode != redWSLostOnReply {
		redDrain(c1) // reads the 400 (or the 101 and the reply) so that the server never blocks on a write
	}
	if _, err := c1.Write(redWSRequest(randPub, ct, mode != redWSNoKey)); err != nil {
		t.Fatal(err)
	}
	if mode == redWSLostOnReply {
		// net.Pipe is synchronous: the server is now blocked writing "101 Switching Protocols". Lose the connection
		time.Sleep(200 * time.Millisecond)
		c1.Close()
	}

	// wait until session 7 is registered with the user
	var sesh *mux.Session
	deadline := time.Now().Add(3 * time.Second)
	for time.Now().Before(deadline) {
		if u := redUserRecord(env.sta, uid); u != nil {
			u.sessionsM.RLock()
			sesh = u.sessions[sid]
			u.sessionsM.RUnlock()
			if sesh != nil {
				break
			}
		}
		time.Sleep(5 * time.Millisecond)
	}
	if sesh == nil {
		t.Fatal("session was not registered")
	}

	// connection 2: a perfectly good TLS-transport connection of the same client for the same session
	c2, _ := redDispatch(env.sta)
	key, err := redTLSHandshake(c2, env.pub, redAuth{uid: uid, method: "shadowsocks", encMethod: 0, ts: time.Now().Unix(), sessionID: sid})
	if err != nil {
		t.Fatalf("second connection's handshake failed: %v", err)
	}
	if key != sesh.GetSessionKey() {
		t.Fatal("second connection was not attached to the registered session")
	}
	obfs, _ := mux.MakeObfuscator(0, key)
	cs := mux.MakeSession(sid, mux.SessionConfig{Obfuscator: obfs, MsgOnWireSizeLimit: appDataMaxLength})
	cs.AddConnection(common.NewTLSConn(c2))
	st, err := cs.OpenStream()
	if err != nil {
		t.Fatal(err)
	}
	if _, err := st.Write([]byte("hello proxy")); err != nil {
		t.Fatal(err)
	}

	// a served session accepts the stream and dials the proxy at once
	deadline = time.Now().Add(3 * time.Second)
	for time.Now().Before(deadline) && env.proxy.count() == 0 {
		time.Sleep(10 * time.Millisecond)
	}
	streamServed = env.proxy.count() > 0

	select {
	case <-done1:
		admissionReturnedOrServing = true
	default:
		// still inside dispatchConnection: fine if it is in serveSession (then the stream was served)
		admissionReturnedOrServing = streamServed
	}
	return
}

func TestRedC17_WSControl(t *testing.T) {
	ok, served, _, _ := redWSStuck(t, redWSGood)
	if !ok || !served {
		t.Fatalf("control run broken: admission ok=%v, stream served=%v", ok, served)
	}
}

func TestRedC17_WSHandshakeNeverFinishes(t *testing.T) {
	redWSReport(t, redWSNoKey)
}

// the same without any ill will of the client: the connection that makes the session is lost while the upgrade
// reply is written. The client (internal/client/connector.go) re-dials it with the same session id after 3 s and
// joins the registered session: all its connections are healthy and no stream is ever served
func TestRedC17_WSConnectionLostDuringUpgrade(t *testing.T) {
	redWSReport(t, redWSLostOnReply)
}

func redWSReport(t *testing.T, mode int) {
	ok, served, env, uid := redWSStuck(t, mode)
	if !served {
		t.Errorf("the session made by the first WebSocket connection is registered with the user, a healthy " +
			"connection joined it and opened a stream, but nobody serves it (proxy never dialled)")
	}
	if !ok {
		t.Errorf("dispatchConnection of the first WebSocket connection is blocked forever in finishHandshake")
	}
	u := redUserRecord(env.sta, uid)
	if u != nil {
		t.Logf("user record still active with %d session(s)", u.NumSession())
	}
	_ = net.Pipe
}
