//go:build goexperiment.synctest

package server

// RED / C08: AuthFirstPacket reads the server clock TWICE for one presentation:
//   1. registerRandom stores  t  = Now().Unix()            (replay-cache entry time)
//   2. decryptClientInfo tests T  against a later Now()     (acceptance window)
// The cleaner's retention rule (forget an entry once t < now-2*tolerance) is exactly tight for a
// packet whose window test was made in the same second as t.  When a second boundary falls between
// the two clock reads, a packet whose timestamp leads the server clock by (just under) one tolerance
// is accepted with an entry time one second too early; a clean-up that runs in the last half second
// of that packet's acceptance window forgets it, and a replay presented right after is accepted again.
//
// Everything below runs the UNCHANGED AuthFirstPacket and UsedRandomCleaner under testing/synctest
// (virtual clock).  The only modelling assumption is that 2ms pass between two consecutive clock reads.

import (
	"crypto/rand"
	"encoding/base64"
	"encoding/binary"
	"runtime"
	"sync/atomic"
	"testing"
	"testing/synctest"
	"time"

	"github.com/cbeuw/Cloak/internal/common"
	"github.com/cbeuw/Cloak/internal/ecdh"
)

// redWsPacket builds a valid CDN-transport first packet for the given timestamp
func redWsPacket(t *testing.T, serverPub interface{}, uid []byte, ts int64) []byte {
	ephPv, ephPub, err := ecdh.GenerateKey(rand.Reader)
	if err != nil {
		t.Fatal(err)
	}
	random := ecdh.Marshal(ephPub)
	plaintext := make([]byte, 48)
	copy(plaintext, uid)
	copy(plaintext[16:28], "shadowsocks")
	plaintext[28] = 0
	binary.BigEndian.PutUint64(plaintext[29:37], uint64(ts))
	binary.BigEndian.PutUint32(plaintext[37:41], 0x12345678)
	secret, err := ecdh.GenerateSharedSecret(ephPv, serverPub)
	if err != nil {
		t.Fatal(err)
	}
	ct, err := common.AESGCMEncrypt(random[:12], secret, plaintext)
	if err != nil {
		t.Fatal(err)
	}
	hidden := base64.StdEncoding.EncodeToString(append(append([]byte{}, random...), ct...))
	return []byte("GET / HTTP/1.1\r\nHost: example.com\r\nUpgrade: websocket\r\nConnection: Upgrade\r\n" +
		"Sec-WebSocket-Key: dGhlIHNhbXBsZSBub25jZQ==\r\nSec-WebSocket-Version: 13\r\nhidden: " + hidden + "\r\n\r\n")
}

func redRunTwoClocks(t *testing.T, firstOffset time.Duration, tsLead int64) (firstErr, secondErr error) {
	synctest.Run(func() {
		var done atomic.Bool
		pv, pub, _ := ecdh.GenerateKey(rand.Reader)
		sta := &State{
			StaticPv:   pv,
			UsedRandom: map[[32]byte]int64{},
			WorldState: common.WorldState{
				Rand: rand.Reader,
				// a real clock on which 2ms pass between one read and the next
				Now: func() time.Time {
					if done.Load() {
						runtime.Goexit() // lets the endless cleaner goroutine leave the synctest bubble
					}
					now := time.Now()
					time.Sleep(2 * time.Millisecond)
					return now
				},
			},
		}
		epoch := time.Now() // synctest: 2000-01-01 00:00:00 UTC, a whole second
		if epoch.Nanosecond() != 0 {
			t.Fatalf("unexpected bubble epoch %v", epoch)
		}

		// the periodic clean-up is started half a second into a second: it runs at epoch+12h+0.5s
		time.Sleep(500 * time.Millisecond)
		go sta.UsedRandomCleaner()

		x := epoch.Add(replayCacheAgeLimit - 2*timestampTolerance) // a whole second; clean-up is at x+360.5s
		T := x.Unix() + tsLead
		pkt := redWsPacket(t, pub, []byte("0123456789abcdef"), T)

		time.Sleep(time.Until(x.Add(firstOffset)))
		t.Logf("1st presentation at x+%v, packet timestamp x+%ds", time.Since(x), tsLead)
		_, _, firstErr = AuthFirstPacket(pkt, WebSocket{}, sta)

		time.Sleep(time.Until(x.Add(360600 * time.Millisecond))) // the clean-up ran 100ms ago
		t.Logf("2nd presentation at x+%v (window of the packet ends at x+%ds)", time.Since(x), tsLead+180)
		_, _, secondErr = AuthFirstPacket(pkt, WebSocket{}, sta)

		done.Store(true)
	})
	return
}

func TestRedC08TwoClockReads(t *testing.T) {
	// control: both clock reads of the first presentation fall into the same second (x+0.5s, x+0.502s);
	// the latest timestamp that is still accepted is x+180: the second presentation must be refused
	first, second := redRunTwoClocks(t, 500*time.Millisecond, 180)
	if first != nil {
		t.Fatalf("control: first presentation refused: %v", first)
	}
	if second == nil {
		t.Fatalf("control: second presentation accepted")
	}
	t.Logf("control: second presentation refused: %v", second)

	// a second boundary between the two reads (x+0.999s, x+1.001s): timestamp x+181 is accepted
	// (it leads the server clock by 179.999s < tolerance), the entry is stamped x
	first, second = redRunTwoClocks(t, 999*time.Millisecond, 181)
	if first != nil {
		t.Fatalf("first presentation refused: %v", first)
	}
	if second == nil {
		t.Fatalf("C08 VIOLATION: the same first packet was accepted twice by one running server " +
			"(second time 0.4s before the end of its acceptance window, right after a replay-cache clean-up)")
	}
	t.Logf("second presentation refused: %v", second)
}
