//go:build goexperiment.synctest

package server

// RED / C08, negative result: with ONE clock value per presentation (the clock does not move between the two reads
// inside AuthFirstPacket) no history of presentations and clean-ups gets a packet accepted twice.
// Needs redWsPacket from zz_red_c08_twoclocks_test.go.

import (
	"crypto/rand"
	mrand "math/rand"
	"runtime"
	"sync"
	"sync/atomic"
	"testing"
	"testing/synctest"
	"time"

	"github.com/cbeuw/Cloak/internal/common"
	"github.com/cbeuw/Cloak/internal/ecdh"
)

func TestRedC08Histories(t *testing.T) {
	once, late := 0, 0
	for seed := int64(0); seed < 300; seed++ {
		rng := mrand.New(mrand.NewSource(seed))
		synctest.Run(func() {
			var done atomic.Bool
			pv, pub, _ := ecdh.GenerateKey(rand.Reader)
			sta := &State{StaticPv: pv, UsedRandom: map[[32]byte]int64{}, WorldState: common.WorldState{Rand: rand.Reader,
				Now: func() time.Time {
					if done.Load() {
						runtime.Goexit()
					}
					return time.Now()
				}}}
			epoch := time.Now()
			// clean-up phase: anywhere in a 2-second span, ns resolution; it runs at phase+12h
			phase := time.Duration(rng.Int63n(int64(2 * time.Second)))
			time.Sleep(phase)
			go sta.UsedRandomCleaner()
			cleanAt := epoch.Add(phase + replayCacheAgeLimit)
			// the packet's timestamp T is placed so that the clean-up falls near the end of its window
			T := cleanAt.Add(-180*time.Second + time.Duration(rng.Int63n(int64(4*time.Second))) - 2*time.Second).Unix()
			pkt := redWsPacket(t, pub, []byte("0123456789abcdef"), T)
			// presentations: a few near the start of the window, a few around the clean-up
			var times []time.Time
			for i := 0; i < 3; i++ {
				times = append(times, time.Unix(T, 0).Add(-181*time.Second+time.Duration(rng.Int63n(int64(3*time.Second)))))
			}
			for i := 0; i < 6; i++ {
				times = append(times, cleanAt.Add(time.Duration(rng.Int63n(int64(3*time.Second)))-1500*time.Millisecond))
			}
			accepted := 0
			for _, at := range times {
				if d := time.Until(at); d > 0 {
					time.Sleep(d)
				}
				if _, _, err := AuthFirstPacket(pkt, WebSocket{}, sta); err == nil {
					accepted++
				}
			}
			if accepted == 1 {
				once++
			}
			if len(sta.UsedRandom) == 0 || sta.UsedRandom[func() (k [32]byte) { for k = range sta.UsedRandom {}; return }()] >= cleanAt.Unix() {
				late++
			}
			if accepted > 1 {
				t.Errorf("seed %d: accepted %d times", seed, accepted)
			}
			done.Store(true)
		})
	}
	t.Logf("300 histories: accepted exactly once in %d, presentations after the clean-up re-registered the random in %d", once, late)
}

func TestRedC08Concurrent(t *testing.T) {
	pv, pub, _ := ecdh.GenerateKey(rand.Reader)
	for round := 0; round < 200; round++ {
		sta := &State{StaticPv: pv, UsedRandom: map[[32]byte]int64{}, WorldState: common.RealWorldState}
		pkt := redWsPacket(t, pub, []byte("0123456789abcdef"), time.Now().Unix())
		flipped := append([]byte{}, pkt...) // same packet over the other spelling of the header name
		var wg sync.WaitGroup
		var ok int32
		start := make(chan struct{})
		for i := 0; i < 16; i++ {
			wg.Add(1)
			go func(i int) {
				defer wg.Done()
				<-start
				p := pkt
				if i%2 == 1 {
					p = flipped
				}
				if _, _, err := AuthFirstPacket(p, WebSocket{}, sta); err == nil {
					atomic.AddInt32(&ok, 1)
				}
			}(i)
		}
		close(start)
		wg.Wait()
		if ok != 1 {
			t.Fatalf("round %d: %d of 16 simultaneous presentations accepted", round, ok)
		}
	}
}
