package test

// RED / C07: InitState fills the bypass set through ONE [16]byte scratch variable that is declared
// outside the loop and never cleared:
//
//	var arrUID [16]byte
//	for _, UID := range preParse.BypassUID {
//		copy(arrUID[:], UID)              // a UID shorter than 16 bytes leaves the tail of the PREVIOUS entry
//		sta.BypassUID[arrUID] = struct{}{}
//	}
//
// Nothing in ParseConfig/InitState refuses an entry that is not 16 bytes long (and a short UID that is the
// only/first entry works end to end, because the client zero-pads its UID the same way).  With a short or empty
// entry after a full one, the server authorises a UID that appears nowhere in its configuration.

import (
	"bytes"
	"encoding/json"
	"net"
	"testing"
	"time"

	"github.com/cbeuw/Cloak/internal/client"
	"github.com/cbeuw/Cloak/internal/common"
	"github.com/cbeuw/Cloak/internal/server"
	"github.com/cbeuw/connutil"
	log "github.com/sirupsen/logrus"
)

// redTry makes one real client handshake with the given UID and reports whether the server treated the
// connection as a Cloak client (handshake completed) or as web traffic (it dialled the redirection server)
func redTry(t *testing.T, sta *server.State, uid []byte) (asCloak bool, asWeb bool) {
	netToCkServerD, ckServerListener := connutil.DialerListener(10 * 1024)
	ckServerToWebD, redirL := connutil.DialerListener(10 * 1024)
	ckServerToProxyD, _ := connutil.DialerListener(10 * 1024)
	sta.ProxyDialer = ckServerToProxyD
	sta.RedirDialer = ckServerToWebD
	go server.Serve(ckServerListener, sta)
	defer ckServerListener.Close()

	webHit := make(chan struct{}, 1)
	go func() {
		c, err := redirL.Accept()
		if err == nil {
			webHit <- struct{}{}
			c.Close()
		}
	}()

	raw := basicTCPConfig
	raw.UID = uid
	_, rcc, ai := generateClientConfigs(raw, common.RealWorldState)
	ai.SessionId = 7
	tr := rcc.Transport.CreateTransport()
	conn, err := netToCkServerD.Dial("", "")
	if err != nil {
		t.Fatal(err)
	}
	res := make(chan error, 1)
	go func() {
		_, err := tr.Handshake(conn, ai)
		res <- err
	}()
	select {
	case err := <-res:
		asCloak = err == nil
	case <-time.After(3 * time.Second):
		conn.Close()
	}
	select {
	case <-webHit:
		asWeb = true
	case <-time.After(200 * time.Millisecond):
	}
	return
}

func redServerState(t *testing.T, configJSON string) *server.State {
	var raw server.RawConfig
	if err := json.Unmarshal([]byte(configJSON), &raw); err != nil {
		t.Fatalf("configuration is refused: %v", err)
	}
	raw.PrivateKey = privateKey
	sta, err := server.InitState(raw, common.RealWorldState)
	if err != nil {
		t.Fatalf("configuration is refused: %v", err)
	}
	return sta
}

func TestRedC07BypassResidue(t *testing.T) {
	log.SetLevel(log.PanicLevel)
	// U1 = bytes 0..15, a proper 16-byte UID ("AAECAwQFBgcICQoLDA0ODw==").
	// second entry: base64("bob") = "Ym9i", a 3-byte UID
	sta := redServerState(t, `{
		"ProxyBook": {"shadowsocks": ["tcp", "127.0.0.1:9"]},
		"BypassUID": ["AAECAwQFBgcICQoLDA0ODw==", "Ym9i"],
		"RedirAddr": "127.0.0.1"
	}`)

	stranger := append([]byte("bob"), bypassUID[3:]...) // "bob" + tail of the OTHER user's UID: configured nowhere
	for _, configured := range [][]byte{bypassUID[:], []byte("bob")} {
		if bytes.Equal(stranger, configured) {
			t.Fatal("test is wrong")
		}
	}

	// control: a UID that is not in the list goes to the web server
	other := append([]byte("eve"), bypassUID[3:]...)
	asCloak, asWeb := redTry(t, sta, other)
	t.Logf("UID %q: treated as Cloak=%v, as web=%v", other, asCloak, asWeb)
	if asCloak || !asWeb {
		t.Fatalf("control failed")
	}

	asCloak, asWeb = redTry(t, sta, stranger)
	t.Logf("UID %q: treated as Cloak=%v, as web=%v", stranger, asCloak, asWeb)
	if asCloak {
		t.Errorf("C07 VIOLATION: UID %x is neither in BypassUID (%x, %x) nor in a user database, yet its first packet "+
			"was accepted as a Cloak handshake", stranger, bypassUID[:], []byte("bob"))
	}

	// and the user that WAS configured is turned away
	asCloak, asWeb = redTry(t, sta, []byte("bob"))
	t.Logf("UID %q (configured): treated as Cloak=%v, as web=%v", "bob", asCloak, asWeb)
}

func TestRedC07BypassEmptyEntry(t *testing.T) {
	log.SetLevel(log.PanicLevel)
	// an operator who only uses database users leaves the placeholder entry of the example configuration empty
	sta := redServerState(t, `{
		"ProxyBook": {"shadowsocks": ["tcp", "127.0.0.1:9"]},
		"BypassUID": [""],
		"RedirAddr": "127.0.0.1"
	}`)
	zero := make([]byte, 16)
	asCloak, asWeb := redTry(t, sta, zero)
	t.Logf("UID %x: treated as Cloak=%v, as web=%v", zero, asCloak, asWeb)
	if asCloak {
		t.Errorf("C07 VIOLATION: the all-zero UID is authorised (unlimited bypass user) by a bypass list that holds no 16-byte UID at all")
	}
}

var _ = net.Pipe
var _ = client.MakeSession
