package client

import (
	"bufio"
	"bytes"
	"crypto/rand"
	"encoding/base64"
	"net/http"
	"testing"
	"time"

	"github.com/cbeuw/Cloak/internal/common"
	"github.com/cbeuw/Cloak/internal/ecdh"
	"github.com/cbeuw/Cloak/internal/server"
)

func redFreshState(pv interface{}, now func() time.Time) *server.State {
	return &server.State{StaticPv: pv, WorldState: common.WorldState{Rand: rand.Reader, Now: now}, UsedRandom: map[[32]byte]int64{}}
}

// every single-bit modification of a valid first packet (both transports): if the server still authenticates it,
// the 96 bytes of authentication payload it extracted must be the original ones (bit 255 of the random is known)
func TestRedC07BitFlips(t *testing.T) {
	pv, pubK, _ := ecdh.GenerateKey(rand.Reader)
	now := time.Now
	uid := []byte("0123456789abcdef")
	ai := AuthInfo{UID: uid, SessionId: 5, ProxyMethod: "shadowsocks", EncryptionMethod: 1, ServerPubKey: pubK, MockDomain: "www.example.com", WorldState: common.WorldState{Rand: rand.Reader, Now: now}}

	for _, br := range []browser{chrome, firefox, safari} {
		payload, _ := makeAuthenticationPayload(ai)
		ch, err := buildClientHello(br, clientHelloFields{random: payload.randPubKey[:], sessionId: payload.ciphertextWithTag[:32], x25519KeyShare: payload.ciphertextWithTag[32:], serverName: "www.example.com"})
		if err != nil {
			t.Fatal(err)
		}
		pkt := common.AddRecordLayer(ch, common.Handshake, common.VersionTLS11)
		accepted := 0
		for bit := 0; bit < len(pkt)*8; bit++ {
			m := append([]byte{}, pkt...)
			m[bit/8] ^= 1 << (bit % 8)
			ci, _, err := server.AuthFirstPacket(m, server.TLS{}, redFreshState(pv, now))
			if err != nil {
				continue
			}
			accepted++
			// where is the payload in the packet?
			ri := bytes.Index(pkt, payload.randPubKey[:])
			si := bytes.Index(pkt, payload.ciphertextWithTag[:32])
			ki := bytes.Index(pkt, payload.ciphertextWithTag[32:])
			in := func(start int) bool { return bit/8 >= start && bit/8 < start+32 }
			if in(ri) || in(si) || in(ki) {
				if in(ri) && bit == (ri+31)*8+7 {
					continue // known: bit 255
				}
				t.Errorf("browser %v: flipped payload bit %d still accepted", br, bit)
			}
			if !bytes.Equal(ci.UID, uid) || ci.SessionId != 5 || ci.ProxyMethod != "shadowsocks" {
				t.Errorf("browser %v bit %d: accepted with different info %+v", br, bit, ci)
			}
		}
		t.Logf("browser %v: %d bytes, %d single-bit variants still accepted (all outside the payload)", br, len(pkt), accepted)
	}

	// WebSocket
	payload, _ := makeAuthenticationPayload(ai)
	orig := append(append([]byte{}, payload.randPubKey[:]...), payload.ciphertextWithTag[:]...)
	pkt := []byte("GET /path HTTP/1.1\r\nHost: example.com:80\r\nUpgrade: websocket\r\nConnection: Upgrade\r\nSec-WebSocket-Key: dGhlIHNhbXBsZSBub25jZQ==\r\nSec-WebSocket-Version: 13\r\nHidden: " +
		base64.StdEncoding.EncodeToString(orig) + "\r\n\r\n")
	accepted := 0
	for bit := 0; bit < len(pkt)*8; bit++ {
		m := append([]byte{}, pkt...)
		m[bit/8] ^= 1 << (bit % 8)
		_, _, err := server.AuthFirstPacket(m, server.WebSocket{}, redFreshState(pv, now))
		if err != nil {
			continue
		}
		accepted++
		req, err := http.ReadRequest(bufio.NewReader(bytes.NewReader(m)))
		if err != nil {
			t.Fatal(err)
		}
		got, _ := base64.StdEncoding.DecodeString(req.Header.Get("hidden"))
		got[31] &= 0x7f
		o := append([]byte{}, orig...)
		o[31] &= 0x7f
		if !bytes.Equal(got, o) {
			t.Errorf("ws bit %d: accepted with a modified payload", bit)
		}
	}
	t.Logf("ws: %d bytes, %d single-bit variants still accepted", len(pkt), accepted)
}

// clock offsets around both window edges, both transports use the same decryptClientInfo
func TestRedC07WindowEdges(t *testing.T) {
	pv, pubK, _ := ecdh.GenerateKey(rand.Reader)
	base := time.Unix(1700000000, 0)
	for _, frac := range []time.Duration{0, 1, 500 * time.Millisecond, time.Second - 1} {
		for off := int64(-182); off <= 182; off++ {
			if off > -178 && off < 178 {
				continue
			}
			serverNow := base.Add(frac)
			ai := AuthInfo{UID: []byte("0123456789abcdef"), SessionId: 5, ProxyMethod: "shadowsocks", ServerPubKey: pubK,
				WorldState: common.WorldState{Rand: rand.Reader, Now: func() time.Time { return base.Add(time.Duration(off) * time.Second) }}}
			payload, _ := makeAuthenticationPayload(ai)
			pkt := []byte("GET / HTTP/1.1\r\nHost: a\r\nHidden: " + base64.StdEncoding.EncodeToString(append(payload.randPubKey[:], payload.ciphertextWithTag[:]...)) + "\r\n\r\n")
			_, _, err := server.AuthFirstPacket(pkt, server.WebSocket{}, redFreshState(pv, func() time.Time { return serverNow }))
			T := base.Add(time.Duration(off) * time.Second)
			inside := T.After(serverNow.Add(-180*time.Second)) && T.Before(serverNow.Add(180*time.Second))
			if (err == nil) != inside {
				t.Errorf("frac %v off %d: accepted=%v, strictly inside=%v", frac, off, err == nil, inside)
			}
		}
	}
	// absurd timestamps (overflow of time.Unix)
	for _, ts := range []int64{-1 << 63, 1<<63 - 1, -62135596800 - 1700000000, 1<<63 - 62135596800, -1} {
		ai := AuthInfo{UID: []byte("0123456789abcdef"), ProxyMethod: "shadowsocks", ServerPubKey: pubK,
			WorldState: common.WorldState{Rand: rand.Reader, Now: func() time.Time { return time.Unix(ts, 0) }}}
		payload, _ := makeAuthenticationPayload(ai)
		pkt := []byte("GET / HTTP/1.1\r\nHost: a\r\nHidden: " + base64.StdEncoding.EncodeToString(append(payload.randPubKey[:], payload.ciphertextWithTag[:]...)) + "\r\n\r\n")
		if _, _, err := server.AuthFirstPacket(pkt, server.WebSocket{}, redFreshState(pv, func() time.Time { return base })); err == nil {
			t.Errorf("timestamp %d accepted", ts)
		}
	}
}
