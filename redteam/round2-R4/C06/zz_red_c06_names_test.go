package client

import (
	"bytes"
	"crypto/rand"
	"fmt"
	"strings"
	"testing"
	"time"

	"github.com/cbeuw/Cloak/internal/common"
	"github.com/cbeuw/Cloak/internal/ecdh"
	"github.com/cbeuw/Cloak/internal/server"
)

func redState(t *testing.T, now func() time.Time) (*server.State, []byte) {
	pv, pub, _ := ecdh.GenerateKey(rand.Reader)
	sta := &server.State{
		StaticPv:   pv,
		WorldState: common.WorldState{Rand: rand.Reader, Now: now},
		UsedRandom: map[[32]byte]int64{},
	}
	return sta, ecdh.Marshal(pub)
}

func TestRedC06Names(t *testing.T) {
	now := time.Now
	sta, pubB := redState(t, now)
	pub, _ := ecdh.Unmarshal(pubB)
	names := []string{"www.example.com", "random", "RANDOM", "a", "localhost", "WWW.EXAMPLE.COM",
		strings.Repeat("a", 63) + "." + strings.Repeat("b", 63) + "." + strings.Repeat("c", 63) + "." + strings.Repeat("d", 61),
		"xn--bcher-kva.example", "bücher.example", "under_score.example.com", "*.example.com", "a..b", "-a.com", "a.com-",
		"exa mple.com", "example.com:443", "1.2.3.4.5", "[::1]", "::1", "0x7f.1", "日本語.jp", strings.Repeat("a", 64) + ".com",
		strings.Repeat("a.", 127) + "a", strings.Repeat("a", 300), strings.Repeat("a", 1000) + ".com", "a\x00b.com", ".", ".com", "com.",
	}
	maxLen := 0
	for _, br := range []browser{chrome, firefox, safari} {
		for _, name := range names {
			for rep := 0; rep < 3; rep++ {
				uid := make([]byte, 16)
				rand.Read(uid)
				ai := AuthInfo{UID: uid, SessionId: 0xffffffff, ProxyMethod: "abcdefghijkl", EncryptionMethod: 3, Unordered: true,
					ServerPubKey: pub, MockDomain: name, WorldState: sta.WorldState}
				payload, _ := makeAuthenticationPayload(ai)
				fields := clientHelloFields{random: payload.randPubKey[:], sessionId: payload.ciphertextWithTag[0:32],
					x25519KeyShare: payload.ciphertextWithTag[32:64], serverName: name}
				if strings.EqualFold(name, "random") {
					fields.serverName = randomServerName()
				}
				var ch []byte
				var err error
				func() {
					defer func() {
						if r := recover(); r != nil {
							err = fmt.Errorf("panic %v", r)
						}
					}()
					ch, err = buildClientHello(br, fields)
				}()
				if err != nil {
					t.Logf("browser %v name %.40q(len %d): build error %v", br, name, len(name), err)
					break
				}
				pkt := common.AddRecordLayer(ch, common.Handshake, common.VersionTLS11)
				if len(pkt) > maxLen {
					maxLen = len(pkt)
				}
				if len(pkt) > 3000 {
					t.Logf("browser %v name %.40q(len %d): packet %d > 3000", br, name, len(name), len(pkt))
					break
				}
				ci, _, err := server.AuthFirstPacket(pkt, server.TLS{}, sta)
				if err != nil {
					t.Errorf("browser %v name %.40q(len %d): auth error %v", br, name, len(name), err)
					break
				}
				if !bytes.Equal(ci.UID, uid) || ci.SessionId != 0xffffffff || ci.ProxyMethod != "abcdefghijkl" || ci.EncryptionMethod != 3 || !ci.Unordered {
					t.Errorf("mismatch %+v", ci)
				}
			}
		}
	}
	t.Logf("max packet len %d", maxLen)
}
