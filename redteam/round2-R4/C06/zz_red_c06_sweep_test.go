package test

import (
	"bytes"
	"crypto/tls"
	"fmt"
	"io"
	"net"
	"testing"
	"time"

	"github.com/cbeuw/Cloak/internal/client"
	"github.com/cbeuw/Cloak/internal/common"
	mux "github.com/cbeuw/Cloak/internal/multiplex"
	"github.com/cbeuw/Cloak/internal/server"
	"github.com/cbeuw/connutil"
	log "github.com/sirupsen/logrus"
)

// one full round: handshake, then a stream through the session must reach the proxy named by the proxy method
func redRound(t *testing.T, raw client.RawConfig, sessionId uint32, proxyNames []string, clientOffset time.Duration) error {
	book := map[string][]string{}
	for i, n := range proxyNames {
		book[n] = []string{"tcp", fmt.Sprintf("127.0.0.1:%d", 1000+i)}
	}
	sta, err := server.InitState(server.RawConfig{ProxyBook: book, BypassUID: [][]byte{raw.UID}, RedirAddr: "127.0.0.1", PrivateKey: privateKey}, common.RealWorldState)
	if err != nil {
		return err
	}
	netToCkServerD, ckServerListener := connutil.DialerListener(10 * 1024)
	ckServerToWebD, _ := connutil.DialerListener(10 * 1024)
	dialed := make(chan string, 4)
	pc, ps := connutil.AsyncPipe()
	sta.ProxyDialer = redDialer(func(network, addr string) (net.Conn, error) { dialed <- addr; return ps, nil })
	sta.RedirDialer = ckServerToWebD
	go server.Serve(ckServerListener, sta)
	defer ckServerListener.Close()

	ws := common.WorldState{Rand: common.RealWorldState.Rand, Now: func() time.Time { return time.Now().Add(clientOffset) }}
	_, rcc, ai, err := raw.ProcessRawConfig(ws)
	if err != nil {
		return err
	}
	ai.SessionId = sessionId
	tr := rcc.Transport.CreateTransport()
	var conn net.Conn
	if raw.Transport == "cdn" {
		clientSide, cdnSide := connutil.AsyncPipe()
		conn = clientSide
		cert := redSelfSigned(t)
		go func() {
			tc := tls.Server(cdnSide, &tls.Config{Certificates: []tls.Certificate{cert}})
			if err := tc.Handshake(); err != nil {
				cdnSide.Close()
				return
			}
			origin, _ := netToCkServerD.Dial("", "")
			go func() { io.Copy(origin, tc); origin.Close() }()
			go func() { io.Copy(tc, origin); tc.Close() }()
		}()
	} else {
		conn, _ = netToCkServerD.Dial("", "")
	}
	type hs struct {
		sk  [32]byte
		err error
	}
	res := make(chan hs, 1)
	go func() { sk, err := tr.Handshake(conn, ai); res <- hs{sk, err} }()
	var h hs
	select {
	case h = <-res:
	case <-time.After(3 * time.Second):
		conn.Close()
		return fmt.Errorf("handshake timed out")
	}
	if h.err != nil {
		return fmt.Errorf("handshake: %v", h.err)
	}
	obfs, err := mux.MakeObfuscator(ai.EncryptionMethod, h.sk)
	if err != nil {
		return err
	}
	sesh := mux.MakeSession(ai.SessionId, mux.SessionConfig{Obfuscator: obfs, Unordered: ai.Unordered, MsgOnWireSizeLimit: 16401})
	sesh.AddConnection(tr)
	defer sesh.Close()
	st, err := sesh.OpenStream()
	if err != nil {
		return err
	}
	msg := []byte("hello through the session")
	if _, err := st.Write(msg); err != nil {
		return err
	}
	select {
	case addr := <-dialed:
		want := ""
		for i, n := range proxyNames {
			if n == raw.ProxyMethod {
				want = fmt.Sprintf("127.0.0.1:%d", 1000+i)
			}
		}
		if addr != want {
			return fmt.Errorf("server dialled %v, the client's proxy method %q is %v", addr, raw.ProxyMethod, want)
		}
	case <-time.After(2 * time.Second):
		return fmt.Errorf("server never dialled the proxy: session keys / methods do not agree")
	}
	got := make([]byte, len(msg))
	pc.SetReadDeadline(time.Now().Add(2 * time.Second))
	if _, err := io.ReadFull(pc, got); err != nil || !bytes.Equal(got, msg) {
		return fmt.Errorf("payload did not arrive: %v %q", err, got)
	}
	return nil
}

type redDialer func(network, addr string) (net.Conn, error)

func (d redDialer) Dial(network, addr string) (net.Conn, error) { return d(network, addr) }

func TestRedC06Sweep(t *testing.T) {
	log.SetLevel(log.PanicLevel)
	names := []string{"a", "shadowsocks", "abcdefghijkl", "open vpn", "x-y_z.1", "tor", "a\x00b"}
	uids := [][]byte{bypassUID[:], make([]byte, 16), bytes.Repeat([]byte{0xff}, 16)}
	n := 0
	for _, transport := range []string{"direct", "cdn"} {
		for _, enc := range []string{"plain", "aes-gcm", "aes-128-gcm", "chacha20-poly1305"} {
			for _, udp := range []bool{false, true} {
				for _, sid := range []uint32{0, 1, 0x7fffffff, 0x80000000, 0xffffffff} {
					raw := basicTCPConfig
					raw.Transport = transport
					raw.EncryptionMethod = enc
					raw.UDP = udp
					raw.ProxyMethod = names[n%len(names)]
					raw.UID = uids[n%len(uids)]
					raw.BrowserSig = []string{"chrome", "firefox", "safari"}[n%3]
					raw.ServerName = []string{"www.example.com", "random", "a.b"}[n%3]
					off := []time.Duration{0, 179 * time.Second, -178 * time.Second}[n%3]
					n++
					if err := redRound(t, raw, sid, names, off); err != nil {
						t.Errorf("%s %s udp=%v sid=%#x proxy=%q uid=%x browser=%s off=%v: %v", transport, enc, udp, sid, raw.ProxyMethod, raw.UID, raw.BrowserSig, off, err)
					}
				}
			}
		}
	}
	t.Logf("%d rounds", n)
}
