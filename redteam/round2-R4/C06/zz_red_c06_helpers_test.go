package test

import (
	"crypto/ecdsa"
	"crypto/elliptic"
	"crypto/rand"
	"crypto/tls"
	"crypto/x509"
	"crypto/x509/pkix"
	"io"
	"math/big"
	"net"
	"testing"
	"time"

	"github.com/cbeuw/Cloak/internal/client"
	"github.com/cbeuw/Cloak/internal/common"
	"github.com/cbeuw/Cloak/internal/server"
	"github.com/cbeuw/connutil"
)

func redSelfSigned(t *testing.T) tls.Certificate {
	key, err := ecdsa.GenerateKey(elliptic.P256(), rand.Reader)
	if err != nil {
		t.Fatal(err)
	}
	tmpl := &x509.Certificate{SerialNumber: big.NewInt(1), Subject: pkix.Name{CommonName: "cdn"},
		NotBefore: time.Now().Add(-time.Hour), NotAfter: time.Now().Add(time.Hour)}
	der, err := x509.CreateCertificate(rand.Reader, tmpl, tmpl, &key.PublicKey, key)
	if err != nil {
		t.Fatal(err)
	}
	return tls.Certificate{Certificate: [][]byte{der}, PrivateKey: key}
}

type redResult struct {
	sessionKey [32]byte
	err        error
	timedOut   bool
	asWeb      bool
}

// redHandshake runs ONE real client handshake (client.Transport.Handshake) of the given client configuration
// against server.Serve(sta).  In CDN mode a TLS terminator (the "CDN") sits in between, as in production.
func redHandshake(t *testing.T, sta *server.State, raw client.RawConfig, sessionId uint32, ws common.WorldState) redResult {
	netToCkServerD, ckServerListener := connutil.DialerListener(10 * 1024)
	ckServerToWebD, redirL := connutil.DialerListener(10 * 1024)
	ckServerToProxyD, _ := connutil.DialerListener(10 * 1024)
	sta.ProxyDialer = ckServerToProxyD
	sta.RedirDialer = ckServerToWebD
	go server.Serve(ckServerListener, sta)
	defer ckServerListener.Close()

	webHit := make(chan struct{}, 1)
	go func() {
		c, err := redirL.Accept()
		if err == nil {
			webHit <- struct{}{}
			c.Close()
		}
	}()

	_, rcc, ai, err := raw.ProcessRawConfig(ws)
	if err != nil {
		t.Fatalf("client configuration is refused: %v", err)
	}
	ai.SessionId = sessionId
	tr := rcc.Transport.CreateTransport()

	var conn net.Conn
	if raw.Transport == "cdn" {
		clientSide, cdnSide := connutil.AsyncPipe()
		conn = clientSide
		cert := redSelfSigned(t)
		go func() {
			tc := tls.Server(cdnSide, &tls.Config{Certificates: []tls.Certificate{cert}})
			if err := tc.Handshake(); err != nil {
				cdnSide.Close()
				return
			}
			origin, err := netToCkServerD.Dial("", "")
			if err != nil {
				tc.Close()
				return
			}
			go func() { io.Copy(origin, tc); origin.Close() }()
			go func() { io.Copy(tc, origin); tc.Close() }()
		}()
	} else {
		conn, err = netToCkServerD.Dial("", "")
		if err != nil {
			t.Fatal(err)
		}
	}

	var r redResult
	res := make(chan struct{})
	go func() {
		r.sessionKey, r.err = tr.Handshake(conn, ai)
		close(res)
	}()
	select {
	case <-res:
	case <-time.After(3 * time.Second):
		r.timedOut = true
		conn.Close()
		<-res
	}
	select {
	case <-webHit:
		r.asWeb = true
	case <-time.After(200 * time.Millisecond):
	}
	return r
}
