package test

// RED / C06: README: "ProxyBook is an object whose key is the name of the ProxyMethod used on the client-side
// (case-sensitive)" and "ProxyMethod ... must match one of the entries in the server's ProxyBook exactly".
// server.parseProxyBook lower-cases every key of the book, the client sends its ProxyMethod verbatim and the
// dispatcher looks the received name up verbatim.  A proxy-method name that contains an upper-case letter,
// configured identically on both ends, therefore never gets a session key: every handshake of that correctly
// configured client is diverted to the web server.

import (
	"encoding/json"
	"testing"

	"github.com/cbeuw/Cloak/internal/common"
	"github.com/cbeuw/Cloak/internal/server"
	log "github.com/sirupsen/logrus"
)

func TestRedC06ProxyMethodCase(t *testing.T) {
	log.SetLevel(log.PanicLevel)
	for _, transport := range []string{"direct", "cdn"} {
		for _, name := range []string{"shadowsocks", "Shadowsocks", "OpenVPN-TCP", "SS"} {
			var rawS server.RawConfig
			cfg := `{"ProxyBook": {"` + name + `": ["tcp", "127.0.0.1:9"]}, "BypassUID": ["AAECAwQFBgcICQoLDA0ODw=="], "RedirAddr": "127.0.0.1"}`
			if err := json.Unmarshal([]byte(cfg), &rawS); err != nil {
				t.Fatal(err)
			}
			rawS.PrivateKey = privateKey
			sta, err := server.InitState(rawS, common.RealWorldState)
			if err != nil {
				t.Fatalf("server configuration refused: %v", err)
			}

			rawC := basicTCPConfig
			rawC.Transport = transport
			rawC.ProxyMethod = name // exactly the key of the server's ProxyBook
			r := redHandshake(t, sta, rawC, 0x01020304, common.RealWorldState)
			t.Logf("%-6s ProxyMethod %-12q: handshake err=%v timedOut=%v divertedToWeb=%v", transport, name, r.err, r.timedOut, r.asWeb)
			if r.err != nil || r.timedOut || r.asWeb {
				t.Errorf("C06 VIOLATION (%s): client and server both configured with proxy method %q, but the client obtains no session key "+
					"(server treated it as web traffic: %v)", transport, name, r.asWeb)
			}
		}
	}
}
