package multiplex

import (
	"encoding/binary"
	"fmt"
	"io"
	"math/rand"
	"net"
	"sync"
	"testing"
	"time"

	"github.com/cbeuw/Cloak/internal/common"
)

func redDgramPair(t testing.TB, method byte, numConn int, limit int) (*Session, *Session) {
	var key [32]byte
	rand.Read(key[:])
	obfs, err := MakeObfuscator(method, key)
	if err != nil {
		t.Fatal(err)
	}
	cfg := SessionConfig{Obfuscator: obfs, Unordered: true, MsgOnWireSizeLimit: limit, InactivityTimeout: time.Hour}
	c := MakeSession(1, cfg)
	s := MakeSession(1, cfg)
	for i := 0; i < numConn; i++ {
		a, b := net.Pipe()
		c.AddConnection(common.NewTLSConn(a))
		s.AddConnection(common.NewTLSConn(b))
	}
	return c, s
}

func redMk(sid, idx, sz int) []byte {
	d := make([]byte, sz)
	hdr := make([]byte, 12)
	binary.BigEndian.PutUint32(hdr[0:], uint32(sid))
	binary.BigEndian.PutUint32(hdr[4:], uint32(idx))
	binary.BigEndian.PutUint32(hdr[8:], uint32(sz))
	copy(d, hdr)
	for k := 12; k < sz; k++ {
		d[k] = byte(idx*7 + k)
	}
	return d
}

// one connection: arrival order == send order, so the receiver knows each size and can probe with
// buffers of size-1 (must fail, must not consume), then size (must deliver whole).
func TestRedC14_CoreExactBuffers(t *testing.T) {
	for _, method := range []byte{EncryptionMethodPlain, EncryptionMethodAES256GCM, EncryptionMethodChaha20Poly1305, EncryptionMethodAES128GCM} {
		for _, limit := range []int{16401, 0, 600} {
			t.Run(fmt.Sprintf("m%d_l%d", method, limit), func(t *testing.T) {
				c, s := redDgramPair(t, method, 1, limit)
				defer c.Close()
				max := c.maxStreamUnitWrite
				sizes := []int{1, 2, 11, 12, 13, 14, 15, 255, 256, 257, max / 2, max - 1, max, 1, max, max}
				st, _ := c.OpenStream()
				go func() {
					for rep := 0; rep < 3; rep++ {
						for i, sz := range sizes {
							d := redMk(7, rep*100+i, sz)
							if n, err := st.Write(d); err != nil || n != sz {
								t.Errorf("write %d: %v %v", sz, n, err)
							}
							if n, err := st.Write(make([]byte, max+1+rep)); err == nil || n != 0 {
								t.Errorf("oversize accepted: %d %v", n, err)
							}
						}
					}
				}()
				rs, err := s.Accept()
				if err != nil {
					t.Fatal(err)
				}
				big := make([]byte, 70000)
				for rep := 0; rep < 3; rep++ {
					for i, sz := range sizes {
						want := redMk(7, rep*100+i, sz)
						rs.(*Stream).SetReadDeadline(time.Now().Add(5 * time.Second))
						for _, probe := range []int{sz - 1, sz / 2, 1} {
							if probe < 1 || probe >= sz {
								continue
							}
							n, err := rs.Read(big[:probe])
							if err != io.ErrShortBuffer || n != 0 {
								t.Fatalf("size %d probe %d: n=%d err=%v", sz, probe, n, err)
							}
						}
						bufsz := sz
						if i%2 == 1 {
							bufsz = sz + 1
						}
						n, err := rs.Read(big[:bufsz])
						if err != nil || n != sz || string(big[:n]) != string(want) {
							t.Fatalf("size %d: n=%d err=%v equal=%v", sz, n, err, string(big[:n]) == string(want))
						}
					}
				}
			})
		}
	}
}

// several connections, several concurrent streams: any arrival order; each datagram exactly once, whole,
// on its own stream.
func TestRedC14_CoreConcurrent(t *testing.T) {
	for _, method := range []byte{EncryptionMethodPlain, EncryptionMethodAES256GCM, EncryptionMethodChaha20Poly1305, EncryptionMethodAES128GCM} {
		t.Run(fmt.Sprintf("m%d", method), func(t *testing.T) {
			c, s := redDgramPair(t, method, 4, 16401)
			defer c.Close()
			max := c.maxStreamUnitWrite
			const nstreams = 6
			const per = 300
			var wg sync.WaitGroup
			recvDone := make(chan error, nstreams)
			go func() {
				for i := 0; i < nstreams; i++ {
					st, err := s.Accept()
					if err != nil {
						recvDone <- err
						return
					}
					go func(st net.Conn) {
						seen := map[uint32]bool{}
						sid := -1
						big := make([]byte, 70000)
						for len(seen) < per {
							st.(*Stream).SetReadDeadline(time.Now().Add(10 * time.Second))
							n, err := st.Read(big)
							if err != nil {
								recvDone <- fmt.Errorf("read after %d: %v", len(seen), err)
								return
							}
							got := big[:n]
							gs := int(binary.BigEndian.Uint32(got[0:]))
							idx := binary.BigEndian.Uint32(got[4:])
							ln := int(binary.BigEndian.Uint32(got[8:]))
							if sid == -1 {
								sid = gs
							}
							if gs != sid || seen[idx] || ln != n || string(got) != string(redMk(gs, int(idx), ln)) {
								recvDone <- fmt.Errorf("bad datagram sid %d/%d idx %d dup %v len %d/%d", gs, sid, idx, seen[idx], ln, n)
								return
							}
							seen[idx] = true
						}
						recvDone <- nil
					}(st)
				}
			}()
			for i := 0; i < nstreams; i++ {
				wg.Add(1)
				go func(i int) {
					defer wg.Done()
					st, _ := c.OpenStream()
					rng := rand.New(rand.NewSource(int64(i)))
					for idx := 0; idx < per; idx++ {
						sz := 12 + rng.Intn(max-11)
						if idx%10 == 0 {
							sz = max
						}
						if n, err := st.Write(redMk(i+100, idx, sz)); err != nil || n != sz {
							t.Errorf("write: %v %v", n, err)
							return
						}
					}
				}(i)
			}
			wg.Wait()
			for i := 0; i < nstreams; i++ {
				select {
				case err := <-recvDone:
					if err != nil {
						t.Fatal(err)
					}
				case <-time.After(60 * time.Second):
					t.Fatal("timeout")
				}
			}
		})
	}
}
