package multiplex

import (
	"io"
	"net"
	"testing"
	"time"
)

func TestRedC14_ReadFromUDP(t *testing.T) {
	for _, method := range []byte{EncryptionMethodPlain, EncryptionMethodAES256GCM} {
		c, s := redDgramPair(t, method, 2, 16401)
		max := c.maxStreamUnitWrite
		l, err := net.ListenUDP("udp", &net.UDPAddr{IP: net.IPv4(127, 0, 0, 1)})
		if err != nil {
			t.Fatal(err)
		}
		src, _ := net.DialUDP("udp", nil, l.LocalAddr().(*net.UDPAddr))
		st, _ := c.OpenStream()
		res := make(chan error, 1)
		go func() { _, err := st.ReadFrom(l); res <- err }()
		sizes := []int{1, 100, max - 1, max, max}
		for i, sz := range sizes {
			src.Write(redMk(1, i, sz))
			time.Sleep(5 * time.Millisecond)
		}
		rs, _ := s.Accept()
		big := make([]byte, 70000)
		seen := 0
		for seen < len(sizes) {
			rs.(*Stream).SetReadDeadline(time.Now().Add(3 * time.Second))
			n, err := rs.Read(big)
			if err != nil {
				t.Fatalf("read: %v after %d", err, seen)
			}
			idx := int(big[7])
			want := []byte{}
			if sizes[idx] >= 12 {
				want = redMk(1, idx, sizes[idx])
			}
			if sizes[idx] >= 12 && string(big[:n]) != string(want) {
				t.Fatalf("altered")
			}
			seen++
		}
		src.Write(make([]byte, max+1))
		select {
		case err := <-res:
			if err != io.ErrShortBuffer {
				t.Fatalf("oversize: %v", err)
			}
		case <-time.After(3 * time.Second):
			t.Fatal("ReadFrom did not refuse oversize")
		}
		rs.(*Stream).SetReadDeadline(time.Now().Add(300 * time.Millisecond))
		n, err := rs.Read(big)
		if err == nil {
			t.Fatalf("part of an oversize datagram delivered: %d", n)
		}
		c.Close()
		l.Close()
	}
}
