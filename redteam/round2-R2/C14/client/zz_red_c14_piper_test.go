package client

import (
	"bytes"
	"fmt"
	"net"
	"testing"
	"time"

	"github.com/cbeuw/Cloak/internal/common"
	mux "github.com/cbeuw/Cloak/internal/multiplex"
)

// redC14Pair builds a client/server pair of unordered (datagram) sessions joined by one
// TLS-framed in-memory connection, configured exactly as connector.go / dispatcher.go do.
func redC14Pair(t *testing.T) (cli, srv *mux.Session) {
	var key [32]byte
	for i := range key {
		key[i] = byte(i)
	}
	obfs, err := mux.MakeObfuscator(mux.EncryptionMethodAES256GCM, key)
	if err != nil {
		t.Fatal(err)
	}
	cfg := mux.SessionConfig{Obfuscator: obfs, Unordered: true, MsgOnWireSizeLimit: appDataMaxLength}
	cli = mux.MakeSession(1, cfg)
	srv = mux.MakeSession(1, cfg)
	a, b := net.Pipe()
	cli.AddConnection(common.NewTLSConn(a))
	srv.AddConnection(common.NewTLSConn(b))
	return
}

// A datagram that the server-side stream ACCEPTS (Write returns nil; it fits one frame) must reach the
// local UDP application behind RouteUDP exactly once and whole. Sizes 8193..16132 never arrive: the
// return path of RouteUDP reads the stream into an 8192 byte buffer, gets io.ErrShortBuffer, and
// reacts by closing the stream, so the datagram (and the whole UDP association) is lost although the
// session is healthy.
func TestRedC14_RouteUDP_ReturnPathDatagramSizes(t *testing.T) {
	cli, srv := redC14Pair(t)
	bound := make(chan *net.UDPConn, 1)
	bind := func() (*net.UDPConn, error) {
		c, err := net.ListenUDP("udp", &net.UDPAddr{IP: net.IPv4(127, 0, 0, 1)})
		if err == nil {
			bound <- c
		}
		return c, err
	}
	go RouteUDP(bind, 30*time.Second, false, func() *mux.Session { return cli })
	ckUDP := <-bound

	// largest payload one frame carries with MsgOnWireSizeLimit = 16401
	const maxDatagram = appDataMaxLength - 14 - 255 // 16132

	for _, size := range []int{1, 1400, 8191, 8192, 8193, 9000, maxDatagram} {
		size := size
		t.Run(fmt.Sprintf("down_%d", size), func(t *testing.T) {
			app, err := net.DialUDP("udp", nil, ckUDP.LocalAddr().(*net.UDPAddr))
			if err != nil {
				t.Fatal(err)
			}
			defer app.Close()
			// the application's first datagram opens the stream
			if _, err := app.Write([]byte("hello")); err != nil {
				t.Fatal(err)
			}
			sc, err := srv.Accept()
			if err != nil {
				t.Fatal(err)
			}
			rb := make([]byte, 65536)
			n, err := sc.Read(rb)
			if err != nil || string(rb[:n]) != "hello" {
				t.Fatalf("server side read: %q %v", rb[:n], err)
			}

			// upstream control: the same size travels client->server fine
			up := bytes.Repeat([]byte{0xA5}, size)
			if _, err := app.Write(up); err != nil {
				t.Fatal(err)
			}
			n, err = sc.Read(rb)
			if err != nil || !bytes.Equal(rb[:n], up) {
				t.Fatalf("upstream datagram of %d bytes: got %d bytes, err %v", size, n, err)
			}

			// downstream: the datagram is accepted by Write on the server side stream ...
			down := make([]byte, size)
			for i := range down {
				down[i] = byte(i * 7)
			}
			wn, err := sc.Write(down)
			if err != nil || wn != size {
				t.Fatalf("server side Write(%d) refused: n=%d err=%v (not the case under test)", size, wn, err)
			}
			// ... so it must come out of RouteUDP, once, whole
			_ = app.SetReadDeadline(time.Now().Add(2 * time.Second))
			n, err = app.Read(rb)
			if err != nil {
				t.Fatalf("datagram of %d bytes accepted by Write was never delivered to the UDP application: %v", size, err)
			}
			if !bytes.Equal(rb[:n], down) {
				t.Fatalf("datagram of %d bytes delivered altered/truncated: got %d bytes", size, n)
			}
			if srv.IsClosed() || cli.IsClosed() {
				t.Fatalf("session closed")
			}
		})
	}
}
