package common

import (
	"bytes"
	"encoding/binary"
	"math/rand"
	"net/http"
	"net/http/httptest"
	"strings"
	"sync"
	"testing"

	"github.com/gorilla/websocket"
)

func redWSPair(t *testing.T, cliBuf int) (cli, srv *WebSocketConn, done func()) {
	ch := make(chan *websocket.Conn, 1)
	ts := httptest.NewServer(http.HandlerFunc(func(w http.ResponseWriter, r *http.Request) {
		up := websocket.Upgrader{}
		c, err := up.Upgrade(w, r, nil)
		if err != nil {
			t.Error(err)
			return
		}
		ch <- c
	}))
	d := websocket.Dialer{ReadBufferSize: cliBuf, WriteBufferSize: cliBuf}
	c, _, err := d.Dial("ws"+strings.TrimPrefix(ts.URL, "http"), nil)
	if err != nil {
		t.Fatal(err)
	}
	s := <-ch
	return &WebSocketConn{Conn: c}, &WebSocketConn{Conn: s}, ts.Close
}

func TestRedC05_WS_SizesBothDirections(t *testing.T) {
	cli, srv, done := redWSPair(t, 16480)
	defer done()
	sizes := []int{0, 1, 2, 125, 126, 127, 4095, 4096, 4097, 8192, 16401, 16479, 16480, 16481, 20479, 20480, 65535, 65536, 70000}
	for _, dir := range []struct{ w, r *WebSocketConn }{{cli, srv}, {srv, cli}} {
		go func() {
			for _, l := range sizes {
				m := make([]byte, l)
				for i := range m {
					m[i] = byte(l + i)
				}
				if n, err := dir.w.Write(m); err != nil || n != l {
					t.Errorf("write %d: %d %v", l, n, err)
				}
			}
		}()
		for _, l := range sizes {
			// buffer exactly the message size, or one larger
			bl := l + (l % 2)
			buf := make([]byte, bl)
			n, err := dir.r.Read(buf)
			if err != nil || n != l {
				t.Fatalf("size %d buf %d: n=%d err=%v", l, bl, n, err)
			}
			for i := 0; i < n; i++ {
				if buf[i] != byte(l+i) {
					t.Fatalf("size %d altered", l)
				}
			}
		}
	}
	// message larger than the reader's buffer -> error, and the next message is still delivered whole
	go func() {
		cli.Write(bytes.Repeat([]byte{1}, 5000))
		cli.Write(bytes.Repeat([]byte{2}, 3000))
	}()
	buf := make([]byte, 4999)
	n, err := srv.Read(buf)
	if err == nil {
		t.Fatalf("oversize message delivered truncated: n=%d", n)
	}
	t.Logf("oversize: n=%d err=%v", n, err)
	n, err = srv.Read(buf)
	if err != nil || n != 3000 || buf[0] != 2 || buf[2999] != 2 {
		t.Fatalf("message after oversize: n=%d err=%v first=%d", n, err, buf[0])
	}
}

func TestRedC05_WS_ConcurrentWriters(t *testing.T) {
	for _, dirSrvToCli := range []bool{false, true} {
		cli, srv, done := redWSPair(t, 16480)
		w, r := cli, srv
		if dirSrvToCli {
			w, r = srv, cli
		}
		const writers = 16
		const per = 100
		var wg sync.WaitGroup
		for i := 0; i < writers; i++ {
			wg.Add(1)
			go func(i int) {
				defer wg.Done()
				rng := rand.New(rand.NewSource(int64(i)))
				for k := 0; k < per; k++ {
					l := 8 + rng.Intn(20000)
					m := make([]byte, l)
					binary.BigEndian.PutUint32(m, uint32(i))
					binary.BigEndian.PutUint32(m[4:], uint32(k))
					for j := 8; j < l; j++ {
						m[j] = byte(i*31 + k*7 + j)
					}
					if n, err := w.Write(m); err != nil || n != l {
						t.Errorf("write: %d %v", n, err)
						return
					}
				}
			}(i)
		}
		next := make([]int, writers)
		buf := make([]byte, 20480)
		for cnt := 0; cnt < writers*per; cnt++ {
			n, err := r.Read(buf)
			if err != nil {
				t.Fatalf("read: %v", err)
			}
			i := int(binary.BigEndian.Uint32(buf))
			k := int(binary.BigEndian.Uint32(buf[4:]))
			if i >= writers || k != next[i] {
				t.Fatalf("interleave/order")
			}
			next[i]++
			for j := 8; j < n; j++ {
				if buf[j] != byte(i*31+k*7+j) {
					t.Fatalf("altered")
				}
			}
		}
		wg.Wait()
		done()
	}
}
