package common

import (
	"bytes"
	"encoding/binary"
	"io"
	"math/rand"
	"net"
	"sync"
	"testing"
	"time"
)

// chunkConn delivers a fixed byte stream in the given chunk sizes
type chunkConn struct {
	net.Conn
	data []byte
	cuts []int // absolute positions where a Read must stop
}

func (c *chunkConn) Read(b []byte) (int, error) {
	if len(c.data) == 0 {
		return 0, io.EOF
	}
	n := len(b)
	if n > len(c.data) {
		n = len(c.data)
	}
	if len(c.cuts) > 0 && n > c.cuts[0] {
		n = c.cuts[0]
	}
	if n == 0 && len(b) > 0 {
		n = 1
	}
	copy(b, c.data[:n])
	c.data = c.data[n:]
	for i := range c.cuts {
		c.cuts[i] -= n
	}
	for len(c.cuts) > 0 && c.cuts[0] <= 0 {
		c.cuts = c.cuts[1:]
	}
	return n, nil
}

type sinkConn struct {
	net.Conn
	buf bytes.Buffer
}

func (s *sinkConn) Write(b []byte) (int, error) { return s.buf.Write(b) }
func (s *sinkConn) Bytes() []byte               { return s.buf.Bytes() }
func (s *sinkConn) Len() int                    { return s.buf.Len() }

func TestRedC05_ExhaustiveCuts(t *testing.T) {
	msgs := [][]byte{{}, {1}, {2, 3}, bytes.Repeat([]byte{9}, 7), {}, bytes.Repeat([]byte{4}, 20), {5}}
	sink := &sinkConn{}
	w := NewTLSConn(sink)
	for _, m := range msgs {
		n, err := w.Write(m)
		if err != nil || n != len(m) {
			t.Fatalf("write: %d %v", n, err)
		}
	}
	wire := sink.Bytes()
	// every single and every pair of cut positions
	for c1 := 1; c1 < len(wire); c1++ {
		for c2 := c1; c2 < len(wire); c2++ {
			cuts := []int{c1}
			if c2 > c1 {
				cuts = append(cuts, c2)
			}
			r := NewTLSConn(&chunkConn{data: append([]byte{}, wire...), cuts: cuts})
			buf := make([]byte, 64)
			for i, m := range msgs {
				n, err := r.Read(buf)
				if err != nil || !bytes.Equal(buf[:n], m) {
					t.Fatalf("cuts %v msg %d: got %v err %v", cuts, i, buf[:n], err)
				}
			}
			if n, err := r.Read(buf); err == nil {
				t.Fatalf("extra message %d", n)
			}
		}
	}
	// byte-by-byte
	all := make([]int, len(wire))
	for i := range all {
		all[i] = i + 1
	}
	r := NewTLSConn(&chunkConn{data: append([]byte{}, wire...), cuts: all})
	buf := make([]byte, 64)
	for i, m := range msgs {
		n, err := r.Read(buf)
		if err != nil || !bytes.Equal(buf[:n], m) {
			t.Fatalf("bytewise msg %d: got %v err %v", i, buf[:n], err)
		}
	}
}

func TestRedC05_LengthsAndLimits(t *testing.T) {
	const limit = 1<<14 + 256
	for _, l := range []int{0, 1, 4, 5, 6, 14336 - 5, 14336 - 4, 14336, 14337, 16384, limit - 1, limit} {
		sink := &sinkConn{}
		w := NewTLSConn(sink)
		m := make([]byte, l)
		rand.Read(m)
		// twice through the same conn so that the pooled buffer is reused after growth
		for k := 0; k < 3; k++ {
			n, err := w.Write(m)
			if err != nil || n != l {
				t.Fatalf("len %d: %d %v", l, n, err)
			}
		}
		r := NewTLSConn(&chunkConn{data: sink.Bytes()})
		for k := 0; k < 3; k++ {
			// buffer exactly the message size (>=5 needed by implementation)
			bl := l
			if bl < 5 {
				bl = 5
			}
			buf := make([]byte, bl)
			n, err := r.Read(buf)
			if err != nil || !bytes.Equal(buf[:n], m) {
				t.Fatalf("len %d read: n=%d err=%v", l, n, err)
			}
		}
	}
	sink := &sinkConn{}
	w := NewTLSConn(sink)
	if n, err := w.Write(make([]byte, limit+1)); err == nil || n != 0 || sink.Len() != 0 {
		t.Fatalf("oversize write accepted: %d %v wire %d", n, err, sink.Len())
	}
	// record larger than reader's buffer: error, nothing delivered
	sink = &sinkConn{}
	w = NewTLSConn(sink)
	w.Write(bytes.Repeat([]byte{7}, 100))
	r := NewTLSConn(&chunkConn{data: sink.Bytes()})
	buf := make([]byte, 99)
	n, err := r.Read(buf)
	if err == nil || n != 0 {
		t.Fatalf("oversize record delivered: %d %v", n, err)
	}
}

// reader buffer of 1..4 bytes with a message that fits it
func TestRedC05_TinyReaderBuffer(t *testing.T) {
	sink := &sinkConn{}
	w := NewTLSConn(sink)
	w.Write([]byte{1, 2})
	r := NewTLSConn(&chunkConn{data: sink.Bytes()})
	buf := make([]byte, 4)
	n, err := r.Read(buf)
	t.Logf("2-byte message, 4-byte buffer: n=%d err=%v", n, err)
}

// many concurrent writers on a real TCP connection, slow reader so that socket writes are partial
func TestRedC05_ConcurrentWritersTCP(t *testing.T) {
	l, _ := net.Listen("tcp", "127.0.0.1:0")
	defer l.Close()
	a, err := net.Dial("tcp", l.Addr().String())
	if err != nil {
		t.Fatal(err)
	}
	b, _ := l.Accept()
	w := NewTLSConn(a)
	r := NewTLSConn(b)
	const writers = 32
	const per = 200
	var wg sync.WaitGroup
	for i := 0; i < writers; i++ {
		wg.Add(1)
		go func(i int) {
			defer wg.Done()
			rng := rand.New(rand.NewSource(int64(i)))
			for k := 0; k < per; k++ {
				l := 8 + rng.Intn(16640-8)
				if k%17 == 0 {
					l = 16640
				}
				m := make([]byte, l)
				binary.BigEndian.PutUint32(m, uint32(i))
				binary.BigEndian.PutUint32(m[4:], uint32(k))
				for j := 8; j < l; j++ {
					m[j] = byte(i*31 + k*7 + j)
				}
				n, err := w.Write(m)
				if err != nil || n != l {
					t.Errorf("write: %d %v", n, err)
					return
				}
			}
		}(i)
	}
	next := make([]int, writers)
	buf := make([]byte, 20480)
	for cnt := 0; cnt < writers*per; cnt++ {
		if cnt%64 == 0 {
			time.Sleep(time.Millisecond)
		}
		b.SetReadDeadline(time.Now().Add(10 * time.Second))
		n, err := r.Read(buf)
		if err != nil {
			t.Fatalf("read %d: %v", cnt, err)
		}
		i := int(binary.BigEndian.Uint32(buf))
		k := int(binary.BigEndian.Uint32(buf[4:]))
		if i >= writers || k != next[i] {
			t.Fatalf("order/interleave: writer %d k %d want %d", i, k, next[i])
		}
		next[i]++
		for j := 8; j < n; j++ {
			if buf[j] != byte(i*31+k*7+j) {
				t.Fatalf("content altered")
			}
		}
	}
	wg.Wait()
}
