package multiplex

import (
	"bytes"
	"io"
	"math/rand"
	"net"
	"sync"
	"sync/atomic"
	"testing"
	"time"

	"github.com/cbeuw/Cloak/internal/common"
)

func redPair(t testing.TB, numConn int, unordered bool, tcp bool) (*Session, *Session, []net.Conn, []net.Conn) {
	var key [32]byte
	rand.Read(key[:])
	obfs, _ := MakeObfuscator(EncryptionMethodAES128GCM, key)
	cfg := SessionConfig{Obfuscator: obfs, Unordered: unordered, MsgOnWireSizeLimit: 16401, InactivityTimeout: time.Hour}
	c := MakeSession(1, cfg)
	s := MakeSession(1, cfg)
	var cr, sr []net.Conn
	var l net.Listener
	if tcp {
		l, _ = net.Listen("tcp", "127.0.0.1:0")
		defer l.Close()
	}
	for i := 0; i < numConn; i++ {
		var a, b net.Conn
		if tcp {
			var err error
			a, err = net.Dial("tcp", l.Addr().String())
			if err != nil {
				t.Fatal(err)
			}
			b, _ = l.Accept()
		} else {
			a, b = net.Pipe()
		}
		cr = append(cr, a)
		sr = append(sr, b)
		c.AddConnection(common.NewTLSConn(a))
		s.AddConnection(common.NewTLSConn(b))
	}
	return c, s, cr, sr
}

// Many rounds: streams transferring, then a random teardown event (Close on either side, or a raw conn
// closed under the session) while Open/Read/Write/Close/Accept run. Afterwards: all blocked ops returned,
// every reader saw a prefix, OpenStream refused, all raw conns closed.
func TestRedC12_Stress(t *testing.T) {
	rounds := 150
	for r := 0; r < rounds; r++ {
		rng := rand.New(rand.NewSource(int64(r)))
		nconn := 1 + rng.Intn(3)
		cli, srv, cr, sr := redPair(t, nconn, false, true)
		var wg sync.WaitGroup
		var bad atomic.Value

		// server: echo-less sink that records what it read per stream and verifies pattern prefix
		wg.Add(1)
		go func() {
			defer wg.Done()
			for {
				st, err := srv.Accept()
				if err != nil {
					return
				}
				wg.Add(1)
				go func(st net.Conn) {
					defer wg.Done()
					buf := make([]byte, 4096)
					var pos int
					var id byte
					first := true
					for {
						n, err := st.Read(buf)
						for i := 0; i < n; i++ {
							if first {
								id = buf[i]
								first = false
								pos = 1
								continue
							}
							if buf[i] != id+byte(pos*31) {
								bad.Store("not a prefix")
								return
							}
							pos++
						}
						if err != nil {
							// after an error no more data
							n2, err2 := st.Read(buf)
							if n2 != 0 || err2 == nil {
								bad.Store("data after error")
							}
							return
						}
					}
				}(st)
			}
		}()
		nst := 1 + rng.Intn(6)
		for i := 0; i < nst; i++ {
			wg.Add(1)
			go func(i int) {
				defer wg.Done()
				st, err := cli.OpenStream()
				if err != nil {
					return
				}
				id := byte(i + 1)
				pos := 0
				chunk := make([]byte, 1+rand.Intn(40000))
				for k := 0; k < 50; k++ {
					for j := range chunk {
						if pos == 0 {
							chunk[j] = id
						} else {
							chunk[j] = id + byte(pos*31)
						}
						pos++
					}
					n, err := st.Write(chunk)
					if err != nil {
						_ = n
						break
					}
				}
				if i%2 == 0 {
					st.Close()
				} else {
					// blocked read must return
					st.Read(make([]byte, 10))
				}
			}(i)
		}
		time.Sleep(time.Duration(rng.Intn(3000)) * time.Microsecond)
		switch rng.Intn(4) {
		case 0:
			cli.Close()
		case 1:
			srv.Close()
		case 2:
			cr[rng.Intn(nconn)].Close()
		case 3:
			sr[rng.Intn(nconn)].Close()
		}
		done := make(chan struct{})
		go func() { wg.Wait(); close(done) }()
		select {
		case <-done:
		case <-time.After(10 * time.Second):
			t.Fatalf("round %d: something stayed blocked", r)
		}
		if v := bad.Load(); v != nil {
			t.Fatalf("round %d: %v", r, v)
		}
		deadline := time.Now().Add(5 * time.Second)
		for {
			ok := cli.IsClosed() && srv.IsClosed()
			if ok {
				for _, c := range append(cr, sr...) {
					c.SetReadDeadline(time.Now().Add(time.Millisecond))
					_, err := c.Read(make([]byte, 1))
					if err == nil || err == io.EOF {
						continue // EOF from a raw read means peer closed but we are not: not closed locally
					}
					if ne, is := err.(net.Error); is && ne.Timeout() {
						ok = false
					}
				}
			}
			if ok {
				break
			}
			if time.Now().After(deadline) {
				t.Fatalf("round %d: sessions/conns not all closed: cli %v srv %v", r, cli.IsClosed(), srv.IsClosed())
			}
			time.Sleep(5 * time.Millisecond)
		}
		if _, err := cli.OpenStream(); err == nil {
			t.Fatalf("OpenStream accepted after close")
		}
		if _, err := srv.OpenStream(); err == nil {
			t.Fatalf("OpenStream accepted after close")
		}
	}
	_ = bytes.Equal
}

func redPairT(t testing.TB, inact time.Duration) (*Session, *Session, []net.Conn, []net.Conn) {
	var key [32]byte
	rand.Read(key[:])
	obfs, _ := MakeObfuscator(EncryptionMethodAES128GCM, key)
	cfg := SessionConfig{Obfuscator: obfs, MsgOnWireSizeLimit: 16401, InactivityTimeout: inact}
	c := MakeSession(1, cfg)
	s := MakeSession(1, cfg)
	a, b := net.Pipe()
	c.AddConnection(common.NewTLSConn(a))
	s.AddConnection(common.NewTLSConn(b))
	return c, s, []net.Conn{a}, []net.Conn{b}
}
