package multiplex

import (
	"testing"
	"time"
)

// OBSERVATION (outside Cloak's own usage: only ck-client opens streams). Stream ids are allocated 1,2,3...
// independently on both ends, and OpenStream stores into sesh.streams[id] without looking. If the accepting
// side also opens a stream, its id collides with a stream it accepted: the accepted stream is displaced from
// the table, so closeSession never closes it and its blocked reader never returns.
func TestRedC12_BothSidesOpen_DisplacedStreamNeverClosed(t *testing.T) {
	cli, srv, _, _ := redPair(t, 1, false, false)
	cs, _ := cli.OpenStream() // id 1 on the client
	cs.Write([]byte("x"))
	acc, err := srv.Accept() // id 1 in the server's table
	if err != nil {
		t.Fatal(err)
	}
	b := make([]byte, 4)
	acc.Read(b)
	returned := make(chan error, 1)
	go func() { _, err := acc.Read(b); returned <- err }()

	if _, err := srv.OpenStream(); err != nil { // id 1 again: overwrites the table entry
		t.Fatal(err)
	}
	time.Sleep(50 * time.Millisecond)
	srv.Close()
	select {
	case err := <-returned:
		t.Logf("blocked read returned: %v", err)
	case <-time.After(2 * time.Second):
		t.Errorf("session closed, but the reader blocked on the accepted stream never returned")
	}
}
