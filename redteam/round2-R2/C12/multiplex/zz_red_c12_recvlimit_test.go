package multiplex

import (
	"math/rand"
	"net"
	"os"
	"sync/atomic"
	"testing"
	"time"

	"github.com/cbeuw/Cloak/internal/common"
)

type redCloseRec struct {
	net.Conn
	closed int32
}

func (c *redCloseRec) Close() error { atomic.StoreInt32(&c.closed, 1); return c.Conn.Close() }

// HEAVY (needs ~2 GiB in one bytes.Buffer, a few GiB peak, ~10-20 s): run with RED_HEAVY=1.
//
// An ordered session. The application behind one server-side stream X stops reading (a stalled proxy
// target), the client keeps uploading into X. Nothing applies back-pressure until 2 GiB are buffered; at
// that point streamBufferedPipe.Write blocks INSIDE streamBuffer.Write, i.e. while holding streamBuffer.recvM.
// From then on the session cannot be torn down: closeSession takes streamsM and calls
// stream.recvBuf.Close() ("will not block"), which for a streamBuffer first takes recvM -> blocked for ever,
// with streamsM held. Close()/passiveClose never reach closeAll: connections stay open, streams that the
// sweep had not reached yet keep their readers blocked, the peer's writers stay blocked.
func TestRedC12_CloseBlockedByFullRecvBuffer(t *testing.T) {
	if os.Getenv("RED_HEAVY") == "" {
		t.Skip("set RED_HEAVY=1 (allocates > 2 GiB)")
	}
	var key [32]byte
	rand.Read(key[:])
	obfs, _ := MakeObfuscator(EncryptionMethodPlain, key)
	cfg := SessionConfig{Obfuscator: obfs, MsgOnWireSizeLimit: 16401, InactivityTimeout: time.Hour}
	cli := MakeSession(1, cfg)
	srv := MakeSession(1, cfg)
	var srvRaw []*redCloseRec
	for i := 0; i < 2; i++ {
		a, b := net.Pipe()
		rec := &redCloseRec{Conn: b}
		srvRaw = append(srvRaw, rec)
		cli.AddConnection(common.NewTLSConn(a))
		srv.AddConnection(common.NewTLSConn(rec))
	}

	// a few other streams with readers blocked on the server side
	const others = 8
	readerReturned := make(chan int, others)
	for i := 0; i < others; i++ {
		st, err := cli.OpenStream()
		if err != nil {
			t.Fatal(err)
		}
		st.Write([]byte{byte(i)})
		sst, err := srv.Accept()
		if err != nil {
			t.Fatal(err)
		}
		go func(i int) {
			b := make([]byte, 16)
			sst.Read(b) // the byte
			sst.Read(b) // blocks until the session dies
			readerReturned <- i
		}(i)
	}

	x, _ := cli.OpenStream()
	var sent int64
	writerReturned := make(chan error, 1)
	go func() {
		chunk := make([]byte, 1<<20)
		for {
			n, err := x.Write(chunk)
			atomic.AddInt64(&sent, int64(n))
			if err != nil {
				writerReturned <- err
				return
			}
		}
	}()
	sx, err := srv.Accept() // accepted, but its consumer never reads
	if err != nil {
		t.Fatal(err)
	}
	_ = sx

	// wait until the upload stalls
	last, stall := int64(-1), 0
	for stall < 25 || last < 1<<31 {
		time.Sleep(200 * time.Millisecond)
		cur := atomic.LoadInt64(&sent)
		if stall > 600 {
			t.Fatalf("upload stalled for 2 minutes at %d bytes, below the 2 GiB limit", cur)
		}
		if cur == last {
			stall++
		} else {
			stall = 0
		}
		last = cur
		select {
		case err := <-writerReturned:
			t.Fatalf("writer failed early: %v", err)
		default:
		}
	}
	t.Logf("upload stalled after %d bytes buffered on the server side; session still open: %v", last, !srv.IsClosed())

	// now the server side closes the session
	closeReturned := make(chan error, 1)
	go func() { closeReturned <- srv.Close() }()

	deadline := time.After(10 * time.Second)
	gotClose, gotWriter, gotReaders := false, false, 0
wait:
	for !(gotClose && gotWriter && gotReaders == others) {
		select {
		case <-closeReturned:
			gotClose = true
		case <-writerReturned:
			gotWriter = true
		case <-readerReturned:
			gotReaders++
		case <-deadline:
			break wait
		}
	}
	nclosed := 0
	for _, c := range srvRaw {
		if atomic.LoadInt32(&c.closed) == 1 {
			nclosed++
		}
	}
	t.Logf("10 s after srv.Close(): Close returned=%v, blocked readers returned=%d/%d, peer's blocked writer returned=%v, server conns closed=%d/%d",
		gotClose, gotReaders, others, gotWriter, nclosed, len(srvRaw))
	if !gotClose || !gotWriter || gotReaders != others || nclosed != len(srvRaw) {
		t.Errorf("VIOLATION: session teardown is stuck (blocked operations did not return / connections not closed)")
	}

	// root cause check: as soon as the stalled consumer reads a little, everything completes
	go func() {
		b := make([]byte, 1<<20)
		for {
			if _, err := sx.Read(b); err != nil {
				return
			}
		}
	}()
	t0 := time.Now()
	select {
	case <-closeReturned:
		t.Logf("after the consumer of X resumed reading, Close() returned (%v later)", time.Since(t0))
	case <-time.After(120 * time.Second):
		if !gotClose {
			t.Logf("Close() still blocked after consumer resumed")
		}
	}
}
