//go:build goexperiment.synctest

package multiplex

import (
	"testing"
	"testing/synctest"
	"time"
)

// virtual clock: phases of the inactivity timer
func TestRedC12_TimerPhases(t *testing.T) {
	synctest.Run(func() {
		cli, srv, _, _ := redPairT(t, 30*time.Second)
		// phase 1: a stream opened before the first timer fires keeps the session open
		time.Sleep(29*time.Second + 999*time.Millisecond)
		st, err := cli.OpenStream()
		if err != nil {
			t.Fatal(err)
		}
		st.Write([]byte("a"))
		sst, _ := srv.Accept()
		time.Sleep(5 * time.Minute)
		synctest.Wait()
		if cli.IsClosed() || srv.IsClosed() {
			t.Fatalf("closed with an open stream")
		}
		// phase 2: close at T, session must stay until T+30 if nothing opens; a stream opened in between keeps it
		st.Close()
		synctest.Wait()
		_ = sst
		time.Sleep(29 * time.Second)
		st2, err := cli.OpenStream()
		if err != nil {
			t.Fatal(err)
		}
		st2.Write([]byte("b"))
		sst2, _ := srv.Accept()
		time.Sleep(2 * time.Second) // the timer armed at T fires now: one stream open
		synctest.Wait()
		if cli.IsClosed() || srv.IsClosed() {
			t.Fatalf("closed with an open stream (phase 2)")
		}
		// phase 3 (premature, but allowed by the property text): the count reaches 0 twice; the timer armed the
		// first time fires 1 s after the second time
		st2.Close() // count 0: arms a timer for +30 s
		synctest.Wait()
		time.Sleep(1 * time.Second)
		st3, _ := cli.OpenStream()
		st3.Write([]byte("c"))
		srv.Accept()
		time.Sleep(28 * time.Second)
		st3.Close() // count 0 again at +29 s: arms another for +59 s
		synctest.Wait()
		time.Sleep(1*time.Second + time.Millisecond)
		synctest.Wait()
		t.Logf("1 s after the last stream closed: client closed=%v server closed=%v (old timer fired)", cli.IsClosed(), srv.IsClosed())
		_ = sst2
		time.Sleep(time.Minute)
		synctest.Wait()
		if !cli.IsClosed() || !srv.IsClosed() {
			t.Fatalf("idle session never closed")
		}
	})
}
