package multiplex

import (
	"net"
	"sync/atomic"
	"testing"
	"time"

	"github.com/cbeuw/Cloak/internal/common"
)

// OBSERVATION. switchboard.addConn does not look at sb.broken, and closeAll only closes what is in the table
// at that moment. A connection handed to AddConnection after (or while) the session was torn down is stored,
// gets a deplex goroutine, and is never closed by this session. Both glue paths can do that:
//   - server: dispatchConnection does GetSession ... finishHandshake ... sesh.AddConnection(conn); the session
//     may die in between (or GetSession may return an already closed session that serveSession has not yet
//     removed from the user's table);
//   - client: MakeSession adds its NumConn connections one after the other; the deplex of the first one may see
//     a reset at once and tear the session down before the later ones are added.
// Normally the peer closes its end and the EOF lets deplex close the straggler. If the same happens on both
// ends (one reset during session establishment is enough to trigger both), the pair of connections stays
// open for ever: nobody writes, nobody closes, keep-alives succeed.
func TestRedC12_ConnAddedAfterTeardownIsNeverClosed(t *testing.T) {
	cli, srv, cr, _ := redPair(t, 1, false, false)
	// one fault, seen by both ends
	cr[0].Close()
	deadline := time.Now().Add(2 * time.Second)
	for !(cli.IsClosed() && srv.IsClosed()) {
		if time.Now().After(deadline) {
			t.Fatal("sessions did not close")
		}
		time.Sleep(time.Millisecond)
	}
	time.Sleep(20 * time.Millisecond) // closeAll done

	// the straggler of the same session, on both ends
	a, b := net.Pipe()
	ra, rb := &redCloseRec{Conn: a}, &redCloseRec{Conn: b}
	cli.AddConnection(common.NewTLSConn(ra))
	srv.AddConnection(common.NewTLSConn(rb))

	time.Sleep(1 * time.Second)
	if atomic.LoadInt32(&ra.closed) == 0 || atomic.LoadInt32(&rb.closed) == 0 {
		t.Errorf("both sessions are closed, but their last connection is still open on both ends (client closed=%v, server closed=%v)",
			atomic.LoadInt32(&ra.closed) == 1, atomic.LoadInt32(&rb.closed) == 1)
	}
}
