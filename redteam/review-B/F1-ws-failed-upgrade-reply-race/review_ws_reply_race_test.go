package server

// Review finding F1 (commit 6b8f847): after a failed WebSocket upgrade the responder closes the connection
// concurrently with net/http writing the HTTP error reply, so what the peer gets for one and the same request is
// a matter of scheduling: mostly "HTTP/1.1 400 Bad Request", sometimes a bare close with no byte at all.
//
// Copy this file into internal/server/ and run
//   go test -count=1 -race -v -run TestReview_WSFailedUpgrade ./internal/server/
//
// TestReview_WSFailedUpgradeReplyNotCutOff (deterministic): FAIL on HEAD, PASS on 6b8f847^.
// TestReview_WSFailedUpgradeReplyIsDeterministic (statistical): fails on HEAD in most runs, never on 6b8f847^.

import (
	"bufio"
	"crypto/rand"
	"encoding/base64"
	"encoding/binary"
	"fmt"
	"net"
	"net/http"
	"testing"
	"time"

	"github.com/cbeuw/Cloak/internal/common"
	"github.com/cbeuw/Cloak/internal/ecdh"
	"github.com/cbeuw/Cloak/internal/server/usermanager"
)

// rvF1Setup starts a server (dispatchConnection behind a loopback listener; every accepted connection goes through
// wrap first) with one authorised bypass user, and returns the listener and a maker of fresh, valid "hidden" values
func rvF1Setup(t *testing.T, wrap func(net.Conn) net.Conn) (net.Listener, func(uint32) string) {
	pv, pubI, err := ecdh.GenerateKey(rand.Reader)
	if err != nil {
		t.Fatal(err)
	}
	var serverPub [32]byte
	copy(serverPub[:], ecdh.Marshal(pubI))
	uid := make([]byte, 16)
	rand.Read(uid)

	sta := &State{
		BypassUID:   make(map[[16]byte]struct{}),
		ProxyBook:   map[string]net.Addr{"test": &net.TCPAddr{IP: net.IPv4(127, 0, 0, 1), Port: 9}},
		UsedRandom:  map[[32]byte]int64{},
		RedirDialer: &net.Dialer{},
		ProxyDialer: &net.Dialer{},
		WorldState:  common.RealWorldState,
		RedirHost:   &net.IPAddr{IP: net.IPv4(127, 0, 0, 1)},
		RedirPort:   "9",
		StaticPv:    pv,
	}
	var arr [16]byte
	copy(arr[:], uid)
	sta.BypassUID[arr] = struct{}{} // an authorised (bypass) user
	sta.Panel = MakeUserPanel(&usermanager.Voidmanager{})

	l, err := net.Listen("tcp", "127.0.0.1:0")
	if err != nil {
		t.Fatal(err)
	}
	go func() {
		for {
			c, err := l.Accept()
			if err != nil {
				return
			}
			go dispatchConnection(wrap(c), sta)
		}
	}()

	// a fresh, valid authentication payload of that user, as the client's WebSocket transport makes it
	hidden := func(sessionID uint32) string {
		ephPv, ephPubI, err := ecdh.GenerateKey(rand.Reader)
		if err != nil {
			t.Fatal(err)
		}
		ephPub := ecdh.Marshal(ephPubI)
		plaintext := make([]byte, 48)
		copy(plaintext, uid)
		copy(plaintext[16:28], "test")
		binary.BigEndian.PutUint64(plaintext[29:37], uint64(time.Now().UTC().Unix()))
		binary.BigEndian.PutUint32(plaintext[37:41], sessionID)
		secret, err := ecdh.GenerateSharedSecret(ephPv, &serverPub)
		if err != nil {
			t.Fatal(err)
		}
		ct, err := common.AESGCMEncrypt(ephPub[:12], secret, plaintext)
		if err != nil {
			t.Fatal(err)
		}
		return base64.StdEncoding.EncodeToString(append(append([]byte{}, ephPub...), ct...))
	}
	return l, hidden
}

// Statistical form, plain TCP, nothing slowed down: both answers occur. The share of bare closes depends on the
// machine and its load (0 to about 1.5 % here), so this test does not fail in every run; the deterministic form
// below does.
func TestReview_WSFailedUpgradeReplyIsDeterministic(t *testing.T) {
	l, hidden := rvF1Setup(t, func(c net.Conn) net.Conn { return c })
	defer l.Close()

	// The request authenticates but is not an upgrade request (what remains of the client's request when an
	// intermediary - the WebSocket transport exists for CDNs - drops the hop-by-hop Connection/Upgrade headers).
	// One session id for all attempts: the first one makes the session, the others find it existing.
	const attempts = 1500
	outcomes := map[string]int{}
	for i := 0; i < attempts; i++ {
		c, err := net.Dial("tcp", l.Addr().String())
		if err != nil {
			t.Fatal(err)
		}
		req := "GET / HTTP/1.1\r\nHost: example.com\r\nhidden: " + hidden(7) + "\r\n\r\n"
		if _, err := c.Write([]byte(req)); err != nil {
			t.Fatal(err)
		}
		c.SetReadDeadline(time.Now().Add(3 * time.Second))
		resp, err := http.ReadResponse(bufio.NewReader(c), nil)
		var key string
		if err != nil {
			key = fmt.Sprintf("no reply, connection closed (%v)", err)
		} else {
			key = "reply " + resp.Status
		}
		outcomes[key]++
		c.Close()
	}
	for k, v := range outcomes {
		t.Logf("%5d x %s", v, k)
	}
	if len(outcomes) != 1 {
		t.Errorf("one and the same request was answered in %d different ways", len(outcomes))
	}
}

// slowWriteConn is a connection whose Write takes a little while before the bytes go out (a busy machine, a
// congested link, a wrapping transport): perfectly legal for a net.Conn
type slowWriteConn struct {
	net.Conn
	delay time.Duration
}

func (c slowWriteConn) Write(b []byte) (int, error) {
	time.Sleep(c.delay)
	return c.Conn.Write(b)
}

// Deterministic form: when the write of the HTTP error reply is a few milliseconds slow, the responder's
// originalConn.Close() - issued as soon as the handler has reported the failure, i.e. before net/http has even
// flushed the reply - always wins and the peer never sees the reply that the library was in the middle of sending.
// On 6b8f847^ the peer always gets it.
func TestReview_WSFailedUpgradeReplyNotCutOff(t *testing.T) {
	l, hidden := rvF1Setup(t, func(c net.Conn) net.Conn { return slowWriteConn{c, 20 * time.Millisecond} })
	defer l.Close()

	for i := 0; i < 5; i++ {
		c, err := net.Dial("tcp", l.Addr().String())
		if err != nil {
			t.Fatal(err)
		}
		req := "GET / HTTP/1.1\r\nHost: example.com\r\nhidden: " + hidden(7) + "\r\n\r\n"
		if _, err := c.Write([]byte(req)); err != nil {
			t.Fatal(err)
		}
		c.SetReadDeadline(time.Now().Add(3 * time.Second))
		resp, err := http.ReadResponse(bufio.NewReader(c), nil)
		if err != nil {
			t.Errorf("attempt %d: no reply: %v", i, err)
		} else if resp.StatusCode != 400 {
			t.Errorf("attempt %d: reply %v", i, resp.Status)
		}
		c.Close()
	}
}
