//go:build verif

package server

// Review finding F2 (commit 4ef435e, widened by 816ac8c and a331b4f): the dispatcher's `goto retry` is a busy-wait.
// From the moment a user record is marked retired until TerminateActiveUser has removed it from activeUsers, every
// connection of that user runs GetUser/GetSession in a tight loop, without a pause and without a bound.
//
// Copy this file into internal/server/ and run
//   go test -tags verif -count=1 -run TestReview_DispatcherRetryDoesNotBusyWait ./internal/server/
//
// The termination is held up for 300 ms at the schedule point that the verif hooks provide between "retired" and
// TerminateActiveUser (in production: the terminator waiting for usageUpdateQueueM / sessionsM / activeUsersM, being
// descheduled, or writing its log line). One connection of the same user arrives in that window; the test counts
// how many times it goes round the lookup.
// HEAD: millions of rounds (one core pegged per waiting connection)  -> FAIL
// 4ef435e^: one round                                               -> PASS

import (
	"bufio"
	"crypto/rand"
	"encoding/base64"
	"encoding/binary"
	"net"
	"net/http"
	"sync/atomic"
	"testing"
	"time"

	"github.com/cbeuw/Cloak/internal/common"
	"github.com/cbeuw/Cloak/internal/ecdh"
	"github.com/cbeuw/Cloak/internal/server/usermanager"
)

func TestReview_DispatcherRetryDoesNotBusyWait(t *testing.T) {
	pv, pubI, err := ecdh.GenerateKey(rand.Reader)
	if err != nil {
		t.Fatal(err)
	}
	var serverPub [32]byte
	copy(serverPub[:], ecdh.Marshal(pubI))
	uid := make([]byte, 16)
	rand.Read(uid)

	sta := &State{
		BypassUID:   make(map[[16]byte]struct{}),
		ProxyBook:   map[string]net.Addr{"test": &net.TCPAddr{IP: net.IPv4(127, 0, 0, 1), Port: 9}},
		UsedRandom:  map[[32]byte]int64{},
		RedirDialer: &net.Dialer{},
		ProxyDialer: &net.Dialer{},
		WorldState:  common.RealWorldState,
		RedirHost:   &net.IPAddr{IP: net.IPv4(127, 0, 0, 1)},
		RedirPort:   "9",
		StaticPv:    pv,
	}
	var arr [16]byte
	copy(arr[:], uid)
	sta.BypassUID[arr] = struct{}{}
	sta.Panel = MakeUserPanel(&usermanager.Voidmanager{})

	l, err := net.Listen("tcp", "127.0.0.1:0")
	if err != nil {
		t.Fatal(err)
	}
	defer l.Close()
	go func() {
		for {
			c, err := l.Accept()
			if err != nil {
				return
			}
			go dispatchConnection(c, sta)
		}
	}()

	connect := func(sessionID uint32) net.Conn {
		ephPv, ephPubI, _ := ecdh.GenerateKey(rand.Reader)
		ephPub := ecdh.Marshal(ephPubI)
		plaintext := make([]byte, 48)
		copy(plaintext, uid)
		copy(plaintext[16:28], "test")
		binary.BigEndian.PutUint64(plaintext[29:37], uint64(time.Now().UTC().Unix()))
		binary.BigEndian.PutUint32(plaintext[37:41], sessionID)
		secret, _ := ecdh.GenerateSharedSecret(ephPv, &serverPub)
		ct, _ := common.AESGCMEncrypt(ephPub[:12], secret, plaintext)
		hidden := base64.StdEncoding.EncodeToString(append(append([]byte{}, ephPub...), ct...))

		c, err := net.Dial("tcp", l.Addr().String())
		if err != nil {
			t.Fatal(err)
		}
		req := "GET / HTTP/1.1\r\nHost: x\r\nConnection: Upgrade\r\nUpgrade: websocket\r\nSec-WebSocket-Version: 13\r\n" +
			"Sec-WebSocket-Key: lJYh7X8DRXW1U0h9WKwVMA==\r\nhidden: " + hidden + "\r\n\r\n"
		c.Write([]byte(req))
		c.SetReadDeadline(time.Now().Add(5 * time.Second))
		resp, err := http.ReadResponse(bufio.NewReader(c), nil)
		if err != nil || resp.StatusCode != 101 {
			t.Fatalf("handshake of session %d: %v %v", sessionID, resp, err)
		}
		return c
	}

	var lookups int64
	var parked = make(chan struct{}, 1)
	var parkOnce int32
	common.SetVerifHook(func(label string) {
		switch label {
		case "dispatchConnection:beforeGetSession":
			atomic.AddInt64(&lookups, 1)
		case "ActiveUser.CloseSession:beforeTerminate":
			if atomic.CompareAndSwapInt32(&parkOnce, 0, 1) {
				parked <- struct{}{}
				time.Sleep(300 * time.Millisecond)
			}
		}
	})
	defer common.SetVerifHook(nil)

	a := connect(1) // the user's only session
	a.Close()       // ... ends: CloseSession finds no session left and is about to terminate the user
	select {
	case <-parked:
	case <-time.After(5 * time.Second):
		t.Fatal("the session was not closed")
	}
	atomic.StoreInt64(&lookups, 0)
	b := connect(2) // a new connection of the same user, while the termination is in progress
	defer b.Close()

	n := atomic.LoadInt64(&lookups)
	t.Logf("the connection went round the user lookup %d times while the user's termination was in progress (300 ms)", n)
	if n > 1000 {
		t.Errorf("busy-wait: %d lookups in 300 ms", n)
	}
}
