package server

// Exploratory tests of the review (all PASS on HEAD): they back the "OK" verdicts in ../summary.md.
// Copy into internal/server/ and run
//   go test -count=1 -race -v -run TestRV_ ./internal/server/
// (TestRV_LostCreatorBookkeeping takes 31 s: it waits for the session's inactivity timeout.)

import (
	"bytes"
	"crypto/rand"
	"encoding/base64"
	"encoding/binary"
	"fmt"
	"io"
	"net"
	"os"
	"runtime"
	"strings"
	"sync"
	"sync/atomic"
	"testing"
	"time"

	"github.com/cbeuw/Cloak/internal/common"
	"github.com/cbeuw/Cloak/internal/ecdh"
	mux "github.com/cbeuw/Cloak/internal/multiplex"
	"github.com/cbeuw/Cloak/internal/server/usermanager"
)

type rvState struct {
	sta    *State
	pub    [32]byte
	uid    []byte
	redirL net.Listener
}

// a server State with one bypass UID, a ProxyBook entry "test" and a redirect listener that answers "WEB"
func rvMakeState(t testing.TB) *rvState {
	pv, pubI, err := ecdh.GenerateKey(rand.Reader)
	if err != nil {
		t.Fatal(err)
	}
	uid := make([]byte, 16)
	rand.Read(uid)
	redirL, err := net.Listen("tcp", "127.0.0.1:0")
	if err != nil {
		t.Fatal(err)
	}
	go func() {
		for {
			c, err := redirL.Accept()
			if err != nil {
				return
			}
			go func() {
				buf := make([]byte, 4096)
				c.SetReadDeadline(time.Now().Add(2 * time.Second))
				c.Read(buf)
				c.Write([]byte("WEB"))
				c.Close()
			}()
		}
	}()
	_, port, _ := net.SplitHostPort(redirL.Addr().String())
	sta := &State{
		BypassUID:   make(map[[16]byte]struct{}),
		ProxyBook:   map[string]net.Addr{"test": &net.TCPAddr{IP: net.IPv4(127, 0, 0, 1), Port: 9}},
		UsedRandom:  map[[32]byte]int64{},
		RedirDialer: &net.Dialer{},
		ProxyDialer: &net.Dialer{},
		WorldState:  common.RealWorldState,
		RedirHost:   &net.IPAddr{IP: net.IPv4(127, 0, 0, 1)},
		RedirPort:   port,
		StaticPv:    pv,
	}
	var arr [16]byte
	copy(arr[:], uid)
	sta.BypassUID[arr] = struct{}{}
	sta.Panel = MakeUserPanel(&usermanager.Voidmanager{})
	ret := &rvState{sta: sta, uid: uid, redirL: redirL}
	copy(ret.pub[:], ecdh.Marshal(pubI))
	return ret
}

func (s *rvState) hidden(t testing.TB, sessionID uint32) string {
	ephPv, ephPubI, _ := ecdh.GenerateKey(rand.Reader)
	ephPub := ecdh.Marshal(ephPubI)
	plaintext := make([]byte, 48)
	copy(plaintext, s.uid)
	copy(plaintext[16:28], "test")
	binary.BigEndian.PutUint64(plaintext[29:37], uint64(time.Now().UTC().Unix()))
	binary.BigEndian.PutUint32(plaintext[37:41], sessionID)
	pub := s.pub
	secret, _ := ecdh.GenerateSharedSecret(ephPv, &pub)
	ct, _ := common.AESGCMEncrypt(ephPub[:12], secret, plaintext)
	return base64.StdEncoding.EncodeToString(append(append([]byte{}, ephPub...), ct...))
}

func (s *rvState) roundTrip(t testing.TB, l net.Listener, request string) (got []byte, closed bool) {
	c, err := net.Dial("tcp", l.Addr().String())
	if err != nil {
		t.Fatal(err)
	}
	defer c.Close()
	c.Write([]byte(request))
	c.SetReadDeadline(time.Now().Add(3 * time.Second))
	got, err = io.ReadAll(c)
	if ne, ok := err.(net.Error); ok && ne.Timeout() {
		return got, false
	}
	return got, true
}

func rvListen(t testing.TB, sta *State) net.Listener {
	l, err := net.Listen("tcp", "127.0.0.1:0")
	if err != nil {
		t.Fatal(err)
	}
	go func() {
		for {
			c, err := l.Accept()
			if err != nil {
				return
			}
			go dispatchConnection(c, sta)
		}
	}()
	return l
}

func rvActive(sta *State) int {
	sta.Panel.activeUsersM.RLock()
	defer sta.Panel.activeUsersM.RUnlock()
	return len(sta.Panel.activeUsers)
}

const rvUpgradeHeaders = "Connection: Upgrade\r\nUpgrade: websocket\r\nSec-WebSocket-Version: 13\r\nSec-WebSocket-Key: lJYh7X8DRXW1U0h9WKwVMA==\r\n"

// 6b8f847, ConnState path: net/http refuses the request before the handler runs (HTTP/1.1 without Host). The
// responder returns, the peer always gets net/http's 400 and a close.
func TestRV_WSNoHost(t *testing.T) {
	s := rvMakeState(t)
	defer s.redirL.Close()
	l := rvListen(t, s.sta)
	defer l.Close()
	outcomes := map[string]int{}
	for i := 0; i < 100; i++ {
		got, closed := s.roundTrip(t, l, "GET / HTTP/1.1\r\n"+rvUpgradeHeaders+"hidden: "+s.hidden(t, 7)+"\r\n\r\n")
		outcomes[fmt.Sprintf("closed=%v first-line=%q", closed, strings.SplitN(string(got), "\r\n", 2)[0])]++
	}
	for k, v := range outcomes {
		t.Logf("%4d x %s", v, k)
	}
	if len(outcomes) != 1 {
		t.Errorf("%d different answers", len(outcomes))
	}
}

// 6b8f847, success path: 101 + 60-byte reply, no StateClosed mistaken for failure, nothing left behind once the
// peers have gone
func TestRV_WSGood(t *testing.T) {
	s := rvMakeState(t)
	defer s.redirL.Close()
	l := rvListen(t, s.sta)
	defer l.Close()
	base := runtime.NumGoroutine()
	for i := 0; i < 20; i++ {
		c, err := net.Dial("tcp", l.Addr().String())
		if err != nil {
			t.Fatal(err)
		}
		c.Write([]byte("GET / HTTP/1.1\r\nHost: x\r\n" + rvUpgradeHeaders + "hidden: " + s.hidden(t, uint32(1000+i)) + "\r\n\r\n"))
		buf := make([]byte, 4096)
		c.SetReadDeadline(time.Now().Add(time.Second))
		n, _ := io.ReadAtLeast(c, buf, 129+2+60)
		if !bytes.HasPrefix(buf[:n], []byte("HTTP/1.1 101")) || n != 191 {
			t.Errorf("%d bytes: %q", n, buf[:n])
		}
		c.Close()
	}
	time.Sleep(500 * time.Millisecond)
	t.Logf("goroutines before %d after %d, active users %d", base, runtime.NumGoroutine(), rvActive(s.sta))
	if rvActive(s.sta) != 0 || runtime.NumGoroutine() > base {
		t.Errorf("left behind")
	}
}

// a52ceff (+6b8f847): the session made by a connection whose handshake reply failed is served, and is taken off
// the books - session, user record, goroutines - when its inactivity timeout closes it
func TestRV_LostCreatorBookkeeping(t *testing.T) {
	s := rvMakeState(t)
	defer s.redirL.Close()
	l := rvListen(t, s.sta)
	defer l.Close()
	base := runtime.NumGoroutine()
	for i := 0; i < 5; i++ {
		s.roundTrip(t, l, "GET / HTTP/1.1\r\nHost: example.com\r\nhidden: "+s.hidden(t, uint32(1000+i))+"\r\n\r\n")
	}
	time.Sleep(300 * time.Millisecond)
	t.Logf("after the failures: goroutines %d (base %d), active users %d", runtime.NumGoroutine(), base, rvActive(s.sta))
	time.Sleep(31 * time.Second)
	t.Logf("31 s later: goroutines %d (base %d), active users %d", runtime.NumGoroutine(), base, rvActive(s.sta))
	if rvActive(s.sta) != 0 || runtime.NumGoroutine() > base {
		t.Errorf("left behind")
	}
}

// the whole dispatcher with an ordinary (database) user, cap 2, 16 clients x 60 connections on 4 session ids
func TestRV_Stress(t *testing.T) {
	s := rvMakeState(t)
	defer s.redirL.Close()
	f, _ := os.CreateTemp("", "rvdb")
	f.Close()
	defer os.Remove(f.Name())
	mgr, err := usermanager.MakeLocalManager(f.Name(), common.RealWorldState)
	if err != nil {
		t.Fatal(err)
	}
	defer mgr.Close()
	s.sta.Panel = MakeUserPanel(mgr)
	s.sta.BypassUID = map[[16]byte]struct{}{}
	mgr.WriteUserInfo(usermanager.UserInfo{UID: s.uid, SessionsCap: usermanager.JustInt32(2),
		UpRate: usermanager.JustInt64(1 << 30), DownRate: usermanager.JustInt64(1 << 30),
		UpCredit: usermanager.JustInt64(1 << 40), DownCredit: usermanager.JustInt64(1 << 40),
		ExpiryTime: usermanager.JustInt64(time.Now().Unix() + 100000)})
	l := rvListen(t, s.sta)
	defer l.Close()
	base := runtime.NumGoroutine()
	var wg sync.WaitGroup
	var ok101, web, other int32
	for g := 0; g < 16; g++ {
		wg.Add(1)
		go func(g int) {
			defer wg.Done()
			for i := 0; i < 60; i++ {
				c, err := net.Dial("tcp", l.Addr().String())
				if err != nil {
					t.Error(err)
					return
				}
				c.Write([]byte("GET / HTTP/1.1\r\nHost: x\r\n" + rvUpgradeHeaders + "hidden: " + s.hidden(t, uint32(1+(g+i)%4)) + "\r\n\r\n"))
				buf := make([]byte, 4096)
				c.SetReadDeadline(time.Now().Add(2 * time.Second))
				n, _ := io.ReadAtLeast(c, buf, 3)
				switch {
				case bytes.HasPrefix(buf[:n], []byte("HTTP/1.1 101")):
					atomic.AddInt32(&ok101, 1)
				case bytes.HasPrefix(buf[:n], []byte("WEB")):
					atomic.AddInt32(&web, 1)
				default:
					atomic.AddInt32(&other, 1)
				}
				c.Close()
			}
		}(g)
	}
	wg.Wait()
	time.Sleep(time.Second)
	t.Logf("101: %d, web: %d, other: %d; goroutines before %d after %d, active users %d", ok101, web, other, base, runtime.NumGoroutine(), rvActive(s.sta))
	if other != 0 || rvActive(s.sta) != 0 || runtime.NumGoroutine() > base {
		t.Errorf("left behind / unexpected answer")
	}
}

// lock order and the retired flag: lookups, session creation/closing, refusals and overlapping upload rounds
func TestRV_PanelStress(t *testing.T) {
	f, _ := os.CreateTemp("", "rvdb")
	f.Close()
	defer os.Remove(f.Name())
	mgr, err := usermanager.MakeLocalManager(f.Name(), common.RealWorldState)
	if err != nil {
		t.Fatal(err)
	}
	defer mgr.Close()
	panel := MakeUserPanel(mgr)
	uids := make([][]byte, 4)
	for i := range uids {
		uids[i] = make([]byte, 16)
		uids[i][0] = byte(i + 1)
		mgr.WriteUserInfo(usermanager.UserInfo{UID: uids[i], SessionsCap: usermanager.JustInt32(2),
			UpRate: usermanager.JustInt64(1 << 30), DownRate: usermanager.JustInt64(1 << 30),
			UpCredit: usermanager.JustInt64(1 << 40), DownCredit: usermanager.JustInt64(1 << 40),
			ExpiryTime: usermanager.JustInt64(time.Now().Unix() + 100000)})
	}
	var key [32]byte
	obfs, _ := mux.MakeObfuscator(mux.EncryptionMethodPlain, key)
	cfg := mux.SessionConfig{Obfuscator: obfs}
	stop := make(chan struct{})
	var wg sync.WaitGroup
	var ops, retries int64
	for g := 0; g < 12; g++ {
		wg.Add(1)
		go func(g int) {
			defer wg.Done()
			for i := 0; ; i++ {
				select {
				case <-stop:
					return
				default:
				}
				uid := uids[(g+i)%len(uids)]
				sid := uint32(1 + (g+i)%3)
			retry:
				user, err := panel.GetUser(uid)
				if err != nil {
					t.Error(err)
					return
				}
				_, existing, err := user.GetSession(sid, cfg)
				if err == errUserRetired {
					atomic.AddInt64(&retries, 1)
					goto retry
				}
				if err != nil {
					user.terminateIfEmpty()
				} else if !existing {
					runtime.Gosched()
					user.CloseSession(sid, "")
				}
				atomic.AddInt64(&ops, 1)
			}
		}(g)
	}
	for g := 0; g < 3; g++ {
		wg.Add(1)
		go func() {
			defer wg.Done()
			for {
				select {
				case <-stop:
					return
				default:
				}
				panel.updateUsageQueue()
				if err := panel.commitUpdate(); err != nil {
					t.Error(err)
				}
			}
		}()
	}
	time.Sleep(4 * time.Second)
	before := atomic.LoadInt64(&ops)
	time.Sleep(time.Second)
	if atomic.LoadInt64(&ops) == before {
		t.Errorf("no progress in the last second: deadlock?")
	}
	close(stop)
	done := make(chan struct{})
	go func() { wg.Wait(); close(done) }()
	select {
	case <-done:
	case <-time.After(5 * time.Second):
		t.Fatal("workers do not stop")
	}
	panel.activeUsersM.RLock()
	n := len(panel.activeUsers)
	panel.activeUsersM.RUnlock()
	t.Logf("ops %d, retries %d (see F2), active users left %d", ops, retries, n)
	if n != 0 {
		t.Errorf("records left")
	}
}
