import sys,re,statistics,collections
d=collections.defaultdict(lambda: collections.defaultdict(list))
for l in open(sys.argv[1]):
    p=l.split()
    if len(p)<6: continue
    w=p[0]; name=re.sub(r'-16$','',p[2].replace('BenchmarkRevStreams/','').replace('BenchmarkRev','')); 
    try: mb=float(p[p.index('MB/s')-1])
    except: continue
    d[name][w].append(mb)
print("%-52s %12s %12s %7s   (median MB/s of %d rounds; min..max)"%("case","parent","HEAD","ratio",5))
for n,v in d.items():
    a=v.get('rev-E-parent',[0]); b=v.get('rev-E',[0])
    ma,mb=statistics.median(a),statistics.median(b)
    print("%-52s %12.1f %12.1f %7.2f   p[%.0f..%.0f] h[%.0f..%.0f]"%(n,ma,mb,mb/ma if ma else 0,min(a),max(a),min(b),max(b)))
