import sys,re,statistics,collections
d=collections.defaultdict(lambda: collections.defaultdict(list))
for l in open(sys.argv[1]):
    p=l.split()
    if len(p)<7: continue
    w=p[0]; name=p[1]+' '+re.sub(r'-16$','',p[3].replace('BenchmarkRevStreams/',''))
    try: mb=float(p[p.index('MB/s')-1])
    except: continue
    d[name][w].append(mb)
ws=['rev-E-parent','rev-E','varU','varM']
print("%-62s %9s %9s %9s %9s  HEAD/parent"%("valve case (median MB/s, 3 rounds)","parent","HEAD","varU","varM"))
for n,v in d.items():
    m=[statistics.median(v.get(w,[0])) for w in ws]
    print("%-62s %9.1f %9.1f %9.1f %9.1f  %.2f"%(n,*m,m[1]/m[0]))
