import sys,re,statistics,collections
d=collections.defaultdict(lambda: collections.defaultdict(list))
for l in open(sys.argv[1]):
    p=l.split()
    if len(p)<6: continue
    w=p[0]; name=p[2].replace('BenchmarkRevStreams/','')
    if not re.search(r'-\d+$',name): name+='-1'
    try: mb=float(p[p.index('MB/s')-1])
    except: continue
    d[name][w].append(mb)
print("%-60s %10s %10s %6s"%("case-GOMAXPROCS","parent","HEAD","ratio"))
for n,v in d.items():
    a=v.get('rev-E-parent',[0]); b=v.get('rev-E',[0])
    ma,mb=statistics.median(a),statistics.median(b)
    print("%-60s %10.1f %10.1f %6.2f   p[%.0f..%.0f] h[%.0f..%.0f]"%(n,ma,mb,mb/ma if ma else 0,min(a),max(a),min(b),max(b)))
