//go:build goexperiment.synctest

package server

import (
	crand "crypto/rand"
	mrand "math/rand"
	"runtime"
	"sync/atomic"
	"testing"
	"testing/synctest"
	"time"

	"github.com/cbeuw/Cloak/internal/common"
	"github.com/cbeuw/Cloak/internal/ecdh"
)

// Random histories of presentations around three consecutive clean-up instants, played on a virtual clock against
// the REAL UsedRandomCleaner goroutine. Oracle: no packet (nor its bit-255 twin) is accepted more than once.
func TestRedC08HistoriesWithRealCleaner(t *testing.T) {
	for seed := int64(1); seed <= 8; seed++ {
		synctest.Run(func() {
			rng := mrand.New(mrand.NewSource(seed))
			pv, pub, _ := ecdh.GenerateKey(crand.Reader)
			var stop atomic.Bool
			sta := &State{UsedRandom: map[[32]byte]int64{}, StaticPv: pv}
			sta.WorldState = common.WorldState{Rand: crand.Reader, Now: func() time.Time {
				if stop.Load() {
					runtime.Goexit() // lets the cleaner goroutine end so that the bubble can finish
				}
				return time.Now()
			}}
			start := time.Now()
			// random sub-second phase between server start (which fixes the clean-up phase) and the wall clock
			time.Sleep(time.Duration(rng.Int63n(int64(time.Second))))
			cleanerStart := time.Since(start)
			go sta.UsedRandomCleaner()

			pkts, alts, tss, evs := redHistory(rng, start.Add(cleanerStart), pub)
			accepted := make([]int, len(pkts))
			inWindow := 0
			for _, ev := range evs {
				at := cleanerStart + ev.at + time.Duration(rng.Int63n(int64(time.Second)))
				if d := at - time.Since(start); d > 0 {
					time.Sleep(d)
				}
				p := pkts[ev.pkt]
				if ev.alt {
					p = alts[ev.pkt]
				}
				now := time.Now()
				_, _, err := AuthFirstPacket(p, WebSocket{}, sta)
				ct := time.Unix(tss[ev.pkt], 0)
				if ct.After(now.Add(-timestampTolerance)) && ct.Before(now.Add(timestampTolerance)) {
					inWindow++
				}
				if err == nil {
					accepted[ev.pkt]++
					if accepted[ev.pkt] > 1 {
						t.Errorf("seed %d: packet %d (ts %d) accepted %d times, last at %v", seed, ev.pkt, tss[ev.pkt], accepted[ev.pkt], now.Unix())
					}
				}
			}
			total := 0
			for _, a := range accepted {
				total += a
			}
			sta.usedRandomM.RLock()
			left := len(sta.UsedRandom)
			sta.usedRandomM.RUnlock()
			t.Logf("seed %d: %d packets, %d presentations (%d inside the window), %d accepted, %d cache entries at end, virtual time %v",
				seed, len(pkts), len(evs), inWindow, total, left, time.Since(start))
			// make sure the cleaner will call Now() at its next wake-up, then let it exit
			sta.registerRandom([32]byte{1})
			stop.Store(true)
		})
	}
}

// THEORETICAL RESIDUAL (not claimed as a violation of the property in its atomic-presentation reading):
// AuthFirstPacket reads the server clock twice - once in registerRandom (the value remembered in the cache) and once,
// later, for the timestamp check. If the goroutine is stalled between the two reads (preemption, GC, a suspended
// VM/process), the packet is judged against a later clock than the one the cache remembers, so the cache entry can
// be dropped by a clean-up while the packet is still inside the window. The stall is emulated here by a
// WorldState.Now that sleeps (virtual time) on its second call.
func TestRedC08StallBetweenClockReads(t *testing.T) {
	synctest.Run(func() {
		pv, pub, _ := ecdh.GenerateKey(crand.Reader)
		var stop atomic.Bool
		var calls, stallAt atomic.Int64
		stallAt.Store(-1)
		sta := &State{UsedRandom: map[[32]byte]int64{}, StaticPv: pv}
		sta.WorldState = common.WorldState{Rand: crand.Reader, Now: func() time.Time {
			if stop.Load() {
				runtime.Goexit()
			}
			if calls.Add(1) == stallAt.Load() {
				time.Sleep(2 * time.Second)
			}
			return time.Now()
		}}
		start := time.Now()
		go sta.UsedRandomCleaner()
		C := start.Add(replayCacheAgeLimit) // first clean-up instant
		ts := C.Unix() - 179
		pkt := redWSPacket(pub, make([]byte, 16), ts, 1)

		time.Sleep(time.Until(C.Add(-360*time.Second - 500*time.Millisecond)))
		stallAt.Store(calls.Load() + 2) // 1st read: registerRandom, 2nd read: timestamp check
		_, _, err1 := AuthFirstPacket(pkt, WebSocket{}, sta)
		time.Sleep(time.Until(C.Add(100 * time.Millisecond)))
		_, _, err2 := AuthFirstPacket(pkt, WebSocket{}, sta)
		t.Logf("first presentation: err=%v ; replay 360.6s after the first presentation began, just after a clean-up: err=%v", err1, err2)
		if err1 == nil && err2 == nil {
			t.Errorf("the same first packet was accepted twice")
		}
		sta.registerRandom([32]byte{1})
		stop.Store(true)
	})
}
