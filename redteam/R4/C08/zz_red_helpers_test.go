package server

// RED TEAM shared helpers: a server State with a user database, a settable clock, a decoy web server, and
// functions that drive the real dispatchConnection with the real client transports.

import (
	"bytes"
	crand "crypto/rand"
	"encoding/base64"
	"encoding/binary"
	"io"
	"net"
	"path/filepath"
	"sync/atomic"
	"testing"
	"time"

	"github.com/cbeuw/Cloak/internal/client"
	"github.com/cbeuw/Cloak/internal/common"
	"github.com/cbeuw/Cloak/internal/ecdh"
	"github.com/cbeuw/Cloak/internal/server/usermanager"
	"github.com/cbeuw/connutil"
	log "github.com/sirupsen/logrus"
)

type redClock struct{ ns atomic.Int64 }

func (c *redClock) Now() time.Time          { return time.Unix(0, c.ns.Load()) }
func (c *redClock) Set(t time.Time)         { c.ns.Store(t.UnixNano()) }
func (c *redClock) Advance(d time.Duration) { c.ns.Add(int64(d)) }
func (c *redClock) World() common.WorldState {
	return common.WorldState{Rand: crand.Reader, Now: c.Now}
}

type redEnv struct {
	t        testing.TB
	sta      *State
	clock    *redClock
	pub      interface{}
	adminUID []byte
	webHits  chan []byte // first bytes received by the decoy web server, one entry per redirected connection
}

var redT0 = time.Unix(1700000000, 0)

func redNewEnv(t testing.TB) *redEnv {
	log.SetLevel(log.PanicLevel)
	pv, pub, _ := ecdh.GenerateKey(crand.Reader)
	clock := &redClock{}
	clock.Set(redT0)
	adminUID := bytes.Repeat([]byte{0xAD}, 16)
	raw := RawConfig{
		ProxyBook:    map[string][]string{"shadowsocks": {"tcp", "127.0.0.1:9"}},
		RedirAddr:    "127.0.0.1:80",
		PrivateKey:   pv.(*[32]byte)[:],
		AdminUID:     adminUID,
		DatabasePath: filepath.Join(t.TempDir(), "users.db"),
	}
	sta, err := InitState(raw, clock.World())
	if err != nil {
		t.Fatal(err)
	}
	webD, webL := connutil.DialerListener(64)
	proxyD, proxyL := connutil.DialerListener(64)
	sta.RedirDialer = webD
	sta.ProxyDialer = proxyD
	env := &redEnv{t: t, sta: sta, clock: clock, pub: pub, adminUID: adminUID, webHits: make(chan []byte, 64)}
	go func() {
		for {
			c, err := webL.Accept()
			if err != nil {
				return
			}
			go func(c net.Conn) {
				buf := make([]byte, 4096)
				c.SetReadDeadline(time.Now().Add(2 * time.Second))
				n, _ := c.Read(buf)
				env.webHits <- buf[:n]
				c.Write([]byte("HTTP/1.1 400 Bad Request\r\nConnection: close\r\n\r\n"))
				c.Close()
			}(c)
		}
	}()
	go func() {
		for {
			c, err := proxyL.Accept()
			if err != nil {
				return
			}
			go io.Copy(c, c)
		}
	}()
	return env
}

func (e *redEnv) addUser(uid []byte, upCredit, downCredit, expiry int64, cap int32) {
	err := e.sta.Panel.Manager.WriteUserInfo(usermanager.UserInfo{
		UID:         uid,
		SessionsCap: usermanager.JustInt32(cap),
		UpRate:      usermanager.JustInt64(1 << 20),
		DownRate:    usermanager.JustInt64(1 << 20),
		UpCredit:    usermanager.JustInt64(upCredit),
		DownCredit:  usermanager.JustInt64(downCredit),
		ExpiryTime:  usermanager.JustInt64(expiry),
	})
	if err != nil {
		e.t.Fatal(err)
	}
}

const (
	redCloak   = "ACCEPTED-AS-CLOAK"
	redWeb     = "HANDLED-AS-WEB"
	redNeither = "NEITHER (connection abandoned: no Cloak reply, nothing forwarded to the web server)"
)

type redAttempt struct {
	uid       []byte
	sid       uint32
	proxy     string
	transport string
}

// attempt performs one genuine client handshake against dispatchConnection and classifies what the server did.
// The returned conn is the client side of a successful handshake (kept open by the caller to keep the session alive).
func (e *redEnv) attempt(a redAttempt) (string, net.Conn) {
	r, c, _ := e.attemptKey(a, true)
	return r, c
}

func (e *redEnv) attemptKey(a redAttempt, drain bool) (string, net.Conn, [32]byte) {
	if a.proxy == "" {
		a.proxy = "shadowsocks"
	}
	if a.transport == "" {
		a.transport = "direct"
	}
	raw := client.RawConfig{
		ServerName: "www.bing.com", ProxyMethod: a.proxy, EncryptionMethod: "plain", UID: a.uid,
		PublicKey: ecdh.Marshal(e.pub), NumConn: 1, Transport: a.transport, BrowserSig: "firefox",
		RemoteHost: "fake.com", RemotePort: "443", LocalHost: "127.0.0.1", LocalPort: "1984",
	}
	_, rcc, ai, err := raw.ProcessRawConfig(e.clock.World())
	if err != nil {
		e.t.Fatal(err)
	}
	ai.SessionId = a.sid
	// drain stale hits
	for drain && len(e.webHits) > 0 {
		<-e.webHits
	}
	cEnd, sEnd := connutil.AsyncPipe()
	go dispatchConnection(sEnd, e.sta)
	tr := rcc.Transport.CreateTransport()
	cEnd.SetDeadline(time.Now().Add(1500 * time.Millisecond))
	key, herr := tr.Handshake(cEnd, ai)
	if herr == nil {
		cEnd.SetDeadline(time.Time{})
		return redCloak, tr, key
	}
	select {
	case <-e.webHits:
		cEnd.Close()
		return redWeb, nil, key
	case <-time.After(1500 * time.Millisecond):
		cEnd.Close()
		return redNeither + " client error: " + herr.Error(), nil, key
	}
}

// redCapture returns the genuine first packet a client would send.
func (e *redEnv) redCapture(a redAttempt) []byte {
	return e.redCaptureCfg(a, "firefox", "www.bing.com")
}

func (e *redEnv) redCaptureCfg(a redAttempt, browserSig, serverName string) []byte {
	if a.proxy == "" {
		a.proxy = "shadowsocks"
	}
	if a.transport == "" {
		a.transport = "direct"
	}
	raw := client.RawConfig{
		ServerName: serverName, ProxyMethod: a.proxy, EncryptionMethod: "plain", UID: a.uid,
		PublicKey: ecdh.Marshal(e.pub), NumConn: 1, Transport: a.transport, BrowserSig: browserSig,
		RemoteHost: "fake.com", RemotePort: "443", LocalHost: "127.0.0.1", LocalPort: "1984",
	}
	_, rcc, ai, _ := raw.ProcessRawConfig(e.clock.World())
	ai.SessionId = a.sid
	cEnd, sEnd := connutil.AsyncPipe()
	got := make(chan []byte, 1)
	go func() {
		buf := make([]byte, firstPacketSize)
		n, _, _, _ := readFirstPacket(sEnd, buf, time.Second)
		got <- buf[:n]
		sEnd.Close()
	}()
	tr := rcc.Transport.CreateTransport()
	cEnd.SetDeadline(time.Now().Add(2 * time.Second))
	tr.Handshake(cEnd, ai)
	cEnd.Close()
	return <-got
}

// present sends raw bytes as a first packet to dispatchConnection and classifies the outcome:
// Cloak (a TLS ServerHello record comes back), web (decoy got it) or neither.
func (e *redEnv) present(pkt []byte) string {
	for len(e.webHits) > 0 {
		<-e.webHits
	}
	cEnd, sEnd := connutil.AsyncPipe()
	go dispatchConnection(sEnd, e.sta)
	cEnd.Write(pkt)
	type rd struct {
		b   []byte
		err error
	}
	rc := make(chan rd, 1)
	go func() {
		buf := make([]byte, 2048)
		cEnd.SetReadDeadline(time.Now().Add(1500 * time.Millisecond))
		n, err := cEnd.Read(buf)
		rc <- rd{buf[:n], err}
	}()
	defer cEnd.Close()
	select {
	case <-e.webHits:
		return redWeb
	case r := <-rc:
		if len(r.b) > 5 && r.b[0] == 0x16 && r.b[5] == 0x02 {
			return redCloak
		}
		select {
		case <-e.webHits:
			return redWeb
		case <-time.After(500 * time.Millisecond):
		}
		return redNeither
	}
}

// redWSPacket builds a genuine CDN-transport first packet for the given embedded timestamp (mirrors
// client.makeAuthenticationPayload, which is unexported and takes its time from a WorldState).
func redWSPacket(serverPub interface{}, uid []byte, ts int64, sid uint32) []byte {
	ephPv, ephPub, _ := ecdh.GenerateKey(crand.Reader)
	var rnd [32]byte
	copy(rnd[:], ecdh.Marshal(ephPub))
	plaintext := make([]byte, 48)
	copy(plaintext, uid)
	copy(plaintext[16:28], "shadowsocks")
	binary.BigEndian.PutUint64(plaintext[29:37], uint64(ts))
	binary.BigEndian.PutUint32(plaintext[37:41], sid)
	secret, _ := ecdh.GenerateSharedSecret(ephPv, serverPub)
	ct, _ := common.AESGCMEncrypt(rnd[:12], secret, plaintext)
	hidden := append(rnd[:], ct...)
	return []byte("GET / HTTP/1.1\r\nHost: fake.com\r\nUpgrade: websocket\r\nConnection: Upgrade\r\nSec-WebSocket-Key: dGhlIHNhbXBsZSBub25jZQ==\r\nSec-WebSocket-Version: 13\r\nhidden: " + b64(hidden) + "\r\n\r\n")
}

func redTopBitVariant(pkt []byte) []byte {
	// re-encode the hidden header with random[31] ^= 0x80
	i := bytes.Index(pkt, []byte("hidden: ")) + 8
	j := bytes.Index(pkt[i:], []byte("\r\n")) + i
	raw := make([]byte, 96)
	n, _ := decodeStd(raw, pkt[i:j])
	raw = raw[:n]
	raw[31] ^= 0x80
	out := append([]byte{}, pkt[:i]...)
	out = append(out, b64(raw)...)
	out = append(out, pkt[j:]...)
	return out
}

func decodeStd(dst, src []byte) (int, error) { return base64.StdEncoding.Decode(dst, src) }
