package server

// RED TEAM C08: replay protection.

import (
	"bytes"
	crand "crypto/rand"
	mrand "math/rand"
	"sort"
	"sync"
	"sync/atomic"
	"testing"
	"time"

	"github.com/cbeuw/Cloak/internal/common"
	"github.com/cbeuw/Cloak/internal/ecdh"
)

// N simultaneous presentations of one packet: at most one is accepted.
func TestRedC08Concurrent(t *testing.T) {
	pv, pub, _ := ecdh.GenerateKey(crand.Reader)
	uid := bytes.Repeat([]byte{1}, 16)
	now := time.Unix(1700000000, 500_000_000)
	for round := 0; round < 300; round++ {
		sta := &State{UsedRandom: map[[32]byte]int64{}, StaticPv: pv, WorldState: common.WorldOfTime(now)}
		pkt := redWSPacket(pub, uid, now.Unix(), 1)
		alt := redTopBitVariant(pkt)
		const N = 32
		var ok atomic.Int32
		var wg sync.WaitGroup
		start := make(chan struct{})
		for i := 0; i < N; i++ {
			wg.Add(1)
			go func(i int) {
				defer wg.Done()
				p := pkt
				if i%2 == 1 {
					p = alt
				}
				<-start
				if _, _, err := AuthFirstPacket(p, WebSocket{}, sta); err == nil {
					ok.Add(1)
				}
			}(i)
		}
		close(start)
		wg.Wait()
		if ok.Load() != 1 {
			t.Fatalf("round %d: %d of %d simultaneous presentations accepted", round, ok.Load(), N)
		}
	}
}

// every single-bit variant that authenticates on a fresh server must be refused by a server that has already seen
// the original, and the other way round; also across transports.
func TestRedC08BitVariants(t *testing.T) {
	e := redNewEnv(t)
	uid := bytes.Repeat([]byte{12}, 16)
	pkt := e.redCapture(redAttempt{uid: uid, sid: 3})
	ch, err := parseClientHello(pkt)
	if err != nil {
		t.Fatal(err)
	}
	ks, _ := parseKeyShare(ch.extensions[[2]byte{0x00, 0x33}])
	hidden := append(append(append([]byte{}, ch.random...), ch.sessionId...), ks...)
	wsPkt := []byte("GET / HTTP/1.1\r\nHost: fake.com\r\nUpgrade: websocket\r\nConnection: Upgrade\r\nSec-WebSocket-Key: dGhlIHNhbXBsZSBub25jZQ==\r\nSec-WebSocket-Version: 13\r\nhidden: " + b64(hidden) + "\r\n\r\n")

	fresh := func() *State {
		return &State{UsedRandom: map[[32]byte]int64{}, StaticPv: e.sta.StaticPv, WorldState: e.clock.World()}
	}
	type carrier struct {
		p  []byte
		tr Transport
	}
	for _, c := range []carrier{{pkt, TLS{}}, {wsPkt, WebSocket{}}} {
		variants := 0
		for bit := 0; bit < len(c.p)*8; bit++ {
			mod := append([]byte{}, c.p...)
			mod[bit/8] ^= 1 << (bit % 8)
			if _, _, err := AuthFirstPacket(mod, c.tr, fresh()); err != nil {
				continue
			}
			variants++
			s := fresh()
			if _, _, err := AuthFirstPacket(c.p, c.tr, s); err != nil {
				t.Fatal(err)
			}
			if _, _, err := AuthFirstPacket(mod, c.tr, s); err == nil {
				t.Errorf("%v: variant (byte %d bit %d) accepted after the original", c.tr, bit/8, bit%8)
			}
			s = fresh()
			if _, _, err := AuthFirstPacket(mod, c.tr, s); err != nil {
				t.Fatal(err)
			}
			if _, _, err := AuthFirstPacket(c.p, c.tr, s); err == nil {
				t.Errorf("%v: original accepted after variant (byte %d bit %d)", c.tr, bit/8, bit%8)
			}
		}
		t.Logf("%v: %d authenticating single-bit variants all refused as replays", c.tr, variants)
	}
	// cross transport
	s := fresh()
	if _, _, err := AuthFirstPacket(pkt, TLS{}, s); err != nil {
		t.Fatal(err)
	}
	if _, _, err := AuthFirstPacket(wsPkt, WebSocket{}, s); err == nil {
		t.Errorf("same sealed block accepted again over the other transport")
	}
	// random multi-bit variants of the non-authenticated parts
	rng := mrand.New(mrand.NewSource(1))
	for i := 0; i < 3000; i++ {
		mod := append([]byte{}, pkt...)
		for k := 0; k < 1+rng.Intn(6); k++ {
			b := rng.Intn(len(mod) * 8)
			mod[b/8] ^= 1 << (b % 8)
		}
		if _, _, err := AuthFirstPacket(mod, TLS{}, fresh()); err != nil {
			continue
		}
		s := fresh()
		AuthFirstPacket(pkt, TLS{}, s)
		if _, _, err := AuthFirstPacket(mod, TLS{}, s); err == nil {
			t.Errorf("multi-bit variant accepted after the original")
		}
	}
}

// non-canonical encodings of the ephemeral public value other than bit 255: u and u+p for u < 19, and low order points.
func TestRedC08NonCanonicalU(t *testing.T) {
	pv, _, _ := ecdh.GenerateKey(crand.Reader)
	// p = 2^255 - 19, little endian: ed ff .. ff 7f
	for u := 0; u < 19; u++ {
		var a, b [32]byte
		a[0] = byte(u)
		b[0] = byte(0xed + u)
		for i := 1; i < 31; i++ {
			b[i] = 0xff
		}
		b[31] = 0x7f
		sa, ea := ecdh.GenerateSharedSecret(pv, &a)
		sb, eb := ecdh.GenerateSharedSecret(pv, &b)
		if ea == nil && eb == nil && bytes.Equal(sa, sb) {
			// same shared secret, but the AES-GCM nonce is the first 12 bytes of the encoding, which differ (a[0] != b[0]),
			// so the sealed block of one does not open under the other.
			if bytes.Equal(a[:12], b[:12]) {
				t.Errorf("u=%d: aliases with identical nonce", u)
			}
		}
	}
}

// Whole-history test with the real UsedRandomCleaner, see zz_red_c08_synctest_test.go (needs GOEXPERIMENT=synctest).

type redEvent struct {
	at  time.Duration // since start of the server
	pkt int
	alt bool
}

func redHistory(rng *mrand.Rand, start time.Time, pub interface{}) (pkts [][]byte, alts [][]byte, tss []int64, evs []redEvent) {
	uid := bytes.Repeat([]byte{1}, 16)
	for k := 1; k <= 3; k++ {
		boundary := time.Duration(k) * replayCacheAgeLimit
		for i := 0; i < 150; i++ {
			// first presentation somewhere in [boundary-800s, boundary+100s]
			first := boundary - 800*time.Second + time.Duration(rng.Int63n(int64(900*time.Second)))
			// embedded timestamp within +-185s of the first presentation
			ts := start.Add(first).Unix() + int64(rng.Intn(371)) - 185
			p := redWSPacket(pub, uid, ts, uint32(i))
			idx := len(pkts)
			pkts = append(pkts, p)
			alts = append(alts, redTopBitVariant(p))
			tss = append(tss, ts)
			evs = append(evs, redEvent{first, idx, rng.Intn(2) == 0})
			for n := rng.Intn(6); n > 0; n-- {
				at := first + time.Duration(rng.Int63n(int64(800*time.Second)))
				evs = append(evs, redEvent{at, idx, rng.Intn(2) == 0})
			}
		}
	}
	sort.SliceStable(evs, func(i, j int) bool { return evs[i].at < evs[j].at })
	return
}
