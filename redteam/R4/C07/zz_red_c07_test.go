package server

// RED TEAM C07: who is treated as a Cloak client, and what happens to everybody else.
// Needs zz_red_helpers_test.go.

import (
	"bytes"
	crand "crypto/rand"
	"testing"
	"time"

	"github.com/cbeuw/Cloak/internal/common"
	"github.com/cbeuw/Cloak/internal/ecdh"
)

// Baseline: the cases the property's quantifier lists are redirected when the UID is not active yet.
func TestRedC07Baseline(t *testing.T) {
	e := redNewEnv(t)
	now := redT0.Unix()
	unknown := bytes.Repeat([]byte{1}, 16)
	noUp := bytes.Repeat([]byte{2}, 16)
	noDown := bytes.Repeat([]byte{3}, 16)
	expired := bytes.Repeat([]byte{4}, 16)
	good := bytes.Repeat([]byte{5}, 16)
	e.addUser(noUp, 0, 1000, now+1000, 5)
	e.addUser(noDown, 1000, 0, now+1000, 5)
	e.addUser(expired, 1000, 1000, now-1, 5)
	e.addUser(good, 1000, 1000, now+1000, 5)
	for _, tr := range []string{"direct"} {
		for name, a := range map[string]redAttempt{
			"unknown":   {uid: unknown, sid: 1},
			"noUp":      {uid: noUp, sid: 1},
			"noDown":    {uid: noDown, sid: 1},
			"expired":   {uid: expired, sid: 1},
			"badproxy":  {uid: good, sid: 1, proxy: "nonexistent"},
			"nonadmin0": {uid: good, sid: 0, proxy: "nonexistent"},
		} {
			a.transport = tr
			got, _ := e.attempt(a)
			if got != redWeb {
				t.Errorf("%s/%s: %s", tr, name, got)
			}
		}
		got, c := e.attempt(redAttempt{uid: good, sid: 1, transport: tr})
		if got != redCloak {
			t.Errorf("%s/good: %s", tr, got)
		} else {
			c.Close()
		}
	}
}

// V1: a UID that is past its expiry (or has no credit left) is still accepted as a Cloak client while it has a
// session open, and when it asks for a new session the connection is neither served nor redirected.
func TestRedC07ExpiredActiveUser(t *testing.T) {
	e := redNewEnv(t)
	uid := bytes.Repeat([]byte{7}, 16)
	e.addUser(uid, 1<<30, 1<<30, redT0.Unix()+100, 5)

	got, keep := e.attempt(redAttempt{uid: uid, sid: 1})
	if got != redCloak {
		t.Fatalf("setup: a valid user must be accepted, got %s", got)
	}
	defer keep.Close()

	// the account expires (server clock passes ExpiryTime). Control: a UID in the same state that is not active.
	e.clock.Advance(200 * time.Second)
	ctl := bytes.Repeat([]byte{8}, 16)
	e.addUser(ctl, 1<<30, 1<<30, redT0.Unix()+100, 5)
	if got, _ := e.attempt(redAttempt{uid: ctl, sid: 1}); got != redWeb {
		t.Fatalf("control: expired inactive UID should be redirected, got %s", got)
	}

	got, c := e.attempt(redAttempt{uid: uid, sid: 1})
	if c != nil {
		defer c.Close()
	}
	if got != redWeb {
		t.Errorf("expired UID, first packet naming its existing session: want %s, got %s", redWeb, got)
	}
	got, c = e.attempt(redAttempt{uid: uid, sid: 2})
	if c != nil {
		defer c.Close()
	}
	if got != redWeb {
		t.Errorf("expired UID, first packet naming a new session: want %s, got %s", redWeb, got)
	}
}

// Same thing with credit: the administrator zeroes the credit (or the user is deleted) while a session is open.
func TestRedC07NoCreditActiveUser(t *testing.T) {
	e := redNewEnv(t)
	uid := bytes.Repeat([]byte{9}, 16)
	e.addUser(uid, 1<<30, 1<<30, redT0.Unix()+100000, 5)
	got, keep := e.attempt(redAttempt{uid: uid, sid: 1})
	if got != redCloak {
		t.Fatalf("setup: %s", got)
	}
	defer keep.Close()
	e.addUser(uid, 0, 0, redT0.Unix()+100000, 5)

	got, c := e.attempt(redAttempt{uid: uid, sid: 1})
	if c != nil {
		defer c.Close()
	}
	if got != redWeb {
		t.Errorf("UID with exhausted credit, existing session id: want %s, got %s", redWeb, got)
	}
	got, c = e.attempt(redAttempt{uid: uid, sid: 2})
	if c != nil {
		defer c.Close()
	}
	if got != redWeb {
		t.Errorf("UID with exhausted credit, new session id: want %s, got %s", redWeb, got)
	}
}

func TestRedC07DeletedActiveUser(t *testing.T) {
	e := redNewEnv(t)
	uid := bytes.Repeat([]byte{10}, 16)
	e.addUser(uid, 1<<30, 1<<30, redT0.Unix()+100000, 5)
	got, keep := e.attempt(redAttempt{uid: uid, sid: 1})
	if got != redCloak {
		t.Fatalf("setup: %s", got)
	}
	defer keep.Close()
	if err := e.sta.Panel.Manager.DeleteUser(uid); err != nil {
		t.Fatal(err)
	}
	got, c := e.attempt(redAttempt{uid: uid, sid: 1})
	if c != nil {
		defer c.Close()
	}
	if got != redWeb {
		t.Errorf("UID deleted from the database, existing session id: want %s, got %s", redWeb, got)
	}
	got, c = e.attempt(redAttempt{uid: uid, sid: 2})
	if c != nil {
		defer c.Close()
	}
	if got != redWeb {
		t.Errorf("UID deleted from the database, new session id: want %s, got %s", redWeb, got)
	}
}

// V2: the admin UID with session id 0 is accepted whatever proxy method the packet names.
func TestRedC07AdminUnknownProxyMethod(t *testing.T) {
	e := redNewEnv(t)
	got, c := e.attempt(redAttempt{uid: e.adminUID, sid: 0, proxy: "nonexistent"})
	if c != nil {
		defer c.Close()
	}
	if got != redWeb {
		t.Errorf("admin UID, sid 0, proxy method the server does not serve: want %s, got %s", redWeb, got)
	}
	// for comparison: same UID, same unknown method, sid != 0 is redirected
	got, c = e.attempt(redAttempt{uid: e.adminUID, sid: 5, proxy: "nonexistent"})
	if c != nil {
		defer c.Close()
	}
	if got != redWeb {
		t.Errorf("admin UID, sid 5, unknown proxy: want %s, got %s", redWeb, got)
	}
}

// V3: one bit of the authentication payload (the top bit of the 32-byte random/ephemeral key) can be changed in
// flight and the packet is still accepted as a Cloak handshake.
func TestRedC07TopBitModified(t *testing.T) {
	e := redNewEnv(t)
	uid := bytes.Repeat([]byte{11}, 16)
	e.addUser(uid, 1<<30, 1<<30, redT0.Unix()+100000, 5)
	pkt := e.redCapture(redAttempt{uid: uid, sid: 3})
	// record(5) + type(1) + len(3) + version(2) = 11 -> random is pkt[11:43]
	mod := append([]byte{}, pkt...)
	mod[11+31] ^= 0x80
	if got := e.present(mod); got != redWeb {
		t.Errorf("first packet with a modified authentication payload (random[31] ^= 0x80): want %s, got %s", redWeb, got)
	}
}

// V4: a first packet that is an ordinary HTTP request with bare-LF line ends is not given to the web server.
func TestRedC07BareLFRequest(t *testing.T) {
	e := redNewEnv(t)
	start := time.Now()
	got := e.present([]byte("GET / HTTP/1.1\nHost: www.bing.com\n\n"))
	if got != redWeb {
		t.Errorf("bare-LF HTTP request: want %s, got %s after %v", redWeb, got, time.Since(start))
	}
	// control: same request with CRLF is forwarded
	if got := e.present([]byte("GET / HTTP/1.1\r\nHost: www.bing.com\r\n\r\n")); got != redWeb {
		t.Errorf("control CRLF request: %s", got)
	}
}

// Exhaustive single-bit sweep (both transports): which single-bit variants of a genuine first packet still
// authenticate on a server that has never seen the original? Reports those that touch the authentication payload.
func TestRedC07BitSweep(t *testing.T) {
	e := redNewEnv(t)
	uid := bytes.Repeat([]byte{12}, 16)
	e.addUser(uid, 1<<30, 1<<30, redT0.Unix()+100000, 5)
	for _, trn := range []string{"direct", "cdn"} {
		var pkt []byte
		var tr Transport
		if trn == "direct" {
			pkt = e.redCapture(redAttempt{uid: uid, sid: 3})
			tr = TLS{}
		} else {
			// build the WS first packet by hand from a captured TLS one: same fragments, different carrier
			tlsPkt := e.redCapture(redAttempt{uid: uid, sid: 3})
			ch, err := parseClientHello(tlsPkt)
			if err != nil {
				t.Fatal(err)
			}
			ks, _ := parseKeyShare(ch.extensions[[2]byte{0x00, 0x33}])
			hidden := append(append(append([]byte{}, ch.random...), ch.sessionId...), ks...)
			pkt = []byte("GET / HTTP/1.1\r\nHost: fake.com\r\nUpgrade: websocket\r\nConnection: Upgrade\r\nSec-WebSocket-Key: dGhlIHNhbXBsZSBub25jZQ==\r\nSec-WebSocket-Version: 13\r\nhidden: " + b64(hidden) + "\r\n\r\n")
			tr = WebSocket{}
		}
		fresh := func() *State {
			return &State{UsedRandom: map[[32]byte]int64{}, StaticPv: e.sta.StaticPv, WorldState: e.clock.World()}
		}
		if _, _, err := AuthFirstPacket(pkt, tr, fresh()); err != nil {
			t.Fatalf("%s: genuine packet rejected: %v", trn, err)
		}
		accepted := 0
		for bit := 0; bit < len(pkt)*8; bit++ {
			mod := append([]byte{}, pkt...)
			mod[bit/8] ^= 1 << (bit % 8)
			info, _, err := AuthFirstPacket(mod, tr, fresh())
			if err != nil {
				continue
			}
			accepted++
			// does the variant carry different fragments (i.e. is the authentication payload modified)?
			f0, _, _ := tr.processFirstPacket(pkt, e.sta.StaticPv)
			f1, _, _ := tr.processFirstPacket(mod, e.sta.StaticPv)
			if f0.randPubKey != f1.randPubKey || f0.ciphertextWithTag != f1.ciphertextWithTag {
				t.Logf("%s: byte %d bit %d: authentication payload differs (rand differs=%v, ct differs=%v) and is accepted, uid=%x",
					trn, bit/8, bit%8, f0.randPubKey != f1.randPubKey, f0.ciphertextWithTag != f1.ciphertextWithTag, info.UID)
			}
		}
		t.Logf("%s: %d of %d single-bit variants accepted on a fresh server", trn, accepted, len(pkt)*8)
	}
}

// Acceptance window edges with a server clock that is not on a whole second: accepted iff |ts - serverClock| < 180s.
func TestRedC07WindowEdges(t *testing.T) {
	e := redNewEnv(t)
	uid := bytes.Repeat([]byte{13}, 16)
	for _, frac := range []time.Duration{0, 1, 400 * time.Millisecond, 999999999} {
		for off := int64(-183); off <= 183; off++ {
			if off > -177 && off < 177 && off != 0 {
				continue
			}
			serverNow := redT0.Add(frac)
			ts := redT0.Unix() + off
			pkt := redWSPacket(e.pub, uid, ts, 1)
			clk := &redClock{}
			clk.Set(serverNow)
			s := &State{UsedRandom: map[[32]byte]int64{}, StaticPv: e.sta.StaticPv, WorldState: clk.World()}
			_, _, err := AuthFirstPacket(pkt, WebSocket{}, s)
			d := time.Unix(ts, 0).Sub(serverNow)
			if d < 0 {
				d = -d
			}
			want := d < timestampTolerance
			if (err == nil) != want {
				t.Errorf("frac=%v off=%d: accepted=%v, |ts-server|=%v", frac, off, err == nil, d)
			}
		}
	}
}

// Wrong server key / payload for another server: never accepted.
func TestRedC07WrongServerKey(t *testing.T) {
	e := redNewEnv(t)
	other := redNewEnv(t)
	uid := bytes.Repeat([]byte{14}, 16)
	e.addUser(uid, 1<<30, 1<<30, redT0.Unix()+100000, 5)
	for i := 0; i < 20; i++ {
		pkt := redWSPacket(other.pub, uid, redT0.Unix(), 1)
		if got := e.present(pkt); got != redWeb {
			t.Errorf("packet sealed to another server's key: %s", got)
		}
	}
}

// Additional observation (the UID is authorised, so this is about "every other first packet is handled as web"):
// a user at its SessionsCap that opens one more session gets neither Cloak nor the web page.
func TestRedC07SessionsCapReached(t *testing.T) {
	e := redNewEnv(t)
	uid := bytes.Repeat([]byte{15}, 16)
	e.addUser(uid, 1<<30, 1<<30, redT0.Unix()+100000, 1)
	got, keep := e.attempt(redAttempt{uid: uid, sid: 1})
	if got != redCloak {
		t.Fatal(got)
	}
	defer keep.Close()
	got, c := e.attempt(redAttempt{uid: uid, sid: 2})
	if c != nil {
		defer c.Close()
	}
	if got == redCloak {
		t.Errorf("accepted above the cap")
	}
	t.Logf("session above SessionsCap: %s", got)
}

// Observation on an unusual configuration: a BypassUID entry shorter than 16 bytes inherits the tail of the
// previous entry (InitState reuses one [16]byte array), so a UID nobody configured becomes authorised.
func TestRedC07ShortBypassUID(t *testing.T) {
	pv, _, _ := ecdh.GenerateKey(crand.Reader)
	a := bytes.Repeat([]byte{0xAA}, 16)
	b := bytes.Repeat([]byte{0xBB}, 8)
	sta, err := InitState(RawConfig{RedirAddr: "127.0.0.1", PrivateKey: pv.(*[32]byte)[:], BypassUID: [][]byte{a, b}}, common.RealWorldState)
	if err != nil {
		t.Fatal(err)
	}
	ghost := append(append([]byte{}, b...), a[8:]...)
	if sta.IsBypass(ghost) {
		t.Logf("UID %x (never configured) is a bypass UID", ghost)
	}
}
