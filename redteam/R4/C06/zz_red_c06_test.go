package server

// RED TEAM C06: client/server agreement sweep.
// Uses the real client transports (DirectTLS / WSOverTLS built by ProcessRawConfig) against the real server-side
// readFirstPacket + AuthFirstPacket + Responder chain.

import (
	"bytes"
	"crypto/ecdsa"
	"crypto/elliptic"
	crand "crypto/rand"
	"crypto/tls"
	"crypto/x509"
	"crypto/x509/pkix"
	"fmt"
	"math/big"
	mrand "math/rand"
	"net"
	"strings"
	"testing"
	"time"

	"github.com/cbeuw/Cloak/internal/client"
	"github.com/cbeuw/Cloak/internal/common"
	"github.com/cbeuw/Cloak/internal/ecdh"
	"github.com/cbeuw/connutil"
	log "github.com/sirupsen/logrus"
)

func redSelfSigned(t testing.TB) tls.Certificate {
	key, err := ecdsa.GenerateKey(elliptic.P256(), crand.Reader)
	if err != nil {
		t.Fatal(err)
	}
	tmpl := &x509.Certificate{
		SerialNumber: big.NewInt(1),
		Subject:      pkix.Name{CommonName: "cdn"},
		NotBefore:    time.Now().Add(-time.Hour),
		NotAfter:     time.Now().Add(time.Hour),
		DNSNames:     []string{"cdn"},
	}
	der, err := x509.CreateCertificate(crand.Reader, tmpl, tmpl, &key.PublicKey, key)
	if err != nil {
		t.Fatal(err)
	}
	return tls.Certificate{Certificate: [][]byte{der}, PrivateKey: key}
}

type redC06Case struct {
	uid        []byte
	proxy      string
	enc        string
	encByte    byte
	sessionID  uint32
	unordered  bool
	browser    string
	transport  string
	serverName string
	clientOff  time.Duration
	serverFrac time.Duration
}

func (c redC06Case) String() string {
	return fmt.Sprintf("uid=%x proxy=%q enc=%s sid=%d unord=%v br=%s tr=%s sn=%q off=%v frac=%v",
		c.uid, c.proxy, c.enc, c.sessionID, c.unordered, c.browser, c.transport, c.serverName, c.clientOff, c.serverFrac)
}

type redC06Result struct {
	info      ClientInfo
	serverKey [32]byte
	clientKey [32]byte
	serverErr error
	clientErr error
}

func redRunC06(t testing.TB, cert tls.Certificate, pv, pub interface{}, c redC06Case) redC06Result {
	base := time.Unix(1700000000, 0)
	serverNow := base.Add(c.serverFrac)
	clientNow := serverNow.Add(c.clientOff)

	raw := client.RawConfig{
		ServerName:       c.serverName,
		ProxyMethod:      c.proxy,
		EncryptionMethod: c.enc,
		UID:              c.uid,
		PublicKey:        ecdh.Marshal(pub),
		NumConn:          1,
		UDP:              c.unordered,
		Transport:        c.transport,
		BrowserSig:       c.browser,
		RemoteHost:       "fake.com",
		RemotePort:       "443",
		LocalHost:        "127.0.0.1",
		LocalPort:        "1984",
	}
	_, rcc, ai, err := raw.ProcessRawConfig(common.WorldOfTime(clientNow))
	if err != nil {
		t.Fatalf("ProcessRawConfig: %v", err)
	}
	ai.SessionId = c.sessionID

	sta := &State{
		UsedRandom: map[[32]byte]int64{},
		StaticPv:   pv,
		WorldState: common.WorldOfTime(serverNow),
	}

	cEnd, sEnd := connutil.AsyncPipe()
	var res redC06Result
	done := make(chan struct{})
	go func() {
		defer close(done)
		var conn net.Conn = sEnd
		if c.transport == "cdn" {
			tc := tls.Server(sEnd, &tls.Config{Certificates: []tls.Certificate{cert}})
			if err := tc.Handshake(); err != nil {
				res.serverErr = fmt.Errorf("cdn tls terminator: %v", err)
				sEnd.Close()
				return
			}
			conn = tc
		}
		buf := make([]byte, firstPacketSize)
		n, transport, _, err := readFirstPacket(conn, buf, 5*time.Second)
		if err != nil {
			res.serverErr = fmt.Errorf("readFirstPacket: %v (n=%d)", err, n)
			conn.Close()
			return
		}
		info, finisher, err := AuthFirstPacket(buf[:n], transport, sta)
		if err != nil {
			res.serverErr = fmt.Errorf("AuthFirstPacket: %v", err)
			conn.Close()
			return
		}
		res.info = info
		crand.Read(res.serverKey[:])
		_, err = finisher(conn, res.serverKey, crand.Reader)
		if err != nil {
			res.serverErr = fmt.Errorf("finisher: %v", err)
			conn.Close()
		}
	}()

	tr := rcc.Transport.CreateTransport()
	cEnd.SetDeadline(time.Now().Add(10 * time.Second))
	res.clientKey, res.clientErr = tr.Handshake(cEnd, ai)
	<-done
	cEnd.Close()
	sEnd.Close()
	return res
}

func redCheckC06(t *testing.T, c redC06Case, r redC06Result) bool {
	ok := true
	fail := func(f string, a ...interface{}) {
		ok = false
		t.Errorf("%v: "+f, append([]interface{}{c}, a...)...)
	}
	if r.serverErr != nil {
		fail("server error %v", r.serverErr)
		return false
	}
	if r.clientErr != nil {
		fail("client error %v", r.clientErr)
		return false
	}
	if !bytes.Equal(r.info.UID, c.uid) {
		fail("UID %x", r.info.UID)
	}
	if r.info.ProxyMethod != c.proxy {
		fail("proxy %q", r.info.ProxyMethod)
	}
	if r.info.EncryptionMethod != c.encByte {
		fail("enc %v", r.info.EncryptionMethod)
	}
	if r.info.SessionId != c.sessionID {
		fail("sid %v", r.info.SessionId)
	}
	if r.info.Unordered != c.unordered {
		fail("unordered %v", r.info.Unordered)
	}
	if r.clientKey != r.serverKey {
		fail("session key mismatch")
	}
	return ok
}

var redEncs = []struct {
	name string
	b    byte
}{{"plain", 0}, {"aes-256-gcm", 1}, {"chacha20-poly1305", 2}, {"aes-128-gcm", 3}, {"aes-gcm", 1}}

func TestRedC06Sweep(t *testing.T) {
	log.SetLevel(log.PanicLevel)
	cert := redSelfSigned(t)
	pv, pub, _ := ecdh.GenerateKey(crand.Reader)
	rng := mrand.New(mrand.NewSource(time.Now().UnixNano()))

	sids := []uint32{0, 1, 0x7fffffff, 0x80000000, 0xfffffffe, 0xffffffff, 255, 256, 65535, 65536}
	offsets := []time.Duration{0, -179 * time.Second, 179 * time.Second, -1 * time.Second, time.Second, 90 * time.Second, -90 * time.Second}
	names := []string{"random", "RANDOM", "www.bing.com", "a", "localhost", "1.2.3.4", "xn--bcher-kva.example",
		"a-very-long-label-aaaaaaaaaaaaaaaaaaaaaaaaaaaaaaaaaaaaaaaaaaaaa.a-very-long-label-bbbbbbbbbbbbbbbbbbbbbbbbbbbbbbbbbbbbbbbbbbbb.a-very-long-label-cccccccccccccccccccccccccccccccccccccccccccc.a-very-long-label-dddddddddddddddddddddddddddddddddddddddddddd.example.com"}
	proxies := []string{"a", "ss", "shadowsocks", "openvpn", "abcdefghijkl", "ABCdef", "with space", "\xff\xfe\x01", "a\x00b"}
	uids := [][]byte{
		make([]byte, 16),
		bytes.Repeat([]byte{0xff}, 16),
		{0, 1, 2, 3, 4, 5, 6, 7, 8, 9, 10, 11, 12, 13, 14, 15},
		{0, 0, 0, 0, 0, 0, 0, 0, 0, 0, 0, 0, 0, 0, 0, 1},
		{1, 0, 0, 0, 0, 0, 0, 0, 0, 0, 0, 0, 0, 0, 0, 0},
	}
	n := 0
	for _, trn := range []string{"direct", "cdn"} {
		for _, br := range []string{"chrome", "firefox", "safari"} {
			if trn == "cdn" && br != "chrome" {
				continue
			}
			for i := 0; i < 60; i++ {
				e := redEncs[rng.Intn(len(redEncs))]
				uid := uids[rng.Intn(len(uids))]
				if rng.Intn(2) == 0 {
					uid = make([]byte, 16)
					rng.Read(uid)
				}
				sid := sids[rng.Intn(len(sids))]
				if rng.Intn(3) == 0 {
					sid = rng.Uint32()
				}
				c := redC06Case{
					uid: uid, proxy: proxies[rng.Intn(len(proxies))], enc: e.name, encByte: e.b,
					sessionID: sid, unordered: rng.Intn(2) == 0, browser: br, transport: trn,
					serverName: names[rng.Intn(len(names))], clientOff: offsets[rng.Intn(len(offsets))],
				}
				r := redRunC06(t, cert, pv, pub, c)
				redCheckC06(t, c, r)
				n++
			}
		}
	}
	t.Logf("ran %d cases", n)
}

// TestRedC06SubSecondClock: the client clock is strictly inside the +-180s window of the server clock, but the two
// clocks are not aligned to whole seconds.
func TestRedC06SubSecondClock(t *testing.T) {
	log.SetLevel(log.PanicLevel)
	cert := redSelfSigned(t)
	pv, pub, _ := ecdh.GenerateKey(crand.Reader)
	c := redC06Case{
		uid: make([]byte, 16), proxy: "shadowsocks", enc: "plain", encByte: 0, sessionID: 7, browser: "firefox",
		transport: "direct", serverName: "www.bing.com",
		// server clock = X.4s, client clock = server - 179.5s = (X-180).9s : |offset| = 179.5s < 180s
		serverFrac: 400 * time.Millisecond,
		clientOff:  -(179*time.Second + 500*time.Millisecond),
	}
	r := redRunC06(t, cert, pv, pub, c)
	redCheckC06(t, c, r)
}

// Through the real dispatcher: N connections of one client session (same UID, same session id) opened
// simultaneously, then some more afterwards: every one of them must receive the key of the server-side session.
// Needs zz_red_helpers_test.go.
func TestRedC06DispatcherSameSessionKey(t *testing.T) {
	e := redNewEnv(t)
	uid := bytes.Repeat([]byte{0x42}, 16)
	e.addUser(uid, 1<<30, 1<<30, redT0.Unix()+100000, 3)
	for round := 0; round < 20; round++ {
		sid := uint32(round)
		if round == 19 {
			sid = 0xffffffff
		}
		const N = 8
		keys := make([][32]byte, N)
		res := make([]string, N)
		conns := make([]net.Conn, N)
		done := make(chan int, N)
		for i := 0; i < N; i++ {
			go func(i int) {
				res[i], conns[i], keys[i] = e.attemptKey(redAttempt{uid: uid, sid: sid}, false)
				done <- i
			}(i)
		}
		for i := 0; i < N; i++ {
			<-done
		}
		var arr [16]byte
		copy(arr[:], uid)
		e.sta.Panel.activeUsersM.RLock()
		u := e.sta.Panel.activeUsers[arr]
		e.sta.Panel.activeUsersM.RUnlock()
		if u == nil {
			t.Fatalf("round %d: no active user", round)
		}
		u.sessionsM.RLock()
		sesh := u.sessions[sid]
		u.sessionsM.RUnlock()
		if sesh == nil {
			t.Fatalf("round %d: no session", round)
		}
		sk := sesh.GetSessionKey()
		for i := 0; i < N; i++ {
			if res[i] != redCloak {
				t.Errorf("round %d conn %d: %s", round, i, res[i])
			} else if keys[i] != sk {
				t.Errorf("round %d conn %d: client key differs from the server session key", round, i)
			}
		}
		for _, c := range conns {
			if c != nil {
				c.Close()
			}
		}
		// wait for the session to be torn down so that SessionsCap is not hit
		for k := 0; k < 200 && e.sta.Panel.isActive(uid); k++ {
			time.Sleep(10 * time.Millisecond)
		}
	}
}

// sizes of the genuine first packet versus the server's 3000-byte first-packet buffer, longest legal server name.
// Needs zz_red_helpers_test.go.
func TestRedC06HelloSizes(t *testing.T) {
	e := redNewEnv(t)
	label := strings.Repeat("a", 63)
	long := label + "." + label + "." + label + "." + strings.Repeat("b", 61) // 253 chars
	for _, br := range []string{"chrome", "firefox", "safari"} {
		for _, sn := range []string{"a.com", long} {
			max, min := 0, 1<<30
			for i := 0; i < 30; i++ {
				p := e.redCaptureCfg(redAttempt{uid: make([]byte, 16), sid: 1}, br, sn)
				if len(p) > max {
					max = len(p)
				}
				if len(p) < min {
					min = len(p)
				}
			}
			t.Logf("%s sni-len=%d: first packet %d..%d bytes (server buffer %d)", br, len(sn), min, max, firstPacketSize)
		}
	}
}
