package multiplex

// goes into internal/multiplex. Probe, not a violation: with a stored UpRate/DownRate of 2^60 and above, the
// token bucket of juju/ratelimit (capacity = rate) overflows int64 in adjustavailableTokens once the valve has
// been idle for about 2^63/rate seconds; availableTokens wraps to a large negative number and the next
// rxWait/txWait sleeps for up to about that idle time again (observed: > 2 s after 4.5 s idle at 2^61,
// after 8.5 s idle at 2^60). Session.Close sends its closing frame through txWait while CloseSession /
// closeAllSessions hold the user's sessionsM, so the stall propagates to commitUpdate (NumSession under
// usageUpdateQueueM) and from there to every TerminateActiveUser. Finite, and the rate is not a sensible one.

import (
	"math"
	"testing"
	"time"
)

func TestRedValveOverflowProbe(t *testing.T) {
	for _, r := range []int64{math.MaxInt64, 1 << 62, 1 << 61, 1 << 60} {
		v := MakeValve(r, r)
		v.txWait(1000)
		idle := time.Duration(float64(math.MaxInt64)/float64(r)*float64(time.Second)) + 500*time.Millisecond
		time.Sleep(idle)
		done := make(chan struct{})
		go func() { v.txWait(1000); close(done) }()
		select {
		case <-done:
			t.Logf("rate %d: after %v ok avail=%d", r, idle, v.txtb.Available())
		case <-time.After(2 * time.Second):
			t.Logf("rate %d: BLOCKED after %v idle; avail=%d", r, idle, v.txtb.Available())
		}
	}
}
