package server

// Observations (NOT violations of C15/C16/C17 as literally stated) found while looking at the glue around
// the bookkeeping core. Both tests PASS when the described behaviour is present.

import (
	"crypto/rand"
	"encoding/base64"
	"errors"
	"io/ioutil"
	"net"
	"os"
	"sync/atomic"
	"testing"
	"time"

	"github.com/cbeuw/Cloak/internal/client"
	"github.com/cbeuw/Cloak/internal/common"
	mux "github.com/cbeuw/Cloak/internal/multiplex"
	"github.com/cbeuw/Cloak/internal/server/usermanager"
	"github.com/cbeuw/connutil"
	log "github.com/sirupsen/logrus"
)

var redPub, _ = base64.StdEncoding.DecodeString("7f7TuKrs264VNSgMno8PkDlyhGhVuOSR8JHLE6H4Ljc=")
var redPv, _ = base64.StdEncoding.DecodeString("SMWeC6VuZF8S/id65VuFQFlfa7hTEJBpL6wWhqPP100=")

type redFailWriteConn struct {
	net.Conn
	fail bool
}

func (c *redFailWriteConn) Write(b []byte) (int, error) {
	if c.fail {
		return 0, errors.New("write: connection reset by peer")
	}
	return c.Conn.Write(b)
}

type redFailListener struct {
	net.Listener
	failNext int32
}

func (l *redFailListener) Accept() (net.Conn, error) {
	c, err := l.Listener.Accept()
	if err != nil {
		return c, err
	}
	return &redFailWriteConn{Conn: c, fail: atomic.CompareAndSwapInt32(&l.failNext, 1, 0)}, nil
}

type redNoDialer struct{}

func (redNoDialer) Dial(network, address string) (net.Conn, error) {
	return nil, errors.New("no web server")
}

// A connection that creates a session and then fails in finishHandshake (the peer reset the connection
// while the ServerHello was being written) leaves the new session in the user's table for ever: nobody runs
// serveSession for it, so nobody ever calls CloseSession for it. The slot counts against SessionsCap and the
// user stays "active" until the server restarts or an upload terminates the user.
func TestRedObs_HandshakeFailureLeaksSessionSlot(t *testing.T) {
	log.SetLevel(log.PanicLevel)
	log.SetOutput(ioutil.Discard)
	tmpDB, _ := ioutil.TempFile("", "red_ck_user_info")
	tmpDB.Close()
	defer os.Remove(tmpDB.Name())

	adminUID := make([]byte, 16)
	rand.Read(adminUID)
	sta, err := InitState(RawConfig{
		ProxyBook:    map[string][]string{"shadowsocks": {"tcp", "127.0.0.1:9999"}},
		RedirAddr:    "127.0.0.1",
		PrivateKey:   redPv,
		AdminUID:     adminUID,
		DatabasePath: tmpDB.Name(),
	}, common.RealWorldState)
	if err != nil {
		t.Fatal(err)
	}
	proxyD, proxyL := connutil.DialerListener(128)
	go redEchoListener(proxyL)
	sta.ProxyDialer = proxyD
	sta.RedirDialer = redNoDialer{}

	uid := make([]byte, 16)
	rand.Read(uid)
	err = sta.Panel.Manager.WriteUserInfo(usermanager.UserInfo{
		UID:         uid,
		SessionsCap: usermanager.JustInt32(1),
		UpRate:      usermanager.JustInt64(1 << 30),
		DownRate:    usermanager.JustInt64(1 << 30),
		UpCredit:    usermanager.JustInt64(1 << 40),
		DownCredit:  usermanager.JustInt64(1 << 40),
		ExpiryTime:  usermanager.JustInt64(time.Now().Add(240 * time.Hour).Unix()),
	})
	if err != nil {
		t.Fatal(err)
	}

	netD, netL := connutil.DialerListener(128)
	fl := &redFailListener{Listener: netL}
	go Serve(fl, sta)

	raw := client.RawConfig{
		ServerName: "www.example.com", ProxyMethod: "shadowsocks", EncryptionMethod: "plain",
		UID: uid, PublicKey: redPub, NumConn: 1, Transport: "direct", BrowserSig: "firefox",
		RemoteHost: "fake.com", RemotePort: "9999", LocalHost: "127.0.0.1", LocalPort: "9999",
	}
	_, rcc, ai, err := raw.ProcessRawConfig(common.RealWorldState)
	if err != nil {
		t.Fatal(err)
	}
	handshake := func(sid uint32) error {
		ai := ai
		ai.SessionId = sid
		conn, _ := netD.Dial("tcp", "")
		tr := rcc.Transport.CreateTransport()
		done := make(chan error, 1)
		go func() { _, err := tr.Handshake(conn, ai); done <- err }()
		select {
		case err := <-done:
			if err != nil {
				conn.Close()
			}
			return err
		case <-time.After(3 * time.Second):
			conn.Close()
			return errors.New("handshake timed out")
		}
	}

	// sanity: the user can connect
	if err := handshake(100); err != nil {
		t.Fatalf("sanity handshake failed: %v", err)
	}
	// ... and after that session is gone the user is inactive again
	// (the connection above was left open; close the session through the panel)
	var arr [16]byte
	copy(arr[:], uid)
	sta.Panel.activeUsersM.RLock()
	u := sta.Panel.activeUsers[arr]
	sta.Panel.activeUsersM.RUnlock()
	u.CloseSession(100, "")
	for i := 0; sta.Panel.isActive(uid) && i < 1000; i++ {
		time.Sleep(time.Millisecond)
	}
	if sta.Panel.isActive(uid) {
		t.Fatal("setup: user still active")
	}

	// the connection that creates session 1 is reset while the server writes its reply
	atomic.StoreInt32(&fl.failNext, 1)
	if err := handshake(1); err == nil {
		t.Fatal("setup: the handshake was supposed to fail")
	}
	time.Sleep(100 * time.Millisecond)

	sta.Panel.activeUsersM.RLock()
	u = sta.Panel.activeUsers[arr]
	sta.Panel.activeUsersM.RUnlock()
	if u == nil {
		t.Skip("behaviour not present: the user is not active after the failed handshake")
	}
	t.Logf("after the failed handshake: user active=%v, sessions in its table=%d", sta.Panel.isActive(uid), u.NumSession())
	if u.NumSession() != 1 {
		t.Skip("behaviour not present: no session left behind")
	}
	// the user has no usable session, yet a new one is refused: the cap of 1 is used up by the leaked slot
	if err := handshake(2); err == nil {
		t.Skip("behaviour not present: the new session was admitted")
	} else {
		t.Logf("new session refused right after: %v", err)
	}

	if os.Getenv("RED_LONG") != "" {
		// after the leaked session's own inactivity timeout (30 s) it is closed, but still in the table
		time.Sleep(31 * time.Second)
		u.sessionsM.RLock()
		s := u.sessions[1]
		u.sessionsM.RUnlock()
		t.Logf("31 s later: leaked session closed=%v, still in table=%v, user active=%v", s != nil && s.IsClosed(), s != nil, sta.Panel.isActive(uid))
		if err := handshake(3); err == nil {
			t.Skip("behaviour not present after the timeout: the new session was admitted")
		} else {
			t.Logf("new session still refused: %v", err)
		}
	}
}

// A connection attached (AddConnection) to a session that has already been closed is never closed by the
// server: Session.Close / passiveClose have already swept the connection pool, AddConnection does not look at
// the closed flag, and deplex only stops on a read error. dispatchConnection can do this whenever the session
// is closed between its GetSession and its AddConnection (TERMINATE from an upload, the user's record being
// terminated, the session's own timeout). The client has received a valid ServerHello and the session key,
// so it believes the connection is good; everything it sends on it is read, counted on a valve nobody
// reports, and dropped.
func TestRedObs_ConnAddedToClosedSessionIsNeverClosed(t *testing.T) {
	log.SetLevel(log.PanicLevel)
	log.SetOutput(ioutil.Discard)
	tmpDB, _ := ioutil.TempFile("", "red_ck_user_info")
	defer os.Remove(tmpDB.Name())
	mgr, err := usermanager.MakeLocalManager(tmpDB.Name(), common.RealWorldState)
	if err != nil {
		t.Fatal(err)
	}
	defer mgr.Close()
	panel := MakeUserPanel(mgr)
	uid := make([]byte, 16)
	rand.Read(uid)
	mgr.WriteUserInfo(usermanager.UserInfo{
		UID:         uid,
		SessionsCap: usermanager.JustInt32(1),
		UpRate:      usermanager.JustInt64(1 << 30),
		DownRate:    usermanager.JustInt64(1 << 30),
		UpCredit:    usermanager.JustInt64(1 << 40),
		DownCredit:  usermanager.JustInt64(1 << 40),
		ExpiryTime:  usermanager.JustInt64(time.Now().Add(240 * time.Hour).Unix()),
	})
	var key [32]byte
	obfs, _ := mux.MakeObfuscator(0x00, key)
	user, err := panel.GetUser(uid)
	if err != nil {
		t.Fatal(err)
	}
	sesh, _, err := user.GetSession(1, mux.SessionConfig{Obfuscator: obfs})
	if err != nil {
		t.Fatal(err)
	}
	// ... finishHandshake is in progress; meanwhile the user is terminated (e.g. TERMINATE from an upload)
	panel.TerminateActiveUser(user, "test")
	if !sesh.IsClosed() {
		t.Fatal("session not closed")
	}
	// dispatchConnection continues
	cEnd, sEnd := connutil.AsyncPipe()
	sesh.AddConnection(sEnd)

	cEnd.Write(make([]byte, 100))
	cEnd.SetReadDeadline(time.Now().Add(1 * time.Second))
	_, err = cEnd.Read(make([]byte, 10))
	t.Logf("client read on the connection 1 s later: %v (EOF/closed pipe would mean the server closed it)", err)
	time.Sleep(10 * time.Millisecond)
	t.Logf("dead record's valve counted rx=%d", user.valve.GetRx())
	if user.valve.GetRx() != 100 {
		t.Skip("behaviour not present")
	}
}
