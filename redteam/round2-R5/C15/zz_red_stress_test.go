package server

// Red-team stress harness for C15/C16/C17 at the userPanel/ActiveUser level.
// It replays what dispatchConnection + serveSession do (GetUser, retry on errUserRetired, GetSession,
// terminateIfEmpty on refusal, AddConnection, Accept loop, CloseSession) over in-memory pipes, with
// overlapping usage-upload rounds and admin-API style changes, and checks the properties' observables.

import (
	"crypto/rand"
	"fmt"
	"io"
	"io/ioutil"
	mrand "math/rand"
	"net"
	"os"
	"sync"
	"sync/atomic"
	"testing"
	"time"

	"github.com/cbeuw/Cloak/internal/common"
	mux "github.com/cbeuw/Cloak/internal/multiplex"
	"github.com/cbeuw/Cloak/internal/server/usermanager"
	"github.com/cbeuw/connutil"
	log "github.com/sirupsen/logrus"
)

type redCountConn struct {
	net.Conn
	rx, tx         *int64
	sesh           *mux.Session
	rxDead, txDead *int64 // bytes that passed while the session was already closed
}

func (c *redCountConn) Read(b []byte) (int, error) {
	n, err := c.Conn.Read(b)
	atomic.AddInt64(c.rx, int64(n))
	if c.sesh.IsClosed() {
		atomic.AddInt64(c.rxDead, int64(n))
	}
	return n, err
}
func (c *redCountConn) Write(b []byte) (int, error) {
	n, err := c.Conn.Write(b)
	if err == nil {
		atomic.AddInt64(c.tx, int64(n))
		if c.sesh.IsClosed() {
			atomic.AddInt64(c.txDead, int64(n))
		}
	}
	return n, err
}

type redUser struct {
	uid            []byte
	cap            int32
	rx, tx         int64 // bytes seen by the server-side conns of this user
	rxDead, txDead int64
	regM           sync.Mutex
	registry       []*mux.Session // every session ever handed out by GetSession for this uid
	keys           map[*mux.Session][32]byte
}

func (u *redUser) live() int {
	u.regM.Lock()
	defer u.regM.Unlock()
	n := 0
	for _, s := range u.registry {
		if !s.IsClosed() {
			n++
		}
	}
	return n
}

func redWrite(t *testing.T, mgr usermanager.UserManager, uid []byte, cap int32, up, down, expiry int64) {
	rate := int64(1 << 40)
	err := mgr.WriteUserInfo(usermanager.UserInfo{
		UID:         uid,
		SessionsCap: usermanager.JustInt32(cap),
		UpRate:      usermanager.JustInt64(rate),
		DownRate:    usermanager.JustInt64(rate),
		UpCredit:    usermanager.JustInt64(up),
		DownCredit:  usermanager.JustInt64(down),
		ExpiryTime:  usermanager.JustInt64(expiry),
	})
	if err != nil {
		t.Fatal(err)
	}
}

// one admission, the way dispatchConnection does it. Returns nil if refused.
func redAdmit(panel *userPanel, u *redUser, sid uint32) (*ActiveUser, *mux.Session, bool) {
	var key [32]byte
	rand.Read(key[:])
	obfs, _ := mux.MakeObfuscator(0x00, key)
	cfg := mux.SessionConfig{Obfuscator: obfs, MsgOnWireSizeLimit: appDataMaxLength}
retry:
	user, err := panel.GetUser(u.uid)
	if err != nil {
		return nil, nil, false
	}
	sesh, existing, err := user.GetSession(sid, cfg)
	if err == errUserRetired {
		goto retry
	}
	if err != nil {
		user.terminateIfEmpty()
		return nil, nil, false
	}
	u.regM.Lock()
	if !existing {
		u.registry = append(u.registry, sesh)
	}
	u.regM.Unlock()
	return user, sesh, existing
}

func redServe(sesh *mux.Session, user *ActiveUser, sid uint32) {
	for {
		st, err := sesh.Accept()
		if err != nil {
			user.CloseSession(sid, "")
			return
		}
		go func() {
			io.Copy(st, st)
			st.Close()
		}()
	}
}

func TestRedStress(t *testing.T) {
	log.SetLevel(log.PanicLevel)
	log.SetOutput(ioutil.Discard)
	seed := time.Now().UnixNano()
	if s := os.Getenv("RED_SEED"); s != "" {
		fmt.Sscan(s, &seed)
	}
	t.Logf("seed %d", seed)

	tmpDB, _ := ioutil.TempFile("", "red_ck_user_info")
	defer os.Remove(tmpDB.Name())
	mgr, err := usermanager.MakeLocalManager(tmpDB.Name(), common.RealWorldState)
	if err != nil {
		t.Fatal(err)
	}
	defer mgr.Close()
	panel := MakeUserPanel(mgr)

	const initCredit = int64(1) << 50
	far := time.Now().Add(240 * time.Hour).Unix()
	users := make([]*redUser, 4)
	for i := range users {
		uid := make([]byte, 16)
		rand.Read(uid)
		users[i] = &redUser{uid: uid, cap: int32(i), keys: map[*mux.Session][32]byte{}} // caps 0,1,2,3
		redWrite(t, mgr, uid, users[i].cap, initCredit, initCredit, far)
	}

	var stop int32
	var wg sync.WaitGroup
	var capViol, keyViol int32
	var admitted, refused, echoOK, echoFail int64

	// cap monitor
	monDone := make(chan struct{})
	go func() {
		defer close(monDone)
		for atomic.LoadInt32(&stop) == 0 {
			for _, u := range users {
				if n := u.live(); n > int(u.cap) {
					atomic.AddInt32(&capViol, 1)
					t.Errorf("C15: uid cap %d has %d live sessions", u.cap, n)
				}
			}
			time.Sleep(200 * time.Microsecond)
		}
	}()

	// overlapping uploaders
	for k := 0; k < 2; k++ {
		wg.Add(1)
		go func(k int) {
			defer wg.Done()
			r := mrand.New(mrand.NewSource(seed + int64(k)))
			for atomic.LoadInt32(&stop) == 0 {
				panel.updateUsageQueue()
				if err := panel.commitUpdate(); err != nil {
					t.Errorf("commitUpdate: %v", err)
				}
				time.Sleep(time.Duration(r.Intn(3000)) * time.Microsecond)
			}
		}(k)
	}

	// workers
	for ui, u := range users {
		for w := 0; w < redWorkers(); w++ {
			wg.Add(1)
			go func(ui int, u *redUser, w int) {
				defer wg.Done()
				r := mrand.New(mrand.NewSource(seed + int64(100*ui+w)))
				for atomic.LoadInt32(&stop) == 0 {
					sid := uint32(r.Intn(5))
					user, sesh, existing := redAdmit(panel, u, sid)
					if sesh == nil {
						atomic.AddInt64(&refused, 1)
						time.Sleep(time.Duration(r.Intn(500)) * time.Microsecond)
						continue
					}
					atomic.AddInt64(&admitted, 1)
					key := sesh.GetSessionKey()
					u.regM.Lock()
					if k, ok := u.keys[sesh]; ok && k != key {
						atomic.AddInt32(&keyViol, 1)
					}
					u.keys[sesh] = key
					u.regM.Unlock()

					cRaw, sRaw := connutil.AsyncPipe()
					var cEnd, sEnd net.Conn = common.NewTLSConn(cRaw), common.NewTLSConn(sRaw)
					sesh.AddConnection(&redCountConn{Conn: sEnd, rx: &u.rx, tx: &u.tx, sesh: sesh, rxDead: &u.rxDead, txDead: &u.txDead})
					if !existing {
						go redServe(sesh, user, sid)
						// a real client for this session
						obfs, _ := mux.MakeObfuscator(0x00, key)
						cs := mux.MakeSession(sid, mux.SessionConfig{Obfuscator: obfs, MsgOnWireSizeLimit: appDataMaxLength})
						cs.AddConnection(cEnd)
						nStreams := 1 + r.Intn(3)
						for i := 0; i < nStreams; i++ {
							st, err := cs.OpenStream()
							if err != nil {
								break
							}
							buf := make([]byte, 1+r.Intn(6000))
							if _, err := st.Write(buf); err != nil {
								break
							}
							st.SetReadDeadline(time.Now().Add(200 * time.Millisecond))
							if n, err := io.ReadFull(st, buf); err != nil {
								if os.Getenv("RED_DEBUG") != "" {
									fmt.Printf("echo fail: stream %d of %d, got %d of %d: %v; server closed=%v msg=%q client closed=%v\n", i, nStreams, n, len(buf), err, sesh.IsClosed(), sesh.TerminalMsg(), cs.IsClosed())
								}
								atomic.AddInt64(&echoFail, 1)
							} else {
								atomic.AddInt64(&echoOK, 1)
							}
							st.Close()
						}
						time.Sleep(time.Duration(r.Intn(2000)) * time.Microsecond)
						if r.Intn(2) == 0 {
							cs.Close() // closing frame
						} else {
							cEnd.Close() // abrupt drop
							cs.Close()
						}
					} else {
						// an extra connection of an existing session: idle, then dropped
						time.Sleep(time.Duration(r.Intn(2000)) * time.Microsecond)
						cEnd.Close()
					}
				}
			}(ui, u, w)
		}
	}

	// phase 1: plain traffic
	time.Sleep(1500 * time.Millisecond)

	// phase 2: exhaust user 3's credit through the admin API while everything keeps running, then one
	// upload round must leave no live session, and no session may start afterwards
	u3 := users[3]
	redWrite(t, mgr, u3.uid, u3.cap, 0, initCredit, far)
	panel.updateUsageQueue()
	if err := panel.commitUpdate(); err != nil {
		t.Fatal(err)
	}
	if n := u3.live(); n != 0 {
		t.Errorf("C16: user with exhausted credit still has %d live sessions after an upload", n)
	}
	u3.regM.Lock()
	nBefore := len(u3.registry)
	u3.regM.Unlock()
	time.Sleep(300 * time.Millisecond)
	u3.regM.Lock()
	if len(u3.registry) != nBefore {
		t.Errorf("C15: user with exhausted credit started %d sessions", len(u3.registry)-nBefore)
	}
	u3.regM.Unlock()
	// phase 3: expiry in the past for user 2
	u2 := users[2]
	redWrite(t, mgr, u2.uid, u2.cap, initCredit, initCredit, time.Now().Add(-time.Hour).Unix())
	panel.updateUsageQueue()
	if err := panel.commitUpdate(); err != nil {
		t.Fatal(err)
	}
	if n := u2.live(); n != 0 {
		t.Errorf("C16: expired user still has %d live sessions after an upload", n)
	}
	u2.regM.Lock()
	nBefore = len(u2.registry)
	u2.regM.Unlock()
	time.Sleep(300 * time.Millisecond)
	u2.regM.Lock()
	if len(u2.registry) != nBefore {
		t.Errorf("C15: expired user started %d sessions", len(u2.registry)-nBefore)
	}
	u2.regM.Unlock()

	time.Sleep(500 * time.Millisecond)
	atomic.StoreInt32(&stop, 1)
	done := make(chan struct{})
	go func() { wg.Wait(); close(done) }()
	select {
	case <-done:
	case <-time.After(20 * time.Second):
		t.Fatal("C17: workers/uploaders did not finish: something is blocked")
	}
	<-monDone

	// quiescence: every session closed, nobody active
	deadline := time.Now().Add(10 * time.Second)
	for {
		liveTotal := 0
		for _, u := range users {
			liveTotal += u.live()
		}
		panel.activeUsersM.RLock()
		nActive := len(panel.activeUsers)
		panel.activeUsersM.RUnlock()
		if liveTotal == 0 && nActive == 0 {
			break
		}
		if time.Now().After(deadline) {
			t.Fatalf("C17: no quiescence: %d live sessions, %d active users", liveTotal, nActive)
		}
		time.Sleep(10 * time.Millisecond)
	}
	time.Sleep(100 * time.Millisecond)
	panel.updateUsageQueue()
	if err := panel.commitUpdate(); err != nil {
		t.Fatal(err)
	}
	t.Logf("admitted %d refused %d echoOK %d echoFail %d", admitted, refused, echoOK, echoFail)
	if len(users[0].registry) != 0 {
		t.Errorf("C15: cap-0 user got %d sessions", len(users[0].registry))
	}
	// C16 for user 1 (never touched by the admin)
	u1 := users[1]
	info, _ := mgr.GetUserInfo(u1.uid)
	gotUp := initCredit - *info.UpCredit
	gotDown := initCredit - *info.DownCredit
	t.Logf("user1: sessions %d, rx seen %d charged %d; tx seen %d charged %d", len(u1.registry), u1.rx, gotUp, u1.tx, gotDown)
	// Never charged more than once: the charge can never exceed what the server-side connections saw.
	// A deficit is possible only for bytes that a connection read or wrote after the user's final
	// TerminateActiveUser had emptied the valve (connections attached to an already closed session, reads
	// that raced with the close): those bytes belong to no live session. With RED_WORKERS=1 (no admission
	// racing a termination) the two numbers are equal.
	if gotUp > atomic.LoadInt64(&u1.rx) || gotDown > atomic.LoadInt64(&u1.tx) {
		t.Errorf("C16: user1 over-charged: up %d (seen %d) down %d (seen %d)", gotUp, u1.rx, gotDown, u1.tx)
	}
	if redWorkers() == 1 && (gotUp != atomic.LoadInt64(&u1.rx) || gotDown != atomic.LoadInt64(&u1.tx)) {
		t.Errorf("C16: user1 charged up %d (seen %d) down %d (seen %d)", gotUp, u1.rx, gotDown, u1.tx)
	}
	t.Logf("user1 deficit: up %d down %d; bytes that passed on already closed sessions: rx %d tx %d", atomic.LoadInt64(&u1.rx)-gotUp, atomic.LoadInt64(&u1.tx)-gotDown, u1.rxDead, u1.txDead)
	if capViol != 0 || keyViol != 0 {
		t.Errorf("capViol %d keyViol %d", capViol, keyViol)
	}
}

func redWorkers() int {
	n := 5
	if s := os.Getenv("RED_WORKERS"); s != "" {
		fmt.Sscan(s, &n)
	}
	return n
}
