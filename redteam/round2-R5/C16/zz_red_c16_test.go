package server

// C16 demonstration: traffic carried by a limited user's session after TerminateActiveUser has read the
// user's valve (Nullify) but before it has retired the record is never deducted from the stored credit.
//
// TerminateActiveUser does, in this order and with no lock spanning the steps:
//   1. updateUsageQueueForOne: valve.Nullify(), THEN usageUpdateQueueM.Lock(), enqueue
//   2. retired = true
//   3. closeAllSessions
//   4. delete from activeUsers
// Between 1 and 2 the record is still in activeUsers and is not retired, so GetUser returns it and GetSession
// admits a new session into it. Whatever that session (or any other session of the record) carries after the
// Nullify lands in a valve that nobody will ever read again: step 4 removes the record from the only place
// updateUsageQueue looks, and step 1 is not repeated.
//
// The window is a few instructions wide when usageUpdateQueueM is free, and as wide as the time another
// goroutine holds usageUpdateQueueM otherwise (updateUsageQueue holds it while it waits for activeUsersM, which
// GetUser holds during a database read; commitUpdate holds it while it waits for every queued user's sessionsM,
// which CloseSession/closeAllSessions hold during Session.Close, i.e. during the rate limiter's txWait and a
// network write). The test pins the interleaving by holding usageUpdateQueueM itself, standing for such an
// upload round in progress; TestRedStress in zz_red_stress_test.go hits the same loss with no help at all.

import (
	"bytes"
	"crypto/rand"
	"io"
	"io/ioutil"
	"net"
	"os"
	"testing"
	"time"

	"github.com/cbeuw/Cloak/internal/common"
	mux "github.com/cbeuw/Cloak/internal/multiplex"
	"github.com/cbeuw/Cloak/internal/server/usermanager"
	"github.com/cbeuw/connutil"
	log "github.com/sirupsen/logrus"
)

func redEchoListener(l net.Listener) {
	for {
		c, err := l.Accept()
		if err != nil {
			return
		}
		go func() { io.Copy(c, c); c.Close() }()
	}
}

// redDispatch does for one connection what dispatchConnection does after the handshake has been parsed.
// It returns the client side of the connection and the session key.
func redDispatch(t *testing.T, sta *State, uid []byte, sid uint32) (clientConn net.Conn, key [32]byte, user *ActiveUser, sesh *mux.Session) {
	var sessionKey [32]byte
	rand.Read(sessionKey[:])
	obfs, _ := mux.MakeObfuscator(0x00, sessionKey)
	cfg := mux.SessionConfig{Obfuscator: obfs, MsgOnWireSizeLimit: appDataMaxLength}
	ci := ClientInfo{UID: uid, SessionId: sid, ProxyMethod: "echo"}
retry:
	user, err := sta.Panel.GetUser(uid)
	if err != nil {
		t.Fatalf("GetUser: %v", err)
	}
	sesh, existing, err := user.GetSession(sid, cfg)
	if err == errUserRetired {
		goto retry
	}
	if err != nil {
		user.terminateIfEmpty()
		t.Fatalf("GetSession: %v", err)
	}
	cRaw, sRaw := connutil.AsyncPipe()
	sesh.AddConnection(common.NewTLSConn(sRaw))
	if !existing {
		go serveSession(sesh, ci, user, sta)
	}
	return common.NewTLSConn(cRaw), sesh.GetSessionKey(), user, sesh
}

func redClient(conn net.Conn, key [32]byte, sid uint32) *mux.Session {
	obfs, _ := mux.MakeObfuscator(0x00, key)
	cs := mux.MakeSession(sid, mux.SessionConfig{Obfuscator: obfs, MsgOnWireSizeLimit: appDataMaxLength})
	cs.AddConnection(conn)
	return cs
}

func redEcho(t *testing.T, cs *mux.Session, total int) {
	st, err := cs.OpenStream()
	if err != nil {
		t.Fatalf("OpenStream: %v", err)
	}
	out := make([]byte, total)
	rand.Read(out)
	go func() {
		for off := 0; off < total; off += 8000 {
			end := off + 8000
			if end > total {
				end = total
			}
			if _, err := st.Write(out[off:end]); err != nil {
				return
			}
		}
	}()
	in := make([]byte, total)
	st.SetReadDeadline(time.Now().Add(10 * time.Second))
	if _, err := io.ReadFull(st, in); err != nil {
		t.Fatalf("echo of %d bytes failed: %v", total, err)
	}
	if !bytes.Equal(in, out) {
		t.Fatalf("echo corrupted")
	}
	st.Close()
}

func TestRedC16_TrafficAfterNullifyNeverCharged(t *testing.T) {
	log.SetLevel(log.PanicLevel)
	log.SetOutput(ioutil.Discard)

	tmpDB, _ := ioutil.TempFile("", "red_ck_user_info")
	defer os.Remove(tmpDB.Name())
	mgr, err := usermanager.MakeLocalManager(tmpDB.Name(), common.RealWorldState)
	if err != nil {
		t.Fatal(err)
	}
	defer mgr.Close()

	proxyD, proxyL := connutil.DialerListener(128)
	go redEchoListener(proxyL)
	sta := &State{
		ProxyBook:   map[string]net.Addr{"echo": &net.TCPAddr{IP: net.IPv4(127, 0, 0, 1), Port: 1}},
		ProxyDialer: proxyD,
		WorldState:  common.RealWorldState,
		Panel:       MakeUserPanel(mgr),
	}
	panel := sta.Panel

	uid := make([]byte, 16)
	rand.Read(uid)
	const initCredit = int64(1) << 40
	rate := int64(1) << 30
	err = mgr.WriteUserInfo(usermanager.UserInfo{
		UID:         uid,
		SessionsCap: usermanager.JustInt32(2),
		UpRate:      usermanager.JustInt64(rate),
		DownRate:    usermanager.JustInt64(rate),
		UpCredit:    usermanager.JustInt64(initCredit),
		DownCredit:  usermanager.JustInt64(initCredit),
		ExpiryTime:  usermanager.JustInt64(time.Now().Add(240 * time.Hour).Unix()),
	})
	if err != nil {
		t.Fatal(err)
	}

	const P1 = 10_000
	const P2 = 1_000_000

	// session 1 carries P1 bytes each way
	c1, k1, userA, s1 := redDispatch(t, sta, uid, 1)
	cs1 := redClient(c1, k1, 1)
	redEcho(t, cs1, P1)

	// an upload round is at the point where it holds usageUpdateQueueM
	panel.usageUpdateQueueM.Lock()

	// the client closes session 1, the user's last: serveSession -> CloseSession -> TerminateActiveUser,
	// which reads the valve and then waits for usageUpdateQueueM
	cs1.Close()
	deadline := time.Now().Add(5 * time.Second)
	for !(s1.IsClosed() && userA.NumSession() == 0 && userA.valve.GetRx() == 0 && userA.valve.GetTx() == 0) {
		if time.Now().After(deadline) {
			t.Fatal("setup: termination did not reach the Nullify")
		}
		time.Sleep(time.Millisecond)
	}
	time.Sleep(20 * time.Millisecond)

	// the same user connects again: admitted into the very same record, and the session works
	c2, k2, userB, s2 := redDispatch(t, sta, uid, 2)
	if userB != userA {
		t.Fatal("setup: expected the record that is being terminated")
	}
	cs2 := redClient(c2, k2, 2)
	redEcho(t, cs2, P2)
	// let the server side finish counting what it has read/written
	time.Sleep(50 * time.Millisecond)
	t.Logf("record's valve now holds rx=%d tx=%d", userA.valve.GetRx(), userA.valve.GetTx())

	// the upload round moves on
	panel.usageUpdateQueueM.Unlock()

	deadline = time.Now().Add(5 * time.Second)
	for panel.isActive(uid) || !s2.IsClosed() {
		if time.Now().After(deadline) {
			t.Fatal("the user did not become inactive")
		}
		time.Sleep(time.Millisecond)
	}
	time.Sleep(50 * time.Millisecond)

	// traffic has stopped; complete a usage upload (two, for good measure)
	for i := 0; i < 2; i++ {
		panel.updateUsageQueue()
		if err := panel.commitUpdate(); err != nil {
			t.Fatal(err)
		}
	}

	info, err := mgr.GetUserInfo(uid)
	if err != nil {
		t.Fatal(err)
	}
	chargedUp := initCredit - *info.UpCredit
	chargedDown := initCredit - *info.DownCredit
	t.Logf("payload carried: %d bytes each way; charged up %d, down %d", P1+P2, chargedUp, chargedDown)
	// the wire volume is the payload plus framing, so the payload is a lower bound of what must be charged
	if chargedUp < P1+P2 {
		t.Errorf("C16 VIOLATION: %d upload bytes were tunnelled for the user but only %d were deducted from UpCredit", P1+P2, chargedUp)
	}
	if chargedDown < P1+P2 {
		t.Errorf("C16 VIOLATION: %d download bytes were tunnelled for the user but only %d were deducted from DownCredit", P1+P2, chargedDown)
	}
}
