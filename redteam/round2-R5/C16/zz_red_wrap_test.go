package usermanager

import (
	"io/ioutil"
	"math"
	"os"
	"testing"
	"time"

	"github.com/cbeuw/Cloak/internal/common"
)

// Arithmetic corner (C16, judged NOT a violation worth reporting: the configuration is not a sensible one):
// UploadStatus computes oldCredit - usage in int64 without an overflow check. A stored credit of MinInt64
// (the admin API accepts any int64) minus a usage of 1 wraps to MaxInt64: no TERMINATE is answered and the user
// is left with 9.2e18 bytes of credit.
func TestRedWrap(t *testing.T) {
	tmpDB, _ := ioutil.TempFile("", "red_ck_user_info")
	defer os.Remove(tmpDB.Name())
	mgr, err := MakeLocalManager(tmpDB.Name(), common.RealWorldState)
	if err != nil {
		t.Fatal(err)
	}
	defer mgr.Close()
	uid := []byte("0123456789abcdef")
	mgr.WriteUserInfo(UserInfo{UID: uid, SessionsCap: JustInt32(1), UpRate: JustInt64(1000), DownRate: JustInt64(1000),
		UpCredit: JustInt64(math.MinInt64), DownCredit: JustInt64(1000), ExpiryTime: JustInt64(time.Now().Add(time.Hour).Unix())})
	resp, err := mgr.UploadStatus([]StatusUpdate{{UID: uid, Active: true, NumSession: 1, UpUsage: 1, DownUsage: 1}})
	info, _ := mgr.GetUserInfo(uid)
	t.Logf("responses=%v err=%v UpCredit now %d", resp, err, *info.UpCredit)
}
