package client

import (
	"encoding/json"
	"math/rand"
	"os"
	"path/filepath"
	"reflect"
	"strings"
	"testing"

	"github.com/cbeuw/Cloak/internal/common"
)

func redEscape(v string) string { // what plugin hosts do to values
	v = strings.ReplaceAll(v, `\`, `\\`)
	v = strings.ReplaceAll(v, `=`, `\=`)
	v = strings.ReplaceAll(v, `;`, `\;`)
	return v
}

// equivalence of the two syntaxes over presence/absence of every documented option. Expected to PASS
// (escaped semicolons are a known defect and are not generated).
func TestRedC20_Equivalence(t *testing.T) {
	rng := rand.New(rand.NewSource(7))
	type opt struct {
		key  string
		vals []interface{}
	}
	opts := []opt{
		{"UID", []interface{}{"iGAO85zysIyR4c09CyZSLQ==", "AAAAAAAAAAAAAAAAAAAAAA=="}},
		{"PublicKey", []interface{}{"IYoUzkle/T/kriE+Ufdm7AHQtIeGnBWbhhlTbmDpUUI="}},
		{"ServerName", []interface{}{"www.bing.com", "random", "RaNdOm"}},
		{"ProxyMethod", []interface{}{"shadowsocks", "OpenVPN"}},
		{"EncryptionMethod", []interface{}{"plain", "AES-GCM", "aes-256-gcm", "Aes-128-Gcm", "ChaCha20-Poly1305", "bogus", ""}},
		{"NumConn", []interface{}{0, -1, 1, 4, -2147483648}},
		{"Transport", []interface{}{"direct", "CDN", "cdn", "Direct", "weird"}},
		{"BrowserSig", []interface{}{"chrome", "Firefox", "SAFARI", "opera", ""}},
		{"CDNOriginHost", []interface{}{"origin.example.com", ""}},
		{"CDNWsUrlPath", []interface{}{"/ws?a=b", "/", ""}},
		{"StreamTimeout", []interface{}{0, 1, 300, -5}},
		{"KeepAlive", []interface{}{0, 15, -1}},
		{"UDP", []interface{}{true, false}},
		{"AlternativeNames", []interface{}{[]string{}, []string{""}, []string{"a.com"}, []string{"a.com", "", "b.com"}, []string{"", ""}}},
		{"RemoteHost", []interface{}{"1.2.3.4", "::1"}},
		{"RemotePort", []interface{}{"443"}},
		{"LocalHost", []interface{}{"127.0.0.1"}},
		{"LocalPort", []interface{}{"1984"}},
	}
	dir := t.TempDir()
	for iter := 0; iter < 3000; iter++ {
		m := map[string]interface{}{}
		var ssv []string
		for _, o := range opts {
			if rng.Intn(4) == 0 {
				continue
			}
			v := o.vals[rng.Intn(len(o.vals))]
			m[o.key] = v
			switch x := v.(type) {
			case string:
				ssv = append(ssv, o.key+"="+redEscape(x))
			case int:
				b, _ := json.Marshal(x)
				ssv = append(ssv, o.key+"="+string(b))
			case bool:
				b, _ := json.Marshal(x)
				ssv = append(ssv, o.key+"="+string(b))
			case []string:
				ssv = append(ssv, o.key+"="+strings.Join(x, ","))
			}
		}
		if len(ssv) < 2 {
			continue
		}
		rng.Shuffle(len(ssv), func(i, j int) { ssv[i], ssv[j] = ssv[j], ssv[i] })
		s := strings.Join(ssv, ";")
		if rng.Intn(2) == 0 {
			s += ";"
		}
		js, _ := json.Marshal(m)
		p := filepath.Join(dir, "c.json")
		os.WriteFile(p, js, 0600)
		type res struct {
			l   LocalConnConfig
			r   RemoteConnConfig
			a   AuthInfo
			err string
		}
		run := func(conf string) (out res) {
			defer func() {
				if p := recover(); p != nil {
					t.Fatalf("PANIC for %q: %v", conf, p)
				}
			}()
			raw, err := ParseConfig(conf)
			if err != nil {
				out.err = "parse: " + err.Error()
				return
			}
			l, r, a, err := raw.ProcessRawConfig(common.WorldState{})
			if err != nil {
				out.err = err.Error()
				return
			}
			a.WorldState = common.WorldState{}
			return res{l, r, a, ""}
		}
		a, b := run(s), run(p)
		if a.err != "" && b.err != "" {
			continue
		}
		if !reflect.DeepEqual(a, b) {
			t.Fatalf("differ:\n ssv  %s\n json %s\n ssv  -> %+v\n json -> %+v", s, js, a, b)
		}
	}
}

// no input string may crash the parser
func TestRedC20_NoCrash(t *testing.T) {
	rng := rand.New(rand.NewSource(3))
	toks := []string{";", "=", `\`, `"`, ",", "NumConn", "UDP", "AlternativeNames", "UID", "KeepAlive", "4", "true", "null", "{", "}", "[", "]", ":", " ", "a", "ServerName", "x.com", "-1", "1e99", "\n"}
	for i := 0; i < 200000; i++ {
		var sb strings.Builder
		for k := rng.Intn(12); k >= 0; k-- {
			sb.WriteString(toks[rng.Intn(len(toks))])
		}
		s := sb.String()
		func() {
			defer func() {
				if p := recover(); p != nil {
					t.Fatalf("PANIC for %q: %v", s, p)
				}
			}()
			raw, err := ParseConfig(s)
			if err == nil {
				raw.ProcessRawConfig(common.WorldState{})
			}
		}()
	}
}

// Observations on the option syntax (each line is printed, none asserted)
func TestRedC20_SsvObservations(t *testing.T) {
	base := "UID=iGAO85zysIyR4c09CyZSLQ\\=\\=;PublicKey=IYoUzkle/T/kriE+Ufdm7AHQtIeGnBWbhhlTbmDpUUI\\=;ServerName=www.bing.com;ProxyMethod=ss;EncryptionMethod=plain;RemoteHost=1.2.3.4;RemotePort=443;LocalHost=127.0.0.1;LocalPort=1984"
	for _, extra := range []string{";NumConn=4", ";numconn=4", ";;NumConn=4", "; NumConn=4", ";alternativenames=a.com,b.com", ";AlternativeNames=a.com, b.com"} {
		raw, err := ParseConfig(base + extra)
		if err != nil {
			t.Logf("%-40q -> error %v", extra, err)
			continue
		}
		_, r, _, err := raw.ProcessRawConfig(common.WorldState{})
		t.Logf("%-40q -> NumConn %d singleplex %v alt %q err %v", extra, r.NumConn, r.Singleplex, raw.AlternativeNames, err)
	}
}
