package client

import (
	"io"
	"net"
	"strings"
	"testing"

	"github.com/cbeuw/Cloak/internal/common"
)

func TestRedC20_OddServerNames(t *testing.T) {
	names := []string{"1.2.3.4", "::1", "a b", "ü.com", strings.Repeat("a", 300) + ".com", strings.Repeat("a.", 1000) + "com", strings.Repeat("a", 20000), strings.Repeat("a", 70000), "a\x00b", ".", "a..b", "random."}
	for _, n := range names {
		for _, br := range []string{"chrome", "firefox", "safari"} {
			func() {
				defer func() {
					if p := recover(); p != nil {
						t.Errorf("PANIC ServerName len %d %.20q browser %s: %v", len(n), n, br, p)
					}
				}()
				raw := &RawConfig{ServerName: n, ProxyMethod: "ss", EncryptionMethod: "plain", UID: make([]byte, 16), PublicKey: make([]byte, 32),
					LocalHost: "127.0.0.1", LocalPort: "1", RemoteHost: "127.0.0.1", RemotePort: "443", BrowserSig: br}
				raw.PublicKey[0] = 9
				_, remote, auth, err := raw.ProcessRawConfig(common.RealWorldState)
				if err != nil {
					t.Logf("%.20q rejected: %v", n, err)
					return
				}
				cli, srv := net.Pipe()
				go func() { io.Copy(io.Discard, srv) }()
				tr := remote.Transport.CreateTransport()
				go func() { srv.Close() }()
				_, err = tr.Handshake(cli, auth)
				t.Logf("len %d %.20q %s -> %v", len(n), n, br, err)
				cli.Close()
			}()
		}
	}
}
