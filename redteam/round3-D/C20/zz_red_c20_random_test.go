package client

import (
	"crypto/tls"
	"errors"
	"net"
	"testing"
	"time"

	"github.com/cbeuw/Cloak/internal/common"
)

// README: "ServerName ... Use `random` to randomize the server name for every connection made."
// The option is honoured by the direct transport only: with Transport=CDN the literal host name
// "random" is sent as SNI on every connection.
func redSNIOf(t *testing.T, transport string) string {
	t.Helper()
	raw := &RawConfig{
		ServerName:       "random",
		ProxyMethod:      "shadowsocks",
		EncryptionMethod: "plain",
		UID:              make([]byte, 16),
		PublicKey:        make([]byte, 32),
		NumConn:          4,
		LocalHost:        "127.0.0.1",
		LocalPort:        "1984",
		RemoteHost:       "127.0.0.1",
		RemotePort:       "443",
		Transport:        transport,
	}
	raw.PublicKey[0] = 9
	_, remote, auth, err := raw.ProcessRawConfig(common.RealWorldState)
	if err != nil {
		t.Fatal(err)
	}
	cli, srv := net.Pipe()
	got := make(chan string, 1)
	go func() {
		// a TLS server that only looks at the ClientHello
		s := tls.Server(srv, &tls.Config{GetConfigForClient: func(h *tls.ClientHelloInfo) (*tls.Config, error) {
			got <- h.ServerName
			return nil, errors.New("seen enough")
		}})
		s.SetDeadline(time.Now().Add(5 * time.Second))
		_ = s.Handshake()
		srv.Close()
	}()
	go func() {
		tr := remote.Transport.CreateTransport()
		_, _ = tr.Handshake(cli, auth)
		cli.Close()
	}()
	select {
	case n := <-got:
		return n
	case <-time.After(10 * time.Second):
		t.Fatal("no ClientHello seen")
		return ""
	}
}

func TestRedC20_RandomServerNameCDN(t *testing.T) {
	for i := 0; i < 3; i++ {
		d := redSNIOf(t, "direct")
		c := redSNIOf(t, "CDN")
		t.Logf("SNI sent: direct=%q CDN=%q", d, c)
		if d == "random" {
			t.Errorf("direct transport sent the literal name")
		}
		if c == "random" {
			t.Errorf("CDN transport: ServerName=random is not randomised, the ClientHello carries SNI %q", c)
		}
	}
}
