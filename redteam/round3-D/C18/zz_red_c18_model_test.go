package usermanager

import (
	"encoding/base64"
	"encoding/json"
	"fmt"
	"math"
	"math/rand"
	"path/filepath"
	"reflect"
	"sort"
	"strings"
	"sync"
	"testing"
)

type redRec struct {
	cap                      int32
	ur, dr, uc, dc, exp      int64
}

// model-based run through the HTTP router: random create/update (any subset of fields, extreme values),
// malformed / mismatching requests, read, list, delete, close+reopen. Expected to PASS.
func TestRedC18_Model(t *testing.T) {
	for seed := int64(1); seed <= 30; seed++ {
		redModelRun(t, seed)
	}
}

func redModelRun(t *testing.T, seed int64) {
	rng := rand.New(rand.NewSource(seed))
	dbp := filepath.Join(t.TempDir(), fmt.Sprintf("db%d", seed))
	mgr, err := MakeLocalManager(dbp, mockWorldState)
	if err != nil {
		t.Fatal(err)
	}
	r := APIRouterOf(mgr)
	uids := [][]byte{
		[]byte("0123456789abcdef"), []byte("0123456789abcdeg"), {0xfb, 0xff, 0xfe, 0xff, 0xfb, 0xff, 0xfe, 0xff, 0xfb, 0xff, 0xfe, 0xff, 0xfb, 0xff, 0xfe, 0xff},
		[]byte("short"), []byte("0123456789abcdefXYZ"), {0},
	}
	vals64 := []int64{0, 1, -1, math.MaxInt64, math.MinInt64, 1 << 32, -(1 << 32), 12345}
	vals32 := []int32{0, 1, -1, math.MaxInt32, math.MinInt32, 77}
	model := map[string]*redRec{}
	check := func(where string) {
		// list
		c, o := redDo(t, r, "GET", "/admin/users", "")
		if c != 200 {
			t.Fatalf("seed %d %s: list code %d", seed, where, c)
		}
		var infos []UserInfo
		if err := json.Unmarshal([]byte(o), &infos); err != nil {
			t.Fatalf("seed %d %s: list body %v", seed, where, err)
		}
		got := map[string]redRec{}
		for _, i := range infos {
			got[string(i.UID)] = redRec{*i.SessionsCap, *i.UpRate, *i.DownRate, *i.UpCredit, *i.DownCredit, *i.ExpiryTime}
		}
		want := map[string]redRec{}
		for k, v := range model {
			want[k] = *v
		}
		if !reflect.DeepEqual(got, want) {
			t.Fatalf("seed %d %s: list mismatch\n got %v\nwant %v", seed, where, got, want)
		}
		for _, u := range uids {
			c, o := redDo(t, r, "GET", "/admin/users/"+base64.URLEncoding.EncodeToString(u), "")
			m, ok := model[string(u)]
			if !ok {
				if c != 404 {
					t.Fatalf("seed %d %s: read of absent user gives %d %s", seed, where, c, o)
				}
				continue
			}
			var i UserInfo
			if c != 200 || json.Unmarshal([]byte(o), &i) != nil {
				t.Fatalf("seed %d %s: read %d %s", seed, where, c, o)
			}
			g := redRec{*i.SessionsCap, *i.UpRate, *i.DownRate, *i.UpCredit, *i.DownCredit, *i.ExpiryTime}
			if g != *m || string(i.UID) != string(u) {
				t.Fatalf("seed %d %s: read mismatch got %+v want %+v", seed, where, g, *m)
			}
		}
	}
	for step := 0; step < 120; step++ {
		u := uids[rng.Intn(len(uids))]
		b64 := base64.URLEncoding.EncodeToString(u)
		switch op := rng.Intn(10); {
		case op < 5: // write with random subset
			fields := map[string]interface{}{"UID": u}
			nr := redRec{}
			if m, ok := model[string(u)]; ok {
				nr = *m
			}
			if rng.Intn(2) == 0 {
				v := vals32[rng.Intn(len(vals32))]
				fields["SessionsCap"] = v
				nr.cap = v
			}
			for i, name := range []string{"UpRate", "DownRate", "UpCredit", "DownCredit", "ExpiryTime"} {
				if rng.Intn(2) == 0 {
					v := vals64[rng.Intn(len(vals64))]
					fields[name] = v
					*[]*int64{&nr.ur, &nr.dr, &nr.uc, &nr.dc, &nr.exp}[i] = v
				} else if rng.Intn(4) == 0 {
					fields[name] = nil // explicit null = not mentioned
				}
			}
			body, _ := json.Marshal(fields)
			c, o := redDo(t, r, "POST", "/admin/users/"+b64, string(body))
			if c != 201 {
				t.Fatalf("seed %d: write gives %d %s", seed, c, o)
			}
			model[string(u)] = &nr
		case op == 5: // delete
			c, _ := redDo(t, r, "DELETE", "/admin/users/"+b64, "")
			if _, ok := model[string(u)]; ok {
				if c != 200 {
					t.Fatalf("seed %d: delete gives %d", seed, c)
				}
				delete(model, string(u))
			} else if c/100 == 2 {
				t.Logf("seed %d: delete of absent user answers %d", seed, c)
			}
		case op == 6: // rejected requests: must change nothing
			other := uids[(rng.Intn(len(uids)-1)+1+indexOf(uids, u))%len(uids)]
			bad := []struct{ m, p, b string }{
				{"POST", "/admin/users/" + b64, `{"UID":"` + base64.StdEncoding.EncodeToString(other) + `","UpRate":1,"SessionsCap":1}`},
				{"POST", "/admin/users/" + b64, `{"UID":"` + base64.StdEncoding.EncodeToString(u) + `","UpRate":9223372036854775808}`},
				{"POST", "/admin/users/" + b64, `{"UID":"` + base64.StdEncoding.EncodeToString(u) + `","DownRate":3,"SessionsCap":2147483648}`},
				{"POST", "/admin/users/" + b64, `{"UID":"` + base64.StdEncoding.EncodeToString(u) + `","DownRate":3.5}`},
				{"POST", "/admin/users/" + b64, `{"UID":"` + base64.StdEncoding.EncodeToString(u) + `","DownRate":"3"}`},
				{"POST", "/admin/users/" + b64, `{"UID":"` + base64.StdEncoding.EncodeToString(u) + `","DownRate":3`},
				{"POST", "/admin/users/" + b64, `[{"UID":"` + base64.StdEncoding.EncodeToString(u) + `","DownRate":3}]`},
				{"POST", "/admin/users/" + b64, ``},
				{"POST", "/admin/users/" + b64, `{"DownRate":3}`},
				{"POST", "/admin/users/" + strings.TrimRight(b64, "=") + "!", `{"UID":"` + base64.StdEncoding.EncodeToString(u) + `","DownRate":3}`},
				{"PUT", "/admin/users/" + b64, `{"UID":"` + base64.StdEncoding.EncodeToString(u) + `","DownRate":3}`},
				{"PATCH", "/admin/users/" + b64, `{"UID":"` + base64.StdEncoding.EncodeToString(u) + `","DownRate":3}`},
				{"DELETE", "/admin/users", ``},
				{"POST", "/admin/users", `{"UID":"` + base64.StdEncoding.EncodeToString(u) + `","DownRate":3}`},
				{"DELETE", "/admin/users/" + b64 + "/", ``},
				{"DELETE", "/admin/users/" + b64 + "/x", ``},
			}
			x := bad[rng.Intn(len(bad))]
			c, o := redDo(t, r, x.m, x.p, x.b)
			if c/100 == 2 {
				t.Fatalf("seed %d: %s %s %s accepted: %d %s", seed, x.m, x.p, x.b, c, o)
			}
		case op == 7: // reopen
			mgr.Close()
			mgr, err = MakeLocalManager(dbp, mockWorldState)
			if err != nil {
				t.Fatal(err)
			}
			r = APIRouterOf(mgr)
		default:
		}
		check(fmt.Sprintf("step %d", step))
	}
	mgr.Close()
}

func indexOf(l [][]byte, u []byte) int {
	for i := range l {
		if string(l[i]) == string(u) {
			return i
		}
	}
	return -1
}

// concurrent writers to disjoint fields of one user and to different users, plus readers and listers
func TestRedC18_Concurrent(t *testing.T) {
	dbp := filepath.Join(t.TempDir(), "db")
	mgr, err := MakeLocalManager(dbp, mockWorldState)
	if err != nil {
		t.Fatal(err)
	}
	defer mgr.Close()
	r := APIRouterOf(mgr)
	u := []byte("0123456789abcdef")
	b64 := base64.URLEncoding.EncodeToString(u)
	s64 := base64.StdEncoding.EncodeToString(u)
	var wg sync.WaitGroup
	names := []string{"UpRate", "DownRate", "UpCredit", "DownCredit", "ExpiryTime"}
	for i, n := range names {
		wg.Add(1)
		go func(i int, n string) {
			defer wg.Done()
			for k := 1; k <= 40; k++ {
				c, o := redDo(t, r, "POST", "/admin/users/"+b64, fmt.Sprintf(`{"UID":"%s","%s":%d}`, s64, n, k*(i+1)))
				if c != 201 {
					t.Errorf("%d %s", c, o)
				}
			}
		}(i, n)
	}
	for i := 0; i < 3; i++ {
		wg.Add(1)
		go func() {
			defer wg.Done()
			for k := 0; k < 40; k++ {
				redDo(t, r, "GET", "/admin/users", "")
				redDo(t, r, "GET", "/admin/users/"+b64, "")
			}
		}()
	}
	wg.Wait()
	c, o := redDo(t, r, "GET", "/admin/users/"+b64, "")
	var i UserInfo
	if c != 200 || json.Unmarshal([]byte(o), &i) != nil {
		t.Fatal(c, o)
	}
	got := []int64{*i.UpRate, *i.DownRate, *i.UpCredit, *i.DownCredit, *i.ExpiryTime}
	want := []int64{40, 80, 120, 160, 200}
	sort.Slice(got, func(a, b int) bool { return got[a] < got[b] })
	if !reflect.DeepEqual(got, want) {
		t.Fatalf("lost update: %v", got)
	}
}
