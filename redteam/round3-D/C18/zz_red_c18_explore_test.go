package usermanager

import (
	"bytes"
	"encoding/base64"
	"encoding/json"
	"fmt"
	"net/http"
	"net/http/httptest"
	"path/filepath"
	"strings"
	"testing"
)

func redDo(t *testing.T, r http.Handler, method, path, body string) (code int, out string) {
	t.Helper()
	defer func() {
		if p := recover(); p != nil {
			t.Errorf("PANIC on %s %.80s: %v", method, path, p)
			code = -1
		}
	}()
	req := httptest.NewRequest(method, path, strings.NewReader(body))
	rr := httptest.NewRecorder()
	r.ServeHTTP(rr, req)
	return rr.Code, rr.Body.String()
}

func TestRedC18_Explore(t *testing.T) {
	dbp := filepath.Join(t.TempDir(), "db")
	mgr, err := MakeLocalManager(dbp, mockWorldState)
	if err != nil {
		t.Fatal(err)
	}
	r := APIRouterOf(mgr)
	show := func(method, path, body string) {
		c, o := redDo(t, r, method, path, body)
		if len(o) > 200 {
			o = o[:200] + "..."
		}
		p := path
		if len(p) > 60 {
			p = p[:60] + "..."
		}
		t.Logf("%s %s [%.60s] -> %d %q", method, p, body, c, o)
	}
	show("GET", "/admin/users/%0A", "")
	show("POST", "/admin/users/%0A", `{"UID":""}`)
	show("POST", "/admin/users/%0A", `{}`)
	show("POST", "/admin/users/%0A", `null`)
	show("DELETE", "/admin/users/%0A", ``)
	show("GET", "/admin/users", "")
	for _, n := range []int{1, 15, 17, 255, 32768, 32769, 70000, 1 << 20} {
		uid := bytes.Repeat([]byte{byte(n)}, n)
		u64 := base64.URLEncoding.EncodeToString(uid)
		js, _ := json.Marshal(UserInfo{UID: uid, UpRate: JustInt64(5)})
		show("POST", "/admin/users/"+u64, string(js))
		show("GET", "/admin/users/"+u64, "")
	}
	c, o := redDo(t, r, "GET", "/admin/users", "")
	t.Logf("list -> %d len %d", c, len(o))
	mgr.Close()
	mgr, err = MakeLocalManager(dbp, mockWorldState)
	if err != nil {
		t.Fatal(err)
	}
	r = APIRouterOf(mgr)
	c, o = redDo(t, r, "GET", "/admin/users", "")
	t.Logf("list after reopen -> %d len %d", c, len(o))
	var infos []UserInfo
	json.Unmarshal([]byte(o), &infos)
	for _, i := range infos {
		fmt.Printf("uid len %d uprate %v\n", len(i.UID), *i.UpRate)
	}
	for _, n := range []int{1, 15, 17, 255, 32768, 32769, 70000, 1 << 20} {
		uid := bytes.Repeat([]byte{byte(n)}, n)
		u64 := base64.URLEncoding.EncodeToString(uid)
		show("DELETE", "/admin/users/"+u64, "")
	}
	c, o = redDo(t, r, "GET", "/admin/users", "")
	t.Logf("list after delete -> %d %s", c, o)
	mgr.Close()
}
