package server

import (
	"encoding/base64"
	"encoding/json"
	"fmt"
	"math"
	"net/http/httptest"
	"path/filepath"
	"strings"
	"testing"
	"time"

	"github.com/cbeuw/Cloak/internal/common"
	mux "github.com/cbeuw/Cloak/internal/multiplex"
	"github.com/cbeuw/Cloak/internal/server/usermanager"
)

// every record the API can create (all 6 fields over extremes, or absent) : owner connects, is listed,
// has usage uploaded -> no panic. Expected to PASS.
func TestRedC18_PanelNoPanic(t *testing.T) {
	world := common.WorldOfTime(time.Unix(1000, 0))
	mgr, err := usermanager.MakeLocalManager(filepath.Join(t.TempDir(), "db"), world)
	if err != nil {
		t.Fatal(err)
	}
	defer mgr.Close()
	router := usermanager.APIRouterOf(mgr)
	panel := MakeUserPanel(mgr)
	v64 := []interface{}{nil, int64(0), int64(1), int64(-1), int64(math.MaxInt64), int64(math.MinInt64), int64(5000)}
	v32 := []interface{}{nil, int32(0), int32(1), int32(-1), int32(math.MaxInt32), int32(math.MinInt32)}
	uid := []byte("0123456789abcdef")
	b64 := base64.URLEncoding.EncodeToString(uid)
	n := 0
	connected := 0
	errHist := map[string]int{}
	for _, sc := range v32 {
		for _, ur := range v64 {
			for _, dr := range v64 {
				for _, uc := range v64 {
					for _, dc := range v64 {
						for _, ex := range []interface{}{nil, int64(0), int64(math.MaxInt64), int64(math.MinInt64), int64(1000), int64(999)} {
							n++
							if n%5 != 0 { // thin out
								continue
							}
							func() {
								defer func() {
									if p := recover(); p != nil {
										t.Errorf("PANIC with %v %v %v %v %v %v: %v", sc, ur, dr, uc, dc, ex, p)
									}
								}()
								rr := httptest.NewRecorder()
								router.ServeHTTP(rr, httptest.NewRequest("DELETE", "/admin/users/"+b64, nil))
								f := map[string]interface{}{"UID": uid}
								for k, v := range map[string]interface{}{"SessionsCap": sc, "UpRate": ur, "DownRate": dr, "UpCredit": uc, "DownCredit": dc, "ExpiryTime": ex} {
									if v != nil {
										f[k] = v
									}
								}
								body, _ := json.Marshal(f)
								rr = httptest.NewRecorder()
								router.ServeHTTP(rr, httptest.NewRequest("POST", "/admin/users/"+b64, strings.NewReader(string(body))))
								if rr.Code != 201 {
									t.Fatalf("create: %d %s", rr.Code, rr.Body)
								}
								rr = httptest.NewRecorder()
								router.ServeHTTP(rr, httptest.NewRequest("GET", "/admin/users", nil))
								if rr.Code != 200 {
									t.Fatalf("list: %d", rr.Code)
								}
								user, err := panel.GetUser(uid)
								errHist[fmt.Sprint(err)]++
								if err == nil {
									connected++
									var sesh *mux.Session
									err := fmt.Errorf("skipped")
									if dr.(int64) >= 5000 { // a session's Close sends a frame through the valve: at 1 B/s that sleeps for minutes
										sesh, _, err = user.GetSession(1, mux.SessionConfig{})
									} else {
										err = mgr.AuthoriseNewSession(uid, usermanager.AuthorisationInfo{NumExistingSessions: 0})
										if err == nil {
											err = fmt.Errorf("no session made")
										}
									}
									user.valve.AddRx(math.MaxInt64)
									user.valve.AddTx(12345)
									panel.updateUsageQueue()
									if e := panel.commitUpdate(); e != nil {
										t.Errorf("commit: %v", e)
									}
									if err == nil {
										sesh.Close()
										user.CloseSession(1, "")
									} else {
										user.terminateIfEmpty()
									}
									panel.commitUpdate()
								}
								// usage uploaded for a non-active record as well
								mgr.UploadStatus([]usermanager.StatusUpdate{{UID: uid, UpUsage: math.MaxInt64, DownUsage: math.MinInt64}})
								mgr.UploadStatus([]usermanager.StatusUpdate{{UID: uid, UpUsage: 1, DownUsage: 1}})
							}()
						}
					}
				}
			}
		}
	}
	t.Log(errHist)
	t.Logf("%d records tried, %d could connect", n/5, connected)
}

// Observation (not a panic): usage upload wraps the stored credit around.
func TestRedC18_CreditWrapObservation(t *testing.T) {
	world := common.WorldOfTime(time.Unix(1000, 0))
	mgr, err := usermanager.MakeLocalManager(filepath.Join(t.TempDir(), "db"), world)
	if err != nil {
		t.Fatal(err)
	}
	defer mgr.Close()
	uid := []byte("0123456789abcdef")
	mgr.WriteUserInfo(usermanager.UserInfo{UID: uid, SessionsCap: usermanager.JustInt32(5), UpRate: usermanager.JustInt64(100), DownRate: usermanager.JustInt64(100),
		UpCredit: usermanager.JustInt64(1000), DownCredit: usermanager.JustInt64(1000), ExpiryTime: usermanager.JustInt64(2000)})
	// admin cuts the user off by writing the lowest possible credit
	mgr.WriteUserInfo(usermanager.UserInfo{UID: uid, UpCredit: usermanager.JustInt64(math.MinInt64)})
	resp, _ := mgr.UploadStatus([]usermanager.StatusUpdate{{UID: uid, UpUsage: 10, DownUsage: 10}})
	info, _ := mgr.GetUserInfo(uid)
	fmt.Printf("responses %v, UpCredit now %d\n", resp, *info.UpCredit)
	_, _, err = mgr.AuthenticateUser(uid)
	fmt.Println("AuthenticateUser:", err)
}
