package multiplex

import (
	"math"
	"math/rand"
	"testing"
)

func TestRedC18_MakeValveNoPanic(t *testing.T) {
	try := func(r int64) {
		defer func() {
			if p := recover(); p != nil {
				t.Errorf("rate %d: panic %v", r, p)
			}
		}()
		if r <= 0 {
			return
		}
		v := MakeValve(r, r)
		v.txtb.Take(16384)
		v.rxtb.Take(1)
	}
	for s := 0; s < 63; s++ {
		for d := int64(-3); d <= 3; d++ {
			try((int64(1) << s) + d)
		}
	}
	try(math.MaxInt64)
	try(math.MaxInt64 - 1)
	p := int64(1)
	for i := 0; i < 18; i++ {
		p *= 10
		try(p)
		try(p - 1)
		try(p + 1)
		try(p * 9)
	}
	rng := rand.New(rand.NewSource(1))
	for i := 0; i < 200000; i++ {
		try(rng.Int63() >> uint(rng.Intn(63)))
	}
}
