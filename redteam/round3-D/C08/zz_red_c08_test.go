package server

import (
	"crypto"
	"encoding/binary"
	"errors"
	"math/rand"
	"sync"
	"testing"
	"testing/synctest"
	"time"

	"github.com/cbeuw/Cloak/internal/common"
	"github.com/cbeuw/Cloak/internal/ecdh"
)

// a Transport whose first packet is the 96 bytes randPubKey||ciphertextWithTag
type redRawTransport struct{}

func (redRawTransport) processFirstPacket(p []byte, pv crypto.PrivateKey) (f authFragments, r Responder, err error) {
	if len(p) != 96 {
		return f, nil, errors.New("bad length")
	}
	copy(f.randPubKey[:], p[:32])
	pub, _ := ecdh.Unmarshal(f.randPubKey[:])
	ss, err := ecdh.GenerateSharedSecret(pv, pub)
	if err != nil {
		return f, nil, err
	}
	copy(f.sharedSecret[:], ss)
	copy(f.ciphertextWithTag[:], p[32:])
	return
}

func redMakePacket(serverPub crypto.PublicKey, ts int64) []byte {
	ephPv, ephPub, _ := ecdh.GenerateKey(common.RealWorldState.Rand)
	pt := make([]byte, 48)
	copy(pt, "0123456789abcdef")
	copy(pt[16:28], "ss")
	binary.BigEndian.PutUint64(pt[29:37], uint64(ts))
	ss, _ := ecdh.GenerateSharedSecret(ephPv, serverPub)
	pk := ecdh.Marshal(ephPub)
	ct, _ := common.AESGCMEncrypt(pk[:12], ss, pt)
	return append(append([]byte{}, pk...), ct...)
}

// Histories on a virtual clock with the real UsedRandomCleaner running (it wakes every 12h). Each cycle: a
// batch of packets is first presented at a random instant in the 400 s before a wake-up (sub-second phases,
// and the exact edges), with embedded timestamps anywhere in the acceptance window; then copies (plain, or
// with the ignored top bit of the random flipped, singly or 8 at once) are presented at random instants
// until the timestamps have left the window, in particular 1ns before / at / 1ns after the wake-up.
// No packet may be accepted twice. Expected to PASS.
func TestRedC08_HistoriesAroundCleanups(t *testing.T) {
	done := make(chan string, 1)
	go synctest.Run(func() {
		pv, pub, _ := ecdh.GenerateKey(common.RealWorldState.Rand)
		sta := &State{UsedRandom: map[[32]byte]int64{}, WorldState: common.WorldState{Rand: common.RealWorldState.Rand, Now: time.Now}, StaticPv: pv}
		start := time.Now()
		go sta.UsedRandomCleaner() // wakes at start + k*12h
		var seedB [8]byte
		common.CryptoRandRead(seedB[:])
		seed := int64(binary.BigEndian.Uint64(seedB[:]))
		println("seed", seed)
		rng := rand.New(rand.NewSource(seed))
		presentations, acceptedTotal, evicted := 0, 0, 0
		defer func() {
			println("presentations", presentations, "accepted", acceptedTotal, "entries seen evicted", evicted)
		}()
		type pk struct {
			b        []byte
			ts       int64
			accepted int
		}
		present := func(p *pk) bool {
			b := append([]byte{}, p.b...)
			if rng.Intn(3) == 0 {
				b[31] ^= 0x80
			}
			n := 1
			if rng.Intn(5) == 0 {
				n = 8
			}
			var wg sync.WaitGroup
			var mu sync.Mutex
			for k := 0; k < n; k++ {
				wg.Add(1)
				go func() {
					defer wg.Done()
					if _, _, err := AuthFirstPacket(b, redRawTransport{}, sta); err == nil {
						mu.Lock()
						p.accepted++
						acceptedTotal++
						mu.Unlock()
					}
				}()
			}
			wg.Wait()
			presentations += n
			return p.accepted <= 1
		}
		for cycle := 1; cycle <= 300; cycle++ {
			wake := start.Add(time.Duration(cycle) * replayCacheAgeLimit)
			first := wake.Add(-time.Duration(rng.Int63n(int64(400 * time.Second))))
			switch rng.Intn(6) {
			case 0:
				first = wake.Add(-2 * timestampTolerance).Add(time.Duration(rng.Intn(3) - 1))
			case 1:
				first = wake.Add(-2 * timestampTolerance).Add(-time.Duration(rng.Int63n(int64(time.Second))))
			case 2:
				first = wake.Add(-timestampTolerance).Add(-time.Duration(rng.Int63n(int64(2 * time.Second))))
			}
			time.Sleep(time.Until(first))
			var pks []*pk
			for i := 0; i < 6; i++ {
				ts := time.Now().Unix() + int64(rng.Intn(364)-182)
				if rng.Intn(3) == 0 {
					ts = time.Now().Unix() + 180 - int64(rng.Intn(3))
				}
				p := &pk{b: redMakePacket(pub, ts), ts: ts}
				pks = append(pks, p)
				if !present(p) {
					done <- "accepted twice at first presentation"
					return
				}
			}
			before := len(sta.UsedRandom)
			end := time.Now().Add(10 * time.Minute)
			crossed := false
			for time.Now().Before(end) {
				switch rng.Intn(4) {
				case 0:
					time.Sleep(time.Duration(rng.Int63n(int64(time.Second))))
				case 1:
					time.Sleep(time.Duration(rng.Int63n(int64(60 * time.Second))))
				default:
					if d := time.Until(wake); d > 0 {
						time.Sleep(d + time.Duration(rng.Intn(3)-1)) // 1ns before, at, 1ns after
					} else {
						time.Sleep(time.Duration(rng.Int63n(int64(5 * time.Second))))
					}
				}
				if !crossed && time.Now().After(wake) {
					crossed = true
					synctest.Wait()
					sta.usedRandomM.Lock()
					evicted += before - len(sta.UsedRandom)
					sta.usedRandomM.Unlock()
				}
				p := pks[rng.Intn(len(pks))]
				if !present(p) {
					done <- "packet accepted more than once"
					return
				}
			}
		}
		done <- ""
	})
	if msg := <-done; msg != "" {
		t.Fatal(msg)
	}
}
