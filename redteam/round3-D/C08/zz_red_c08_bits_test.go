package server

import (
	"encoding/base64"
	"io"
	"math/rand"
	"net"
	"testing"
	"time"

	"github.com/cbeuw/Cloak/internal/client"
	"github.com/cbeuw/Cloak/internal/common"
	"github.com/cbeuw/Cloak/internal/ecdh"
)

// every single-bit variant (and many random multi-bit variants) of a real first packet, presented after the
// original has been accepted: none may be accepted. TLS ClientHellos of the three browser signatures and a
// WebSocket upgrade request. Expected to PASS.
func TestRedC08_BitVariants(t *testing.T) {
	pv, pub, _ := ecdh.GenerateKey(common.RealWorldState.Rand)
	now := time.Unix(1700000000, 500)
	world := common.WorldState{Rand: common.RealWorldState.Rand, Now: func() time.Time { return now }}
	var packets []struct {
		name string
		tr   Transport
		b    []byte
	}
	for _, br := range []string{"chrome", "firefox", "safari"} {
		raw := &client.RawConfig{ServerName: "www.bing.com", ProxyMethod: "ss", EncryptionMethod: "plain", UID: []byte("0123456789abcdef"),
			PublicKey: ecdh.Marshal(pub), LocalHost: "127.0.0.1", LocalPort: "1", RemoteHost: "127.0.0.1", RemotePort: "443", BrowserSig: br, NumConn: 1}
		_, remote, auth, err := raw.ProcessRawConfig(world)
		if err != nil {
			t.Fatal(err)
		}
		c, s := net.Pipe()
		go func() {
			tr := remote.Transport.CreateTransport()
			tr.Handshake(c, auth)
			c.Close()
		}()
		buf := make([]byte, 5)
		io.ReadFull(s, buf)
		rest := make([]byte, int(buf[3])<<8|int(buf[4]))
		io.ReadFull(s, rest)
		s.Close()
		packets = append(packets, struct {
			name string
			tr   Transport
			b    []byte
		}{br, TLS{}, append(buf, rest...)})
	}
	{
		p := redMakePacket(pub, now.Unix())
		req := "GET /ws HTTP/1.1\r\nHost: example.com\r\nUpgrade: websocket\r\nConnection: Upgrade\r\nhidden: " + base64.StdEncoding.EncodeToString(p) + "\r\nSec-WebSocket-Version: 13\r\n\r\n"
		packets = append(packets, struct {
			name string
			tr   Transport
			b    []byte
		}{"websocket", WebSocket{}, []byte(req)})
	}
	rng := rand.New(rand.NewSource(time.Now().UnixNano()))
	for _, p := range packets {
		sta := &State{UsedRandom: map[[32]byte]int64{}, WorldState: world, StaticPv: pv}
		if _, _, err := AuthFirstPacket(p.b, p.tr, sta); err != nil {
			t.Fatalf("%s: original not accepted: %v", p.name, err)
		}
		if _, _, err := AuthFirstPacket(p.b, p.tr, sta); err == nil {
			t.Fatalf("%s: plain replay accepted", p.name)
		}
		stillAuth := 0
		for bit := 0; bit < len(p.b)*8; bit++ {
			v := append([]byte{}, p.b...)
			v[bit/8] ^= 1 << (bit % 8)
			_, _, err := AuthFirstPacket(v, p.tr, sta)
			if err == nil {
				t.Errorf("%s: variant with bit %d (byte %d) flipped ACCEPTED", p.name, bit, bit/8)
			}
			if err == ErrReplay {
				stillAuth++
			}
		}
		for k := 0; k < 30000; k++ {
			v := append([]byte{}, p.b...)
			for j := rng.Intn(4) + 2; j > 0; j-- {
				bit := rng.Intn(len(v) * 8)
				v[bit/8] ^= 1 << (bit % 8)
			}
			if _, _, err := AuthFirstPacket(v, p.tr, sta); err == nil {
				t.Errorf("%s: multi-bit variant ACCEPTED", p.name)
			}
		}
		t.Logf("%s: %d bytes, %d single-bit variants recognised as replays, none accepted", p.name, len(p.b), stillAuth)
	}
}
