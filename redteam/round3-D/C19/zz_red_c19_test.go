package multiplex

import (
	"github.com/cbeuw/connutil"
	"math"
	"testing"
	"testing/synctest"
	"time"
)

// C19, second half: "a backlogged sender is not held below that rate", "for all rates".
// A sender that writes 16 KiB messages through the user's valve, as switchboard.send does
// (sb.valve.txWait(len(data)) before every conn.Write), must never be made to wait noticeably when the
// configured rate is so large that the offered load is a vanishing fraction of it.
func redPacedSender(t *testing.T, rate int64, gap time.Duration, msgs int) (worst time.Duration) {
	synctest.Run(func() {
		v := MakeValve(rate, rate)
		for i := 0; i < msgs; i++ {
			before := time.Now()
			v.txWait(16384)
			if d := time.Since(before); d > worst {
				worst = d
			}
			time.Sleep(gap)
		}
	})
	return
}

func TestRedC19_HugeRateStalls(t *testing.T) {
	for _, rate := range []int64{math.MaxInt64, math.MaxInt64 / 2, 1 << 62} {
		// offered load: 16 KiB per millisecond = 16 MB/s, rate is > 4e18 B/s
		worst := redPacedSender(t, rate, time.Millisecond, 3000)
		t.Logf("rate %d B/s: longest single txWait = %v", rate, worst)
		// the property allows 1%% granularity; a wait of 16384 bytes at this rate is << 1ns
		if worst > 10*time.Millisecond {
			t.Errorf("rate %d B/s: a sender offering 16 MB/s was blocked for %v by the limiter", rate, worst)
		}
	}
}

// The same with a rate an administrator may well write down as "unlimited" (10^15 B/s) and a
// connection that is idle for three hours between two messages.
func TestRedC19_IdleThenStall(t *testing.T) {
	var first, second time.Duration
	synctest.Run(func() {
		v := MakeValve(1_000_000_000_000_000, 1_000_000_000_000_000)
		b := time.Now()
		v.rxWait(1000)
		first = time.Since(b)
		time.Sleep(3 * time.Hour)
		b = time.Now()
		v.rxWait(1000)
		second = time.Since(b)
	})
	t.Logf("first wait %v, wait after 3h idle %v", first, second)
	if second > time.Second {
		t.Errorf("1000 bytes at 1e15 B/s after three idle hours were held for %v", second)
	}
}

// The same through the code path the server uses to send to the user (switchboard.send on a session that
// carries the user's valve), on the real clock: the second frame, sent 5 ms after the first, is held for
// about one second although the user's rate is 9.2e18 B/s.
func TestRedC19_HugeRateStallsSwitchboard(t *testing.T) {
	sesh := MakeSession(0, SessionConfig{Valve: MakeValve(math.MaxInt64, math.MaxInt64)})
	sesh.sb.addConn(connutil.Discard())
	data := make([]byte, 16384)
	var worst time.Duration
	for i := 0; i < 20; i++ {
		conn, _ := sesh.sb.pickRandConn()
		b := time.Now()
		if _, err := sesh.sb.send(data, &conn); err != nil {
			t.Fatal(err)
		}
		if d := time.Since(b); d > worst {
			worst = d
		}
		time.Sleep(5 * time.Millisecond)
	}
	t.Logf("longest switchboard.send: %v", worst)
	if worst > 500*time.Millisecond {
		t.Errorf("a 16 KiB frame was held for %v by the limiter of a user with rate MaxInt64", worst)
	}
}
