package client

import (
	"errors"
	"net"
	"testing"
	"time"

	"github.com/cbeuw/Cloak/internal/common"
)

type redBadConn struct{ net.Conn }

func (redBadConn) Write(b []byte) (int, error)        { return 0, errors.New("connection reset by peer") }
func (redBadConn) Close() error                       { return nil }
func (redBadConn) SetDeadline(time.Time) error        { return nil }

// what MakeSession does when Handshake fails: transportConn.Close()
func TestRedCloseAfterFailedHandshake(t *testing.T) {
	var pub [32]byte
	pub[0] = 9
	ai := AuthInfo{UID: make([]byte, 16), ProxyMethod: "x", ServerPubKey: &pub, MockDomain: "example.com", WorldState: common.RealWorldState}
	tr := TransportConfig{mode: "direct", browser: firefox}.CreateTransport()
	_, err := tr.Handshake(redBadConn{}, ai)
	if err == nil {
		t.Fatal("expected error")
	}
	defer func() {
		if r := recover(); r != nil {
			t.Errorf("transportConn.Close() after a failed ClientHello write panics: %v", r)
		}
	}()
	tr.Close()
}
