package multiplex

import (
	"bytes"
	"crypto/rand"
	"testing"
)

// side observation (not one of C04's claims): both directions of a session use the same key, and the AEAD nonce is
// streamID||seq, which both ends count independently from the same start -> the client's frame (stream 1, seq 5)
// and the server's frame (stream 1, seq 5) are sealed under the same key and nonce.
func TestRedNonceReuseAcrossDirections(t *testing.T) {
	var key [32]byte
	rand.Read(key[:])
	for _, m := range []byte{EncryptionMethodAES256GCM, EncryptionMethodAES128GCM, EncryptionMethodChaha20Poly1305} {
		cl, _ := MakeObfuscator(m, key) // client side of the session
		sv, _ := MakeObfuscator(m, key) // server side of the same session
		up := []byte("GET /secret-path HTTP/1.1\r\nCookie: session=0123456789abcdef\r\n\r\n")
		down := bytes.Repeat([]byte{'A'}, len(up)) // anything the observer knows or can guess
		b1 := make([]byte, 1000)
		b2 := make([]byte, 1000)
		n1, _ := cl.obfuscate(&Frame{StreamID: 1, Seq: 5, Payload: up}, b1, 0)
		n2, _ := sv.obfuscate(&Frame{StreamID: 1, Seq: 5, Payload: down}, b2, 0)
		_ = n1
		_ = n2
		x := make([]byte, len(up))
		for i := range x {
			x[i] = b1[14+i] ^ b2[14+i] ^ down[i]
		}
		if bytes.Equal(x, up) {
			t.Errorf("method %d: a passive observer who knows the downstream plaintext recovers the upstream plaintext: %q", m, x)
		}
	}
}
