package server

import (
	"bytes"
	"crypto/rand"
	"encoding/base64"
	"encoding/binary"
	"io"
	mrand "math/rand"
	"net"
	"sync"
	"testing"
	"time"

	"github.com/cbeuw/Cloak/internal/common"
	"github.com/cbeuw/Cloak/internal/ecdh"
	log "github.com/sirupsen/logrus"
)

type redTCPDialer struct{ addr string }

func (d redTCPDialer) Dial(network, address string) (net.Conn, error) { return net.Dial("tcp", d.addr) }

// valid Cloak authentication fields (made with the server's public key) for an arbitrary UID etc.
func redAuthFields(pub *[32]byte, uid []byte, method string, enc byte, sid uint32, ts int64, flag byte) (random, sidBytes, keyShare []byte) {
	ephPv, ephPub, _ := ecdh.GenerateKey(rand.Reader)
	random = ecdh.Marshal(ephPub)
	pt := make([]byte, 48)
	copy(pt, uid)
	copy(pt[16:28], method)
	pt[28] = enc
	binary.BigEndian.PutUint64(pt[29:37], uint64(ts))
	binary.BigEndian.PutUint32(pt[37:41], sid)
	pt[41] = flag
	secret, _ := ecdh.GenerateSharedSecret(ephPv, pub)
	ct, _ := common.AESGCMEncrypt(random[:12], secret, pt)
	return random, ct[:32], ct[32:64]
}

func redHelloWith(random, sid, ks []byte) []byte {
	body := new(bytes.Buffer)
	body.Write([]byte{3, 3})
	body.Write(random)
	body.WriteByte(byte(len(sid)))
	body.Write(sid)
	body.Write([]byte{0, 2, 0x13, 0x01, 1, 0})
	ksl := append([]byte{0, byte(4 + len(ks)), 0, 0x1d, 0, byte(len(ks))}, ks...)
	ext := append([]byte{0, 0x33, 0, byte(len(ksl))}, ksl...)
	binary.Write(body, binary.BigEndian, uint16(len(ext)))
	body.Write(ext)
	hs := append([]byte{1, 0, byte(body.Len() >> 8), byte(body.Len())}, body.Bytes()...)
	return append([]byte{0x16, 3, 1, byte(len(hs) >> 8), byte(len(hs))}, hs...)
}

func TestRedDispatchFuzz(t *testing.T) {
	log.SetLevel(log.PanicLevel)
	// redirect target: records what it gets, answers with a fixed script
	tl, _ := net.Listen("tcp", "127.0.0.1:0")
	defer tl.Close()
	reply := []byte("HTTP/1.1 400 Bad Request\r\nContent-Length: 0\r\n\r\n")
	type rec struct {
		got []byte
	}
	go func() {
		for {
			c, err := tl.Accept()
			if err != nil {
				return
			}
			go func() {
				defer c.Close()
				c.SetDeadline(time.Now().Add(3 * time.Second))
				// first 4 bytes: length the peer says it will send in total (test protocol is not possible through a
				// transparent relay, so instead: read until 300 ms of silence, echo count + reply)
				var all []byte
				buf := make([]byte, 8192)
				for {
					c.SetReadDeadline(time.Now().Add(150 * time.Millisecond))
					n, err := c.Read(buf)
					all = append(all, buf[:n]...)
					if err != nil {
						break
					}
				}
				c.SetWriteDeadline(time.Now().Add(time.Second))
				c.Write(reply)
				c.Write(all) // echo so that the peer can compare byte for byte
			}()
		}
	}()

	var pv [32]byte
	rand.Read(pv[:])
	pv[0] &= 248
	pv[31] &= 127
	pv[31] |= 64
	sta, err := InitState(RawConfig{
		ProxyBook:  map[string][]string{"shadowsocks": {"tcp", "127.0.0.1:1"}},
		RedirAddr:  tl.Addr().String(),
		PrivateKey: pv[:],
		AdminUID:   bytes.Repeat([]byte{7}, 16),
		BypassUID:  [][]byte{bytes.Repeat([]byte{9}, 16)},
	}, common.RealWorldState)
	if err != nil {
		t.Fatal(err)
	}
	sta.RedirDialer = redTCPDialer{tl.Addr().String()}
	_, pubI, _ := ecdh.GenerateKey(bytes.NewReader(make([]byte, 32)))
	_ = pubI
	var pub [32]byte
	{
		// public key of pv
		p, _ := ecdh.GenerateSharedSecret(&pv, &[32]byte{9})
		copy(pub[:], p)
	}
	sl, _ := net.Listen("tcp", "127.0.0.1:0")
	defer sl.Close()
	go Serve(sl, sta)

	rng := mrand.New(mrand.NewSource(time.Now().UnixNano()))
	gen := func() []byte {
		now := time.Now().Unix()
		uid := make([]byte, 16)
		rng.Read(uid)
		switch rng.Intn(12) {
		case 0: // valid hello, unauthorised UID
			r, s, k := redAuthFields(&pub, uid, "shadowsocks", byte(rng.Intn(4)), rng.Uint32(), now, byte(rng.Intn(2)))
			return redHelloWith(r, s, k)
		case 1: // valid hello, unknown proxy method, bypass uid
			r, s, k := redAuthFields(&pub, bytes.Repeat([]byte{9}, 16), "nosuch", 1, rng.Uint32(), now, 0)
			return redHelloWith(r, s, k)
		case 2: // unknown encryption method, admin uid
			r, s, k := redAuthFields(&pub, bytes.Repeat([]byte{7}, 16), "shadowsocks", byte(4+rng.Intn(250)), 0, now, 0)
			return redHelloWith(r, s, k)
		case 3: // stale
			r, s, k := redAuthFields(&pub, bytes.Repeat([]byte{9}, 16), "shadowsocks", 1, 5, now-int64(181+rng.Intn(100000)), 0)
			return redHelloWith(r, s, k)
		case 4: // mutated valid
			r, s, k := redAuthFields(&pub, bytes.Repeat([]byte{9}, 16), "shadowsocks", 1, 5, now, 0)
			p := redHelloWith(r, s, k)
			// flip one bit that is covered by the authentication: random (except the bit X25519 ignores), session id, key share
			pos := []int{11 + rng.Intn(31), 44 + rng.Intn(32), len(p) - 32 + rng.Intn(32)}[rng.Intn(3)]
			p[pos] ^= byte(1 << uint(rng.Intn(8)))
			return p
		case 5: // wrong sizes
			r, s, k := redAuthFields(&pub, uid, "shadowsocks", 1, 5, now, 0)
			return redHelloWith(r, s[:rng.Intn(33)], append(k, make([]byte, rng.Intn(3))...))
		case 6: // ws with hidden
			r, s, k := redAuthFields(&pub, uid, "shadowsocks", 1, 5, now, 0)
			h := base64.StdEncoding.EncodeToString(append(append(r, s...), k...))
			return []byte("GET / HTTP/1.1\r\nHost: a\r\nhidden: " + h + "\r\nUpgrade: websocket\r\n\r\n")
		case 7:
			p := make([]byte, 1+rng.Intn(5000))
			rng.Read(p)
			return p
		case 8:
			p := make([]byte, 5+rng.Intn(4000))
			rng.Read(p)
			p[0] = 0x16
			binary.BigEndian.PutUint16(p[3:5], uint16(len(p)-5))
			return p
		case 9:
			p := make([]byte, 5+rng.Intn(4000))
			rng.Read(p)
			copy(p, []byte{0x16, 3, 1})
			binary.BigEndian.PutUint16(p[3:5], uint16(len(p)-5))
			if len(p) > 9 {
				p[5] = 1
				p[6] = 0
				binary.BigEndian.PutUint16(p[7:9], uint16(len(p)-9))
			}
			return p
		case 10:
			p := make([]byte, 1+rng.Intn(3500))
			for i := range p {
				p[i] = "abcdefghij \r\n:"[rng.Intn(14)]
			}
			p[0] = 'G'
			return append(p, []byte("\r\n\r\n")...)
		default:
			return append([]byte("GET /x HTTP/1.1\r\nhidden: !!!\r\n"), []byte("\r\n")...)
		}
	}
	var wg sync.WaitGroup
	sem := make(chan struct{}, 32)
	N := 1500
	for i := 0; i < N; i++ {
		p := gen()
		wg.Add(1)
		sem <- struct{}{}
		go func(i int, p []byte) {
			defer wg.Done()
			defer func() { <-sem }()
			c, err := net.Dial("tcp", sl.Addr().String())
			if err != nil {
				t.Error(err)
				return
			}
			defer c.Close()
			// random segmentation
			q := p
			for len(q) > 0 {
				n := len(q)
				if mrand.Intn(3) > 0 {
					n = 1 + mrand.Intn(len(q))
				}
				c.Write(q[:n])
				q = q[n:]
			}
			c.SetReadDeadline(time.Now().Add(5 * time.Second))
			got, _ := io.ReadAll(c)
			want := append(append([]byte{}, reply...), p...)
			if !bytes.Equal(got, want) {
				t.Errorf("case %d (first byte %#x, len %d): peer received %d bytes, want %d; prefix ok=%v", i, p[0], len(p), len(got), len(want), bytes.HasPrefix(want, got))
			}
		}(i, p)
	}
	wg.Wait()
}
