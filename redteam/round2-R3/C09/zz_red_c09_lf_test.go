//go:build goexperiment.synctest

package server

import (
	"io"
	"net"
	"sync"
	"testing"
	"testing/synctest"
	"time"

	"github.com/cbeuw/Cloak/internal/common"
	log "github.com/sirupsen/logrus"
)

type redPipeDialer struct {
	m     sync.Mutex
	conns []net.Conn // target-side ends
}

func (d *redPipeDialer) Dial(network, address string) (net.Conn, error) {
	a, b := net.Pipe()
	d.m.Lock()
	d.conns = append(d.conns, b)
	d.m.Unlock()
	return a, nil
}

func redState(t *testing.T, d common.Dialer) *State {
	sta := &State{
		BypassUID:   make(map[[16]byte]struct{}),
		ProxyBook:   map[string]net.Addr{},
		UsedRandom:  map[[32]byte]int64{},
		RedirDialer: d,
		WorldState:  common.RealWorldState,
		RedirHost:   &net.IPAddr{IP: net.IPv4(127, 0, 0, 1)},
		RedirPort:   "80",
	}
	var pv [32]byte
	pv[0] = 8
	pv[31] = 64
	sta.StaticPv = &pv
	return sta
}

// what the redirect target has received `after` (virtual) time, and whether the peer's connection is closed by then
func redProbe(t *testing.T, req string, after time.Duration) (targetGot string, dialled bool, peerClosed bool) {
	synctest.Run(func() {
		d := &redPipeDialer{}
		sta := redState(t, d)
		peer, srv := net.Pipe()
		go dispatchConnection(srv, sta)
		go func() { peer.Write([]byte(req)) }()
		time.Sleep(after)
		synctest.Wait()
		d.m.Lock()
		n := len(d.conns)
		d.m.Unlock()
		if n > 0 {
			dialled = true
			tc := d.conns[0]
			buf := make([]byte, 4096)
			tc.SetReadDeadline(time.Now().Add(time.Second))
			k, _ := tc.Read(buf)
			targetGot = string(buf[:k])
			tc.Close()
		}
		peer.SetReadDeadline(time.Now().Add(time.Second))
		_, err := peer.Read(make([]byte, 1))
		peerClosed = err == io.EOF || err == io.ErrClosedPipe
		peer.Close()
	})
	return
}

func TestRedBareLF(t *testing.T) {
	log.SetLevel(log.FatalLevel)
	crlf := "GET / HTTP/1.1\r\nHost: example.com\r\n\r\n"
	lf := "GET / HTTP/1.1\nHost: example.com\n\n"
	http09 := "GET /\r\n"

	got, dialled, _ := redProbe(t, crlf, time.Second)
	if !dialled || got != crlf {
		t.Fatalf("control: CRLF request not relayed within 1s: dialled=%v got=%q", dialled, got)
	}
	for _, req := range []string{lf, http09} {
		got, dialled, closed := redProbe(t, req, 14*time.Second)
		t.Logf("%q after 14s: dialled=%v targetGot=%q peerClosed=%v", req, dialled, got, closed)
		if got != req {
			t.Errorf("complete request %q: after 14 s the redirect target has received %q", req, got)
		}
		got, dialled, closed = redProbe(t, req, 16*time.Second)
		t.Logf("%q after 16s: dialled=%v targetGot=%q peerClosed=%v", req, dialled, got, closed)
	}
}
