package server

import (
	"bytes"
	"crypto/rand"
	"encoding/binary"
	"fmt"
	"net"
	"os"
	"os/exec"
	"runtime"
	"strings"
	"sync"
	"sync/atomic"
	"syscall"
	"testing"

	"github.com/cbeuw/Cloak/internal/common"
	log "github.com/sirupsen/logrus"
)

// redMinimalHello builds the smallest first packet the server's parser accepts as a ClientHello: 131 bytes, made
// WITHOUT any knowledge of the server's keys: random "random", random session id, one x25519 key share.
func redMinimalHello() []byte {
	var b bytes.Buffer
	body := new(bytes.Buffer)
	body.Write([]byte{3, 3})
	r := make([]byte, 32+32+32)
	rand.Read(r)
	body.Write(r[:32])      // random
	body.WriteByte(32)      // sid len
	body.Write(r[32:64])    // sid
	body.Write([]byte{0, 2, 0x13, 0x01}) // one cipher suite
	body.Write([]byte{1, 0})             // null compression
	ks := append([]byte{0, 36, 0, 0x1d, 0, 32}, r[64:96]...)
	ext := append([]byte{0, 0x33, 0, byte(len(ks))}, ks...)
	binary.Write(body, binary.BigEndian, uint16(len(ext)))
	body.Write(ext)
	hs := append([]byte{1, 0, byte(body.Len() >> 8), byte(body.Len())}, body.Bytes()...)
	b.Write([]byte{0x16, 3, 1, byte(len(hs) >> 8), byte(len(hs))})
	b.Write(hs)
	return b.Bytes()
}

func redCacheState() *State {
	sta := &State{
		BypassUID:  make(map[[16]byte]struct{}),
		ProxyBook:  map[string]net.Addr{},
		UsedRandom: map[[32]byte]int64{},
		WorldState: common.RealWorldState,
		RedirHost:  &net.IPAddr{IP: net.IPv4(127, 0, 0, 1)},
		RedirPort:  "80",
	}
	var pv [32]byte
	rand.Read(pv[:])
	sta.StaticPv = &pv
	return sta
}

// Every unauthenticated packet of the above shape costs the server a permanent-for-12-hours cache entry.
func TestRedReplayCachePerEntryCost(t *testing.T) {
	log.SetLevel(log.FatalLevel)
	sta := redCacheState()
	const n = 1000000
	var before, after runtime.MemStats
	runtime.GC()
	runtime.ReadMemStats(&before)
	var wg sync.WaitGroup
	for w := 0; w < 8; w++ {
		wg.Add(1)
		go func() {
			defer wg.Done()
			for i := 0; i < n/8; i++ {
				p := redMinimalHello()
				_, _, err := AuthFirstPacket(p, TLS{}, sta)
				if err == nil {
					t.Error("authenticated?!")
					return
				}
			}
		}()
	}
	wg.Wait()
	runtime.GC()
	runtime.ReadMemStats(&after)
	if len(sta.UsedRandom) != n {
		t.Fatalf("cache has %d entries, want %d", len(sta.UsedRandom), n)
	}
	per := float64(after.HeapAlloc-before.HeapAlloc) / n
	t.Logf("first packet size %d bytes; %d unauthenticated packets -> %d cache entries, %.0f bytes of live heap each (peak is higher while the map grows)", len(redMinimalHello()), n, len(sta.UsedRandom), per)
	for _, rate := range []int{200, 1000, 5000} {
		ent := rate * 12 * 3600
		t.Logf("  %5d conn/s (%.2f Mbit/s of hellos) for the 12 h cleaning period: %d entries = %.1f GiB live", rate, float64(rate*len(redMinimalHello())*8)/1e6, ent, float64(ent)*per/(1<<30))
	}
}

// The crash itself, in a child process whose address space may grow by 768 MiB (a small VPS):
// the child feeds unauthenticated first packets to AuthFirstPacket, exactly what dispatchConnection does for
// every connection, and is expected to survive redTarget of them (= 1000 conn/s for 2h13m, well inside the 12 h
// during which nothing is ever removed from the cache).
const redTarget = 8000000

func TestRedReplayCacheOOM(t *testing.T) {
	if os.Getenv("RED_CHILD") == "1" {
		redChild()
		return
	}
	cmd := exec.Command(os.Args[0], "-test.run=^TestRedReplayCacheOOM$")
	cmd.Env = append(os.Environ(), "RED_CHILD=1")
	out, err := cmd.CombinedOutput()
	lines := strings.Split(strings.TrimSpace(string(out)), "\n")
	var keep []string
	for _, l := range lines {
		if strings.HasPrefix(l, "RED") || strings.HasPrefix(l, "fatal error") || strings.HasPrefix(l, "runtime: out of memory") {
			keep = append(keep, l)
		}
	}
	t.Logf("child output (filtered):\n%s", strings.Join(keep, "\n"))
	if err != nil {
		t.Errorf("server process died while being fed unauthenticated first packets: %v", err)
	}
}

func redChild() {
	log.SetLevel(log.FatalLevel)
	// RLIMIT_DATA counts the private writable mappings, i.e. what the process has really committed
	// (address space merely reserved by the Go runtime is not counted): allow 768 MiB on top of the present value
	var vm uint64
	if st, err := os.ReadFile("/proc/self/status"); err == nil {
		for _, l := range strings.Split(string(st), "\n") {
			if strings.HasPrefix(l, "VmData:") {
				fmt.Sscanf(strings.TrimSpace(strings.TrimPrefix(l, "VmData:")), "%d", &vm)
				vm *= 1024
			}
		}
	}
	fmt.Printf("RED writable memory at start %d MiB, limit set to that + 768 MiB\n", vm>>20)
	lim := syscall.Rlimit{Cur: vm + 768<<20, Max: vm + 768<<20}
	if err := syscall.Setrlimit(syscall.RLIMIT_DATA, &lim); err != nil {
		fmt.Println("RED setrlimit failed:", err)
		os.Exit(0)
	}
	sta := redCacheState()
	var done int64
	var wg sync.WaitGroup
	for w := 0; w < 8; w++ {
		wg.Add(1)
		go func() {
			defer wg.Done()
			for {
				k := atomic.AddInt64(&done, 1)
				if k > redTarget {
					return
				}
				if k%500000 == 0 {
					var ms runtime.MemStats
					runtime.ReadMemStats(&ms)
					fmt.Printf("RED %d packets handled, cache entries %d, heap in use %d MiB, sys %d MiB\n", k, k, ms.HeapInuse>>20, ms.Sys>>20)
				}
				AuthFirstPacket(redMinimalHello(), TLS{}, sta)
			}
		}()
	}
	wg.Wait()
	fmt.Println("RED survived")
	os.Exit(0)
}
