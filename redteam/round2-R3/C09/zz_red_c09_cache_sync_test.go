//go:build goexperiment.synctest

package server

import (
	"bytes"
	"runtime"
	"net"
	"testing"
	"testing/synctest"
	"time"

	log "github.com/sirupsen/logrus"
)

// Through the real dispatcher, on a virtual clock: each unauthenticated connection is relayed correctly (fine),
// and leaves an entry in State.UsedRandom that is useless after 2*timestampTolerance = 6 min but stays for up to 12 h.
func TestRedReplayCacheRetention(t *testing.T) {
	log.SetLevel(log.FatalLevel)
	synctest.Run(func() {
		d := &redPipeDialer{}
		sta := redState(t, d)
		go sta.UsedRandomCleaner() // what InitState starts
		const n = 300
		for i := 0; i < n; i++ {
			peer, srv := net.Pipe()
			go dispatchConnection(srv, sta)
			p := redMinimalHello()
			go peer.Write(p)
			synctest.Wait()
			d.m.Lock()
			tc := d.conns[len(d.conns)-1]
			d.m.Unlock()
			got := make([]byte, len(p))
			tc.SetReadDeadline(time.Now().Add(time.Second))
			if k, _ := tc.Read(got); !bytes.Equal(got[:k], p) {
				t.Fatalf("not relayed byte-exact")
			}
			peer.Close()
			tc.Close()
		}
		synctest.Wait()
		count := func() int { sta.usedRandomM.Lock(); defer sta.usedRandomM.Unlock(); return len(sta.UsedRandom) }
		t.Logf("after %d unauthenticated connections: %d cache entries", n, count())
		for _, d := range []time.Duration{10 * time.Minute, time.Hour, 10*time.Hour + 49*time.Minute} {
			time.Sleep(d)
			synctest.Wait()
			t.Logf("  +%v: %d cache entries", d, count())
		}
		if c := count(); c != n {
			t.Errorf("expected retention: %d", c)
		}
		time.Sleep(2 * time.Minute)
		synctest.Wait()
		t.Logf("  12h01m after start: %d cache entries", count())
		// test hygiene only: the cleaner never returns and a synctest bubble cannot end while it lives, so make
		// its next call of WorldState.Now (done while it scans a non-empty cache) end that goroutine
		sta.usedRandomM.Lock()
		sta.UsedRandom[[32]byte{1}] = 0
		sta.WorldState.Now = func() time.Time { runtime.Goexit(); return time.Time{} }
		sta.usedRandomM.Unlock()
		time.Sleep(12*time.Hour + time.Minute)
		synctest.Wait()
	})
}
