package test

import (
	"bytes"
	"encoding/binary"
	"fmt"
	"io"
	"math/rand"
	"net"
	"sync"
	"testing"
	"time"

	"github.com/cbeuw/Cloak/internal/client"
	"github.com/cbeuw/Cloak/internal/common"
	mux "github.com/cbeuw/Cloak/internal/multiplex"
	"github.com/cbeuw/Cloak/internal/server"
	log "github.com/sirupsen/logrus"
)

type redTap struct {
	m     sync.Mutex
	flows []*redFlow
}
type redFlow struct {
	m    sync.Mutex
	c2s  bytes.Buffer
	s2c  bytes.Buffer
	done sync.WaitGroup
}

func (tp *redTap) serve(l net.Listener, serverAddr string) {
	for {
		c, err := l.Accept()
		if err != nil {
			return
		}
		s, err := net.Dial("tcp", serverAddr)
		if err != nil {
			c.Close()
			continue
		}
		f := &redFlow{}
		tp.m.Lock()
		tp.flows = append(tp.flows, f)
		tp.m.Unlock()
		f.done.Add(2)
		cp := func(dst, src net.Conn, rec *bytes.Buffer) {
			defer f.done.Done()
			buf := make([]byte, 65536)
			for {
				n, err := src.Read(buf)
				if n > 0 {
					f.m.Lock()
					rec.Write(buf[:n])
					f.m.Unlock()
					dst.Write(buf[:n])
				}
				if err != nil {
					if tc, ok := dst.(*net.TCPConn); ok {
						tc.CloseWrite()
					}
					return
				}
			}
		}
		go cp(s, c, &f.c2s)
		go cp(c, s, &f.s2c)
	}
}

type redRec struct {
	typ byte
	ver uint16
	pl  []byte
}

func redSplit(b []byte) (recs []redRec, rest []byte) {
	for len(b) >= 5 {
		l := int(binary.BigEndian.Uint16(b[3:5]))
		if len(b) < 5+l {
			break
		}
		recs = append(recs, redRec{b[0], binary.BigEndian.Uint16(b[1:3]), b[5 : 5+l]})
		b = b[5+l:]
	}
	return recs, b
}

func redCheckFlow(t *testing.T, name string, f *redFlow) {
	// a record cut short by the connection being torn down while it was being written is accepted as long as
	// what was written of it is the beginning of a well-formed application-data record
	tail := func(dir string, rest []byte) {
		if len(rest) == 0 {
			return
		}
		if len(rest) >= 5 {
			l := int(binary.BigEndian.Uint16(rest[3:5]))
			if rest[0] == 23 && rest[1] == 3 && rest[2] == 3 && l > 0 && l <= 16384+256 {
				t.Logf("%s: %s ends inside a record (%d of %d bytes) - connection torn down mid-write", name, dir, len(rest)-5, l)
				return
			}
		}
		t.Errorf("%s: %s trailing %d bytes not forming a record", name, dir, len(rest))
	}
	c2s, rest := redSplit(f.c2s.Bytes())
	tail("c2s", rest)
	s2c, rest := redSplit(f.s2c.Bytes())
	tail("s2c", rest)
	if len(c2s) == 0 || c2s[0].typ != 22 {
		t.Errorf("%s: first c2s record not handshake", name)
		return
	}
	sid := c2s[0].pl[39 : 39+32]
	if c2s[0].pl[38] != 32 {
		t.Errorf("%s: sid len %d", name, c2s[0].pl[38])
	}
	for i, r := range c2s[1:] {
		if r.typ != 23 || r.ver != 0x0303 || len(r.pl) == 0 || len(r.pl) > 16384+256 {
			t.Errorf("%s: c2s record %d bad typ=%d ver=%x len=%d", name, i+1, r.typ, r.ver, len(r.pl))
		}
	}
	if len(s2c) < 3 {
		t.Errorf("%s: only %d s2c records", name, len(s2c))
		return
	}
	if s2c[0].typ != 22 || s2c[0].ver != 0x0303 || s2c[0].pl[0] != 2 || !bytes.Equal(s2c[0].pl[39:71], sid) {
		t.Errorf("%s: bad serverhello", name)
	}
	if s2c[1].typ != 20 || !bytes.Equal(s2c[1].pl, []byte{1}) {
		t.Errorf("%s: bad ccs", name)
	}
	for i, r := range s2c[2:] {
		if r.typ != 23 || r.ver != 0x0303 || len(r.pl) == 0 || len(r.pl) > 16384+256 {
			t.Errorf("%s: s2c record %d bad typ=%d ver=%x len=%d", name, i+2, r.typ, r.ver, len(r.pl))
		}
	}
	t.Logf("%s: c2s %d records (%d B), s2c %d records (%d B)", name, len(c2s), f.c2s.Len(), len(s2c), f.s2c.Len())
}

type redDialer struct{ addr string }

func (d redDialer) Dial(network, address string) (net.Conn, error) { return net.Dial("tcp", d.addr) }

func TestRedWire(t *testing.T) {
	log.SetLevel(log.FatalLevel)
	encs := []string{"plain", "aes-256-gcm", "aes-128-gcm", "chacha20-poly1305"}
	sigs := []string{"chrome", "firefox", "safari"}
	k := 0
	for _, enc := range encs {
		for _, numConn := range []int{0, 1, 4} {
			for _, failProxy := range []bool{false, true} {
				sig := sigs[k%3]
				k++
				name := fmt.Sprintf("%s/n%d/%s/fail=%v", enc, numConn, sig, failProxy)
				t.Run(name, func(t *testing.T) {
					ws := common.RealWorldState
					// echo proxy
					pl, _ := net.Listen("tcp", "127.0.0.1:0")
					defer pl.Close()
					go serveTCPEcho(pl)
					proxyAddr := pl.Addr().String()
					if failProxy {
						dead, _ := net.Listen("tcp", "127.0.0.1:0")
						proxyAddr = dead.Addr().String()
						dead.Close()
					}
					sta, err := server.InitState(server.RawConfig{
						ProxyBook:  map[string][]string{"shadowsocks": {"tcp", proxyAddr}},
						BypassUID:  [][]byte{bypassUID[:]},
						RedirAddr:  "127.0.0.1:1",
						PrivateKey: privateKey,
					}, ws)
					if err != nil {
						t.Fatal(err)
					}
					sl, _ := net.Listen("tcp", "127.0.0.1:0")
					defer sl.Close()
					go server.Serve(sl, sta)
					tl, _ := net.Listen("tcp", "127.0.0.1:0")
					defer tl.Close()
					tap := &redTap{}
					go tap.serve(tl, sl.Addr().String())

					raw := basicTCPConfig
					raw.EncryptionMethod = enc
					raw.NumConn = numConn
					raw.BrowserSig = sig
					_, rcc, ai := generateClientConfigs(raw, ws)
					mk := func() *mux.Session {
						ai := ai
						quad := make([]byte, 4)
						common.RandRead(ai.WorldState.Rand, quad)
						ai.SessionId = binary.BigEndian.Uint32(quad)
						return client.MakeSession(rcc, ai, redDialer{tl.Addr().String()})
					}
					sesh := mk()
					nStreams := 6
					if numConn == 0 {
						nStreams = 1
					}
					var wg sync.WaitGroup
					for i := 0; i < nStreams; i++ {
						st, err := sesh.OpenStream()
						if err != nil {
							t.Fatal(err)
						}
						wg.Add(1)
						go func(i int, st *mux.Stream) {
							defer wg.Done()
							sizes := []int{1, 17, 16132, 16133, 40000, 200000}
							for _, sz := range sizes {
								data := make([]byte, sz)
								rand.Read(data)
								if _, err := st.Write(data); err != nil {
									return
								}
								if !failProxy {
									st.SetReadDeadline(time.Now().Add(5 * time.Second))
									got := make([]byte, sz)
									if _, err := io.ReadFull(st, got); err != nil || !bytes.Equal(got, data) {
										t.Errorf("echo mismatch size %d: %v", sz, err)
										return
									}
								}
							}
							if i%2 == 0 {
								st.Close()
							}
						}(i, st)
					}
					wg.Wait()
					time.Sleep(100 * time.Millisecond)
					sesh.Close()
					time.Sleep(200 * time.Millisecond)
					tap.m.Lock()
					flows := tap.flows
					tap.m.Unlock()
					for i, f := range flows {
						f.done.Wait()
						redCheckFlow(t, fmt.Sprintf("flow%d", i), f)
					}
				})
			}
		}
	}
}
