package client

import (
	"bytes"
	"fmt"
	"testing"

	"golang.org/x/crypto/cryptobyte"
)

type redHello struct {
	sessionID []byte
	random    []byte
	sni       []string // all host_name entries
	hasSNI    bool
	x25519    [][]byte
}

// strict structural parse of a ClientHello handshake message (without record layer)
func redParseHello(ch []byte) (*redHello, error) {
	s := cryptobyte.String(ch)
	var typ uint8
	var body cryptobyte.String
	if !s.ReadUint8(&typ) || typ != 1 || !s.ReadUint24LengthPrefixed(&body) || !s.Empty() {
		return nil, fmt.Errorf("bad handshake header")
	}
	var ver uint16
	r := &redHello{}
	var sid, suites, comp, exts cryptobyte.String
	if !body.ReadUint16(&ver) || !body.ReadBytes(&r.random, 32) || !body.ReadUint8LengthPrefixed(&sid) ||
		!body.ReadUint16LengthPrefixed(&suites) || !body.ReadUint8LengthPrefixed(&comp) ||
		!body.ReadUint16LengthPrefixed(&exts) || !body.Empty() {
		return nil, fmt.Errorf("bad hello body")
	}
	if len(suites)%2 != 0 || len(suites) == 0 || len(comp) == 0 {
		return nil, fmt.Errorf("bad suites/comp")
	}
	r.sessionID = sid
	seen := map[uint16]bool{}
	for !exts.Empty() {
		var et uint16
		var ed cryptobyte.String
		if !exts.ReadUint16(&et) || !exts.ReadUint16LengthPrefixed(&ed) {
			return nil, fmt.Errorf("bad extension framing")
		}
		if seen[et] {
			return nil, fmt.Errorf("duplicate extension %d", et)
		}
		seen[et] = true
		switch et {
		case 0:
			r.hasSNI = true
			var list cryptobyte.String
			if !ed.ReadUint16LengthPrefixed(&list) || !ed.Empty() || list.Empty() {
				return nil, fmt.Errorf("bad sni ext")
			}
			for !list.Empty() {
				var nt uint8
				var nm cryptobyte.String
				if !list.ReadUint8(&nt) || !list.ReadUint16LengthPrefixed(&nm) || nm.Empty() {
					return nil, fmt.Errorf("bad sni entry")
				}
				if nt == 0 {
					r.sni = append(r.sni, string(nm))
				}
			}
		case 51:
			var list cryptobyte.String
			if !ed.ReadUint16LengthPrefixed(&list) || !ed.Empty() {
				return nil, fmt.Errorf("bad key_share ext")
			}
			for !list.Empty() {
				var g uint16
				var k cryptobyte.String
				if !list.ReadUint16(&g) || !list.ReadUint16LengthPrefixed(&k) {
					return nil, fmt.Errorf("bad key_share entry")
				}
				if g == 0x001d {
					r.x25519 = append(r.x25519, k)
				}
			}
		}
	}
	return r, nil
}

func TestRedSNI(t *testing.T) {
	names := []string{
		"www.bing.com",
		"204.79.197.200",  // same literal as the RedirAddr of example_config/ckserver.json
		"2001:db8::1",     //
		"[2001:db8::1]",   //
		"www.bing.com.",   // absolute FQDN
		"WWW.Bing.Com",    //
		"bücher.example",  // IDN given in unicode
		"localhost",
	}
	sid := bytes.Repeat([]byte{0xA1}, 32)
	ks := bytes.Repeat([]byte{0xB2}, 32)
	rnd := bytes.Repeat([]byte{0xC3}, 32)
	for _, br := range []browser{chrome, firefox, safari} {
		for _, name := range names {
			for it := 0; it < 20; it++ {
				ch, err := buildClientHello(br, clientHelloFields{random: rnd, sessionId: sid, x25519KeyShare: ks, serverName: name})
				if err != nil {
					t.Errorf("browser %d name %q: build error %v", br, name, err)
					break
				}
				h, err := redParseHello(ch)
				if err != nil {
					t.Errorf("browser %d name %q: structurally invalid: %v", br, name, err)
					break
				}
				if !bytes.Equal(h.sessionID, sid) || !bytes.Equal(h.random, rnd) {
					t.Errorf("browser %d name %q: sid/random mismatch", br, name)
				}
				if len(h.x25519) != 1 || !bytes.Equal(h.x25519[0], ks) {
					t.Errorf("browser %d name %q: x25519 shares %x", br, name, h.x25519)
				}
				if !h.hasSNI || len(h.sni) != 1 || h.sni[0] != name {
					t.Errorf("browser %d: configured server name %q, ClientHello carries hasSNI=%v names=%q (hello %d bytes)", br, name, h.hasSNI, h.sni, len(ch))
					break
				}
			}
		}
	}
}
