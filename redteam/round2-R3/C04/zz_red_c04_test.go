package multiplex

import (
	"bytes"
	"crypto/aes"
	"crypto/cipher"
	"crypto/rand"
	"encoding/binary"
	"fmt"
	mrand "math/rand"
	"testing"

	"golang.org/x/crypto/chacha20poly1305"
	"golang.org/x/crypto/salsa20"
)

// independent implementation of the Cloak v2 frame layout
func redAEAD(method byte, key [32]byte) cipher.AEAD {
	switch method {
	case EncryptionMethodAES256GCM:
		b, _ := aes.NewCipher(key[:])
		a, _ := cipher.NewGCM(b)
		return a
	case EncryptionMethodAES128GCM:
		b, _ := aes.NewCipher(key[:16])
		a, _ := cipher.NewGCM(b)
		return a
	case EncryptionMethodChaha20Poly1305:
		a, _ := chacha20poly1305.New(key[:])
		return a
	}
	return nil
}

func redEncode(method byte, key [32]byte, f Frame, padLen int) []byte {
	hdr := make([]byte, 14)
	binary.BigEndian.PutUint32(hdr[0:4], f.StreamID)
	binary.BigEndian.PutUint64(hdr[4:12], f.Seq)
	hdr[12] = f.Closing
	body := append(append([]byte{}, f.Payload...), make([]byte, padLen)...)
	rand.Read(body[len(f.Payload):])
	var tail []byte
	if a := redAEAD(method, key); a != nil {
		hdr[13] = byte(padLen + 16)
		tail = a.Seal(nil, hdr[:12], body, nil)
	} else {
		hdr[13] = byte(padLen + 8)
		n := make([]byte, 8)
		rand.Read(n)
		tail = append(body, n...)
	}
	out := append(hdr, tail...)
	salsa20.XORKeyStream(out[:14], out[:14], out[len(out)-8:], &key)
	return out
}

func redDecode(method byte, key [32]byte, in []byte) (Frame, error) {
	in = append([]byte{}, in...)
	salsa20.XORKeyStream(in[:14], in[:14], in[len(in)-8:], &key)
	var f Frame
	f.StreamID = binary.BigEndian.Uint32(in[0:4])
	f.Seq = binary.BigEndian.Uint64(in[4:12])
	f.Closing = in[12]
	extra := int(in[13])
	body := in[14:]
	if a := redAEAD(method, key); a != nil {
		pt, err := a.Open(nil, in[:12], body, nil)
		if err != nil {
			return f, err
		}
		if extra < 16 || extra-16 > len(pt) {
			return f, fmt.Errorf("bad extra %d", extra)
		}
		f.Payload = pt[:len(pt)-(extra-16)]
	} else {
		if extra < 8 || extra > len(body) {
			return f, fmt.Errorf("bad extra %d", extra)
		}
		f.Payload = body[:len(body)-extra]
	}
	return f, nil
}

func TestRedC04Cross(t *testing.T) {
	const limit = 16401
	maxPayload := limit - frameHeaderLength - maxExtraLen
	step := 1
	if testing.Short() {
		step = 37
	}
	rng := mrand.New(mrand.NewSource(1))
	for _, method := range []byte{EncryptionMethodPlain, EncryptionMethodAES256GCM, EncryptionMethodChaha20Poly1305, EncryptionMethodAES128GCM} {
		var key [32]byte
		rand.Read(key[:])
		o, err := MakeObfuscator(method, key)
		if err != nil {
			t.Fatal(err)
		}
		src := make([]byte, maxPayload)
		rand.Read(src)
		buf := make([]byte, limit)
		for l := 1; l <= maxPayload; l += step {
			seqs := []uint64{0, 4, 5, rng.Uint64() | 8, ^uint64(0)}
			seq := seqs[l%len(seqs)]
			f := Frame{StreamID: rng.Uint32(), Seq: seq, Closing: uint8(rng.Intn(3)), Payload: src[maxPayload-l:]}
			if l%7 == 0 {
				f.StreamID = 0xffffffff
			}
			inPlace := l%2 == 0
			var n int
			if inPlace {
				copy(buf[frameHeaderLength:], f.Payload)
				g := f
				g.Payload = buf[frameHeaderLength : frameHeaderLength+l]
				n, err = o.obfuscate(&g, buf, frameHeaderLength)
			} else {
				n, err = o.obfuscate(&f, buf, 0)
			}
			if err != nil {
				t.Fatalf("m%d l%d: %v", method, l, err)
			}
			if n > limit {
				t.Fatalf("m%d l%d: %d > limit", method, l, n)
			}
			tagLen := 16
			if method == EncryptionMethodPlain {
				tagLen = 8
			}
			if seq >= 5 && n != 14+l+tagLen {
				t.Fatalf("m%d l%d seq %d: padded? n=%d", method, l, seq, n)
			}
			// independent decoder
			d, err := redDecode(method, key, buf[:n])
			if err != nil || d.StreamID != f.StreamID || d.Seq != f.Seq || d.Closing != f.Closing || !bytes.Equal(d.Payload, f.Payload) {
				t.Fatalf("m%d l%d inplace=%v: independent decoder disagrees: %v", method, l, inPlace, err)
			}
			// own decoder
			var back Frame
			cp := append([]byte{}, buf[:n]...)
			if err := o.deobfuscate(&back, cp); err != nil || back.StreamID != f.StreamID || back.Seq != f.Seq || back.Closing != f.Closing || !bytes.Equal(back.Payload, f.Payload) {
				t.Fatalf("m%d l%d: own decoder disagrees: %v", method, l, err)
			}
			// independent encoder -> own decoder, with arbitrary legal padding
			pad := rng.Intn(maxExtraLen - tagLen + 1)
			if l%5 == 0 {
				pad = maxExtraLen - tagLen
			}
			if l%11 == 0 {
				pad = 0
			}
			enc := redEncode(method, key, f, pad)
			var back2 Frame
			if err := o.deobfuscate(&back2, enc); err != nil || back2.StreamID != f.StreamID || back2.Seq != f.Seq || back2.Closing != f.Closing || !bytes.Equal(back2.Payload, f.Payload) {
				t.Fatalf("m%d l%d pad %d: own decoder on independent encoding: %v", method, l, pad, err)
			}
		}
	}
}

// separate-buffer mode where the caller's payload aliases the obfs buffer at a different offset
func TestRedC04Alias(t *testing.T) {
	var key [32]byte
	rand.Read(key[:])
	for _, method := range []byte{EncryptionMethodPlain, EncryptionMethodAES256GCM, EncryptionMethodChaha20Poly1305, EncryptionMethodAES128GCM} {
		o, _ := MakeObfuscator(method, key)
		for _, off := range []int{0, 1, 13, 15, 100, 300} {
			buf := make([]byte, 2000)
			want := make([]byte, 500)
			rand.Read(want)
			copy(buf[off:], want)
			f := Frame{StreamID: 7, Seq: 1, Payload: buf[off : off+500]}
			n, err := o.obfuscate(&f, buf, off)
			if err != nil {
				t.Fatal(err)
			}
			var back Frame
			if err := o.deobfuscate(&back, buf[:n]); err != nil || !bytes.Equal(back.Payload, want) {
				t.Errorf("method %d alias offset %d: round trip broken (%v)", method, off, err)
			}
		}
	}
}
