package multiplex

import (
	"bytes"
	"fmt"
	"io"
	"math/rand"
	"testing"
	"time"
)

func redPerms(n int, f func([]int)) {
	p := make([]int, n)
	for i := range p {
		p[i] = i
	}
	var rec func(k int)
	rec = func(k int) {
		if k == n {
			f(p)
			return
		}
		for i := k; i < n; i++ {
			p[k], p[i] = p[i], p[k]
			rec(k + 1)
			p[k], p[i] = p[i], p[k]
		}
	}
	rec(0)
}

// drain everything that is readable right now without blocking
func redDrain(sb *streamBuffer, out *bytes.Buffer) (eof bool) {
	buf := make([]byte, 7)
	for {
		sb.buf.rwCond.L.Lock()
		l, closed := sb.buf.buf.Len(), sb.buf.closed
		sb.buf.rwCond.L.Unlock()
		if l == 0 {
			if closed {
				_, err := sb.Read(buf)
				return err == io.EOF
			}
			return false
		}
		n, _ := sb.Read(buf)
		out.Write(buf[:n])
	}
}

// Exhaustive: all permutations of n frames (the last one, seq base+n-1, is the closing frame), for several
// bases incl. around 2^32 and just below 2^64, with the reader draining after every arrival (mask) or only at the end.
func TestRedC02_ExhaustivePermutations(t *testing.T) {
	bases := []uint64{0, 1<<32 - 3, 1<<32 - 1, 1 << 32, 1<<64 - 8, 1<<63 - 2}
	for n := 1; n <= 7; n++ {
		for _, base := range append(bases, ^uint64(0)-uint64(n-1)) { // the last one ends exactly at 2^64-1
			var want bytes.Buffer
			payloads := make([][]byte, n)
			for i := 0; i < n-1; i++ {
				payloads[i] = bytes.Repeat([]byte{byte('a' + i)}, 1+(i*5)%11)
				want.Write(payloads[i])
			}
			payloads[n-1] = []byte("CLOSING-PAD")
			redPerms(n, func(p []int) {
				for drainMode := 0; drainMode < 2; drainMode++ {
					sb := NewStreamBuffer()
					sb.nextRecvSeq = base
					var got bytes.Buffer
					arrived := make([]bool, n)
					closedAt := -1
					for step, idx := range p {
						f := &Frame{StreamID: 1, Seq: base + uint64(idx), Payload: append([]byte(nil), payloads[idx]...)}
						if idx == n-1 {
							f.Closing = closingStream
						}
						toBeClosed, err := sb.Write(f)
						if err != nil {
							t.Fatalf("n=%d base=%d perm=%v: Write err %v", n, base, p, err)
						}
						arrived[idx] = true
						all := true
						for _, a := range arrived {
							all = all && a
						}
						if toBeClosed {
							if !all {
								t.Fatalf("n=%d base=%d perm=%v: closing took effect at step %d before all frames arrived", n, base, p, step)
							}
							closedAt = step
							sb.Close() // what Stream.recvFrame -> passiveClose does
						} else if all {
							t.Fatalf("n=%d base=%d perm=%v: all frames arrived but closing not signalled", n, base, p)
						}
						if drainMode == 1 {
							eof := redDrain(sb, &got)
							if eof && !all {
								t.Fatalf("early EOF")
							}
							if !bytes.HasPrefix(want.Bytes(), got.Bytes()) {
								t.Fatalf("n=%d base=%d perm=%v: got %q not a prefix of %q", n, base, p, got.Bytes(), want.Bytes())
							}
						}
					}
					if closedAt != n-1 {
						t.Fatalf("n=%d base=%d perm=%v: closedAt=%d", n, base, p, closedAt)
					}
					if !redDrain(sb, &got) {
						t.Fatalf("no EOF at end")
					}
					if !bytes.Equal(got.Bytes(), want.Bytes()) {
						t.Fatalf("n=%d base=%d perm=%v: got %q want %q", n, base, p, got.Bytes(), want.Bytes())
					}
				}
			})
		}
	}
}

// Sampled large n, closing frame anywhere in the arrival order, concurrent reader with random read sizes,
// going through Session.recvDataFromRemote (real obfuscation, stream creation, passiveClose).
func TestRedC02_SampledThroughSession(t *testing.T) {
	rng := rand.New(rand.NewSource(1))
	for iter := 0; iter < 300; iter++ {
		method := []byte{EncryptionMethodPlain, EncryptionMethodAES256GCM, EncryptionMethodChaha20Poly1305, EncryptionMethodAES128GCM}[iter%4]
		var key [32]byte
		rng.Read(key[:])
		obfs, _ := MakeObfuscator(method, key)
		sesh := MakeSession(1, SessionConfig{Obfuscator: obfs, MsgOnWireSizeLimit: 16401})
		n := 1 + rng.Intn(300)
		var want bytes.Buffer
		wire := make([][]byte, n)
		for i := 0; i < n; i++ {
			sz := 1 + rng.Intn(2000)
			if rng.Intn(10) == 0 {
				sz = sesh.maxStreamUnitWrite
			}
			pl := make([]byte, sz)
			rng.Read(pl)
			f := &Frame{StreamID: 7, Seq: uint64(i), Payload: pl}
			if i == n-1 {
				f.Closing = closingStream
			} else {
				want.Write(pl)
			}
			buf := make([]byte, 16401)
			l, err := sesh.obfuscate(f, buf, 0)
			if err != nil {
				t.Fatal(err)
			}
			wire[i] = buf[:l]
		}
		order := rng.Perm(n)
		if iter%3 == 0 { // mostly-in-order with local swaps
			order = make([]int, n)
			for i := range order {
				order[i] = i
			}
			for i := 0; i+1 < n; i++ {
				if rng.Intn(3) == 0 {
					order[i], order[i+1] = order[i+1], order[i]
				}
			}
		}
		res := make(chan []byte, 1)
		resErr := make(chan error, 1)
		go func() {
			c, err := sesh.Accept()
			if err != nil {
				resErr <- err
				res <- nil
				return
			}
			var got bytes.Buffer
			r := rand.New(rand.NewSource(int64(iter)))
			for {
				b := make([]byte, 1+r.Intn(5000))
				k, err := c.Read(b)
				got.Write(b[:k])
				if err != nil {
					resErr <- err
					res <- got.Bytes()
					return
				}
			}
		}()
		for _, idx := range order {
			// deplex hands over a buffer that it reuses afterwards: emulate by scribbling over it after the call
			b := append([]byte(nil), wire[idx]...)
			if err := sesh.recvDataFromRemote(b); err != nil {
				t.Fatalf("iter %d: recvDataFromRemote: %v", iter, err)
			}
			for i := range b {
				b[i] = 0xEE
			}
		}
		select {
		case got := <-res:
			err := <-resErr
			if err != ErrBrokenStream {
				t.Fatalf("iter %d: reader err %v", iter, err)
			}
			if !bytes.Equal(got, want.Bytes()) {
				t.Fatalf("iter %d (n=%d): got %d bytes want %d", iter, n, len(got), want.Len())
			}
		case <-time.After(5 * time.Second):
			t.Fatalf("iter %d: reader did not finish", iter)
		}
		sesh.Close()
	}
	_ = fmt.Sprint
}
