package multiplex

import (
	"bytes"
	"io"
	"math/rand"
	"testing"
	"time"
)

// Things tried for C03 that HOLD (kept as evidence of what was examined).

func redWaitAccept(t *testing.T, s *Session) *Stream {
	ch := make(chan *Stream, 1)
	go func() {
		c, err := s.Accept()
		if err == nil {
			ch <- c.(*Stream)
		}
	}()
	select {
	case st := <-ch:
		return st
	case <-time.After(3 * time.Second):
		t.Fatal("accept timed out")
		return nil
	}
}

func TestRedC03_API_Holds(t *testing.T) {
	for _, nconn := range []int{1, 2, 8} {
		for _, closer := range []string{"client", "server"} {
			for _, plen := range []int{0, 1, 16132, 16133, 100000} {
				lat := make([]time.Duration, nconn)
				for i := range lat {
					lat[i] = time.Duration(i) * 3 * time.Millisecond // closing notice overtakes / trails data
				}
				client, server := redSessionPair(EncryptionMethodAES128GCM, false, time.Hour, lat)
				cs, _ := client.OpenStream()
				cs.Write([]byte{0x55}) // make the stream known to the server
				ss := redWaitAccept(t, server)
				one := make([]byte, 1)
				io.ReadFull(ss, one)
				w, r := cs, ss
				if closer == "server" {
					w, r = ss, cs
				}
				B := make([]byte, plen)
				rand.Read(B)
				if n, err := w.Write(B); n != plen || err != nil {
					t.Fatalf("write: %d %v", n, err)
				}
				// a read blocked on the closer's side must return once it closes
				blocked := make(chan error, 1)
				go func() { _, err := w.Read(make([]byte, 10)); blocked <- err }()
				time.Sleep(5 * time.Millisecond)
				if err := w.Close(); err != nil {
					t.Fatalf("close: %v", err)
				}
				select {
				case err := <-blocked:
					if err != ErrBrokenStream {
						t.Errorf("blocked read returned %v", err)
					}
				case <-time.After(3 * time.Second):
					t.Errorf("VIOLATION: blocked read did not return after local Close")
				}
				if _, err := w.Write([]byte("x")); err == nil {
					t.Errorf("VIOLATION: write after local Close succeeded")
				}
				got, err := io.ReadAll(io.LimitReader(r, int64(plen)+10))
				if !bytes.Equal(got, B) || err != ErrBrokenStream {
					t.Errorf("nconn=%d closer=%s plen=%d: reader got %d bytes err=%v", nconn, closer, plen, len(got), err)
				}
				if _, err := r.Write([]byte("x")); err == nil {
					t.Errorf("VIOLATION: write after processing the peer's close succeeded")
				}
				client.Close()
				server.Close()
			}
		}
	}
}

// simultaneous close from both sides: each side reads a prefix of the other's bytes, then the error; and bytes
// that had arrived before the local Close stay readable.
func TestRedC03_SimultaneousClose_Holds(t *testing.T) {
	for iter := 0; iter < 30; iter++ {
		lat := []time.Duration{0, time.Millisecond, 4 * time.Millisecond}
		client, server := redSessionPair(EncryptionMethodChaha20Poly1305, false, time.Hour, lat)
		cs, _ := client.OpenStream()
		cs.Write([]byte{0x55})
		ss := redWaitAccept(t, server)
		io.ReadFull(ss, make([]byte, 1))
		Bc, _ := redPayload(50)
		Bs, _ := redPayload(70)
		done := make(chan struct{}, 2)
		go func() { cs.Write(Bc); time.Sleep(time.Duration(iter%5) * time.Millisecond); cs.Close(); done <- struct{}{} }()
		go func() { ss.Write(Bs); time.Sleep(time.Duration(iter%3) * time.Millisecond); ss.Close(); done <- struct{}{} }()
		<-done
		<-done
		gc, errc := io.ReadAll(cs)
		gs, errs := io.ReadAll(ss)
		if !bytes.HasPrefix(Bs, gc) || errc != ErrBrokenStream {
			t.Errorf("VIOLATION: client read %q err %v", gc, errc)
		}
		if !bytes.HasPrefix(Bc, gs) || errs != ErrBrokenStream {
			t.Errorf("VIOLATION: server read %q err %v", gs, errs)
		}
		client.Close()
		server.Close()
	}
}
