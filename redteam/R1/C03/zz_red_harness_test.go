package multiplex

// Red-team harness: message-preserving in-memory connections with a configurable one-way latency.
// Every Write is one message; every Read returns exactly one message (this is what common.TLSConn gives
// the switchboard in production: one TLS record per Read). Per-connection FIFO order is always preserved,
// only the relative delay BETWEEN connections is chosen by the test.

import (
	"io"
	"net"
	"sync"
	"time"
)

type redAddr struct{}

func (redAddr) Network() string { return "red" }
func (redAddr) String() string  { return "red" }

type redTimed struct {
	at   time.Time
	data []byte
}

// redEnd is one endpoint of a redPipe.
type redEnd struct {
	in        chan []byte   // messages ready to be Read by the owner of this endpoint
	out       chan redTimed // messages written by the owner, in transit to the peer
	latency   time.Duration
	closed    chan struct{}
	closeOnce sync.Once
	peer      *redEnd
	sync      bool // if true, Write hands the message over synchronously (no buffering at all)
}

func (e *redEnd) Read(b []byte) (int, error) {
	select {
	case m := <-e.in:
		return copy(b, m), nil
	default:
	}
	select {
	case m := <-e.in:
		return copy(b, m), nil
	case <-e.closed:
		return 0, io.EOF
	}
}

func (e *redEnd) Write(b []byte) (int, error) {
	select {
	case <-e.closed:
		return 0, io.ErrClosedPipe
	default:
	}
	c := make([]byte, len(b))
	copy(c, b)
	if e.sync {
		select {
		case e.peer.in <- c:
			return len(b), nil
		case <-e.closed:
			return 0, io.ErrClosedPipe
		case <-e.peer.closed:
			return 0, io.ErrClosedPipe
		}
	}
	select {
	case e.out <- redTimed{at: time.Now().Add(e.latency), data: c}:
		return len(b), nil
	case <-e.closed:
		return 0, io.ErrClosedPipe
	}
}

// carrier moves messages to the peer after the latency; like TCP, data that was written before a close
// is still delivered, and the peer sees EOF only afterwards.
func (e *redEnd) carrier() {
	for {
		var m redTimed
		select {
		case m = <-e.out:
		case <-e.closed:
			// flush what was written before the close, then signal EOF to the peer
			for {
				select {
				case m = <-e.out:
					if d := time.Until(m.at); d > 0 {
						time.Sleep(d)
					}
					select {
					case e.peer.in <- m.data:
					case <-e.peer.closed:
					}
					continue
				default:
				}
				break
			}
			time.Sleep(e.latency)
			e.peer.Close()
			return
		}
		if d := time.Until(m.at); d > 0 {
			time.Sleep(d)
		}
		select {
		case e.peer.in <- m.data:
		case <-e.peer.closed:
		}
	}
}

func (e *redEnd) Close() error {
	e.closeOnce.Do(func() { close(e.closed) })
	return nil
}
func (e *redEnd) LocalAddr() net.Addr                { return redAddr{} }
func (e *redEnd) RemoteAddr() net.Addr               { return redAddr{} }
func (e *redEnd) SetDeadline(t time.Time) error      { return nil }
func (e *redEnd) SetReadDeadline(t time.Time) error  { return nil }
func (e *redEnd) SetWriteDeadline(t time.Time) error { return nil }

// redPipe returns two connected endpoints with the given one-way latency.
func redPipe(latency time.Duration) (*redEnd, *redEnd) {
	a := &redEnd{in: make(chan []byte, 1<<16), out: make(chan redTimed, 1<<16), latency: latency, closed: make(chan struct{})}
	b := &redEnd{in: make(chan []byte, 1<<16), out: make(chan redTimed, 1<<16), latency: latency, closed: make(chan struct{})}
	a.peer, b.peer = b, a
	go a.carrier()
	go b.carrier()
	return a, b
}

// redSyncPipe returns two connected endpoints with no buffering at all: a Write returns when the peer Read it.
func redSyncPipe() (*redEnd, *redEnd) {
	a := &redEnd{in: make(chan []byte), closed: make(chan struct{}), sync: true}
	b := &redEnd{in: make(chan []byte), closed: make(chan struct{}), sync: true}
	a.peer, b.peer = b, a
	return a, b
}

func redSessionPair(method byte, clientSingleplex bool, timeout time.Duration, latencies []time.Duration) (*Session, *Session) {
	var key [32]byte
	for i := range key {
		key[i] = byte(i * 7)
	}
	obfs, err := MakeObfuscator(method, key)
	if err != nil {
		panic(err)
	}
	// 16401 is appDataMaxLength, the value both cmd/ck-client and cmd/ck-server use
	cc := SessionConfig{Obfuscator: obfs, Singleplex: clientSingleplex, MsgOnWireSizeLimit: 16401, InactivityTimeout: timeout}
	sc := SessionConfig{Obfuscator: obfs, MsgOnWireSizeLimit: 16401, InactivityTimeout: timeout} // the server never sets Singleplex
	client := MakeSession(1, cc)
	server := MakeSession(1, sc)
	for _, l := range latencies {
		c, s := redPipe(l)
		client.AddConnection(c)
		server.AddConnection(s)
	}
	return client, server
}

// redCollector accepts every stream of a session and reads each until error.
type redCollector struct {
	m    sync.Mutex
	data map[uint32][]byte
	errs map[uint32]error
}

func redCollect(sesh *Session) *redCollector {
	rc := &redCollector{data: map[uint32][]byte{}, errs: map[uint32]error{}}
	go func() {
		for {
			c, err := sesh.Accept()
			if err != nil {
				return
			}
			st := c.(*Stream)
			go func() {
				buf := make([]byte, 4096)
				for {
					n, err := st.Read(buf)
					rc.m.Lock()
					rc.data[st.id] = append(rc.data[st.id], buf[:n]...)
					if err != nil {
						rc.errs[st.id] = err
					}
					rc.m.Unlock()
					if err != nil {
						return
					}
				}
			}()
		}
	}()
	return rc
}

func (rc *redCollector) get(id uint32) ([]byte, error) {
	rc.m.Lock()
	defer rc.m.Unlock()
	return append([]byte(nil), rc.data[id]...), rc.errs[id]
}
