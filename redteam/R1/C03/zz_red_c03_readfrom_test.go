package multiplex

import (
	"bytes"
	"io"
	"testing"
	"time"
)

// Secondary (low severity): a Read that returns (0, nil) (discouraged but legal for io.Reader) makes obfuscate fail
// with "payload cannot be empty" AFTER a sequence number has been consumed. ReadFrom returns the error, the
// application closes the stream, but the closing frame is numbered k+1 while k was never sent: the peer's reorder
// buffer waits for k for ever, so the peer never sees the end of the stream.
func TestRedC03_ZeroLengthReadLeavesPeerHanging(t *testing.T) {
	client, server := redSessionPair(EncryptionMethodPlain, false, time.Hour, []time.Duration{0, 0})
	defer client.Close()
	defer server.Close()
	rc := redCollect(server)
	st, _ := client.OpenStream()
	B := []byte("data before")
	st.Write(B)
	n, err := st.ReadFrom(zeroThenEOF{})
	t.Logf("ReadFrom returned n=%d err=%v", n, err)
	if err := st.Close(); err != nil {
		t.Fatalf("close: %v", err)
	}
	time.Sleep(2 * time.Second)
	got, rerr := rc.get(1)
	if !bytes.Equal(got, B) || rerr != ErrBrokenStream {
		t.Errorf("VIOLATION (secondary): writer wrote %q and closed; 2s later the reader has %q and error %v (want ErrBrokenStream)", B, got, rerr)
	}
}

type zeroThenEOF struct{}

func (zeroThenEOF) Read(b []byte) (int, error) { return 0, nil }

var _ io.Reader = zeroThenEOF{}
