//go:build goexperiment.synctest

package multiplex

import (
	"bytes"
	"errors"
	"fmt"
	"testing"
	"testing/synctest"
	"time"
)

// C03: "If one side writes bytes B on an ordered stream and then closes it, the other side - as long as it has
// not closed the stream itself - reads exactly B and only afterwards gets the broken-stream error: never an
// early end, never a lost tail, whichever connections the data and the closing notice travel on."
//
// A closing-STREAM frame is sequenced (it waits in the reorder heap for all lower-numbered data), but a
// closing-SESSION frame is not: Session.recvDataFromRemote acts on it at once and closeSession closes the
// receive buffer of every stream. Whenever the writer's session closes right after the stream (stale
// inactivity timer; or Singleplex, where the session is closed in the same call as the stream), the
// session-closing frame travels on a random connection and can overtake data / stream-closing frames that are
// still in flight on slower connections. The reader then gets ErrBrokenStream after a strict prefix of B.

var redLatencies8 = []time.Duration{ // 7 fast connections and one slower one
	time.Millisecond, time.Millisecond, time.Millisecond, time.Millisecond,
	time.Millisecond, time.Millisecond, time.Millisecond, 150 * time.Millisecond,
}

func redPayload(frames int) (B []byte, chunks [][]byte) {
	for i := 0; i < frames; i++ {
		c := []byte(fmt.Sprintf("[chunk %03d]", i))
		chunks = append(chunks, c)
		B = append(B, c...)
	}
	return
}

// returns "" if the property held on this attempt, otherwise a description of the violation
func redC03TimerAttempt(t *testing.T, s1Lifetime time.Duration) (violation string) {
	synctest.Run(func() {
		client, server := redSessionPair(EncryptionMethodChaha20Poly1305, false, 30*time.Second, redLatencies8)
		rc := redCollect(server)
		defer func() {
			client.Close()
			server.Close()
			synctest.Wait()
		}()

		time.Sleep(1 * time.Second)
		s1, _ := client.OpenStream()
		s1.Write([]byte("one"))
		time.Sleep(s1Lifetime) // t = 29s
		s1.Close()
		time.Sleep(999 * time.Millisecond) // t = 29.999s
		// the stream under test: write B, then close. Nothing else is done by either application.
		B, chunks := redPayload(40)
		s2, err := client.OpenStream()
		if err != nil {
			t.Fatalf("open: %v", err)
		}
		for _, c := range chunks {
			if _, err := s2.Write(c); err != nil {
				t.Fatalf("write: %v", err)
			}
		}
		if err := s2.Close(); err != nil {
			t.Fatalf("close: %v", err)
		}
		// t=30s: the client's original MakeSession timer fires, sees count==0 (for 1ms) and closes the session
		time.Sleep(5 * time.Second)
		synctest.Wait()
		got, rerr := rc.get(2)
		if !bytes.Equal(got, B) {
			violation = fmt.Sprintf("reader got %d of %d bytes of B and then error %v (client terminal msg %q)", len(got), len(B), rerr, client.TerminalMsg())
		} else if !errors.Is(rerr, ErrBrokenStream) {
			violation = fmt.Sprintf("reader got all of B but error is %v", rerr)
		}
	})
	return
}

func TestRedC03_SessionTimeoutOvertakesStreamData(t *testing.T) {
	// which connection each frame takes is random (uniformSpread); the overtaking needs the session-closing
	// frame on a fast connection (p=7/8) and at least one of the 41 stream frames on the slow one (p~0.996).
	for attempt := 1; attempt <= 10; attempt++ {
		if v := redC03TimerAttempt(t, 28*time.Second); v != "" {
			t.Fatalf("VIOLATION on attempt %d: writer wrote B then closed, the reader never closed, no connection failed: %s", attempt, v)
		}
	}
}

// Control: identical operations, but 10 seconds earlier (stream 2 lives at t~19.999s), so no timer fires while
// frames are in flight. Passes.
func TestRedC03_SessionTimeout_Control(t *testing.T) {
	for attempt := 1; attempt <= 10; attempt++ {
		if v := redC03TimerAttempt(t, 18*time.Second); v != "" {
			t.Fatalf("attempt %d: %s", attempt, v)
		}
	}
}

func redC03SingleplexAttempt(t *testing.T, latencies []time.Duration) (violation string) {
	synctest.Run(func() {
		client, server := redSessionPair(EncryptionMethodChaha20Poly1305, true, 30*time.Second, latencies)
		rc := redCollect(server)
		defer func() {
			client.Close()
			server.Close()
			synctest.Wait()
		}()
		B, chunks := redPayload(40)
		s, err := client.OpenStream()
		if err != nil {
			t.Fatalf("open: %v", err)
		}
		for _, c := range chunks {
			if _, err := s.Write(c); err != nil {
				t.Fatalf("write: %v", err)
			}
		}
		if err := s.Close(); err != nil {
			t.Fatalf("close: %v", err)
		}
		time.Sleep(5 * time.Second)
		synctest.Wait()
		got, rerr := rc.get(1)
		if !bytes.Equal(got, B) {
			violation = fmt.Sprintf("reader got %d of %d bytes of B and then error %v", len(got), len(B), rerr)
		} else if !errors.Is(rerr, ErrBrokenStream) {
			violation = fmt.Sprintf("reader got all of B but error is %v", rerr)
		}
	})
	return
}

// Singleplex session over several connections (not reachable from ck-client's configuration, which forces one
// connection for Singleplex, but allowed by SessionConfig and named by the property's quantifier).
func TestRedC03_SingleplexCloseOvertakesStreamData(t *testing.T) {
	for attempt := 1; attempt <= 10; attempt++ {
		if v := redC03SingleplexAttempt(t, redLatencies8); v != "" {
			t.Fatalf("VIOLATION on attempt %d: %s", attempt, v)
		}
	}
}

// Control: the same with a single connection holds.
func TestRedC03_Singleplex_OneConn_Control(t *testing.T) {
	for attempt := 1; attempt <= 10; attempt++ {
		if v := redC03SingleplexAttempt(t, []time.Duration{150 * time.Millisecond}); v != "" {
			t.Fatalf("attempt %d: %s", attempt, v)
		}
	}
}
