#!/bin/sh
# usage: RED/run.sh <C01|C02|C03|C13> '<-run regexp>' [extra go test args]
# copies the property's test files into internal/multiplex, runs them, and removes them again.
set -e
cd "$(dirname "$0")/.."
P="$1"; PAT="$2"; shift 2
GO=/root/go/pkg/mod/golang.org/toolchain@v0.0.1-go1.24.2.linux-amd64/bin/go
cp RED/$P/zz_red_*_test.go internal/multiplex/
trap 'rm -f internal/multiplex/zz_red_*_test.go' EXIT
GOEXPERIMENT=synctest GOTOOLCHAIN=local GOFLAGS=-mod=mod GOPROXY=off GOSUMDB=off \
  $GO test ./internal/multiplex -run "$PAT" -count=1 -v "$@"
