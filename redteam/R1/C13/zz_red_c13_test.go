package multiplex

import (
	"encoding/binary"
	"io"
	"math/rand"
	"net"
	"sort"
	"sync"
	"sync/atomic"
	"testing"
	"time"
)

// a connection that records, in global wire order, every message written to it; Read blocks until Close.
type redWire struct {
	m    sync.Mutex
	recs [][]byte
}
type redRecConn struct {
	w      *redWire
	closed chan struct{}
	once   sync.Once
	fail   *int32 // if >0: fail this many of the next writes... (unused when nil)
}

func (c *redRecConn) Read(b []byte) (int, error) { <-c.closed; return 0, io.EOF }
func (c *redRecConn) Write(b []byte) (int, error) {
	cp := append([]byte(nil), b...)
	c.w.m.Lock()
	c.w.recs = append(c.w.recs, cp)
	c.w.m.Unlock()
	return len(b), nil
}
func (c *redRecConn) Close() error                       { c.once.Do(func() { close(c.closed) }); return nil }
func (c *redRecConn) LocalAddr() net.Addr                { return redAddr{} }
func (c *redRecConn) RemoteAddr() net.Addr               { return redAddr{} }
func (c *redRecConn) SetDeadline(t time.Time) error      { return nil }
func (c *redRecConn) SetReadDeadline(t time.Time) error  { return nil }
func (c *redRecConn) SetWriteDeadline(t time.Time) error { return nil }

// a reader handing out tagged chunks: every chunk is 4-byte big-endian ids repeated (maxStreamUnitWrite=16132 is a multiple of 4); ids from a counter.
type redTagReader struct {
	next   func() (id uint64, size int, ok bool)
	issued *[]uint64
}

func redFill(b []byte, id uint64) {
	for i := 0; i+4 <= len(b); i += 4 {
		binary.BigEndian.PutUint32(b[i:], uint32(id))
	}
}
func (r *redTagReader) Read(b []byte) (int, error) {
	id, size, ok := r.next()
	if !ok {
		return 0, io.EOF
	}
	if size > len(b) {
		size = len(b) / 4 * 4
	}
	redFill(b[:size], id)
	*r.issued = append(*r.issued, id)
	return size, nil
}

func TestRedC13_SeqNumbersUnderConcurrency(t *testing.T) {
	methods := []byte{EncryptionMethodPlain, EncryptionMethodAES256GCM, EncryptionMethodChaha20Poly1305, EncryptionMethodAES128GCM}
	for round := 0; round < 40; round++ {
		var key [32]byte
		rand.Read(key[:])
		obfs, _ := MakeObfuscator(methods[round%4], key)
		sesh := MakeSession(1, SessionConfig{Obfuscator: obfs, MsgOnWireSizeLimit: 16401})
		wire := &redWire{}
		for i := 0; i < 1+round%8; i++ {
			sesh.AddConnection(&redRecConn{w: wire, closed: make(chan struct{})})
		}
		const nStreams = 12
		type writeRec struct {
			id        uint64
			doneStamp int64 // logical time at which the Write returned successfully
		}
		var clock int64
		var idCtr uint64
		type perStream struct {
			st         *Stream
			w1         []writeRec // Write calls by goroutine 1, in call order (successful ones)
			w1b        []writeRec // Write calls by goroutine 2
			rf         []uint64   // ids handed out by the ReadFrom reader, in order
			closeStamp int64      // logical time just before Close was called
			closeErr   error
		}
		ps := make([]*perStream, nStreams)
		var wg sync.WaitGroup
		for s := 0; s < nStreams; s++ {
			st, err := sesh.OpenStream()
			if err != nil {
				t.Fatal(err)
			}
			p := &perStream{st: st}
			ps[s] = p
			writer := func(out *[]writeRec, seed int64) {
				defer wg.Done()
				r := rand.New(rand.NewSource(seed))
				for i := 0; i < 30; i++ {
					id := atomic.AddUint64(&idCtr, 1)
					size := 8 * (1 + r.Intn(40))
					if r.Intn(4) == 0 {
						size = (sesh.maxStreamUnitWrite*(1+r.Intn(3)) + 8*r.Intn(100)) / 8 * 8 // several frames
					}
					b := make([]byte, size)
					redFill(b, id)
					n, err := st.Write(b)
					if err != nil {
						if n != 0 {
							t.Errorf("partial write %d with %v although no send fails", n, err)
						}
						return
					}
					*out = append(*out, writeRec{id, atomic.AddInt64(&clock, 1)})
					if r.Intn(3) == 0 {
						time.Sleep(time.Duration(r.Intn(200)) * time.Microsecond)
					}
				}
			}
			wg.Add(4)
			go writer(&p.w1, int64(round*1000+s))
			go writer(&p.w1b, int64(round*1000+s+500))
			go func() {
				defer wg.Done()
				r := rand.New(rand.NewSource(int64(round*77 + s)))
				cnt := 0
				rd := &redTagReader{issued: &p.rf, next: func() (uint64, int, bool) {
					cnt++
					if cnt > 40 {
						return 0, 0, false
					}
					if r.Intn(3) == 0 {
						time.Sleep(time.Duration(r.Intn(200)) * time.Microsecond)
					}
					return atomic.AddUint64(&idCtr, 1), 8 * (1 + r.Intn(3000)), true
				}}
				st.ReadFrom(rd)
			}()
			go func() {
				defer wg.Done()
				r := rand.New(rand.NewSource(int64(round*13 + s)))
				time.Sleep(time.Duration(r.Intn(3000)) * time.Microsecond)
				p.closeStamp = atomic.AddInt64(&clock, 1)
				p.closeErr = st.Close()
			}()
		}
		wg.Wait()
		sesh.Close()

		// analyse the wire
		type fr struct {
			seq     uint64
			closing uint8
			ids     []uint64 // distinct ids in payload, in order
			pos     int      // position on the wire
		}
		byStream := map[uint32][]fr{}
		seen := map[[2]uint64]bool{}
		for pos, rec := range wire.recs {
			var f Frame
			if err := sesh.deobfuscate(&f, append([]byte(nil), rec...)); err != nil {
				t.Fatalf("deobfuscate: %v", err)
			}
			k := [2]uint64{uint64(f.StreamID), f.Seq}
			if seen[k] {
				t.Fatalf("VIOLATION: (stream %d, seq %d) used twice on the wire", f.StreamID, f.Seq)
			}
			seen[k] = true
			x := fr{seq: f.Seq, closing: f.Closing, pos: pos}
			if f.Closing == closingNothing {
				if len(f.Payload)%4 != 0 {
					t.Fatalf("payload len %d", len(f.Payload))
				}
				for i := 0; i < len(f.Payload); i += 4 {
					id := uint64(binary.BigEndian.Uint32(f.Payload[i:]))
					if len(x.ids) == 0 || x.ids[len(x.ids)-1] != id {
						x.ids = append(x.ids, id)
					}
				}
			}
			byStream[f.StreamID] = append(byStream[f.StreamID], x)
		}
		for _, p := range ps {
			frames := byStream[p.st.id]
			sort.Slice(frames, func(i, j int) bool { return frames[i].seq < frames[j].seq })
			for i, f := range frames {
				if f.seq != uint64(i) {
					t.Fatalf("VIOLATION: stream %d: seq numbers not gap-free: position %d has seq %d", p.st.id, i, f.seq)
				}
			}
			// first closing frame
			closeSeq := -1
			idSeq := map[uint64]int{} // id -> last seq carrying it
			idFirst := map[uint64]int{}
			var order []uint64
			for i, f := range frames {
				if f.closing != closingNothing {
					if closeSeq == -1 {
						closeSeq = i
					}
					continue
				}
				if len(f.ids) != 1 {
					t.Fatalf("VIOLATION: stream %d seq %d: a frame mixes bytes of %d writes", p.st.id, f.seq, len(f.ids))
				}
				id := f.ids[0]
				if _, ok := idFirst[id]; !ok {
					idFirst[id] = i
					order = append(order, id)
				} else if idSeq[id] != i-1 && closeSeq == -1 {
					// frames of one Write call must be contiguous (Write holds writingM)
					isRF := false
					for _, r := range p.rf {
						if r == id {
							isRF = true
						}
					}
					if !isRF {
						t.Fatalf("VIOLATION: stream %d: frames of write %d not contiguous", p.st.id, id)
					}
				}
				idSeq[id] = i
			}
			if p.closeErr == nil && closeSeq == -1 {
				t.Fatalf("VIOLATION: stream %d: Close returned nil but no closing frame on the wire", p.st.id)
			}
			check := func(name string, ids []uint64) {
				last := -1
				for _, id := range ids {
					f, ok := idFirst[id]
					if !ok {
						continue
					}
					if f <= last {
						t.Fatalf("VIOLATION: stream %d: %s bytes out of order on the wire", p.st.id, name)
					}
					last = f
				}
			}
			var a, b []uint64
			for _, w := range p.w1 {
				a = append(a, w.id)
				if _, ok := idFirst[w.id]; !ok {
					t.Fatalf("VIOLATION: stream %d: successful Write %d not on the wire", p.st.id, w.id)
				}
				if w.doneStamp < p.closeStamp && closeSeq != -1 && idSeq[w.id] > closeSeq {
					t.Fatalf("VIOLATION: stream %d: a write completed before Close has seq %d > closing seq %d", p.st.id, idSeq[w.id], closeSeq)
				}
			}
			for _, w := range p.w1b {
				b = append(b, w.id)
				if w.doneStamp < p.closeStamp && closeSeq != -1 && idSeq[w.id] > closeSeq {
					t.Fatalf("VIOLATION: stream %d: a write completed before Close has seq %d > closing seq %d", p.st.id, idSeq[w.id], closeSeq)
				}
			}
			check("Write#1", a)
			check("Write#2", b)
			check("ReadFrom", p.rf)
		}
	}
}
