package multiplex

import (
	"bytes"
	"fmt"
	"io"
	"math/rand"
	"net"
	"sync"
	"testing"
	"time"

	"github.com/cbeuw/Cloak/internal/common"
	"github.com/cbeuw/connutil"
)

// chopConn delivers every Write in random-sized TCP-like segments with random pauses (a whole Write is atomic with
// respect to other Writes, as on a real TCP socket), and adds a per-connection base delay.
type chopConn struct {
	net.Conn
	m     sync.Mutex
	rng   *rand.Rand
	delay time.Duration
}

func (c *chopConn) Write(b []byte) (int, error) {
	c.m.Lock()
	defer c.m.Unlock()
	n := 0
	for n < len(b) {
		k := 1 + c.rng.Intn(1500)
		if c.rng.Intn(8) == 0 {
			k = 1 + c.rng.Intn(5) // split inside the 5-byte record header too
		}
		if k > len(b)-n {
			k = len(b) - n
		}
		if c.delay > 0 && c.rng.Intn(20) == 0 {
			time.Sleep(time.Duration(c.rng.Int63n(int64(c.delay))))
		}
		w, err := c.Conn.Write(b[n : n+k])
		n += w
		if err != nil {
			return n, err
		}
	}
	return n, nil
}

func redGen(id uint32, dir byte, n int) []byte {
	r := rand.New(rand.NewSource(int64(id)*2 + int64(dir)))
	b := make([]byte, n)
	r.Read(b)
	return b
}

func redLen(id uint32, dir byte) int {
	r := rand.New(rand.NewSource(int64(id)*31 + int64(dir)))
	switch r.Intn(4) {
	case 0:
		return 1 + r.Intn(10)
	case 1:
		return 16132*2 + r.Intn(3) - 1
	default:
		return 1 + r.Intn(150000)
	}
}

// write data in random-size pieces (1 byte .. several frames), sometimes through ReadFrom
func redPump(w *Stream, data []byte, rng *rand.Rand) error {
	for len(data) > 0 {
		var k int
		switch rng.Intn(5) {
		case 0:
			k = 1
		case 1:
			k = 1 + rng.Intn(100)
		case 2:
			k = 16132 + rng.Intn(3) - 1
		case 3:
			k = 1 + rng.Intn(60000)
		default:
			k = 1 + rng.Intn(5000)
		}
		if k > len(data) {
			k = len(data)
		}
		if rng.Intn(6) == 0 {
			n, err := w.ReadFrom(bytes.NewReader(data[:k]))
			if err != io.EOF {
				return fmt.Errorf("ReadFrom: n=%d err=%v", n, err)
			}
		} else {
			n, err := w.Write(data[:k])
			if err != nil || n != k {
				return fmt.Errorf("Write: n=%d/%d err=%v", n, k, err)
			}
		}
		data = data[k:]
	}
	return nil
}

func redStressOne(t *testing.T, method byte, numConn int, singleplex bool, nStreams int, seed int64) {
	var key [32]byte
	rand.New(rand.NewSource(seed)).Read(key[:])
	obfs, err := MakeObfuscator(method, key)
	if err != nil {
		t.Fatal(err)
	}
	client := MakeSession(1, SessionConfig{Obfuscator: obfs, Singleplex: singleplex, MsgOnWireSizeLimit: 16401})
	server := MakeSession(1, SessionConfig{Obfuscator: obfs, MsgOnWireSizeLimit: 16401})
	addConn := func(i int) {
		c, s := connutil.AsyncPipe()
		d := time.Duration(i*i) * 300 * time.Microsecond // very different delays per connection
		client.AddConnection(common.NewTLSConn(&chopConn{Conn: c, rng: rand.New(rand.NewSource(seed + int64(i))), delay: d}))
		server.AddConnection(common.NewTLSConn(&chopConn{Conn: s, rng: rand.New(rand.NewSource(seed - int64(i) - 1)), delay: d}))
	}
	addConn(0)
	var adders sync.WaitGroup
	for i := 1; i < numConn; i++ {
		adders.Add(1)
		go func(i int) { // connection-adders run while traffic is flowing
			defer adders.Done()
			time.Sleep(time.Duration(i) * 2 * time.Millisecond)
			addConn(i)
		}(i)
	}

	errs := make(chan error, 4*nStreams+10)
	var wg sync.WaitGroup
	// server side
	wg.Add(1)
	go func() {
		defer wg.Done()
		for i := 0; i < nStreams; i++ {
			c, err := server.Accept()
			if err != nil {
				errs <- fmt.Errorf("accept: %v", err)
				return
			}
			st := c.(*Stream)
			wg.Add(2)
			go func() {
				defer wg.Done()
				want := redGen(st.id, 'c', redLen(st.id, 'c'))
				got := make([]byte, len(want))
				if _, err := io.ReadFull(st, got); err != nil {
					errs <- fmt.Errorf("server read stream %d: %v", st.id, err)
					return
				}
				if !bytes.Equal(got, want) {
					errs <- fmt.Errorf("VIOLATION: server stream %d: bytes differ", st.id)
				}
			}()
			go func() {
				defer wg.Done()
				if err := redPump(st, redGen(st.id, 's', redLen(st.id, 's')), rand.New(rand.NewSource(int64(st.id)))); err != nil {
					errs <- fmt.Errorf("server stream %d: %v", st.id, err)
				}
			}()
		}
	}()
	for i := 0; i < nStreams; i++ {
		st, err := client.OpenStream()
		if err != nil {
			t.Fatalf("open: %v", err)
		}
		wg.Add(2)
		go func() {
			defer wg.Done()
			if err := redPump(st, redGen(st.id, 'c', redLen(st.id, 'c')), rand.New(rand.NewSource(int64(st.id)+99))); err != nil {
				errs <- fmt.Errorf("client stream %d: %v", st.id, err)
			}
		}()
		go func() {
			defer wg.Done()
			want := redGen(st.id, 's', redLen(st.id, 's'))
			got := make([]byte, len(want))
			rng := rand.New(rand.NewSource(int64(st.id) + 7))
			n := 0
			for n < len(want) { // random read sizes
				k := 1 + rng.Intn(9000)
				if k > len(want)-n {
					k = len(want) - n
				}
				r, err := st.Read(got[n : n+k])
				n += r
				if err != nil {
					errs <- fmt.Errorf("client read stream %d after %d/%d: %v", st.id, n, len(want), err)
					return
				}
			}
			if !bytes.Equal(got, want) {
				errs <- fmt.Errorf("VIOLATION: client stream %d: bytes differ", st.id)
			}
		}()
	}
	done := make(chan struct{})
	go func() { wg.Wait(); close(done) }()
	select {
	case <-done:
	case <-time.After(120 * time.Second):
		t.Fatalf("VIOLATION?: method %d numConn %d: traffic did not complete in 120s (session stuck); client closed=%v server closed=%v", method, numConn, client.IsClosed(), server.IsClosed())
	}
	adders.Wait()
	close(errs)
	for e := range errs {
		t.Errorf("method %d numConn %d singleplex %v: %v", method, numConn, singleplex, e)
	}
	client.Close()
	server.Close()
}

func TestRedC01_Stress(t *testing.T) {
	methods := []byte{EncryptionMethodPlain, EncryptionMethodAES256GCM, EncryptionMethodChaha20Poly1305, EncryptionMethodAES128GCM}
	for _, m := range methods {
		redStressOne(t, m, 1, true, 1, 1000+int64(m)) // NumConn=0 in the client config: singleplex over one connection
		for _, nc := range []int{1, 2, 3, 8} {
			redStressOne(t, m, nc, false, 150, int64(m)*100+int64(nc))
		}
	}
}
