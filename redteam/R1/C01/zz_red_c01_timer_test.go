//go:build goexperiment.synctest

package multiplex

import (
	"bytes"
	"testing"
	"testing/synctest"
	"time"
)

// C01 (last clause): "while every underlying connection stays healthy and neither side closes it, a session
// with open streams keeps working."
//
// Session.checkTimeout is armed by time.AfterFunc in MakeSession and again every time the stream count
// drops to zero, and is never cancelled or re-validated: when such a stale timer fires it only looks at
// "streamCount()==0 right now", not at how long the session has been idle. So a session that was busy until
// a few milliseconds ago closes itself, and the closing-session frame then tears down the peer, including a
// stream the peer has just opened and whose first frame is still in flight.
//
// Virtual time line (one connection, 20ms one-way latency, InactivityTimeout = 30s, all under synctest):
//
//	t=0        both sessions made (each arms a checkTimeout for t=30s)
//	t=1s       client opens stream 1 and uses it
//	t=29.90s   client closes stream 1        (server sees it at 29.92s; its stream count is now 0)
//	t=29.99s   client opens stream 2 and writes "two"  (arrives at the server at 30.01s)
//	t=30.00s   the server's ORIGINAL timer fires: count==0 -> server closes the session after 80ms of idleness
//	t=30.02s   client receives the closing-session frame: stream 2 is broken, "two" is never delivered
func TestRedC01_StaleInactivityTimerKillsSessionWithOpenStream(t *testing.T) {
	redC01Timer(t, 28900*time.Millisecond)
}

// Control: exactly the same operations, but stream 1 is closed (and stream 2 opened) around t=20s instead of
// t=29.9s, so that no stale timer happens to fire inside the 80ms window. This one passes.
func TestRedC01_StaleInactivityTimer_Control(t *testing.T) {
	redC01Timer(t, 19000*time.Millisecond)
}

func redC01Timer(t *testing.T, s1Lifetime time.Duration) {
	synctest.Run(func() {
		client, server := redSessionPair(EncryptionMethodAES256GCM, false, 30*time.Second, []time.Duration{20 * time.Millisecond})
		rc := redCollect(server)
		defer func() {
			client.Close()
			server.Close()
			synctest.Wait()
		}()

		time.Sleep(1 * time.Second)
		s1, err := client.OpenStream()
		if err != nil {
			t.Fatalf("open s1: %v", err)
		}
		if _, err := s1.Write([]byte("one")); err != nil {
			t.Fatalf("write s1: %v", err)
		}
		time.Sleep(s1Lifetime) // t = 29.90s
		if err := s1.Close(); err != nil {
			t.Fatalf("close s1: %v", err)
		}
		time.Sleep(90 * time.Millisecond) // t = 29.99s
		s2, err := client.OpenStream()
		if err != nil {
			t.Fatalf("open s2: %v", err)
		}
		if _, err := s2.Write([]byte("two")); err != nil {
			t.Fatalf("write s2: %v", err)
		}
		time.Sleep(1 * time.Second) // t = 30.99s, far less than 30s after anything went idle
		synctest.Wait()

		got1, _ := rc.get(1)
		if !bytes.Equal(got1, []byte("one")) {
			t.Errorf("stream 1: server read %q, want %q", got1, "one")
		}
		got2, err2 := rc.get(2)
		if !bytes.Equal(got2, []byte("two")) {
			t.Errorf("VIOLATION: stream 2 is open, no connection failed, nobody called Close, yet the server application read %q (err %v) instead of %q", got2, err2, "two")
		}
		if client.IsClosed() {
			t.Errorf("VIOLATION: client session with an open stream was closed (terminal msg %q) although every connection was healthy", client.TerminalMsg())
		}
		if server.IsClosed() {
			t.Logf("note: server session closed itself (terminal msg %q) 80ms after it last had a stream, InactivityTimeout is 30s", server.TerminalMsg())
		}
		if _, err := s2.Write([]byte("more")); err != nil {
			t.Errorf("VIOLATION: write on the open stream 2 fails: %v", err)
		}
	})
}
