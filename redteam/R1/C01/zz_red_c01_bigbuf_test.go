package multiplex

import (
	"bytes"
	"os"
	"sync/atomic"
	"testing"
	"time"
)

// C01: "... while every underlying connection stays healthy and neither side closes it, a session with open
// streams keeps working."  C03: "Once a side has closed the stream ... its blocked reads return".
//
// streamBufferedPipe.Write blocks (on a sync.Cond) once more than recvBufferSizeLimit = 2^31-1 bytes are
// buffered unread; it is called from streamBuffer.Write which holds streamBuffer.recvM, on the switchboard's
// deplex goroutine of some connection. The only things that can wake it are a Read on that stream or the
// pipe's Close. But streamBuffer.Close takes recvM first - which the blocked Write is holding. So when the
// local application gives up on the slow stream and calls Stream.Close(), Close hangs for ever, the deplex
// goroutine stays blocked for ever, and with it every frame of every other stream that is behind it on that
// connection; each other deplex goroutine is caught as soon as it receives a frame of the same stream
// (recvM.Lock). The whole session is wedged permanently although every connection is healthy.
//
// Needs ~2 GiB of data through the session (about 6 GiB peak RSS because bytes.Buffer doubles); takes
// some tens of seconds. Opt in with RED_BIG=1.
func TestRedC01_FullRecvBufferPlusCloseWedgesSession(t *testing.T) {
	if os.Getenv("RED_BIG") == "" {
		t.Skip("set RED_BIG=1 (uses ~6 GiB RAM)")
	}
	var key [32]byte
	obfs, _ := MakeObfuscator(EncryptionMethodPlain, key)
	cfg := SessionConfig{Obfuscator: obfs, MsgOnWireSizeLimit: 16401}
	client := MakeSession(1, cfg)
	server := MakeSession(1, cfg)
	for i := 0; i < 2; i++ {
		c, s := redSyncPipe() // unbuffered: like a TCP connection whose socket buffers are already full
		client.AddConnection(c)
		server.AddConnection(s)
	}

	// stream A: the client sends a big download that the server-side application does not consume
	sA, err := client.OpenStream()
	if err != nil {
		t.Fatal(err)
	}
	var written int64
	go func() {
		chunk := make([]byte, 16000)
		for {
			n, err := sA.Write(chunk)
			atomic.AddInt64(&written, int64(n))
			if err != nil {
				return
			}
		}
	}()
	accepted, err := server.Accept()
	if err != nil {
		t.Fatal(err)
	}
	sAserver := accepted.(*Stream)

	// wait until the sender has stalled with more than the limit buffered at the receiver
	last, lastChange := int64(-1), time.Now()
	for {
		time.Sleep(200 * time.Millisecond)
		w := atomic.LoadInt64(&written)
		if w != last {
			last, lastChange = w, time.Now()
			continue
		}
		if w > recvBufferSizeLimit && time.Since(lastChange) > 3*time.Second {
			break
		}
		if time.Since(lastChange) > 60*time.Second {
			t.Fatalf("sender stalled at %d bytes, below the limit", w)
		}
	}
	t.Logf("sender stalled after %d bytes (limit %d)", last, recvBufferSizeLimit)

	// the application on the receiving side gives up on stream A
	closeDone := make(chan error, 1)
	go func() { closeDone <- sAserver.Close() }()
	select {
	case <-closeDone:
	case <-time.After(10 * time.Second):
		t.Errorf("VIOLATION: Stream.Close() on the stream whose receive buffer is full has not returned after 10s (deadlock: streamBuffer.Close wants recvM, held by the deplex goroutine blocked in streamBufferedPipe.Write)")
	}

	// an unrelated stream B on the same, healthy session must still work
	sB, err := client.OpenStream()
	if err != nil {
		t.Fatal(err)
	}
	want := bytes.Repeat([]byte("ping"), 64)
	go func() {
		for i := 0; i < 64; i++ { // 64 frames, spread over both connections
			if _, err := sB.Write([]byte("ping")); err != nil {
				return
			}
		}
	}()
	gotCh := make(chan []byte, 1)
	go func() {
		c, err := server.Accept()
		if err != nil {
			return
		}
		buf := make([]byte, len(want))
		n := 0
		for n < len(want) {
			k, err := c.Read(buf[n:])
			n += k
			if err != nil {
				break
			}
		}
		gotCh <- buf[:n]
	}()
	select {
	case got := <-gotCh:
		if !bytes.Equal(got, want) {
			t.Errorf("stream B delivered %d bytes, want %d", len(got), len(want))
		}
	case <-time.After(10 * time.Second):
		t.Errorf("VIOLATION: 10s after the application closed stream A, stream B (open, all connections healthy, nobody closed the session; client closed=%v server closed=%v) still has not delivered 256 bytes", client.IsClosed(), server.IsClosed())
	}
}
