package multiplex

import (
	"bytes"
	"testing"
	"testing/iotest"
	"time"
)

// Secondary (low severity): Stream.ReadFrom discards the bytes of a Read that returns n>0 together with an error
// (allowed by the io.Reader contract: "Callers should always process the n > 0 bytes returned before considering
// the error"). The tail is silently lost and ReadFrom reports the usual io.EOF.
// Not reachable with *net.TCPConn sources (they return (n,nil) then (0,EOF)), which is what common.Copy feeds it.
func TestRedC01_ReadFromDropsDataReturnedWithEOF(t *testing.T) {
	client, server := redSessionPair(EncryptionMethodPlain, false, time.Hour, []time.Duration{0, 0})
	defer client.Close()
	defer server.Close()
	rc := redCollect(server)
	st, _ := client.OpenStream()
	B := []byte("hello, this is the whole message")
	n, err := st.ReadFrom(iotest.DataErrReader(bytes.NewReader(B)))
	t.Logf("ReadFrom returned n=%d err=%v", n, err)
	st.Close()
	deadline := time.Now().Add(3 * time.Second)
	for time.Now().Before(deadline) {
		if _, e := rc.get(1); e != nil {
			break
		}
		time.Sleep(10 * time.Millisecond)
	}
	got, rerr := rc.get(1)
	if !bytes.Equal(got, B) {
		t.Errorf("VIOLATION (secondary): sender's ReadFrom consumed %d bytes from the source and reported %v; receiver read %q then %v", len(B), err, got, rerr)
	}
}

