#!/bin/sh
# run from /verif after /repo or the machinery changed: refreshes everything that is derived
#   facts.baseline.json, evidence/*.json (every quick check against /repo), MANIFEST.json, THEOREMS.md; validates the schemas
set -e
cd /verif
./setup.sh > /tmp/finalize-setup.log 2>&1
.cache/extract -repo /repo -out lean/CloakModel/Gen > /dev/null
cp lean/CloakModel/Gen/facts.json facts.baseline.json
bad=0
for id in C01 C02 C03 C04 C05 C06 C07 C08 C09 C10 C11 C12 C13 C14 C15 C16 C17 C18 C19 C20; do
  out=$(./check $id 2>&1 | grep "^OK\|^VIOLATION\|^BROKEN" | cut -c1-140)
  echo "$out"
  case "$out" in OK*) ;; *) bad=1;; esac
done
python3 tools/genmanifest.py > /dev/null
python3 tools/gentheorems.py
python3 tools/genfacts.py
python3-vt - <<'PY'
import json,jsonschema,glob
jsonschema.validate(json.load(open('/verif/MANIFEST.json')),json.load(open('/root/.vp/MANIFEST.schema.json')))
sch=json.load(open('/root/.vp/EVIDENCE.schema.json'))
n=0
for f in sorted(glob.glob('/verif/evidence/*.json')):
    jsonschema.validate(json.load(open(f)),sch); n+=1
print('manifest and', n, 'evidence files valid')
PY
[ $bad = 0 ] && echo "all checks OK" || echo "SOME CHECK IS NOT OK"
