#!/bin/sh
# re-runs every stored seeded change against the current /repo HEAD: does the patch still apply, and is it still caught?
cd ${SWEEP_DIR:-/verif}
for d in seeded/*/; do
  id=$(basename $d); prop=${id%%-*}
  WT=/tmp/wt-sweep-$$
  git -C ${SWEEP_REPO:-/repo} worktree add --detach $WT HEAD -q
  if git -C $WT apply "$(pwd)/$d/patch.diff" 2>/dev/null; then
    res=$(VERIF_REPO=$WT ./check $prop --seed ${SWEEP_SEED:-1} 2>&1 | grep "^VIOLATION\|^OK" | head -1 | cut -c1-90)
    echo "$id: $res"
  else
    echo "$id: patch does not apply to the current HEAD (the tree has moved at that place)"
  fi
  git -C ${SWEEP_REPO:-/repo} worktree remove --force $WT
done
