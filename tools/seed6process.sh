#!/bin/sh
# usage: tools/seed6process.sh <clone of /verif to run the checks in> <out dir of a round-6 seeding agent>/Cxx ...
# stores each round-6 seeded change as /verif/seeded/Cxx-N (next free N), confirms its demonstration in a scratch worktree
# (tools/seedconfirm.sh) and runs ./check Cxx (quick) on a scratch worktree with the change applied, from the given clone.
CL=$1; shift
for S in "$@"; do
  id=$(basename $S)
  [ -f $S/patch.diff ] || { echo "$S: no patch"; continue; }
  n=1; while [ -e /verif/seeded/$id-$n ]; do n=$((n+1)); done
  D=/verif/seeded/$id-$n; mkdir -p $D; cp $S/* $D/
  pkg=$(python3 -c "import json;print(json.load(open('$D/meta.json')).get('demo_pkg_dir',''))")
  rx=$(python3 -c "import json;print(json.load(open('$D/meta.json')).get('demo_test_regex','TestSeedR6'))")
  echo "== $id-$n ($pkg $rx)"
  sh /verif/tools/seedconfirm.sh $D $pkg "$rx" 2>&1 | sed 's/^/   /'
  ( cd $CL && WT=/tmp/wt-s6-$$ && git -C /repo worktree add --detach $WT HEAD -q && git -C $WT apply $D/patch.diff && VERIF_REPO=$WT ./check $id 2>&1 | grep "^VIOLATION\|^OK\|^BROKEN\|^KNOWN" | cut -c1-400 | sed 's/^/   /'; git -C /repo worktree remove --force $WT )
done
