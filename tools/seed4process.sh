#!/bin/sh
# usage: tools/seed4process.sh <group dir> <variant>:<Cxx>:<index> ...   [CL=/root/work/bench5]
# stores round-4 seeded changes SEED/<variant> as /verif/seeded/Cxx-N, confirms each demonstration and runs ./check Cxx
G=$1; shift; CL=${CL:-/root/work/bench5}
for spec in "$@"; do
  v=${spec%%:*}; rest=${spec#*:}; id=${rest%%:*}; n=${rest#*:}
  S=$G/SEED/$v
  [ -f $S/patch.diff ] || { echo "$id/$v: no patch"; continue; }
  D=/verif/seeded/$id-$n; mkdir -p $D; cp $S/* $D/
  pkg=$(python3 -c "import json;print(json.load(open('$D/meta.json')).get('demo_pkg_dir',''))")
  rx=$(python3 -c "import json;print(json.load(open('$D/meta.json')).get('demo_test_regex','TestSeed'))")
  echo "== $id-$n ($pkg $rx)"
  sh /verif/tools/seedconfirm.sh $D $pkg "$rx" 2>&1 | sed 's/^/   /'
  ( cd $CL && WT=/tmp/wt-s4-$$ && git -C /repo worktree add --detach $WT HEAD -q && git -C $WT apply $D/patch.diff && VERIF_REPO=$WT ./check $id 2>&1 | grep "^VIOLATION\|^OK\|^BROKEN" | cut -c1-300 | sed 's/^/   /'; git -C /repo worktree remove --force $WT )
done
