#!/bin/sh
# usage: tools/seed2process.sh <Cxx> [clone dir of /verif to run the check in, default /root/work/bench5]
# stores the two round-2 seeded changes of /tmp/seed2-Cxx/SEED/{a,b} as /verif/seeded/Cxx-2 and Cxx-3, confirms each
# demonstration in a scratch worktree and runs ./check Cxx (quick) against each; serialised with flock
id=$1; CL=${2:-/root/work/bench5}
n=2
for v in a b; do
  S=/tmp/seed2-$id/SEED/$v
  [ -f $S/patch.diff ] || { echo "$id/$v: no patch"; n=$((n+1)); continue; }
  D=/verif/seeded/$id-$n; mkdir -p $D; cp $S/* $D/
  pkg=$(python3 -c "import json;print(json.load(open('$D/meta.json')).get('demo_pkg_dir',''))")
  rx=$(python3 -c "import json;print(json.load(open('$D/meta.json')).get('demo_test_regex','TestSeed'))")
  echo "== $id-$n ($pkg $rx)"
  sh /verif/tools/seedconfirm.sh $D $pkg "$rx" 2>&1 | sed 's/^/   /'
  ( flock 9; cd $CL && WT=/tmp/wt-s2-$$ && git -C /repo worktree add --detach $WT HEAD -q && git -C $WT apply $D/patch.diff && VERIF_REPO=$WT ./check $id 2>&1 | grep "^VIOLATION\|^OK\|^BROKEN\|^KNOWN" | cut -c1-400 | sed 's/^/   /'; git -C /repo worktree remove --force $WT ) 9>/tmp/seed2.lock
  n=$((n+1))
done
