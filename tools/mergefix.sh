#!/bin/sh
# resolves the routine conflicts of merging a builder branch: union of KNOWN_FINDINGS lines, regenerated Ops.lean, ours for evidence
cd /verif
python3 - <<'PY'
import re
p='KNOWN_FINDINGS.txt'
s=open(p).read()
s=re.sub(r'^(<<<<<<< .*|=======|>>>>>>> .*)\n','',s,flags=re.M)
seen=[]; 
for l in s.splitlines():
    if l.strip() and l not in seen: seen.append(l)
open(p,'w').write("\n".join(seen)+"\n")
PY
git checkout --ours lean/Driver/Ops.lean 2>/dev/null
python3 tools/gendriver.py
for f in evidence/*.json; do python3 -c "import json;json.load(open('$f'))" 2>/dev/null || git checkout --ours $f; done
git add -A
python3 -c "
import importlib.machinery, importlib.util,sys
sys.argv=['check']
l = importlib.machinery.SourceFileLoader('check', './check'); spec = importlib.util.spec_from_loader('check', l)
m = importlib.util.module_from_spec(spec); l.exec_module(m)
try:
    print(m.stage_harness())
except m.Broken as b: print(b.detail)"
