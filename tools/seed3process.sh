#!/bin/sh
# usage: tools/seed3process.sh <group dir, e.g. /tmp/seed3-G2> <Cxx> <first free index> [clone dir]
# stores the round-3 (glue) seeded changes SEED/{a,b,c} as /verif/seeded/Cxx-N.., confirms each demonstration and runs ./check Cxx
G=$1; id=$2; n=$3; CL=${4:-/root/work/bench5}
for v in a b c; do
  S=$G/SEED/$v
  [ -f $S/patch.diff ] || { echo "$id/$v: no patch"; n=$((n+1)); continue; }
  D=/verif/seeded/$id-$n; mkdir -p $D; cp $S/* $D/
  pkg=$(python3 -c "import json;print(json.load(open('$D/meta.json')).get('demo_pkg_dir',''))")
  rx=$(python3 -c "import json;print(json.load(open('$D/meta.json')).get('demo_test_regex','TestSeed'))")
  echo "== $id-$n ($pkg $rx)"
  sh /verif/tools/seedconfirm.sh $D $pkg "$rx" 2>&1 | sed 's/^/   /'
  ( flock 9; cd $CL && WT=/tmp/wt-s3-$$ && git -C /repo worktree add --detach $WT HEAD -q && git -C $WT apply $D/patch.diff && VERIF_REPO=$WT ./check $id 2>&1 | grep "^VIOLATION\|^OK\|^BROKEN" | cut -c1-300 | sed 's/^/   /'; git -C /repo worktree remove --force $WT ) 9>/tmp/seed2.lock
  n=$((n+1))
done
