#!/bin/sh
# usage: tools/mut.sh <Cxx> <file-relative-to-repo> <python-regex-old> <new>   — apply one edit to a scratch worktree of /repo HEAD, run the check there, remove the worktree
set -e
ID=$1; F=$2; OLD=$3; NEW=$4
WT=/tmp/wt-mut-$$
git -C /repo worktree add --detach $WT HEAD -q
python3 - "$WT/$F" "$OLD" "$NEW" <<'PY'
import sys,re
p,old,new=sys.argv[1:4]
s=open(p).read()
n=len(re.findall(old,s,flags=re.S))
assert n==1, "pattern matched %d times"%n
open(p,'w').write(re.sub(old,lambda m:new,s,count=1,flags=re.S))
PY
(cd $WT && git diff | head -30)
(cd $WT && /root/go/pkg/mod/golang.org/toolchain@v0.0.1-go1.24.2.linux-amd64/bin/go build ./... ) || echo "MUTANT DOES NOT COMPILE"
cd /verif; VERIF_REPO=$WT ./check $ID ${5:-} | cut -c1-700 || true
git -C /repo worktree remove --force $WT
