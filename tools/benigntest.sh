#!/bin/sh
# usage: tools/benigntest.sh <dir with *.diff> [check ids...]   (run from a clone of /verif; all 20 checks by default)
# applies each harmless change to a scratch worktree of /repo HEAD and runs the checks: every line should be OK
D=$(cd "$1" && pwd); shift
CHECKS="$@"; [ -z "$CHECKS" ] && CHECKS="C01 C02 C03 C04 C05 C06 C07 C08 C09 C10 C11 C12 C13 C14 C15 C16 C17 C18 C19 C20"
for f in $D/*.diff; do
  WT=/tmp/wt-ben-$$
  git -C /repo worktree add --detach $WT HEAD -q
  if git -C $WT apply "$f" 2>/dev/null; then
    for id in $CHECKS; do
      res=$(VERIF_REPO=$WT ./check $id 2>&1 | grep "^VIOLATION\|^OK\|^BROKEN" | cut -c1-160 | tr '\n' ' ')
      case "$res" in OK*) ;; *) echo "$(basename $f) $id: $res";; esac
    done
    echo "$(basename $f): done"
  else
    echo "$(basename $f): does not apply"
  fi
  git -C /repo worktree remove --force $WT
done
