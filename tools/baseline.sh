#!/bin/sh
# runs the repository's own test suite with the guard OFF and compares with the stable-pass list of /root/.vp/BASELINE.json
cd /repo
GOFLAGS=-mod=mod go test -json -vet=off -count=1 -timeout 25m ./... > /tmp/baseline.$$.json 2>/dev/null
python3 - /tmp/baseline.$$.json <<'PY'
import json,sys
st={}
for l in open(sys.argv[1]):
    try: e=json.loads(l)
    except Exception: continue
    if e.get("Action") in ("pass","fail") and e.get("Test"):
        st[e["Package"]+"::"+e["Test"]]=e["Action"]
base=json.load(open("/root/.vp/BASELINE.json"))["stable_pass"]
bad=[t for t in base if st.get(t)!="pass"]
print("baseline stable_pass:",len(base),"passing now:",len(base)-len(bad))
for t in bad: print("NOT PASSING:",t,st.get(t))
sys.exit(1 if bad else 0)
PY
rc=$?; rm -f /tmp/baseline.$$.json; exit $rc
