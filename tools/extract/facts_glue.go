package main

import (
	"go/ast"
	"go/token"
	"sort"
	"strings"
)

// Goroutines started inside a loop must own the values they work on: a variable that the loop body ASSIGNS (with `=`,
// i.e. a variable that lives across iterations) and that a `go func() {...}()` started in that body reads is shared
// between the goroutine and the next iteration - the goroutine of stream n may relay stream n+1 (serveSession, RouteTCP,
// RouteUDP: one goroutine pair per accepted stream / connection). Variables declared in the body (`:=`, `var`) are
// per iteration since Go 1.22 and before.

func loopSharedCaptures(fn *ast.FuncDecl) []string {
	bad := map[string]bool{}
	var visitLoop func(body *ast.BlockStmt)
	visitLoop = func(body *ast.BlockStmt) {
		assigned := map[string]bool{}
		var lits []*ast.FuncLit
		ast.Inspect(body, func(n ast.Node) bool {
			switch x := n.(type) {
			case *ast.FuncLit:
				return false // assignments inside a closure are the closure's business
			case *ast.AssignStmt:
				if x.Tok != token.DEFINE {
					for _, l := range x.Lhs {
						if id, ok := l.(*ast.Ident); ok && id.Name != "_" {
							assigned[id.Name] = true
						}
					}
				}
			case *ast.GoStmt:
				if fl, ok := x.Call.Fun.(*ast.FuncLit); ok {
					lits = append(lits, fl)
				}
				return false
			}
			return true
		})
		// names the body itself declares are per iteration
		ast.Inspect(body, func(n ast.Node) bool {
			switch x := n.(type) {
			case *ast.FuncLit:
				return false
			case *ast.AssignStmt:
				if x.Tok == token.DEFINE {
					for _, l := range x.Lhs {
						if id, ok := l.(*ast.Ident); ok {
							// `a, err := ...` re-uses an outer err only if err was declared in this very scope; a name that is
							// also assigned with `=` elsewhere in the body stays suspicious only if it is NOT declared here first
							delete(assigned, id.Name)
						}
					}
				}
			case *ast.DeclStmt:
				if gd, ok := x.Decl.(*ast.GenDecl); ok {
					for _, sp := range gd.Specs {
						if vs, ok := sp.(*ast.ValueSpec); ok {
							for _, id := range vs.Names {
								delete(assigned, id.Name)
							}
						}
					}
				}
			}
			return true
		})
		for _, fl := range lits {
			params := map[string]bool{}
			if fl.Type.Params != nil {
				for _, f := range fl.Type.Params.List {
					for _, n := range f.Names {
						params[n.Name] = true
					}
				}
			}
			local := map[string]bool{}
			ast.Inspect(fl.Body, func(n ast.Node) bool {
				if a, ok := n.(*ast.AssignStmt); ok && a.Tok == token.DEFINE {
					for _, l := range a.Lhs {
						if id, ok := l.(*ast.Ident); ok {
							local[id.Name] = true
						}
					}
				}
				return true
			})
			ast.Inspect(fl.Body, func(n ast.Node) bool {
				if id, ok := n.(*ast.Ident); ok && assigned[id.Name] && !params[id.Name] && !local[id.Name] {
					bad[id.Name] = true
				}
				return true
			})
		}
	}
	ast.Inspect(fn.Body, func(n ast.Node) bool {
		switch x := n.(type) {
		case *ast.ForStmt:
			visitLoop(x.Body)
		case *ast.RangeStmt:
			visitLoop(x.Body)
		}
		return true
	})
	var out []string
	for k := range bad {
		out = append(out, k)
	}
	sort.Strings(out)
	return out
}

func init() { register(factsGlue) }

func factsGlue() {
	for _, spec := range []struct{ dir, fn, fact string }{
		{sv, "serveSession", "serveSessionGoroutinesOwnTheirValues"},
		{cl, "RouteTCP", "routeTCPGoroutinesOwnTheirValues"},
		{cl, "RouteUDP", "routeUDPGoroutinesOwnTheirValues"},
	} {
		fn := fnOf(spec.dir, spec.fn)
		if fn == nil {
			unrec("Deliver", spec.fact, spec.fn+" not found")
			continue
		}
		bad := loopSharedCaptures(fn)
		src := spec.fn + ": every goroutine started in a loop reads only values of its own iteration (declared in the loop body or passed as arguments)"
		if len(bad) > 0 {
			src = spec.fn + ": a goroutine started in a loop reads " + strings.Join(bad, ", ") + ", which the loop assigns on every round"
		}
		boolFact("Deliver", spec.fact, len(bad) == 0, src)
	}
}

// sendPrologue: how switchboard.send begins. Either with the single unconditional `sb.valve.txWait(len(data))` (every
// sender reserves in the bucket at once), or with the turnstile around it:
//
//	sb.txTurn <- struct{}{}; if broken { <-sb.txTurn; return 0, errBrokenSwitchboard }; sb.valve.txWait(len(data)); <-sb.txTurn
//
// (one sender of the session at a time, none once the switchboard is broken; nothing but the broken test and the wait
// happens while the turn is held - in particular no lock is taken). ok = one of the two; turnstile = the second.
func sendPrologue(fn *ast.FuncDecl) (ok bool, turnstile bool) {
	if fn == nil || fn.Body == nil || len(fn.Body.List) == 0 {
		return false, false
	}
	l := fn.Body.List
	if show(l[0]) == "sb.valve.txWait(len(data))" {
		return true, false
	}
	// the turnstile only for valves that limit: `if _, unlimited := sb.valve.(*UnlimitedValve); !unlimited { <turnstile> }`
	// (an UnlimitedValve's txWait does nothing: skipping it changes nothing)
	if is, isIf := l[0].(*ast.IfStmt); isIf && is.Init != nil && is.Else == nil &&
		show(is.Init) == "_, unlimited := sb.valve.(*UnlimitedValve)" && show(is.Cond) == "!unlimited" {
		uw := fnOf(mx, "UnlimitedValve.txWait")
		if uw == nil || len(uw.Body.List) != 0 {
			return false, false
		}
		l = append(append([]ast.Stmt{}, is.Body.List...), l[1:]...)
		if len(is.Body.List) != 4 {
			return false, false
		}
	}
	if len(l) < 4 {
		return false, false
	}
	if show(l[0]) != "sb.txTurn <- struct{}{}" {
		return false, false
	}
	is, isIf := l[1].(*ast.IfStmt)
	if !isIf || is.Init != nil || is.Else != nil || show(is.Cond) != "atomic.LoadUint32(&sb.broken) == 1" || len(is.Body.List) != 2 ||
		show(is.Body.List[0]) != "<-sb.txTurn" || show(is.Body.List[1]) != "return 0, errBrokenSwitchboard" {
		return false, false
	}
	if show(l[2]) != "sb.valve.txWait(len(data))" || show(l[3]) != "<-sb.txTurn" {
		return false, false
	}
	// the turnstile is touched nowhere else in the function, and it is made with room for exactly one
	rest := 0
	for _, st := range l[4:] {
		if strings.Contains(show(st), "sb.txTurn") {
			rest++
		}
	}
	made := false
	if mk := fnOf(mx, "makeSwitchboard"); mk != nil {
		made = strings.Contains(show(mk.Body), "txTurn:") && strings.Contains(show(mk.Body), "make(chan struct{}, 1)")
	}
	return rest == 0 && made, true
}
