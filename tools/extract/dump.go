package main

import (
	"fmt"
	"os"
	"strings"
)

// debugging aid: EXTRACT_DUMP="internal/multiplex:Session.OpenStream" prints the event list of a function
func init() {
	register(func() {
		d := os.Getenv("EXTRACT_DUMP")
		if d == "" {
			return
		}
		for _, k := range strings.Split(d, ",") {
			parts := strings.SplitN(k, ":", 2)
			if len(parts) != 2 {
				continue
			}
			for i, e := range events(fnOf(parts[0], parts[1])) {
				fmt.Fprintf(os.Stderr, "%3d %s%-7s %s\n", i, strings.Repeat("  ", e.depth), e.kind, e.text)
			}
		}
	})
}
