package main

// C04 / C11 (and the size part of C10): facts of internal/multiplex/obfs.go, session.go (MakeSession,
// recvDataFromRemote), switchboard.go (deplex) -> Gen/Codec.lean.
//
// Everything the Lean codec model needs to be *the function the Go source describes* is emitted as a
// translated expression the model calls (bounds, guards, slice limits) or as a Boolean fact about a
// call site (which slice is the nonce, is the AAD nil, ...).  A pattern that no longer matches ends in
// unrec(...): the definition is then missing and the model does not build.

import (
	"go/ast"
	"go/token"
	"regexp"
	"strings"
)

func init() { register(factsCodec) }

// c4slice returns (base, lo, hi) of a slice expression; lo/hi nil when omitted.
func c4slice(e ast.Expr) (string, ast.Expr, ast.Expr, bool) {
	if p, ok := e.(*ast.ParenExpr); ok {
		return c4slice(p.X)
	}
	s, ok := e.(*ast.SliceExpr)
	if !ok || s.Slice3 {
		return "", nil, nil, false
	}
	return show(s.X), s.Low, s.High, true
}

// c4assign finds the first `lhs := rhs` / `lhs = rhs` whose LHS text equals name (exactly).
func c4assign(fn *ast.FuncDecl, name string) ast.Expr {
	return assignRHS(fn, "^"+regexp.QuoteMeta(name)+"$")
}

// c4num emits an Int-valued definition; lo == nil means the literal 0 (omitted slice bound).
func c4num(g, name, params string, e ast.Expr, vars map[string]string, src string) {
	if e == nil {
		emitFn(g, name, params, "Int", "0", src+" (bound omitted)")
		return
	}
	numExpr(g, name, params, mx, e, vars)
}

// c4ifWithBody finds the first if statement whose condition text matches re.
func c4if(fn *ast.FuncDecl, re string) *ast.IfStmt {
	var found *ast.IfStmt
	r := regexp.MustCompile(re)
	ast.Inspect(fn.Body, func(n ast.Node) bool {
		if found != nil {
			return false
		}
		if s, ok := n.(*ast.IfStmt); ok && r.MatchString(show(s.Cond)) {
			found = s
			return false
		}
		return true
	})
	return found
}

func c4isNil(e ast.Expr) bool {
	id, ok := e.(*ast.Ident)
	return ok && id.Name == "nil"
}

// c4nonceSizeCall: `<x>.NonceSize()` -> true
func c4nonceSizeCall(e ast.Expr) bool {
	c, ok := e.(*ast.CallExpr)
	if !ok || len(c.Args) != 0 {
		return false
	}
	s, ok := c.Fun.(*ast.SelectorExpr)
	return ok && s.Sel.Name == "NonceSize"
}

func factsCodec() {
	g := "Codec"
	for _, c := range [][2]string{{"frameHeaderLength", "frameHeaderLength"}, {"salsa20NonceSize", "salsa20NonceSize"},
		{"maxExtraLen", "maxExtraLen"}, {"padFirstNFrames", "padFirstNFrames"},
		{"encPlain", "EncryptionMethodPlain"}, {"encAES256GCM", "EncryptionMethodAES256GCM"},
		{"encChacha20Poly1305", "EncryptionMethodChaha20Poly1305"}, {"encAES128GCM", "EncryptionMethodAES128GCM"},
		{"defaultMaxOnWireSize", "defaultMaxOnWireSize"}, {"closingNothing", "closingNothing"},
		{"closingStream", "closingStream"}, {"closingSession", "closingSession"}} {
		constFact(g, c[0], mx, c[1])
	}
	constFact(g, "appDataMaxLengthClient", cl, "appDataMaxLength")
	constFact(g, "appDataMaxLengthServer", sv, "appDataMaxLength")
	factsObfuscate(g)
	factsDeobfuscate(g)
	factsMakeObfuscator(g)
	factsSessionCodec(g)
}

func factsObfuscate(g string) {
	fn := fnOf(mx, "Obfuscator.obfuscate")
	if fn == nil {
		unrec(g, "obfuscate", "Obfuscator.obfuscate not found")
		return
	}
	vars := map[string]string{"payloadLen": "payloadLen", "padLen": "padLen", "tagLen": "tagLen", "usefulLen": "usefulLen",
		"len(buf)": "bufLen", "f.Seq": "fSeq", "len(f.Payload)": "payloadLen", "payloadOffsetInBuf": "off"}
	// payloadLen := len(f.Payload)
	if e := c4assign(fn, "payloadLen"); e == nil || show(e) != "len(f.Payload)" {
		unrec(g, "payloadLenIsLen", "payloadLen := len(f.Payload) not found")
	} else {
		boolFact(g, "payloadLenIsLen", true, "payloadLen := len(f.Payload)")
	}
	// if payloadLen == 0 { return 0, error }
	if s := c4if(fn, `^payloadLen\b|len\(f\.Payload\)`); s != nil && c4returnsError(s.Body) {
		boolExpr(g, "emptyPayload", "(payloadLen : Int)", mx, s.Cond, vars)
	} else {
		unrec(g, "emptyPayload", "empty-payload guard with error return not found")
	}
	// tagLen: if o.payloadCipher != nil { tagLen = o.payloadCipher.Overhead() } else { tagLen = salsa20NonceSize }
	if s := c4if(fn, `^o\.payloadCipher != nil$`); s != nil && s.Else != nil {
		var thenRHS, elseRHS ast.Expr
		for _, st := range s.Body.List {
			if a, ok := st.(*ast.AssignStmt); ok && len(a.Lhs) == 1 && show(a.Lhs[0]) == "tagLen" {
				thenRHS = a.Rhs[0]
			}
		}
		if eb, ok := s.Else.(*ast.BlockStmt); ok {
			for _, st := range eb.List {
				if a, ok := st.(*ast.AssignStmt); ok && len(a.Lhs) == 1 && show(a.Lhs[0]) == "tagLen" {
					elseRHS = a.Rhs[0]
				}
			}
		}
		if thenRHS != nil && show(thenRHS) == "o.payloadCipher.Overhead()" {
			boolFact(g, "tagLenIsOverhead", true, "tagLen = o.payloadCipher.Overhead() when a cipher is set")
		} else {
			unrec(g, "tagLenIsOverhead", "tagLen = o.payloadCipher.Overhead() not found")
		}
		numExpr(g, "tagLenPlain", "", mx, elseRHS, vars)
	} else {
		unrec(g, "tagLenPlain", "tagLen selection (cipher != nil / else) not found")
	}
	// padding: if f.Seq < padFirstNFrames { padLen = common.RandInt(<bound>) }
	if s := c4if(fn, `f\.Seq`); s != nil && s.Else == nil {
		args := callArgs(s.Body, `^common\.RandInt$`)
		var lhsOK bool
		for _, st := range s.Body.List {
			if a, ok := st.(*ast.AssignStmt); ok && len(a.Lhs) == 1 && show(a.Lhs[0]) == "padLen" {
				lhsOK = true
			}
		}
		boolExpr(g, "padGuard", "(fSeq : Int)", mx, s.Cond, vars)
		if len(args) == 1 && lhsOK {
			numExpr(g, "padBound", "(tagLen : Int)", mx, args[0], vars)
		} else {
			unrec(g, "padBound", "padLen = common.RandInt(bound) not found inside the pad guard")
		}
	} else {
		unrec(g, "padGuard", "pad guard on f.Seq not found")
	}
	if e := c4assign(fn, "padLen"); e == nil || show(e) != "0" {
		unrec(g, "padDefaultZero", "padLen := 0 not found")
	} else {
		boolFact(g, "padDefaultZero", true, "padLen := 0 before the guard")
	}
	// usefulLen
	numExpr(g, "usefulLen", "(payloadLen padLen tagLen : Int)", mx, c4assign(fn, "usefulLen"), vars)
	if s := c4if(fn, `len\(buf\)`); s != nil && c4returnsError(s.Body) {
		boolExpr(g, "bufTooSmall", "(bufLen usefulLen : Int)", mx, s.Cond, vars)
	} else {
		unrec(g, "bufTooSmall", "buffer-too-small guard with error return not found")
	}
	// payload := buf[lo:hi]
	if b, lo, hi, ok := c4slice(c4assign(fn, "payload")); ok && b == "buf" {
		c4num(g, "payloadLo", "", lo, vars, "payload := buf[lo:hi]")
		c4num(g, "payloadHi", "(payloadLen padLen : Int)", hi, vars, "payload := buf[lo:hi]")
	} else {
		unrec(g, "payloadLo", "payload := buf[lo:hi] not found")
	}
	// copy(payload, f.Payload) guarded by payloadOffsetInBuf != frameHeaderLength
	if s := c4if(fn, `payloadOffsetInBuf`); s != nil && len(allCalls(s.Body, `^copy$`)) == 1 &&
		show(allCalls(s.Body, `^copy$`)[0]) == "copy(payload, f.Payload)" {
		boolExpr(g, "copyGuard", "(off : Int)", mx, s.Cond, vars)
	} else {
		unrec(g, "copyGuard", "copy(payload, f.Payload) under the offset guard not found")
	}
	// header := buf[:frameHeaderLength]
	if b, lo, hi, ok := c4slice(c4assign(fn, "header")); ok && b == "buf" && lo == nil {
		c4num(g, "headerHi", "", hi, vars, "header := buf[:hi]")
	} else {
		unrec(g, "headerHi", "header := buf[:frameHeaderLength] not found")
	}
	// header fields
	fieldsOK := true
	if a := callArgs(fn.Body, `^binary\.BigEndian\.PutUint32$`); len(a) == 2 && show(a[1]) == "f.StreamID" {
		if b, lo, hi, ok := c4slice(a[0]); ok && b == "header" {
			c4num(g, "hdrSidLo", "", lo, vars, "PutUint32(header[lo:hi], f.StreamID)")
			c4num(g, "hdrSidHi", "", hi, vars, "PutUint32(header[lo:hi], f.StreamID)")
		} else {
			fieldsOK = false
		}
	} else {
		fieldsOK = false
	}
	if a := callArgs(fn.Body, `^binary\.BigEndian\.PutUint64$`); len(a) == 2 && show(a[1]) == "f.Seq" {
		if b, lo, hi, ok := c4slice(a[0]); ok && b == "header" {
			c4num(g, "hdrSeqLo", "", lo, vars, "PutUint64(header[lo:hi], f.Seq)")
			c4num(g, "hdrSeqHi", "", hi, vars, "PutUint64(header[lo:hi], f.Seq)")
		} else {
			fieldsOK = false
		}
	} else {
		fieldsOK = false
	}
	var closingIdx, extraIdx, extraRHS ast.Expr
	ast.Inspect(fn.Body, func(n ast.Node) bool {
		a, ok := n.(*ast.AssignStmt)
		if !ok || len(a.Lhs) != 1 || len(a.Rhs) != 1 || a.Tok != token.ASSIGN {
			return true
		}
		ix, ok := a.Lhs[0].(*ast.IndexExpr)
		if !ok || show(ix.X) != "header" {
			return true
		}
		if show(a.Rhs[0]) == "f.Closing" {
			closingIdx = ix.Index
		} else if c, ok := a.Rhs[0].(*ast.CallExpr); ok && show(c.Fun) == "byte" && len(c.Args) == 1 {
			extraIdx = ix.Index
			extraRHS = c.Args[0]
		}
		return true
	})
	if closingIdx == nil || extraIdx == nil || !fieldsOK {
		unrec(g, "hdrFields", "the four header field stores were not all recognised")
	} else {
		numExpr(g, "hdrClosingIdx", "", mx, closingIdx, vars)
		numExpr(g, "hdrExtraIdx", "", mx, extraIdx, vars)
		// header[i] = byte(<expr>): the model reduces the value mod 256 itself
		numExpr(g, "extraByte", "(padLen tagLen : Int)", mx, extraRHS, vars)
	}
	// rand.Read(buf[lo:hi])
	if a := callArgs(fn.Body, `^rand\.Read$`); len(a) == 1 {
		if b, lo, hi, ok := c4slice(a[0]); ok && b == "buf" {
			c4num(g, "randLo", "(payloadLen : Int)", lo, vars, "rand.Read(buf[lo:hi])")
			c4num(g, "randHi", "(usefulLen : Int)", hi, vars, "rand.Read(buf[lo:hi])")
		} else {
			unrec(g, "randLo", "rand.Read argument is not a slice of buf")
		}
	} else {
		unrec(g, "randLo", "rand.Read(buf[..]) not found")
	}
	// Seal(payload[:0], header[:NonceSize()], payload, nil) under `if o.payloadCipher != nil`
	c4aeadCall(g, fn, "Seal", "seal", "payload", "payload")
	// nonce := buf[usefulLen-8 : usefulLen]; salsa20.XORKeyStream(header, header, nonce, &o.sessionKey)
	if b, lo, hi, ok := c4slice(c4assign(fn, "nonce")); ok && b == "buf" {
		c4num(g, "salsaNonceLo", "(usefulLen : Int)", lo, vars, "nonce := buf[lo:hi]")
		c4num(g, "salsaNonceHi", "(usefulLen : Int)", hi, vars, "nonce := buf[lo:hi]")
	} else {
		unrec(g, "salsaNonceLo", "nonce := buf[lo:hi] not found in obfuscate")
	}
	c4salsaCall(g, fn, "obfSalsaOnHeader")
	// order: fields stored -> rand.Read -> Seal -> salsa; return usefulLen
	evs := events(fn)
	iPut := idx(evs, 0, "call", `^binary\.BigEndian\.PutUint64`)
	iRand := idx(evs, 0, "call", `^rand\.Read`)
	iSeal := idx(evs, 0, "call", `\.Seal\(`)
	iSalsa := idx(evs, 0, "call", `^salsa20\.XORKeyStream`)
	iExtra := idx(evs, 0, "assign", `^header\[\d+\] = byte\(`)
	boolFact(g, "obfOrder", iPut >= 0 && iExtra > iPut && iRand > iExtra && iSeal > iRand && iSalsa > iSeal,
		"header stores, then rand.Read, then Seal, then the Salsa20 mask")
	last := evs[len(evs)-1]
	boolFact(g, "obfReturnsUseful", last.kind == "return" && last.text == "return usefulLen, nil", "final return is usefulLen, nil")
}

// c4returnsError: the block ends in a return whose last result is not nil
func c4returnsError(b *ast.BlockStmt) bool {
	if b == nil || len(b.List) == 0 {
		return false
	}
	r, ok := b.List[len(b.List)-1].(*ast.ReturnStmt)
	return ok && len(r.Results) >= 1 && !c4isNil(r.Results[len(r.Results)-1])
}

// c4aeadCall extracts the arguments of o.payloadCipher.Seal / Open: dst must be <buf>[:0], the nonce a prefix
// slice header[lo:hi] with hi = NonceSize() (emitted as a function of the cipher's nonce size), the
// input the named buffer, the additional data nil.
func c4aeadCall(g string, fn *ast.FuncDecl, method, pfx, wantDst, wantIn string) {
	calls := allCalls(fn.Body, `^o\.payloadCipher\.`+method+`$`)
	if len(calls) != 1 || len(calls[0].Args) != 4 {
		unrec(g, pfx+"NonceLo", "exactly one o.payloadCipher."+method+" call with 4 arguments expected")
		return
	}
	a := calls[0].Args
	db, dlo, dhi, ok := c4slice(a[0])
	boolFact(g, pfx+"InPlace", ok && db == wantDst && dlo == nil && dhi != nil && show(dhi) == "0" && show(a[2]) == wantIn,
		method+" writes over its own input ("+show(a[0])+", "+show(a[2])+")")
	boolFact(g, pfx+"AADNil", c4isNil(a[3]), method+" additional data argument: "+show(a[3]))
	nb, nlo, nhi, ok := c4slice(a[1])
	if !ok || nb != "header" {
		unrec(g, pfx+"NonceLo", method+" nonce is not a slice of header: "+show(a[1]))
		return
	}
	c4num(g, pfx+"NonceLo", "", nlo, map[string]string{}, method+" nonce "+show(a[1]))
	if nhi != nil && c4nonceSizeCall(nhi) {
		emitFn(g, pfx+"NonceHi", "(nonceSize : Int)", "Int", "nonceSize", method+" nonce "+show(a[1]))
	} else if nhi != nil {
		numExpr(g, pfx+"NonceHi", "(nonceSize : Int)", mx, nhi, map[string]string{})
	} else {
		unrec(g, pfx+"NonceHi", method+" nonce has no upper bound")
	}
}

func c4salsaCall(g string, fn *ast.FuncDecl, name string) {
	calls := allCalls(fn.Body, `^salsa20\.XORKeyStream$`)
	ok := len(calls) == 1 && len(calls[0].Args) == 4 && show(calls[0].Args[0]) == "header" && show(calls[0].Args[1]) == "header" &&
		show(calls[0].Args[2]) == "nonce" && show(calls[0].Args[3]) == "&o.sessionKey"
	if !ok {
		unrec(g, name, "salsa20.XORKeyStream(header, header, nonce, &o.sessionKey) not found")
		return
	}
	boolFact(g, name, true, "salsa20.XORKeyStream(header, header, nonce, &o.sessionKey)")
}

func factsDeobfuscate(g string) {
	fn := fnOf(mx, "Obfuscator.deobfuscate")
	if fn == nil {
		unrec(g, "deobfuscate", "Obfuscator.deobfuscate not found")
		return
	}
	vars := map[string]string{"len(in)": "inLen", "len(pldWithOverHead)": "pldLen", "int(extraLen)": "extraLen",
		"extraLen": "extraLen", "usefulPayloadLen": "useful"}
	evs := events(fn)
	// first statement: the length check with an error return
	if s, ok := fn.Body.List[0].(*ast.IfStmt); ok && c4returnsError(s.Body) && strings.Contains(show(s.Cond), "len(in)") {
		boolExpr(g, "deobfTooShort", "(inLen : Int)", mx, s.Cond, vars)
	} else {
		unrec(g, "deobfTooShort", "deobfuscate does not start with a length check returning an error")
	}
	if b, lo, hi, ok := c4slice(c4assign(fn, "header")); ok && b == "in" && lo == nil {
		c4num(g, "deobfHeaderHi", "", hi, vars, "header := in[:hi]")
	} else {
		unrec(g, "deobfHeaderHi", "header := in[:frameHeaderLength] not found")
	}
	if b, lo, hi, ok := c4slice(c4assign(fn, "pldWithOverHead")); ok && b == "in" && hi == nil {
		c4num(g, "deobfPldLo", "", lo, vars, "pldWithOverHead := in[lo:]")
	} else {
		unrec(g, "deobfPldLo", "pldWithOverHead := in[frameHeaderLength:] not found")
	}
	if b, lo, hi, ok := c4slice(c4assign(fn, "nonce")); ok && b == "in" && hi == nil {
		c4num(g, "deobfSalsaNonceLo", "(inLen : Int)", lo, vars, "nonce := in[lo:]")
	} else {
		unrec(g, "deobfSalsaNonceLo", "nonce := in[len(in)-salsa20NonceSize:] not found")
	}
	c4salsaCall(g, fn, "deobfSalsaOnHeader")
	// field reads
	rd := func(name, lhs, fun string) {
		e := c4assign(fn, lhs)
		c, ok := e.(*ast.CallExpr)
		if !ok || show(c.Fun) != fun || len(c.Args) != 1 {
			unrec(g, name+"Lo", lhs+" := "+fun+"(header[lo:hi]) not found")
			return
		}
		b, lo, hi, ok := c4slice(c.Args[0])
		if !ok || b != "header" {
			unrec(g, name+"Lo", lhs+" is not read from a slice of header")
			return
		}
		c4num(g, name+"Lo", "", lo, vars, lhs+" := "+show(e))
		c4num(g, name+"Hi", "", hi, vars, lhs+" := "+show(e))
	}
	rd("deobfSid", "streamID", "binary.BigEndian.Uint32")
	rd("deobfSeq", "seq", "binary.BigEndian.Uint64")
	ix := func(name, lhs string) {
		e, ok := c4assign(fn, lhs).(*ast.IndexExpr)
		if !ok || show(e.X) != "header" {
			unrec(g, name, lhs+" := header[i] not found")
			return
		}
		numExpr(g, name, "", mx, e.Index, vars)
	}
	ix("deobfClosingIdx", "closing")
	ix("deobfExtraIdx", "extraLen")
	numExpr(g, "deobfUseful", "(pldLen extraLen : Int)", mx, c4assign(fn, "usefulPayloadLen"), vars)
	if s := c4if(fn, `usefulPayloadLen`); s != nil && c4returnsError(s.Body) {
		boolExpr(g, "deobfExtraBad", "(useful pldLen : Int)", mx, s.Cond, vars)
	} else {
		unrec(g, "deobfExtraBad", "extra-length check with error return not found")
	}
	// the field reads use the header after the Salsa20 mask has been removed, the checks precede every further slice
	iSalsa := idx(evs, 0, "call", `^salsa20\.XORKeyStream`)
	iSid := idx(evs, 0, "assign", `^streamID := `)
	iChk := idx(evs, 0, "if", `usefulPayloadLen`)
	iOpen := idx(evs, 0, "call", `\.Open\(`)
	boolFact(g, "deobfOrder", iSalsa >= 0 && iSid > iSalsa && iChk > iSid && iOpen > iChk,
		"unmask, read fields, check extra length, then Open")
	// branch on the cipher
	s := c4if(fn, `^o\.payloadCipher == nil$`)
	if s == nil || s.Else == nil {
		unrec(g, "deobfPlainBranch", "if o.payloadCipher == nil {...} else {...} not found")
		return
	}
	// plain: if extraLen == 0 { out = pld } else { out = pld[:useful] }
	plainOK := false
	if len(s.Body.List) == 1 {
		if in, ok := s.Body.List[0].(*ast.IfStmt); ok && in.Else != nil {
			t, e := c4singleAssign(in.Body), c4singleAssign(in.Else)
			if t != nil && e != nil && show(t) == "pldWithOverHead" {
				if b, lo, hi, ok := c4slice(e); ok && b == "pldWithOverHead" && lo == nil {
					boolExpr(g, "plainWholeCond", "(extraLen : Int)", mx, in.Cond, vars)
					c4num(g, "plainOutHi", "(useful : Int)", hi, vars, "outputPayload = pldWithOverHead[:hi] (plain)")
					plainOK = true
				}
			}
		}
	}
	if !plainOK {
		unrec(g, "plainWholeCond", "plain branch of deobfuscate not recognised")
	}
	// AEAD: Open(pld[:0], header[:NonceSize()], pld, nil); if err != nil { return err }; out = pld[:useful]
	eb, ok := s.Else.(*ast.BlockStmt)
	if !ok {
		unrec(g, "openNonceLo", "else branch is not a block")
		return
	}
	c4aeadCall(g, &ast.FuncDecl{Body: eb}, "Open", "open", "pldWithOverHead", "pldWithOverHead")
	errRet := false
	var outE ast.Expr
	for _, st := range eb.List {
		if i, ok := st.(*ast.IfStmt); ok && show(i.Cond) == "err != nil" && c4returnsError(i.Body) {
			errRet = true
		}
		if a, ok := st.(*ast.AssignStmt); ok && len(a.Lhs) == 1 && show(a.Lhs[0]) == "outputPayload" {
			outE = a.Rhs[0]
		}
	}
	boolFact(g, "openErrReturns", errRet, "a failed Open returns the error before anything is stored in the frame")
	if b, lo, hi, ok := c4slice(outE); ok && b == "pldWithOverHead" && lo == nil {
		c4num(g, "aeadOutHi", "(useful : Int)", hi, vars, "outputPayload = pldWithOverHead[:hi] (AEAD)")
	} else {
		unrec(g, "aeadOutHi", "outputPayload = pldWithOverHead[:usefulPayloadLen] not found in the AEAD branch")
	}
	// the frame is filled from the four locals
	fill := count(evs, "assign", `^f\.StreamID = streamID$`) + count(evs, "assign", `^f\.Seq = seq$`) +
		count(evs, "assign", `^f\.Closing = closing$`) + count(evs, "assign", `^f\.Payload = outputPayload$`)
	natFact(g, "deobfFills", fill, "f.StreamID/Seq/Closing/Payload assigned from streamID/seq/closing/outputPayload")
}

func c4singleAssign(s ast.Stmt) ast.Expr {
	b, ok := s.(*ast.BlockStmt)
	if !ok || len(b.List) != 1 {
		return nil
	}
	a, ok := b.List[0].(*ast.AssignStmt)
	if !ok || len(a.Lhs) != 1 || show(a.Lhs[0]) != "outputPayload" {
		return nil
	}
	return a.Rhs[0]
}

func factsMakeObfuscator(g string) {
	fn := fnOf(mx, "MakeObfuscator")
	if fn == nil {
		unrec(g, "keySlice", "MakeObfuscator not found")
		return
	}
	// per case: which slice of sessionKey feeds the cipher constructor
	var sw *ast.SwitchStmt
	ast.Inspect(fn.Body, func(n ast.Node) bool {
		if s, ok := n.(*ast.SwitchStmt); ok && sw == nil && s.Tag != nil && show(s.Tag) == "encryptionMethod" {
			sw = s
		}
		return true
	})
	if sw == nil {
		unrec(g, "keySlice", "switch encryptionMethod not found")
		return
	}
	type caseInfo struct {
		ctor string
		hi   string
	}
	got := map[string]caseInfo{}
	hasDefaultErr := false
	for _, c := range sw.Body.List {
		cc := c.(*ast.CaseClause)
		if len(cc.List) == 0 {
			for _, st := range cc.Body {
				if r, ok := st.(*ast.ReturnStmt); ok && len(r.Results) == 2 && !c4isNil(r.Results[1]) {
					hasDefaultErr = true
				}
			}
			continue
		}
		if len(cc.List) != 1 {
			continue
		}
		name := show(cc.List[0])
		info := caseInfo{ctor: "none", hi: ""}
		for _, call := range allCalls(&ast.BlockStmt{List: cc.Body}, `^(aes\.NewCipher|chacha20poly1305\.New)$`) {
			if len(call.Args) == 1 {
				if b, lo, hi, ok := c4slice(call.Args[0]); ok && b == "sessionKey" && lo == nil {
					info.ctor = show(call.Fun)
					if hi == nil {
						info.hi = "full"
					} else {
						info.hi = show(hi)
					}
				}
			}
		}
		if info.ctor == "aes.NewCipher" && len(allCalls(&ast.BlockStmt{List: cc.Body}, `^cipher\.NewGCM$`)) != 1 {
			info.ctor = "aes-without-gcm"
		}
		got[name] = info
	}
	str := func(name string) string {
		i, ok := got[name]
		if !ok {
			return "missing"
		}
		return i.ctor + "/" + i.hi
	}
	emit(g, "cipherPlain", "String", leanStr(str("EncryptionMethodPlain")), "MakeObfuscator case EncryptionMethodPlain")
	emit(g, "cipherAES256", "String", leanStr(str("EncryptionMethodAES256GCM")), "MakeObfuscator case EncryptionMethodAES256GCM")
	emit(g, "cipherAES128", "String", leanStr(str("EncryptionMethodAES128GCM")), "MakeObfuscator case EncryptionMethodAES128GCM")
	emit(g, "cipherChacha", "String", leanStr(str("EncryptionMethodChaha20Poly1305")), "MakeObfuscator case EncryptionMethodChaha20Poly1305")
	boolFact(g, "unknownMethodIsError", hasDefaultErr, "default case returns an error")
	// the nonce-size guard: if o.payloadCipher.NonceSize() > frameHeaderLength { return error }
	if s := c4if(fn, `NonceSize\(\)`); s != nil && c4returnsError(s.Body) {
		boolExpr(g, "nonceTooLong", "(nonceSize : Int)", mx, s.Cond, map[string]string{"o.payloadCipher.NonceSize()": "nonceSize"})
	} else {
		unrec(g, "nonceTooLong", "nonce size guard in MakeObfuscator not found")
	}
	// sessionKey stored in the obfuscator
	boolFact(g, "obfKeyIsSessionKey", strings.Contains(show(fn.Body), "sessionKey: sessionKey"), "Obfuscator{sessionKey: sessionKey}")
}

func factsSessionCodec(g string) {
	fn := fnOf(mx, "MakeSession")
	if fn == nil {
		unrec(g, "maxStreamUnitWrite", "MakeSession not found")
		return
	}
	vars := map[string]string{"sesh.MsgOnWireSizeLimit": "limit", "config.MsgOnWireSizeLimit": "cfgLimit"}
	numExpr(g, "maxStreamUnitWrite", "(limit : Int)", mx, c4assign(fn, "sesh.maxStreamUnitWrite"), vars)
	numExpr(g, "streamSendBufferSize", "(limit : Int)", mx, c4assign(fn, "sesh.streamSendBufferSize"), vars)
	numExpr(g, "connReceiveBufferSize", "", mx, c4assign(fn, "sesh.connReceiveBufferSize"), vars)
	if s := c4if(fn, `config\.MsgOnWireSizeLimit`); s != nil {
		boolExpr(g, "limitUnset", "(cfgLimit : Int)", mx, s.Cond, vars)
		var rhs ast.Expr
		for _, st := range s.Body.List {
			if a, ok := st.(*ast.AssignStmt); ok && show(a.Lhs[0]) == "sesh.MsgOnWireSizeLimit" {
				rhs = a.Rhs[0]
			}
		}
		numExpr(g, "limitDefault", "", mx, rhs, vars)
	} else {
		unrec(g, "limitUnset", "default for MsgOnWireSizeLimit not found")
	}
	// both endpoints configure MsgOnWireSizeLimit: appDataMaxLength
	for _, p := range [][3]string{{cl, "MakeSession", "clientLimitIsAppDataMax"}, {sv, "dispatchConnection", "serverLimitIsAppDataMax"}} {
		f := fnOf(p[0], p[1])
		ok := false
		if f != nil {
			ast.Inspect(f.Body, func(n ast.Node) bool {
				if kv, isKV := n.(*ast.KeyValueExpr); isKV && show(kv.Key) == "MsgOnWireSizeLimit" && show(kv.Value) == "appDataMaxLength" {
					ok = true
				}
				return true
			})
		}
		if ok {
			boolFact(g, p[2], true, p[0]+" "+p[1]+": MsgOnWireSizeLimit: appDataMaxLength")
		} else {
			unrec(g, p[2], "MsgOnWireSizeLimit: appDataMaxLength not found in "+p[0]+" "+p[1])
		}
	}
	// every obfuscate call passes a pooled buffer of streamSendBufferSize bytes; sends use buf[:n] with n from obfuscate
	sends := 0
	for _, key := range []string{"Stream.obfuscateAndSend", "Session.Close", "Session.tellRefusals"} {
		f := fnOf(mx, key)
		if f == nil {
			continue
		}
		for _, c := range allCalls(f.Body, `\.sb\.send$`) {
			if len(c.Args) == 2 {
				if _, lo, hi, ok := c4slice(c.Args[0]); ok && lo == nil && hi != nil && (show(hi) == "cipherTextLen" || show(hi) == "i") {
					sends++
				}
			}
		}
	}
	total := 0
	for _, f := range pkgs[mx].funcs {
		total += len(allCalls(f.Body, `\.sb\.send$`))
	}
	natFact(g, "sendsOfObfuscateOutput", sends, "sb.send(buf[:n], ..) call sites whose n is the value returned by obfuscate")
	natFact(g, "sendCallSites", total, "all sb.send call sites in internal/multiplex")

	// recvDataFromRemote: deobfuscate first; on error return before any session state is touched
	rf := fnOf(mx, "Session.recvDataFromRemote")
	if rf == nil {
		unrec(g, "recvErrReturnsFirst", "Session.recvDataFromRemote not found")
	} else {
		evs := events(rf)
		iDe := idx(evs, 0, "call", `^sesh\.deobfuscate\(frame, data\)`)
		iIf := idx(evs, 0, "if", `^err != nil$`)
		iRet := idx(evs, iIf, "return", `^return fmt\.Errorf`)
		// nothing but the frame-pool Get/Put precedes the deobfuscate call
		pre := true
		for i := 0; i < iDe; i++ {
			if !(evs[i].kind == "call" && strings.Contains(evs[i].text, "recvFramePool")) && !(evs[i].kind == "assign" && strings.Contains(evs[i].text, "recvFramePool")) &&
				!(evs[i].kind == "defer" && strings.Contains(evs[i].text, "recvFramePool")) {
				pre = false
			}
		}
		// between the `if err != nil` and its return only the Errorf call
		okRet := iDe >= 0 && iIf > iDe && iRet > iIf && iRet-iIf <= 2
		boolFact(g, "recvErrReturnsFirst", pre && okRet, "recvDataFromRemote: deobfuscate, then `if err != nil { return }` before touching the session")
	}
	// deplex keeps reading after recvDataFromRemote returned an error (log only)
	df := fnOf(mx, "switchboard.deplex")
	if df == nil {
		unrec(g, "deplexContinues", "switchboard.deplex not found")
	} else {
		ok := false
		ast.Inspect(df.Body, func(n ast.Node) bool {
			fs, isFor := n.(*ast.ForStmt)
			if !isFor || fs.Cond != nil || len(fs.Body.List) == 0 {
				return true
			}
			// last two statements: err = recvDataFromRemote(buf[:n]); if err != nil { log.Error(err) }
			l := fs.Body.List
			if len(l) >= 2 {
				a, isA := l[len(l)-2].(*ast.AssignStmt)
				i, isI := l[len(l)-1].(*ast.IfStmt)
				if isA && isI && show(a.Rhs[0]) == "sb.session.recvDataFromRemote(buf[:n])" && show(i.Cond) == "err != nil" {
					only := true
					ast.Inspect(i.Body, func(m ast.Node) bool {
						switch m.(type) {
						case *ast.ReturnStmt, *ast.BranchStmt:
							only = false
						}
						return true
					})
					for _, c := range allCalls(i.Body, `.`) {
						if !strings.HasPrefix(show(c.Fun), "log.") {
							only = false
						}
					}
					ok = only
				}
			}
			return true
		})
		boolFact(g, "deplexContinues", ok, "deplex: a recvDataFromRemote error is only logged; the read loop continues")
	}
}
