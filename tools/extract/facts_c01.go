package main

import (
	"go/ast"
	"strings"
)

// C01: the sender's chunking (Stream.Write) and the frame size limit (MakeSession).
func init() { register(factsDeliver) }

func factsDeliver() {
	g := "Deliver"
	constFact(g, "frameHeaderLength", mx, "frameHeaderLength")
	constFact(g, "maxExtraLen", mx, "maxExtraLen")
	constFact(g, "defaultMaxOnWireSize", mx, "defaultMaxOnWireSize")
	constFact(g, "appDataMaxLengthClient", cl, "appDataMaxLength")
	constFact(g, "appDataMaxLengthServer", sv, "appDataMaxLength")
	if fn := fnOf(mx, "MakeSession"); fn != nil {
		numExpr(g, "maxStreamUnitWrite", "(limit : Int)", mx, assignRHS(fn, `^sesh\.maxStreamUnitWrite$`), map[string]string{"sesh.MsgOnWireSizeLimit": "limit"})
		if e := assignRHS(fn, `^sesh\.connReceiveBufferSize$`); e != nil {
			numExpr(g, "connReceiveBufferSize", "", mx, e, nil)
		} else {
			unrec(g, "connReceiveBufferSize", "assignment not found")
		}
	} else {
		unrec(g, "maxStreamUnitWrite", "MakeSession not found")
	}
	if fn := fnOf(mx, "Stream.Write"); fn != nil {
		vars := map[string]string{"len(in)": "total", "n": "n", "s.session.maxStreamUnitWrite": "unit"}
		boolExpr(g, "writeLoopCond", "(n total : Int)", mx, forCond(fn, `len\(in\)`), vars)
		boolExpr(g, "writeFitsCond", "(n total unit : Int)", mx, ifCond(fn, `maxStreamUnitWrite`), vars)
		evs := events(fn)
		// the two slices: in[n:] when it fits, in[n : unit+n] otherwise
		iFit := idx(evs, 0, "assign", `^framePayload = in\[n:\]$`)
		iSplit := idx(evs, 0, "assign", `^framePayload = in\[n : s\.session\.maxStreamUnitWrite\+n\]$`)
		iAdv := idx(evs, 0, "assign", `^n \+= len\(framePayload\)$`)
		iSend := idx(evs, 0, "assign", `^err = s\.obfuscateAndSend\(\*buf, 0\)$`)
		boolFact(g, "writeSliceShape", iFit > 0 && iSplit > iFit && iSend > iSplit && iAdv > iSend, "Stream.Write: in[n:] / in[n:unit+n]; send; n += len(framePayload)")
		iUn := idx(evs, 0, "if", `^s\.session\.Unordered$`)
		boolFact(g, "writeUnorderedRefuses", iUn > 0 && iUn < iSplit && contains(evs[iUn+1].text, "io.ErrShortBuffer"), "Stream.Write: unordered sessions refuse to split")
		iLock := idx(evs, 0, "call", `^s\.writingM\.Lock\(\)`)
		boolFact(g, "writeUnderMutex", iLock == 0 && idx(evs, 0, "defer", `^s\.writingM\.Unlock\(\)`) == 1, "Stream.Write holds writingM for the whole call")
	} else {
		unrec(g, "writeLoopCond", "Stream.Write not found")
	}
	if fn := fnOf(mx, "Stream.obfuscateAndSend"); fn != nil {
		evs := events(fn)
		iObf := idx(evs, 0, "assign", `:= s\.session\.obfuscate\(&s\.writingFrame, buf, payloadOffsetInBuf\)$`)
		iInc := idx(evs, 0, "incdec", `^s\.writingFrame\.Seq\+\+$`)
		iErr := idx(evs, 0, "if", `^err != nil$`)
		boolFact(g, "seqIncrRightAfterObfuscate", iObf >= 0 && iInc == iObf+1 && iErr == iInc+1, "obfuscateAndSend: Seq++ right after obfuscate, before the error test")
		natFact(g, "seqIncrs", count(evs, "incdec", `Seq\+\+`)+count(evs, "assign", `Seq \+= `), "obfuscateAndSend: number of Seq increments")
	} else {
		unrec(g, "seqIncrRightAfterObfuscate", "obfuscateAndSend not found")
	}
	// dispatchConnection: the connection that made the session runs serveSession for it — also when its own handshake reply
	// could not be written (that path returns only for a connection that JOINED an existing session)
	if fn := fnOf(sv, "dispatchConnection"); fn != nil {
		evs := rawEvents(fn)
		iFin := idx(evs, 0, "call", `^finishHandshake\(conn, sesh\.GetSessionKey\(\)`)
		iErr := idx(evs, iFin, "if", `^err != nil$`)
		iEnd := matchingEnd(evs, iErr)
		iServe := idx(evs, 0, "call", `^serveSession\(sesh, ci, user, sta\)`)
		ok := iFin >= 0 && iErr > iFin && iEnd > iErr && iServe > iEnd && evs[iErr].depth == 0
		if ok {
			// inside the error branch every return is guarded by `if existing`
			for i := iErr + 1; i < iEnd && evs[i].kind != "else"; i++ {
				if evs[i].kind == "return" {
					g1 := false
					for j := i - 1; j > iErr; j-- {
						if evs[j].kind == "if" && evs[j].depth == evs[i].depth-1 {
							g1 = evs[j].text == "existing"
							break
						}
					}
					ok = ok && g1
				}
			}
			// serveSession sits in `if !existing` at depth 0 after the branch
			iNe := idx(evs, iEnd, "if", `^!existing$`)
			ok = ok && iNe > iEnd && iNe < iServe && evs[iNe].depth == 0
		}
		boolFact(g, "creatorServesSessionEvenIfReplyFails", ok, "dispatchConnection: a failed handshake reply returns only when the session existed; the connection that made the session reaches serveSession")
	} else {
		unrec(g, "creatorServesSessionEvenIfReplyFails", "dispatchConnection not found")
	}
	// the WebSocket responder must come back when the upgrade fails (otherwise dispatchConnection is parked in it for ever and the
	// path above is never reached on that transport): every way out of ServeHTTP reports, a connection net/http closes without
	// an upgrade reports, and the responder returns the error
	{
		okH, okR := false, false
		// the reporting method, whatever it is called: the wsHandshakeHandler method whose body is a select sending on ws.finished
		rep := "done"
		for key, f := range pkgs[sv].funcs {
			if strings.HasPrefix(key, "wsHandshakeHandler.") && f.Body != nil && strings.Contains(show(f.Body), "case ws.finished <- err:") {
				rep = strings.TrimPrefix(key, "wsHandshakeHandler.")
			}
		}
		if h := fnOf(sv, "wsHandshakeHandler.ServeHTTP"); h != nil {
			evs := rawEvents(h)
			iUp := idx(evs, 0, "assign", `:= upgrader\.Upgrade\(`)
			iErr := idx(evs, iUp, "if", `^err != nil$`)
			iEnd := matchingEnd(evs, iErr)
			okH = iUp >= 0 && iErr > iUp && iEnd > iErr && countIn(evs, iErr, iEnd, "call", `^ws\.`+rep+`\(err\)$`) == 1 &&
				idx(evs, iEnd, "call", `^ws\.`+rep+`\(nil\)$`) > iEnd
		}
		if mr := fnOf(sv, "WebSocket.makeResponder"); mr != nil {
			t := show(mr.Body)
			okR = strings.Contains(t, "state == http.StateClosed") && strings.Contains(t, "handler."+rep+"(errWsNotUpgraded)") &&
				strings.Contains(t, "if err = <-handler.finished; err != nil") && strings.Contains(t, "originalConn.Close()")
		}
		boolFact(g, "wsResponderReportsFailedUpgrade", okH && okR, "WebSocket responder: a failed or never attempted upgrade is reported and the responder returns an error")
	}
	// the relay at the application's end: common.Copy closes BOTH connections when it returns, whichever direction ended and
	// why; RouteTCP runs one Copy per direction; Stream.ReadFrom (what Copy(stream, localConn) runs) gives up with an error
	// when the stream has been closed, AFTER it has taken bytes from the application
	if cp := fnOf(cm, "Copy"); cp != nil {
		evs := rawEvents(cp)
		boolFact(g, "copyClosesBothOnReturn", len(evs) > 0 && evs[0].kind == "defer" && strings.Contains(show(cp.Body.List[0]), "src.Close()") && strings.Contains(show(cp.Body.List[0]), "dst.Close()"),
			"common.Copy: defer func() { src.Close(); dst.Close() }() — both connections are closed when either direction ends")
	} else {
		unrec(g, "copyClosesBothOnReturn", "common.Copy not found")
	}
	if rt := fnOf(cl, "RouteTCP"); rt != nil {
		t := show(rt.Body)
		boolFact(g, "routeTCPOneCopyPerDirection", strings.Count(t, "common.Copy(localConn, stream)") == 1 && strings.Count(t, "common.Copy(stream, localConn)") == 1,
			"RouteTCP: go Copy(localConn, stream) and Copy(stream, localConn)")
	} else {
		unrec(g, "routeTCPOneCopyPerDirection", "RouteTCP not found")
	}
	if rf := fnOf(mx, "Stream.ReadFrom"); rf != nil {
		evs := rawEvents(rf)
		iRead := idx(evs, 0, "assign", `:= r\.Read\(`)
		iClosed := idx(evs, iRead, "if", `^s\.isClosed\(\)$`)
		iSend := idx(evs, 0, "assign", `= s\.obfuscateAndSend\(`)
		boolFact(g, "readFromFailsOnClosedStream", iRead >= 0 && iClosed > iRead && iSend > iClosed && idx(evs, iClosed, "return", `ErrBrokenStream`) > iClosed && idx(evs, iClosed, "return", `ErrBrokenStream`) < iSend,
			"Stream.ReadFrom: reads from its source, then returns ErrBrokenStream if the stream is closed, before sending")
	} else {
		unrec(g, "readFromFailsOnClosedStream", "Stream.ReadFrom not found")
	}
	var _ ast.Node
}
