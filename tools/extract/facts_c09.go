package main

// C09 — facts of internal/server/dispatcher.go (readFirstPacket, connReadLine, dispatchConnection/goWeb) and the
// recover guards of the hand-written parsers in internal/server/TLSAux.go. Group "FirstPacket".

import (
	"fmt"
	"go/ast"
	"go/token"
	"regexp"
	"strings"
)

func init() { register(factsC09) }

// nthResult returns the printed k-th result of the last `return` found in the statement list (depth-first, last one).
func lastReturn(list []ast.Stmt) *ast.ReturnStmt {
	var found *ast.ReturnStmt
	for _, s := range list {
		ast.Inspect(s, func(n ast.Node) bool {
			if _, ok := n.(*ast.FuncLit); ok {
				return false
			}
			if r, ok := n.(*ast.ReturnStmt); ok {
				found = r
			}
			return true
		})
	}
	return found
}

func retBool(g, name string, r *ast.ReturnStmt, k int, src string) {
	if r == nil || len(r.Results) <= k {
		unrec(g, name, "return with result #"+fmt.Sprint(k)+" not found: "+src)
		return
	}
	t := show(r.Results[k])
	if t != "true" && t != "false" {
		unrec(g, name, "result is not a boolean literal: "+t)
		return
	}
	boolFact(g, name, t == "true", src+": "+show(r))
}

// nonLogCalls lists the calls of a statement list, ignoring logrus chains.
func nonLogCalls(list []ast.Stmt) []string {
	var evs []ev
	walkStmts(list, 0, &evs)
	type rng struct{ a, b token.Pos }
	var logs []rng
	for _, e := range evs {
		if e.kind == "call" && strings.HasPrefix(e.text, "log.") {
			logs = append(logs, rng{e.node.Pos(), e.node.End()})
		}
	}
	var out []string
	for _, e := range evs {
		if e.kind != "call" && e.kind != "go" && e.kind != "defer" {
			continue
		}
		inLog := false
		for _, l := range logs {
			if e.node.Pos() >= l.a && e.node.End() <= l.b {
				inLog = true
			}
		}
		if inLog {
			continue
		}
		out = append(out, e.text)
	}
	return out
}

func endsInReturn(list []ast.Stmt) bool {
	if len(list) == 0 {
		return false
	}
	_, ok := list[len(list)-1].(*ast.ReturnStmt)
	return ok
}

// touchesPeer: a call that relays, answers or otherwise acts on the peer connection
func touchesPeer(c string) bool {
	return strings.Contains(c, "goWeb") || strings.Contains(c, "finishHandshake") || regexp.MustCompile(`^(conn|preparedConn)\.`).MatchString(c)
}

// actionCode classifies what a rejection branch does with the peer connection: 1 = goWeb(); return · 2 = conn.Close(); return ·
// 3 = return without relaying, closing or answering · 0 = anything else.  Calls that do not touch the peer connection
// (bookkeeping such as user.CloseSession(…)) may precede the action.
func actionCode(list []ast.Stmt, needReturn bool) int {
	if needReturn && !endsInReturn(list) {
		return 0
	}
	var acts []string
	for _, c := range nonLogCalls(list) {
		if touchesPeer(c) {
			acts = append(acts, c)
		}
	}
	switch {
	case len(acts) == 0:
		return 3
	case len(acts) == 1 && acts[0] == "goWeb()":
		return 1
	case len(acts) == 1 && acts[0] == "conn.Close()":
		return 2
	}
	return 0
}

// errBranchAfter returns the `if err != nil {…}` that immediately follows statement k of list
func errBranchAfter(list []ast.Stmt, k int) *ast.IfStmt {
	if k < 0 || k+1 >= len(list) {
		return nil
	}
	i, ok := list[k+1].(*ast.IfStmt)
	if !ok || show(i.Cond) != "err != nil" || i.Else != nil {
		return nil
	}
	return i
}

// closesOnly: the branch ends in return, and the only things it does to the two connections are Close() calls;
// reports which of conn / webConn it closes
func closesOnly(list []ast.Stmt) (ok, peer, target bool) {
	if !endsInReturn(list) {
		return false, false, false
	}
	ok = true
	for _, c := range nonLogCalls(list) {
		switch {
		case c == "conn.Close()":
			peer = true
		case c == "webConn.Close()":
			target = true
		case touchesPeer(c) || strings.HasPrefix(c, "webConn.") || strings.Contains(c, "common.Copy"):
			ok = false
		}
	}
	return
}

func factsC09() {
	g := "FirstPacket"
	p := pkgs[sv]
	constFact(g, "firstPacketSize", sv, "firstPacketSize")

	// ---------------- connReadLine ----------------
	crl := fnOf(sv, "connReadLine")
	if crl == nil {
		unrec(g, "crlLoop", "connReadLine not found")
	} else {
		vars := map[string]string{"i": "i", "len(buf)": "bufLen"}
		boolExpr(g, "crlLoop", "(i bufLen : Int)", sv, forCond(crl, `len\(buf\)`), vars)
		reads, other := connReads(crl, `^conn$`)
		if len(reads) == 1 && other == 0 {
			boolFact(g, "crlReadFull", reads[0].full, "connReadLine reads with io.ReadFull: "+show(reads[0].buf))
			if lo, hi, ok := sliceBounds(reads[0].buf, `^buf$`); ok {
				numExpr(g, "crlReadLo", "(i : Int)", sv, lo, vars)
				numExpr(g, "crlReadHi", "(i : Int)", sv, hi, vars)
			} else {
				unrec(g, "crlReadLo", "read destination is not buf[a:b]")
			}
		} else {
			unrec(g, "crlReadFull", "expected one read of conn in connReadLine")
		}
		var nlIf *ast.IfStmt
		ast.Inspect(crl.Body, func(n ast.Node) bool {
			if s, ok := n.(*ast.IfStmt); ok && nlIf == nil && strings.Contains(show(s.Cond), "buf[i]") {
				nlIf = s
			}
			return true
		})
		if be, ok := func() (*ast.BinaryExpr, bool) {
			if nlIf == nil {
				return nil, false
			}
			b, ok := nlIf.Cond.(*ast.BinaryExpr)
			return b, ok && b.Op == token.EQL && show(b.X) == "buf[i]"
		}(); ok {
			numExpr(g, "crlNewline", "", sv, be.Y, nil)
			r := lastReturn(nlIf.Body.List)
			if r != nil && len(r.Results) == 2 && show(r.Results[1]) == "nil" {
				numExpr(g, "crlRetOnNewline", "(i : Int)", sv, r.Results[0], vars)
			} else {
				unrec(g, "crlRetOnNewline", "return i+1, nil not found")
			}
		} else {
			unrec(g, "crlNewline", "if buf[i] == '\\n' not found")
		}
		// read error: return i, err ; loop exhausted: return i, io.ErrShortBuffer
		okErr, okFull := false, false
		ast.Inspect(crl.Body, func(n ast.Node) bool {
			if r, ok := n.(*ast.ReturnStmt); ok && len(r.Results) == 2 && show(r.Results[0]) == "i" {
				switch show(r.Results[1]) {
				case "err":
					okErr = true
				case "io.ErrShortBuffer":
					okFull = len(crl.Body.List) > 0 && crl.Body.List[len(crl.Body.List)-1] == ast.Stmt(r)
				}
			}
			return true
		})
		boolFact(g, "crlReturns", okErr && okFull, "read error → return i, err; buffer exhausted → return i, io.ErrShortBuffer (last statement)")
		iv := assignRHS(crl, `^i$`)
		if iv != nil {
			numExpr(g, "crlInit", "", sv, iv, nil)
		} else {
			unrec(g, "crlInit", "i := 0 not found")
		}
	}

	// ---------------- readFirstPacket ----------------
	rfp := fnOf(sv, "readFirstPacket")
	if rfp == nil {
		unrec(g, "fpReads", "readFirstPacket not found")
	} else {
		rll := assignRHS(rfp, `^recordLayerLength$`)
		rllV := ""
		if rll != nil {
			if v, err := p.evalConst(rll, 0); err == nil {
				rllV = fmt.Sprint(v)
				emit(g, "fpRecordLayerLength", "Int", rllV, "readFirstPacket: recordLayerLength := "+show(rll))
			}
		}
		if rllV == "" {
			unrec(g, "fpRecordLayerLength", "local recordLayerLength := <const> not found")
			rllV = "sorryUnrecognised"
		}
		vars := map[string]string{"bufOffset": "bufOffset", "dataLength": "dataLength", "len(buf)": "bufLen", "recordLayerLength": rllV}
		if e := assignRHS(rfp, `^bufOffset$`); e != nil {
			numExpr(g, "fpInitOffset", "", sv, e, nil)
		} else {
			unrec(g, "fpInitOffset", "bufOffset := 1 not found")
		}
		reads, other := connReads(rfp, `^conn$`)
		natFact(g, "fpReads", len(reads)+100*other, "direct reads of conn in readFirstPacket")
		// error handling after each read: conn.Close(); return …, false, err
		errIfs := []*ast.IfStmt{}
		ast.Inspect(rfp.Body, func(n ast.Node) bool {
			if s, ok := n.(*ast.IfStmt); ok && show(s.Cond) == "err != nil" {
				errIfs = append(errIfs, s)
			}
			return true
		})
		if len(reads) == 3 && other == 0 {
			for k, nm := range []string{"First", "Hdr", "Body"} {
				boolFact(g, "fp"+nm+"Full", reads[k].full, "readFirstPacket read #"+fmt.Sprint(k+1)+": "+show(reads[k].buf))
				if lo, hi, ok := sliceBounds(reads[k].buf, `^buf$`); ok {
					numExpr(g, "fp"+nm+"Lo", "(bufOffset dataLength : Int)", sv, lo, vars)
					numExpr(g, "fp"+nm+"Hi", "(bufOffset dataLength : Int)", sv, hi, vars)
				} else {
					unrec(g, "fp"+nm+"Lo", "destination is not buf[a:b]: "+show(reads[k].buf))
				}
				// the first `if err != nil` after this read
				var ei *ast.IfStmt
				for _, s := range errIfs {
					if s.Pos() > reads[k].pos && (ei == nil || s.Pos() < ei.Pos()) {
						ei = s
					}
				}
				if ei != nil && (k == 2 || ei.Pos() < reads[k+1].pos) {
					calls := nonLogCalls(ei.Body.List)
					closes := false
					for _, c := range calls {
						if c == "conn.Close()" {
							closes = true
						}
					}
					boolFact(g, "fp"+nm+"ErrCloses", closes, "read error branch calls conn.Close()")
					retBool(g, "fp"+nm+"ErrRedir", lastReturn(ei.Body.List), 2, "read error branch")
				} else {
					unrec(g, "fp"+nm+"ErrRedir", "if err != nil after read not found")
				}
			}
		} else {
			unrec(g, "fpFirstFull", fmt.Sprintf("expected three direct reads of conn, found %d", len(reads)))
		}
		// switch buf[0]
		var sw *ast.SwitchStmt
		ast.Inspect(rfp.Body, func(n ast.Node) bool {
			if s, ok := n.(*ast.SwitchStmt); ok && sw == nil && s.Tag != nil && show(s.Tag) == "buf[0]" {
				sw = s
			}
			return true
		})
		var wsCase *ast.CaseClause
		if sw == nil {
			unrec(g, "fpTLSByte", "switch buf[0] not found")
		} else {
			seenT, seenW, seenD := false, false, false
			for _, cs := range sw.Body.List {
				cc := cs.(*ast.CaseClause)
				body := ""
				for _, s := range cc.Body {
					body += show(s) + ";"
				}
				switch {
				case cc.List == nil:
					seenD = true
					retBool(g, "fpDefaultRedir", lastReturn(cc.Body), 2, "default case")
					boolFact(g, "fpDefaultNoRead", len(allCalls(&ast.BlockStmt{List: cc.Body}, `ReadFull|Read$|connReadLine`)) == 0, "default case reads nothing more")
				case len(cc.List) == 1 && strings.Contains(body, "transport = TLS{}"):
					seenT = true
					numExpr(g, "fpTLSByte", "", sv, cc.List[0], nil)
				case len(cc.List) == 1 && strings.Contains(body, "transport = WebSocket{}"):
					seenW = true
					wsCase = cc
					numExpr(g, "fpWSByte", "", sv, cc.List[0], nil)
				default:
					unrec(g, "fpSwitchShape", "unexpected case "+show(cc))
				}
			}
			boolFact(g, "fpSwitchShape", seenT && seenW && seenD && len(sw.Body.List) == 3, "switch buf[0] has exactly the cases TLS, WebSocket, default")
		}
		// length field + oversize guard
		rhs := assignRHS(rfp, `^dataLength$`)
		var lenArg ast.Expr
		if rhs != nil {
			if a := callArgs(rhs, `^binary\.BigEndian\.Uint16$`); len(a) == 1 {
				lenArg = a[0]
			}
		}
		if lo, hi, ok := sliceBounds(lenArg, `^buf$`); ok {
			numExpr(g, "fpLenLo", "", sv, lo, nil)
			numExpr(g, "fpLenHi", "", sv, hi, nil)
		} else {
			unrec(g, "fpLenLo", "dataLength := int(binary.BigEndian.Uint16(buf[a:b])) not found")
		}
		var ovIf *ast.IfStmt
		ast.Inspect(rfp.Body, func(n ast.Node) bool {
			if s, ok := n.(*ast.IfStmt); ok && ovIf == nil && strings.Contains(show(s.Cond), "dataLength") {
				ovIf = s
			}
			return true
		})
		if ovIf != nil {
			boolExpr(g, "fpOversize", "(dataLength bufLen : Int)", sv, ovIf.Cond, vars)
			retBool(g, "fpOversizeRedir", lastReturn(ovIf.Body.List), 2, "oversize branch")
			boolFact(g, "fpOversizeKeepsConn", len(nonLogCalls(ovIf.Body.List)) == 0 && len(reads) == 3 && ovIf.Pos() > reads[1].pos && ovIf.End() < reads[2].pos,
				"oversize branch sits between header and body read and calls nothing (conn stays open)")
		} else {
			unrec(g, "fpOversize", "oversize guard not found")
		}
		// bufOffset += i after header/body/line
		evs := events(rfp)
		natFact(g, "fpOffsetAdds", count(evs, "assign", `^bufOffset \+= i$`), "bufOffset += i sites")
		// WebSocket loop
		if wsCase != nil {
			blk := &ast.BlockStmt{List: wsCase.Body}
			a := callArgs(blk, `^connReadLine$`)
			lineOK := false
			if len(a) == 2 && show(a[0]) == "conn" {
				if s, ok := a[1].(*ast.SliceExpr); ok && show(s.X) == "buf" && s.Low != nil && show(s.Low) == "bufOffset" && s.High == nil {
					lineOK = true
				}
			}
			var wevs []ev
			walkStmts(wsCase.Body, 0, &wevs)
			iCall := idx(wevs, 0, "assign", `^i, err := connReadLine\(`)
			iLine := idx(wevs, 0, "assign", `^line := buf\[bufOffset : ?bufOffset ?\+ ?i\]$`)
			iAdd := idx(wevs, 0, "assign", `^bufOffset \+= i$`)
			iErr := idx(wevs, 0, "if", `^err != nil$`)
			iEq := idx(wevs, 0, "if", `^bytes\.Equal\(line, \[\]byte\(`)
			inFor := idx(wevs, 0, "for", `^$`)
			boolFact(g, "fpLineLoopShape", lineOK && inFor >= 0 && iCall > inFor && iLine > iCall && iAdd > iLine && iErr > iAdd && iEq > iErr,
				"for { i, err := connReadLine(conn, buf[bufOffset:]); line := buf[bufOffset:bufOffset+i]; bufOffset += i; if err != nil {…}; if bytes.Equal(line, …) {break} }")
			// terminator
			if iEq >= 0 {
				ifs := wevs[iEq].node.(*ast.IfStmt)
				args := callArgs(ifs.Cond, `^bytes\.Equal$`)
				term := ""
				if len(args) == 2 {
					if c, ok := args[1].(*ast.CallExpr); ok && len(c.Args) == 1 {
						if bl, ok := c.Args[0].(*ast.BasicLit); ok && bl.Kind == token.STRING {
							if s, err := unquote(bl.Value); err == nil {
								var bs []string
								for _, ch := range []byte(s) {
									bs = append(bs, fmt.Sprint(ch))
								}
								term = "[" + strings.Join(bs, ", ") + "]"
							}
						}
					}
				}
				brk := len(ifs.Body.List) == 1 && show(ifs.Body.List[0]) == "break"
				if term != "" && brk {
					emit(g, "fpTerminator", "List Nat", term, show(ifs.Cond)+" { break }")
				} else {
					unrec(g, "fpTerminator", "bytes.Equal(line, []byte(\"…\")) { break } not found")
				}
			} else {
				unrec(g, "fpTerminator", "terminator test not found")
			}
			// error split: ErrShortBuffer → redirect; else close
			if iErr >= 0 {
				ifs := wevs[iErr].node.(*ast.IfStmt)
				var inner *ast.IfStmt
				if len(ifs.Body.List) == 1 {
					inner, _ = ifs.Body.List[0].(*ast.IfStmt)
				}
				if inner != nil && show(inner.Cond) == "err == io.ErrShortBuffer" && inner.Else != nil {
					retBool(g, "fpLineFullRedir", lastReturn(inner.Body.List), 2, "line loop: buffer full")
					boolFact(g, "fpLineFullKeepsConn", len(nonLogCalls(inner.Body.List)) == 0, "buffer-full branch calls nothing (conn stays open)")
					eb := inner.Else.(*ast.BlockStmt)
					retBool(g, "fpLineErrRedir", lastReturn(eb.List), 2, "line loop: read error")
					cl := false
					for _, c := range nonLogCalls(eb.List) {
						if c == "conn.Close()" {
							cl = true
						}
					}
					boolFact(g, "fpLineErrCloses", cl, "line loop read error calls conn.Close()")
				} else {
					unrec(g, "fpLineFullRedir", "if err == io.ErrShortBuffer {…} else {…} not found")
				}
			}
		} else {
			unrec(g, "fpLineLoopShape", "WebSocket case not found")
		}
		// final return: bufOffset, transport, true, nil
		if n := len(rfp.Body.List); n > 0 {
			if r, ok := rfp.Body.List[n-1].(*ast.ReturnStmt); ok && len(r.Results) == 4 {
				boolFact(g, "fpFinalReturn", show(r.Results[0]) == "bufOffset" && show(r.Results[3]) == "nil", "final return bufOffset, transport, _, nil")
			} else {
				unrec(g, "fpFinalReturn", "final return not found")
			}
		}
		// deadline set first, cleared by defer
		boolFact(g, "fpDeadline", idx(evs, 0, "call", `^conn\.SetReadDeadline\(time\.Now\(\)\.Add\(timeout\)\)$`) >= 0 &&
			idx(evs, 0, "defer", `^conn\.SetReadDeadline\(time\.Time\{\}\)$`) >= 0, "read deadline set on entry and cleared on exit")
	}

	// ---------------- dispatchConnection ----------------
	dc := fnOf(sv, "dispatchConnection")
	if dc == nil {
		unrec(g, "dcBufSize", "dispatchConnection not found")
		return
	}
	if e := assignRHS(dc, `^buf$`); e != nil {
		if a := callArgs(e, `^make$`); len(a) == 2 && show(a[0]) == "[]byte" {
			numExpr(g, "dcBufSize", "", sv, a[1], nil)
		} else {
			unrec(g, "dcBufSize", "buf := make([]byte, N) not found")
		}
	} else {
		unrec(g, "dcBufSize", "buf := make([]byte, N) not found")
	}
	top := dc.Body.List
	// locate top-level statements
	find := func(from int, pred func(ast.Stmt) bool) int {
		for k := from; k < len(top); k++ {
			if k >= 0 && pred(top[k]) {
				return k
			}
		}
		return -1
	}
	isAssignCalling := func(re string) func(ast.Stmt) bool {
		r := regexp.MustCompile(re)
		return func(s ast.Stmt) bool {
			a, ok := s.(*ast.AssignStmt)
			return ok && len(a.Rhs) == 1 && r.MatchString(show(a.Rhs[0]))
		}
	}
	isErrIf := func(s ast.Stmt) bool {
		i, ok := s.(*ast.IfStmt)
		return ok && show(i.Cond) == "err != nil"
	}
	kRead := find(0, isAssignCalling(`^readFirstPacket\(conn, buf, `))
	okData := false
	if kRead >= 0 {
		a := top[kRead].(*ast.AssignStmt)
		if len(a.Lhs) == 4 && show(a.Lhs[0]) == "i" && show(a.Lhs[2]) == "redirOnErr" && show(a.Lhs[3]) == "err" {
			if e := assignRHS(dc, `^data$`); e != nil && show(e) == "buf[:i]" {
				okData = true
			}
		}
		if args := callArgs(a.Rhs[0], `^readFirstPacket$`); len(args) == 3 {
			numExpr(g, "dcFirstPacketTimeout", "", sv, args[2], nil)
		}
	}
	boolFact(g, "dcDataIsConsumedPrefix", okData, "i, transport, redirOnErr, err := readFirstPacket(conn, buf, …); data := buf[:i]")
	// goWeb
	var goWeb *ast.FuncLit
	kGoWeb := find(0, func(s ast.Stmt) bool {
		a, ok := s.(*ast.AssignStmt)
		if ok && len(a.Lhs) == 1 && show(a.Lhs[0]) == "goWeb" {
			goWeb, _ = a.Rhs[0].(*ast.FuncLit)
			return goWeb != nil
		}
		return false
	})
	if goWeb == nil {
		unrec(g, "goWebWriteLo", "goWeb := func() {…} not found")
	} else {
		ws := allCalls(goWeb.Body, `^webConn\.Write$`)
		natFact(g, "goWebTargetWrites", len(ws), "webConn.Write calls in goWeb")
		if len(ws) == 1 && len(ws[0].Args) == 1 {
			vars := map[string]string{"len(data)": "dataLen"}
			arg := ws[0].Args[0]
			if id, ok := arg.(*ast.Ident); ok && id.Name == "data" {
				emitFn(g, "goWebWriteLo", "(dataLen : Int)", "Int", "0", "webConn.Write(data)")
				emitFn(g, "goWebWriteHi", "(dataLen : Int)", "Int", "dataLen", "webConn.Write(data)")
			} else if s, ok := arg.(*ast.SliceExpr); ok && show(s.X) == "data" && !s.Slice3 {
				lo, hi := s.Low, s.High
				if lo == nil {
					lo = &ast.BasicLit{Kind: token.INT, Value: "0"}
				}
				if hi == nil {
					emitFn(g, "goWebWriteHi", "(dataLen : Int)", "Int", "dataLen", show(arg))
				} else {
					numExpr(g, "goWebWriteHi", "(dataLen : Int)", sv, hi, vars)
				}
				numExpr(g, "goWebWriteLo", "(dataLen : Int)", sv, lo, vars)
			} else {
				unrec(g, "goWebWriteLo", "webConn.Write argument is neither data nor a slice of it: "+show(arg))
			}
		} else {
			unrec(g, "goWebWriteLo", "expected exactly one webConn.Write(x)")
		}
		var gevs []ev
		walkStmts(goWeb.Body.List, 0, &gevs)
		iDial := idx(gevs, 0, "assign", `^webConn, err := sta\.RedirDialer\.Dial\(`)
		iW := idx(gevs, 0, "assign", `webConn\.Write\(`)
		iC1 := idx(gevs, 0, "go", `^common\.Copy\(webConn, conn\)$`)
		iC2 := idx(gevs, 0, "go", `^common\.Copy\(conn, webConn\)$`)
		boolFact(g, "goWebShape", iDial >= 0 && iW > iDial && iC1 > iW && iC2 > iW && count(gevs, "go", `.`) == 2,
			"dial RedirDialer; webConn.Write(…); go Copy(webConn, conn); go Copy(conn, webConn)")
		natFact(g, "goWebPeerWrites", len(allCalls(goWeb.Body, `^conn\.Write$`)), "conn.Write calls in goWeb (server-originated bytes)")
		natFact(g, "goWebDeadlinesSet", len(allCalls(goWeb.Body, `\.Set(Read|Write)?Deadline$`)),
			"Set[Read|Write]Deadline calls in goWeb: a deadline left on either connection of the relay ends it for a peer (or target) that speaks later (seed C09-6)")
		// the two fault points of goWeb: what happens to the peer connection (and to the half-open target connection)
		// when the redirect target cannot be dialled / refuses the first write
		gl := goWeb.Body.List
		kDial, kWrite := -1, -1
		for k, st := range gl {
			if a, ok := st.(*ast.AssignStmt); ok && len(a.Rhs) == 1 {
				switch t := show(a.Rhs[0]); {
				case strings.HasPrefix(t, "sta.RedirDialer.Dial("):
					kDial = k
				case strings.HasPrefix(t, "webConn.Write("):
					kWrite = k
				}
			}
		}
		if br := errBranchAfter(gl, kDial); br != nil {
			if ok, peer, _ := closesOnly(br.Body.List); ok {
				boolFact(g, "goWebDialErrClosesPeer", peer, "goWeb, RedirDialer.Dial error: "+strings.Join(nonLogCalls(br.Body.List), "; ")+"; return")
			} else {
				unrec(g, "goWebDialErrClosesPeer", "the Dial error branch of goWeb does something other than closing and returning")
			}
		} else {
			unrec(g, "goWebDialErrClosesPeer", "if err != nil {…} right after webConn, err := sta.RedirDialer.Dial(…) not found")
		}
		if br := errBranchAfter(gl, kWrite); br != nil {
			if ok, peer, target := closesOnly(br.Body.List); ok {
				boolFact(g, "goWebWriteErrClosesPeer", peer, "goWeb, first webConn.Write error: "+strings.Join(nonLogCalls(br.Body.List), "; ")+"; return")
				boolFact(g, "goWebWriteErrClosesTarget", target, "goWeb, first webConn.Write error: the half-open target connection is closed")
			} else {
				unrec(g, "goWebWriteErrClosesPeer", "the Write error branch of goWeb does something other than closing and returning")
			}
		} else {
			unrec(g, "goWebWriteErrClosesPeer", "if err != nil {…} right after _, err = webConn.Write(…) not found")
		}
	}
	// branches
	code := func(name string, k int, src string) {
		if k < 0 {
			unrec(g, name, src+": branch not found")
			return
		}
		natFact(g, name, actionCode(top[k].(*ast.IfStmt).Body.List, true), src+" — 1 = goWeb(); return · 2 = conn.Close(); return · 3 = return only · 0 = other")
	}
	kReadErr := find(kRead+1, isErrIf)
	if kReadErr >= 0 && kRead >= 0 {
		ifs := top[kReadErr].(*ast.IfStmt)
		var inner *ast.IfStmt
		for _, s := range ifs.Body.List {
			if i, ok := s.(*ast.IfStmt); ok && show(i.Cond) == "redirOnErr" {
				inner = i
			}
		}
		if inner != nil && inner.Else != nil && endsInReturn(ifs.Body.List) {
			natFact(g, "dcReadErrRedirAction", actionCode(inner.Body.List, false), "first-packet error, redirOnErr → (1 = goWeb())")
			natFact(g, "dcReadErrElseAction", actionCode(inner.Else.(*ast.BlockStmt).List, false), "first-packet error, !redirOnErr → (2 = conn.Close())")
		} else {
			unrec(g, "dcReadErrRedirAction", "if redirOnErr { goWeb() } else { conn.Close() }; return — not found")
		}
	} else {
		unrec(g, "dcReadErrRedirAction", "if err != nil after readFirstPacket not found")
	}
	kAuth := find(0, isAssignCalling(`^AuthFirstPacket\(data, transport, sta\)$`))
	kAuthErr := -1
	if kAuth >= 0 {
		kAuthErr = find(kAuth+1, isErrIf)
	}
	code("dcAuthErrAction", kAuthErr, "AuthFirstPacket error")
	kObfs := find(0, isAssignCalling(`^mux\.MakeObfuscator\(`))
	kObfsErr := -1
	if kObfs >= 0 {
		kObfsErr = find(kObfs+1, isErrIf)
	}
	code("dcObfsErrAction", kObfsErr, "MakeObfuscator error")
	kAdmin := find(0, func(s ast.Stmt) bool {
		i, ok := s.(*ast.IfStmt)
		return ok && strings.Contains(show(i.Cond), "sta.AdminUID")
	})
	if kAdmin >= 0 {
		boolFact(g, "dcAdminReturns", endsInReturn(top[kAdmin].(*ast.IfStmt).Body.List), "the admin branch ends in return")
	} else {
		unrec(g, "dcAdminReturns", "admin branch not found")
	}
	kMethod := find(0, func(s ast.Stmt) bool {
		i, ok := s.(*ast.IfStmt)
		return ok && i.Init != nil && (strings.Contains(show(i.Init), "sta.ProxyBook[ci.ProxyMethod]") || strings.Contains(show(i.Init), "sta.ProxyBook[strings.ToLower(ci.ProxyMethod)]")) && show(i.Cond) == "!ok"
	})
	code("dcBadMethodAction", kMethod, "unknown proxy method")
	kUser := find(0, func(s ast.Stmt) bool {
		i, ok := s.(*ast.IfStmt)
		return ok && strings.Contains(show(i.Cond), "sta.IsBypass(ci.UID)") && strings.Contains(show(i), "sta.Panel.GetUser(ci.UID)")
	})
	kUserErr := -1
	if kUser >= 0 {
		kUserErr = find(kUser+1, isErrIf)
	}
	code("dcBadUserAction", kUserErr, "unauthorised UID")
	kSesh := find(0, isAssignCalling(`^user\.GetSession\(`))
	kSeshErr := -1
	if kSesh >= 0 {
		kSeshErr = find(kSesh+1, isErrIf)
	}
	code("dcSessErrAction", kSeshErr, "GetSession error")
	// order of the branches; nothing is written to the peer (conn.Write / finishHandshake) at top level before the last rejection
	ordered := kRead >= 0 && kGoWeb > kRead && kReadErr > kGoWeb && kAuth > kReadErr && kAuthErr == kAuth+1 && kObfs > kAuthErr && kObfsErr == kObfs+1 &&
		kAdmin > kObfsErr && kMethod > kAdmin && kUser > kMethod && kUserErr == kUser+1 && kSesh > kUserErr && kSeshErr > kSesh
	boolFact(g, "dcBranchOrder", ordered, "readFirstPacket; goWeb :=; read-error; Auth; obfuscator; admin; proxy method; user; GetSession")
	quiet := kUserErr >= 0
	for k := 0; k <= kUserErr && k < len(top); k++ {
		if k == kAdmin || k == kGoWeb {
			continue
		}
		var evs []ev
		walkStmt(top[k], 0, &evs)
		for _, e := range evs {
			if (e.kind == "call" || e.kind == "go" || e.kind == "defer") && regexp.MustCompile(`finishHandshake\(|^conn\.Write\(|preparedConn`).MatchString(e.text) {
				quiet = false
			}
		}
	}
	boolFact(g, "dcQuietBeforeRejections", quiet, "outside the admin branch nothing before the last rejection branch calls finishHandshake or conn.Write")
	natFact(g, "dcPeerWrites", len(allCalls(dc.Body, `^conn\.Write$`)), "direct conn.Write calls anywhere in dispatchConnection")

	// ---------------- recover guards ----------------
	for _, fnm := range []string{"parseExtensions", "parseKeyShare", "parseClientHello"} {
		fn := fnOf(sv, fnm)
		ok := false
		if fn != nil && len(fn.Body.List) > 0 {
			if d, isD := fn.Body.List[0].(*ast.DeferStmt); isD {
				if fl, isF := d.Call.Fun.(*ast.FuncLit); isF {
					t := show(fl.Body)
					ok = strings.Contains(t, "recover()") && regexp.MustCompile(`err = `).MatchString(t)
				}
			}
			// the error result must be a named result for the assignment in the deferred func to take effect
			named := false
			if fn.Type.Results != nil {
				for _, f := range fn.Type.Results.List {
					for _, n := range f.Names {
						if n.Name == "err" {
							named = true
						}
					}
				}
			}
			ok = ok && named
		}
		boolFact(g, "recover_"+fnm, ok, fnm+": first statement is defer func(){ if r := recover(); r != nil { err = … } }() and err is a named result")
	}
	// parseExtensions is only ever called from parseClientHello (whose own guard then also covers it)
	only := true
	ncall := 0
	for name, fn := range p.funcs {
		if fn.Body == nil {
			continue
		}
		k := len(allCalls(fn.Body, `^parseExtensions$`))
		ncall += k
		if k > 0 && name != "parseClientHello" {
			only = false
		}
	}
	boolFact(g, "parseExtensionsOnlyUnderParseClientHello", only && ncall > 0, "every call of parseExtensions sits in parseClientHello")
}

func unquote(s string) (string, error) {
	if len(s) >= 2 && s[0] == '`' {
		return s[1 : len(s)-1], nil
	}
	var out []byte
	s = s[1 : len(s)-1]
	for i := 0; i < len(s); i++ {
		if s[i] != '\\' {
			out = append(out, s[i])
			continue
		}
		i++
		if i >= len(s) {
			return "", fmt.Errorf("bad escape")
		}
		switch s[i] {
		case 'n':
			out = append(out, '\n')
		case 'r':
			out = append(out, '\r')
		case 't':
			out = append(out, '\t')
		case '\\':
			out = append(out, '\\')
		case '"':
			out = append(out, '"')
		case '0':
			out = append(out, 0)
		default:
			return "", fmt.Errorf("unsupported escape \\%c", s[i])
		}
	}
	return string(out), nil
}
