package main

import (
	"fmt"
	"go/ast"
	"go/token"
	"os"
	"path/filepath"
	"regexp"
	"strconv"
	"strings"
)

// ---------- C19: the valve (token buckets) and where Cloak waits on it ----------
// Group "Valve" (Gen.Valve.*):
//   * Cloak's use of the limiter: switchboard.send / switchboard.deplex order and argument facts, MakeValve's
//     constructor arguments, one valve per ActiveUser handed to every session (GetUser / GetSession);
//   * the limiter itself: github.com/juju/ratelimit at the version pinned in /repo/go.mod, read from the module
//     cache: the arithmetic and the comparisons of take / adjustavailableTokens / currentTick are translated into
//     Lean terms that Model/TokenBucket.lean *uses* (Go's truncating `/` becomes Int.tdiv).

func init() { register(factsC19) }

// g19num: integer expression translator with division (local to this file; main.go's translator has no `/`).
type g19x struct {
	vars map[string]string
	err  error
}

func (x *g19x) fail(f string, a ...any) string {
	if x.err == nil {
		x.err = fmt.Errorf(f, a...)
	}
	return "sorryUnrecognised"
}

func (x *g19x) num(e ast.Expr) string {
	if v, ok := x.vars[show(e)]; ok {
		return v
	}
	switch e := e.(type) {
	case *ast.ParenExpr:
		return x.num(e.X)
	case *ast.BasicLit:
		if e.Kind == token.INT {
			if v, err := strconv.ParseInt(e.Value, 0, 64); err == nil {
				return fmt.Sprintf("%d", v)
			}
		}
	case *ast.UnaryExpr:
		if e.Op == token.SUB {
			return "(-" + x.num(e.X) + ")"
		}
	case *ast.CallExpr:
		switch show(e.Fun) {
		case "int64", "int", "time.Duration":
			if len(e.Args) == 1 {
				return x.num(e.Args[0])
			}
		}
	case *ast.BinaryExpr:
		a, b := x.num(e.X), x.num(e.Y)
		switch e.Op {
		case token.ADD:
			return "(" + a + " + " + b + ")"
		case token.SUB:
			return "(" + a + " - " + b + ")"
		case token.MUL:
			return "(" + a + " * " + b + ")"
		case token.QUO:
			return "(Int.tdiv " + a + " " + b + ")"
		}
	}
	return x.fail("unsupported integer expression %s", show(e))
}

func (x *g19x) cond(e ast.Expr) string {
	switch e := e.(type) {
	case *ast.ParenExpr:
		return x.cond(e.X)
	case *ast.BinaryExpr:
		op, ok := map[token.Token]string{token.LSS: "<", token.LEQ: "≤", token.GTR: ">", token.GEQ: "≥", token.EQL: "=", token.NEQ: "≠"}[e.Op]
		if ok {
			return "decide (" + x.num(e.X) + " " + op + " " + x.num(e.Y) + ")"
		}
	}
	return x.fail("unsupported comparison %s", show(e))
}

func g19emitNum(g, name, params string, e ast.Expr, vars map[string]string) {
	if e == nil {
		unrec(g, name, "expression not found")
		return
	}
	x := &g19x{vars: vars}
	t := x.num(e)
	if x.err != nil {
		unrec(g, name, x.err.Error())
		return
	}
	emitFn(g, name, params, "Int", t, show(e))
}

func g19emitCond(g, name, params string, e ast.Expr, vars map[string]string) {
	if e == nil {
		unrec(g, name, "condition not found")
		return
	}
	x := &g19x{vars: vars}
	t := x.cond(e)
	if x.err != nil {
		unrec(g, name, x.err.Error())
		return
	}
	emitFn(g, name, params, "Bool", t, show(e))
}

func g19modcache() []string {
	var out []string
	if v := os.Getenv("GOMODCACHE"); v != "" {
		out = append(out, v)
	}
	if v := os.Getenv("GOPATH"); v != "" {
		for _, p := range filepath.SplitList(v) {
			out = append(out, filepath.Join(p, "pkg", "mod"))
		}
	}
	if h, err := os.UserHomeDir(); err == nil {
		out = append(out, filepath.Join(h, "go", "pkg", "mod"))
	}
	return out
}

func g19repoRoot() string {
	// pkgs[...].dir is relative; recover the root from a parsed file's position
	for _, p := range pkgs {
		for _, f := range p.files {
			full := fset.Position(f.Pos()).Filename
			if i := strings.Index(full, "/"+p.dir+"/"); i >= 0 {
				return full[:i]
			}
		}
	}
	return "/repo"
}

func g19ifIdx(evs []ev, re string) int { return idx(evs, 0, "if", re) }

func factsC19() {
	g := "Valve"

	// ----- switchboard.send: wait for tokens, then write, then count -----
	send := fnOf(mx, "switchboard.send")
	if send == nil {
		unrec(g, "txWaitBeforeWrite", "switchboard.send not found")
	} else {
		evs := events(send)
		iWait := idx(evs, 0, "call", `^sb\.valve\.txWait\(`)
		nWait := count(evs, "call", `^sb\.valve\.txWait\(`)
		writes := 0
		allAfter := true
		argsOK := true
		for i, e := range evs {
			if e.kind == "call" && regexp.MustCompile(`^[A-Za-z_\*\(\)]+\.Write\(`).MatchString(e.text) {
				writes++
				if i < iWait {
					allAfter = false
				}
				if e.text != "conn.Write(data)" {
					argsOK = false
				}
			}
		}
		okPro, turnstile := sendPrologue(send)
		boolFact(g, "txWaitBeforeWrite", okPro && iWait >= 0 && nWait == 1 && evs[iWait].depth <= 1 && writes >= 1 && allAfter,
			"send: begins with the single unconditional sb.valve.txWait(...), bare or inside the one-at-a-time turnstile; every conn.Write comes after it")
		boolFact(g, "txWaitOneAtATime", okPro && turnstile,
			"send: sb.txTurn <- struct{}{}; if broken { <-sb.txTurn; return }; sb.valve.txWait(len(data)); <-sb.txTurn - a channel of capacity 1 made in makeSwitchboard, touched nowhere else in send")
		boolFact(g, "txWaitArgIsLen", iWait >= 0 && evs[iWait].text == "sb.valve.txWait(len(data))" && argsOK,
			"send: txWait(len(data)) and the bytes written are exactly `data`")
		iAdd := idx(evs, 0, "call", `^sb\.valve\.AddTx\(int64\(n\)\)$`)
		lastWrite := -1
		for i, e := range evs {
			if e.kind == "call" && strings.HasPrefix(e.text, "conn.Write(") {
				lastWrite = i
			}
		}
		boolFact(g, "addTxAfterWrite", iAdd > lastWrite && lastWrite >= 0 && count(evs, "call", `AddTx\(`) == 1,
			"send: AddTx(int64(n)) once, after the write")
	}

	// ----- switchboard.deplex: read, wait for tokens, count, only then process -----
	dp := fnOf(mx, "switchboard.deplex")
	if dp == nil {
		unrec(g, "rxWaitAfterRead", "switchboard.deplex not found")
	} else {
		evs := events(dp)
		iFor := idx(evs, 0, "for", `^$`)
		iRead := idx(evs, iFor, "assign", `^n, err := conn\.Read\(buf\)$`)
		iWait := idx(evs, iRead, "call", `^sb\.valve\.rxWait\(n\)$`)
		iAdd := idx(evs, iRead, "call", `^sb\.valve\.AddRx\(int64\(n\)\)$`)
		iRecv := idx(evs, iRead, "call", `^sb\.session\.recvDataFromRemote\(buf\[:n\]\)$`)
		one := count(evs, "call", `conn\.Read\(`) == 1 && count(evs, "call", `rxWait\(`) == 1 && count(evs, "call", `recvDataFromRemote\(`) == 1 && count(evs, "call", `AddRx\(`) == 1
		boolFact(g, "rxWaitAfterRead", iFor >= 0 && iRead > iFor && iWait > iRead && iRecv > iWait && one && evs[iWait].depth == 1 && evs[iRecv].depth == 1,
			"deplex: in the loop `n, err := conn.Read(buf)`, then unconditionally sb.valve.rxWait(n), and only after it recvDataFromRemote(buf[:n]) (one of each)")
		boolFact(g, "addRxEveryRead", iAdd > iRead && iAdd < iRecv && iAdd >= 0 && evs[iAdd].depth == 1,
			"deplex: AddRx(int64(n)) unconditionally after each Read, before processing")
	}

	// ----- qos.go: MakeValve, the waits -----
	mv := fnOf(mx, "MakeValve")
	capIsRate, rxIsRx := false, false
	if mv != nil && mv.Type.Params != nil {
		var params []string
		for _, f := range mv.Type.Params.List {
			for _, n := range f.Names {
				params = append(params, n.Name)
			}
		}
		found := map[string][]ast.Expr{}
		ast.Inspect(mv.Body, func(n ast.Node) bool {
			if kv, ok := n.(*ast.KeyValueExpr); ok {
				if c, ok := kv.Value.(*ast.CallExpr); ok && show(c.Fun) == "ratelimit.NewBucketWithRate" {
					found[show(kv.Key)] = c.Args
				}
			}
			return true
		})
		ok2 := func(args []ast.Expr, p string) bool {
			return len(args) == 2 && show(args[0]) == "float64("+p+")" && show(args[1]) == p
		}
		if len(params) == 2 {
			capIsRate = len(found) == 2 && (ok2(found["rxtb"], params[0]) || ok2(found["rxtb"], params[1])) && (ok2(found["txtb"], params[0]) || ok2(found["txtb"], params[1]))
			rxIsRx = ok2(found["rxtb"], params[0]) && ok2(found["txtb"], params[1]) && params[0] == "rxRate" && params[1] == "txRate"
		}
	}
	// what happens to the two parameters before the buckets are made: nothing (cap 0), or each is replaced by
	// min(itself, C) for one constant C (cap C); any other assignment to a parameter is not recognised
	rateCap, capOK, capSrc := int64(0), true, "MakeValve: the parameters are handed to the buckets as they come"
	if mv != nil && mv.Type.Params != nil {
		isParam := map[string]bool{}
		for _, f := range mv.Type.Params.List {
			for _, n := range f.Names {
				isParam[n.Name] = true
			}
		}
		clamped := map[string]int64{}
		// the other common spelling: `if p > C { p = C }`
		ifClamp := map[*ast.AssignStmt]bool{}
		for _, st := range mv.Body.List {
			ifs, ok := st.(*ast.IfStmt)
			if !ok || ifs.Init != nil || ifs.Else != nil || len(ifs.Body.List) != 1 {
				continue
			}
			cond, ok1 := ifs.Cond.(*ast.BinaryExpr)
			as, ok2 := ifs.Body.List[0].(*ast.AssignStmt)
			if !ok1 || !ok2 || cond.Op != token.GTR || as.Tok != token.ASSIGN || len(as.Lhs) != 1 || len(as.Rhs) != 1 {
				continue
			}
			id, ok := cond.X.(*ast.Ident)
			if !ok || !isParam[id.Name] || show(as.Lhs[0]) != id.Name || show(as.Rhs[0]) != show(cond.Y) {
				continue
			}
			if v, err := pkgs[mx].evalConst(cond.Y, 0); err == nil && v > 0 {
				if _, dup := clamped[id.Name]; !dup {
					clamped[id.Name] = v
					ifClamp[as] = true
				}
			}
		}
		ast.Inspect(mv.Body, func(n ast.Node) bool {
			switch x := n.(type) {
			case *ast.AssignStmt:
				if ifClamp[x] {
					return true
				}
				for i, l := range x.Lhs {
					id, ok := l.(*ast.Ident)
					if !ok || !isParam[id.Name] {
						continue
					}
					good := false
					if len(x.Lhs) == len(x.Rhs) && x.Tok == token.ASSIGN {
						if c, ok := x.Rhs[i].(*ast.CallExpr); ok && show(c.Fun) == "min" && len(c.Args) == 2 && show(c.Args[0]) == id.Name {
							if v, err := pkgs[mx].evalConst(c.Args[1], 0); err == nil && v > 0 {
								if _, dup := clamped[id.Name]; !dup {
									clamped[id.Name] = v
									good = true
								}
							}
						}
					}
					if !good {
						capOK = false
					}
				}
			case *ast.IncDecStmt:
				if id, ok := x.X.(*ast.Ident); ok && isParam[id.Name] {
					capOK = false
				}
			case *ast.UnaryExpr:
				if id, ok := x.X.(*ast.Ident); ok && x.Op == token.AND && isParam[id.Name] {
					capOK = false
				}
			}
			return true
		})
		if len(clamped) > 0 {
			if len(clamped) != len(isParam) {
				capOK = false
			}
			for _, v := range clamped {
				if rateCap != 0 && v != rateCap {
					capOK = false
				}
				rateCap = v
			}
			capSrc = "MakeValve: each parameter is replaced by min(itself, C) once, nothing else is assigned to a parameter; C"
		}
	} else {
		capOK = false
	}
	if capOK {
		emit(g, "valveRateCap", "Int", fmt.Sprintf("%d", rateCap), capSrc)
	} else {
		unrec(g, "valveRateCap", "MakeValve assigns to its parameters in a way other than p = min(p, constant)")
	}
	boolFact(g, "valveCapacityIsRate", capIsRate, "MakeValve: both buckets are ratelimit.NewBucketWithRate(float64(r), r): capacity = one second's worth of the rate")
	boolFact(g, "valveRxTxNotSwapped", rxIsRx, "MakeValve(rxRate, txRate): rxtb from rxRate, txtb from txRate")
	rw, tw := fnOf(mx, "LimitedValve.rxWait"), fnOf(mx, "LimitedValve.txWait")
	boolFact(g, "valveWaitsOnOwnBucket",
		rw != nil && tw != nil && len(rw.Body.List) == 1 && show(rw.Body.List[0]) == "v.rxtb.Wait(int64(n))" && len(tw.Body.List) == 1 && show(tw.Body.List[0]) == "v.txtb.Wait(int64(n))",
		"LimitedValve.rxWait(n) = v.rxtb.Wait(int64(n)); txWait(n) = v.txtb.Wait(int64(n))")
	// the switchboard uses the session's valve; MakeSession only replaces a nil valve
	msb := fnOf(mx, "makeSwitchboard")
	sbv := false
	if msb != nil {
		ast.Inspect(msb.Body, func(n ast.Node) bool {
			if kv, ok := n.(*ast.KeyValueExpr); ok && show(kv.Key) == "valve" && show(kv.Value) == "sesh.Valve" {
				sbv = true
			}
			return true
		})
	}
	ms := fnOf(mx, "MakeSession")
	nAssignValve := len(allAssignRHS(ms, `^sesh\.Valve$`))
	ifNil := ifCond(ms, `^config\.Valve == nil$`)
	boolFact(g, "sessionUsesConfiguredValve", sbv && nAssignValve == 1 && ifNil != nil,
		"makeSwitchboard: valve: sesh.Valve; MakeSession assigns sesh.Valve only when config.Valve == nil")

	// ----- server: one valve per ActiveUser, handed to each of its sessions -----
	gs := fnOf(sv, "ActiveUser.GetSession")
	perRec := false
	if gs != nil {
		evs := events(gs)
		iSet := idx(evs, 0, "assign", `^config\.Valve = u\.valve$`)
		iMk := idx(evs, 0, "call", `^mux\.MakeSession\(sessionID, config\)$`)
		perRec = iSet >= 0 && iMk > iSet && count(evs, "call", `MakeSession\(`) == 1 && count(evs, "assign", `^config\.Valve\b.*=`) == 1 &&
			count(evs, "call", `MakeValve\(`) == 0
	}
	gu := fnOf(sv, "userPanel.GetUser")
	oneValve := false
	if gu != nil {
		evs := events(gu)
		iMv := idx(evs, 0, "assign", `^valve := mux\.MakeValve\(upRate, downRate\)$`)
		iAu := idx(evs, 0, "assign", `^upRate, downRate, err := panel\.Manager\.AuthenticateUser\(UID\)$`)
		lit := false
		ast.Inspect(gu.Body, func(n ast.Node) bool {
			if kv, ok := n.(*ast.KeyValueExpr); ok && show(kv.Key) == "valve" && show(kv.Value) == "valve" {
				lit = true
			}
			return true
		})
		// an already active record is returned as is (its valve is reused)
		reuse := g14if(gu, `^user, ok := panel\.activeUsers\[arrUID\]; ok$|^ok$`) != nil
		// the new record is published in panel.activeUsers (under activeUsersM, held for the whole body)
		iStore := idx(evs, iMv, "assign", `^panel\.activeUsers\[user\.arrUID\] = user$`)
		locked := idx(evs, 0, "call", `^panel\.activeUsersM\.Lock\(\)$`) == 0 && idx(evs, 0, "defer", `^panel\.activeUsersM\.Unlock\(\)$`) == 1
		oneValve = iAu >= 0 && iMv > iAu && lit && count(evs, "call", `MakeValve\(`) == 1 && reuse && iStore > iMv && locked
	}
	// nobody else assigns an ActiveUser's valve
	other := 0
	for _, fn := range pkgs[sv].funcs {
		if fn.Body == nil {
			continue
		}
		ast.Inspect(fn.Body, func(n ast.Node) bool {
			if a, ok := n.(*ast.AssignStmt); ok {
				for _, l := range a.Lhs {
					if regexp.MustCompile(`\.valve$`).MatchString(show(l)) {
						other++
					}
				}
			}
			return true
		})
	}
	boolFact(g, "valvePerRecord", perRec && oneValve && other == 0,
		"GetUser (under activeUsersM): an active record is reused, a new one gets exactly one mux.MakeValve(upRate, downRate) and is stored in panel.activeUsers; GetSession: the only assignment to config.Valve is `= u.valve`, before mux.MakeSession; no other assignment to .valve in package server")

	// ----- the limiter library, at the pinned version -----
	root := g19repoRoot()
	ver := ""
	if b, err := os.ReadFile(filepath.Join(root, "go.mod")); err == nil {
		if m := regexp.MustCompile(`(?m)^\s*github\.com/juju/ratelimit\s+(v\S+)`).FindStringSubmatch(string(b)); m != nil {
			ver = m[1]
		}
	}
	if ver == "" {
		unrec(g, "ratelimitVersion", "github.com/juju/ratelimit not required in go.mod")
		return
	}
	emit(g, "ratelimitVersion", "String", leanStr(ver), "go.mod: github.com/juju/ratelimit "+ver)
	var lib *pkgInfo
	for _, mc := range g19modcache() {
		d := filepath.Join("github.com", "juju", "ratelimit@"+ver)
		if _, err := os.Stat(filepath.Join(mc, d, "ratelimit.go")); err == nil {
			lib = loadPkg(mc, d)
			break
		}
	}
	if lib == nil {
		unrec(g, "tbEndTick", "source of github.com/juju/ratelimit@"+ver+" not found in the module cache")
		return
	}
	tk := lib.funcs["Bucket.take"]
	adj := lib.funcs["Bucket.adjustavailableTokens"]
	cur := lib.funcs["Bucket.currentTick"]
	if tk == nil || adj == nil || cur == nil {
		unrec(g, "tbEndTick", "Bucket.take / adjustavailableTokens / currentTick not found")
		return
	}
	vt := map[string]string{"tb.availableTokens": "avail", "count": "count", "avail": "avail", "tick": "tick", "tb.quantum": "quantum",
		"endTick": "endTick", "tb.fillInterval": "fillInterval"}
	g19emitCond(g, "tbCountNonPos", "(count : Int)", g14cond(g14if(tk, `^count <= 0$|^count < 1$|^0 >= count$`)), vt)
	g19emitNum(g, "tbAvailAfter", "(avail count : Int)", assignRHS(tk, `^avail$`), vt)
	g19emitCond(g, "tbEnough", "(avail : Int)", g14cond(g14if(tk, `^avail >= 0$|^avail > -1$|^0 <= avail$`)), vt)
	g19emitNum(g, "tbEndTick", "(tick avail quantum : Int)", assignRHS(tk, `^endTick$`), vt)
	// endTime := tb.startTime.Add(time.Duration(endTick) * tb.fillInterval); waitTime := endTime.Sub(now)
	var endArg ast.Expr
	if rhs := assignRHS(tk, `^endTime$`); rhs != nil {
		if c, ok := rhs.(*ast.CallExpr); ok && show(c.Fun) == "tb.startTime.Add" && len(c.Args) == 1 {
			endArg = c.Args[0]
		}
	}
	g19emitNum(g, "tbEndTimeSinceStart", "(endTick fillInterval : Int)", endArg, vt)
	{
		evs := events(tk)
		iCnt := g19ifIdx(evs, `^count <= 0$`)
		iTick := idx(evs, 0, "assign", `^tick := tb\.currentTick\(now\)$`)
		iAdj := idx(evs, 0, "call", `^tb\.adjustavailableTokens\(tick\)$`)
		iAv := idx(evs, 0, "assign", `^avail := `)
		iEn := g19ifIdx(evs, `^avail >= 0$`)
		iWt := idx(evs, 0, "assign", `^waitTime := endTime\.Sub\(now\)$`)
		iMax := g19ifIdx(evs, `^waitTime > maxWait$`)
		nStore := count(evs, "assign", `^tb\.availableTokens = avail$`)
		retWait := idx(evs, iMax, "return", `^return waitTime, true$`)
		var enoughRet bool
		if s := g14if(tk, `^avail >= 0$`); s != nil {
			be := g14blockEvents(s.Body)
			enoughRet = len(be) == 2 && be[0].text == "tb.availableTokens = avail" && be[1].text == "return 0, true"
		}
		var cntRet bool
		if s := g14if(tk, `^count <= 0$`); s != nil {
			be := g14blockEvents(s.Body)
			cntRet = len(be) == 1 && be[0].text == "return 0, true"
		}
		boolFact(g, "tbTakeShape", iCnt == 0 && cntRet && iTick > iCnt && iAdj > iTick && iAv > iAdj && iEn > iAv && enoughRet && iWt > iEn && iMax > iWt && nStore == 2 && retWait > iMax,
			"take: count<=0 -> (0,true) untouched; tick := currentTick(now); adjustavailableTokens(tick); avail := ...; avail>=0 -> store, (0,true); else endTick, endTime, waitTime := endTime.Sub(now); (maxWait test); store avail; return waitTime")
	}
	va := map[string]string{"tb.availableTokens": "avail", "tb.capacity": "capacity", "tick": "tick", "lastTick": "lastTick", "tb.quantum": "quantum"}
	g19emitCond(g, "tbFull", "(avail capacity : Int)", g14cond(g14if(adj, `^tb\.availableTokens >= tb\.capacity$`)), va)
	g19emitCond(g, "tbOver", "(avail capacity : Int)", g14cond(g14if(adj, `^tb\.availableTokens > tb\.capacity$`)), va)
	var refill ast.Expr
	ast.Inspect(adj.Body, func(n ast.Node) bool {
		if a, ok := n.(*ast.AssignStmt); ok && a.Tok == token.ADD_ASSIGN && len(a.Lhs) == 1 && show(a.Lhs[0]) == "tb.availableTokens" {
			refill = a.Rhs[0]
		}
		return true
	})
	g19emitNum(g, "tbRefillAdd", "(tick lastTick quantum : Int)", refill, va)
	{
		evs := events(adj)
		iLast := idx(evs, 0, "assign", `^lastTick := tb\.latestTick$`)
		iSet := idx(evs, 0, "assign", `^tb\.latestTick = tick$`)
		iFull := g19ifIdx(evs, `^tb\.availableTokens >= tb\.capacity$`)
		iAdd := idx(evs, 0, "assign", `^tb\.availableTokens \+= `)
		iOver := g19ifIdx(evs, `^tb\.availableTokens > tb\.capacity$`)
		fullRet, clamp := false, false
		if s := g14if(adj, `^tb\.availableTokens >= tb\.capacity$`); s != nil {
			be := g14blockEvents(s.Body)
			fullRet = len(be) == 1 && be[0].kind == "return"
		}
		if s := g14if(adj, `^tb\.availableTokens > tb\.capacity$`); s != nil {
			be := g14blockEvents(s.Body)
			clamp = len(be) == 1 && be[0].text == "tb.availableTokens = tb.capacity"
		}
		boolFact(g, "tbAdjustShape", iLast == 0 && iSet == 1 && iFull > iSet && fullRet && iAdd > iFull && iOver > iAdd && clamp,
			"adjustavailableTokens: lastTick := latestTick; latestTick = tick; full -> return; availableTokens += ...; over capacity -> = capacity")
	}
	vc := map[string]string{"now.Sub(tb.startTime)": "sinceStart", "tb.fillInterval": "fillInterval"}
	var curE ast.Expr
	if len(cur.Body.List) == 1 {
		if r, ok := cur.Body.List[0].(*ast.ReturnStmt); ok && len(r.Results) == 1 {
			curE = r.Results[0]
		}
	}
	g19emitNum(g, "tbCurrentTick", "(sinceStart fillInterval : Int)", curE, vc)
	// constructor: starts full at tick 0; Wait sleeps for what Take returned; Take uses an infinite maxWait
	nb := lib.funcs["NewBucketWithQuantumAndClock"]
	full := false
	if nb != nil {
		m := map[string]string{}
		ast.Inspect(nb.Body, func(n ast.Node) bool {
			if kv, ok := n.(*ast.KeyValueExpr); ok {
				m[show(kv.Key)] = show(kv.Value)
			}
			return true
		})
		full = m["availableTokens"] == "capacity" && m["latestTick"] == "0" && m["startTime"] == "clock.Now()" && m["capacity"] == "capacity" && m["quantum"] == "quantum" && m["fillInterval"] == "fillInterval"
	}
	boolFact(g, "tbStartsFull", full, "NewBucketWithQuantumAndClock: availableTokens: capacity, latestTick: 0, startTime: clock.Now()")
	wt := lib.funcs["Bucket.Wait"]
	tkp := lib.funcs["Bucket.Take"]
	wOK := wt != nil && len(wt.Body.List) == 1 && strings.HasPrefix(show(wt.Body.List[0]), "if d := tb.Take(count); d > 0 { tb.clock.Sleep(d)")
	tOK := false
	if tkp != nil {
		evs := events(tkp)
		tOK = idx(evs, 0, "call", `^tb\.mu\.Lock\(\)$`) == 0 && idx(evs, 0, "defer", `^tb\.mu\.Unlock\(\)$`) == 1 &&
			idx(evs, 0, "call", `^tb\.take\(tb\.clock\.Now\(\), count, infinityDuration\)$`) > 1
	}
	boolFact(g, "tbWaitSleepsTake", wOK && tOK, "Wait: `if d := tb.Take(count); d > 0 { tb.clock.Sleep(d) }`; Take: under tb.mu, tb.take(tb.clock.Now(), count, infinityDuration)")
	// the search for (quantum, fillInterval): nextQuantum's arithmetic and the loop's shape
	if nq := lib.funcs["nextQuantum"]; nq != nil && len(nq.Body.List) == 3 {
		var first ast.Expr
		if a, ok := nq.Body.List[0].(*ast.AssignStmt); ok && len(a.Lhs) == 1 && show(a.Lhs[0]) == "q1" && a.Tok == token.DEFINE {
			first = a.Rhs[0]
		}
		g19emitNum(g, "tbNextQuantumFirst", "(q : Int)", first, map[string]string{"q": "q"})
		boolFact(g, "tbNextQuantumShape", show(nq.Body.List[1]) == "if q1 == q { q1++ }" && show(nq.Body.List[2]) == "return q1",
			"nextQuantum: q1 := ...; if q1 == q { q1++ }; return q1")
	} else {
		unrec(g, "tbNextQuantumFirst", "nextQuantum not found or not three statements")
	}
	if nr := lib.funcs["NewBucketWithRateAndClock"]; nr != nil {
		okShape := false
		for _, st := range nr.Body.List {
			f, ok := st.(*ast.ForStmt)
			if !ok {
				continue
			}
			okShape = show(f.Init) == "quantum := int64(1)" && show(f.Cond) == "quantum < 1<<50" && show(f.Post) == "quantum = nextQuantum(quantum)" &&
				len(f.Body.List) == 5 &&
				show(f.Body.List[0]) == "fillInterval := time.Duration(1e9 * float64(quantum) / rate)" &&
				show(f.Body.List[1]) == "if fillInterval <= 0 { continue }" &&
				show(f.Body.List[2]) == "tb.fillInterval = fillInterval" && show(f.Body.List[3]) == "tb.quantum = quantum" &&
				show(f.Body.List[4]) == "if diff := math.Abs(tb.Rate() - rate); diff/rate <= rateMargin { return tb }"
		}
		rt := lib.funcs["Bucket.Rate"]
		okRate := rt != nil && len(rt.Body.List) == 1 && show(rt.Body.List[0]) == "return 1e9 * float64(tb.quantum) / float64(tb.fillInterval)"
		boolFact(g, "tbSearchShape", okShape && okRate,
			"NewBucketWithRateAndClock: for quantum := 1; quantum < 1<<50; quantum = nextQuantum(quantum) { fillInterval := Duration(1e9*float64(quantum)/rate); <= 0 -> continue; |Rate()-rate|/rate <= rateMargin -> return }; Rate() = 1e9*quantum/fillInterval")
	} else {
		unrec(g, "tbSearchShape", "NewBucketWithRateAndClock not found")
	}
	// the constructor Cloak calls searches (quantum, fillInterval) within rateMargin of the rate
	if e, ok := lib.consts["rateMargin"]; ok {
		emit(g, "tbRateMarginText", "String", leanStr(show(e)), "ratelimit const rateMargin")
	} else {
		unrec(g, "tbRateMarginText", "rateMargin not found")
	}
}
