package main

// C15 — what dispatchConnection does with the user record when GetSession REFUSED the connection (any error other than
// "retired", which loops back to the lookup). Two shapes are recognised:
//
//   (pinned)    user.CloseSession(ci.SessionId, …)   — names the refused connection's own session id: whatever session
//               carries that id by now is closed (a sibling may have created it in between)
//   (repaired)  user.<helper>()                       — a method of ActiveUser without parameters that, in ONE sessionsM
//               critical section, computes `len(u.sessions) == 0`, optionally retires the record when it is empty, and
//               after the section calls TerminateActiveUser only if it was empty; it touches the table in no other way
//
// Anything else ends in unrec (the model has no third branch).

import (
	"go/ast"
	"regexp"
	"strings"
)

func init() { register(factsC15Cleanup) }

// retiredFlag: the bool field of ActiveUser that GetSession tests at its top level with `if u.<f> { return nil, false, err }`
func retiredFlag() string {
	gs := fnOf(sv, "ActiveUser.GetSession")
	if gs == nil || gs.Body == nil {
		return ""
	}
	for _, st := range gs.Body.List {
		is, ok := st.(*ast.IfStmt)
		if !ok || is.Init != nil || len(is.Body.List) != 1 {
			continue
		}
		sel, ok := is.Cond.(*ast.SelectorExpr)
		if !ok || sel.Sel.Name == "bypass" || !structHasBoolField(sv, "ActiveUser", sel.Sel.Name) {
			continue
		}
		if rs, ok := is.Body.List[0].(*ast.ReturnStmt); ok && len(rs.Results) == 3 && show(rs.Results[0]) == "nil" && show(rs.Results[2]) != "nil" {
			return sel.Sel.Name
		}
	}
	return ""
}

func factsC15Cleanup() {
	g := "Panel"
	dc := fnOf(sv, "dispatchConnection")
	if dc == nil {
		unrec(g, "refusedCleanupClosesOwnId", "dispatchConnection not found")
		return
	}
	// the `if err != nil { … }` that follows `… := user.GetSession(ci.SessionId, …)` (an `if err == <sentinel> { goto/continue }`
	// may stand in between)
	var block *ast.BlockStmt
	var recv string
	var find func(list []ast.Stmt)
	find = func(list []ast.Stmt) {
		for i, st := range list {
			if ls, ok := st.(*ast.LabeledStmt); ok {
				st = ls.Stmt
			}
			if as, ok := st.(*ast.AssignStmt); ok && len(as.Rhs) == 1 && block == nil {
				if c, ok := as.Rhs[0].(*ast.CallExpr); ok {
					if sel, ok := c.Fun.(*ast.SelectorExpr); ok && sel.Sel.Name == "GetSession" && len(c.Args) >= 1 && show(c.Args[0]) == "ci.SessionId" {
						recv = show(sel.X)
						for _, nx := range list[i+1:] {
							is, ok := nx.(*ast.IfStmt)
							if !ok {
								break
							}
							t := strings.ReplaceAll(show(is.Cond), " ", "")
							if t == "err!=nil" {
								block = is.Body
								break
							}
							if !strings.HasPrefix(t, "err==") && !strings.HasPrefix(t, "errors.Is(err,") {
								break
							}
						}
					}
				}
			}
			switch s := st.(type) {
			case *ast.BlockStmt:
				find(s.List)
			case *ast.ForStmt:
				find(s.Body.List)
			case *ast.IfStmt:
				find(s.Body.List)
			}
		}
	}
	find(dc.Body.List)
	if block == nil {
		unrec(g, "refusedCleanupClosesOwnId", "dispatchConnection: no `if err != nil {…}` after user.GetSession(ci.SessionId, …)")
		return
	}
	// calls on the user record inside that block
	var calls []*ast.CallExpr
	ast.Inspect(block, func(n ast.Node) bool {
		if _, ok := n.(*ast.FuncLit); ok {
			return false
		}
		if c, ok := n.(*ast.CallExpr); ok {
			if sel, ok := c.Fun.(*ast.SelectorExpr); ok && show(sel.X) == recv {
				calls = append(calls, c)
			}
		}
		return true
	})
	terminatesDirectly := false
	ast.Inspect(block, func(n ast.Node) bool {
		if c, ok := n.(*ast.CallExpr); ok && strings.HasSuffix(show(c.Fun), ".TerminateActiveUser") {
			terminatesDirectly = true
		}
		return true
	})
	if len(calls) != 1 || terminatesDirectly {
		unrec(g, "refusedCleanupClosesOwnId", "dispatchConnection: the GetSession error path does not make exactly one call on the user record")
		return
	}
	c := calls[0]
	name := c.Fun.(*ast.SelectorExpr).Sel.Name
	closesOwn := name == "CloseSession" && len(c.Args) == 2 && show(c.Args[0]) == "ci.SessionId"
	ifEmpty, retires := false, false
	if !closesOwn && len(c.Args) == 0 {
		ifEmpty, retires = cleanupHelperShape(fnOf(sv, "ActiveUser."+name))
	}
	if !closesOwn && !ifEmpty {
		unrec(g, "refusedCleanupClosesOwnId", "dispatchConnection: unrecognised clean-up after a refused GetSession: "+show(c))
		return
	}
	emit(g, "refusedCleanupCall", "String", leanStr(name), "the method dispatchConnection calls on the user record when GetSession refused the connection")
	boolFact(g, "refusedCleanupClosesOwnId", closesOwn, "that call is CloseSession(ci.SessionId, …): it closes whatever session carries the refused connection's id by then")
	boolFact(g, "refusedCleanupIfEmpty", ifEmpty, "that call is a parameterless ActiveUser method: one sessionsM section computing len(u.sessions) == 0, TerminateActiveUser afterwards only if it was empty, no other use of the table")
	boolFact(g, "refusedCleanupRetires", retires, "… and the section retires the record when it is empty (same flag GetSession tests)")
}

// cleanupHelperShape: Lock; e := len(u.sessions) == 0; [retire if e]; Unlock; if e { …TerminateActiveUser(u, …) }
func cleanupHelperShape(fn *ast.FuncDecl) (shape, retires bool) {
	if fn == nil || fn.Body == nil || fn.Recv == nil || len(fn.Recv.List) != 1 || len(fn.Recv.List[0].Names) != 1 {
		return false, false
	}
	if fn.Type.Params != nil && len(fn.Type.Params.List) != 0 {
		return false, false
	}
	u := fn.Recv.List[0].Names[0].Name
	flag := retiredFlag()
	st := fn.Body.List
	i := 0
	next := func() ast.Stmt {
		if i < len(st) {
			i++
			return st[i-1]
		}
		return nil
	}
	isCall := func(s ast.Stmt, text string) bool {
		es, ok := s.(*ast.ExprStmt)
		return ok && show(es.X) == text
	}
	if !isCall(next(), u+".sessionsM.Lock()") {
		return false, false
	}
	as, ok := next().(*ast.AssignStmt)
	if !ok || len(as.Lhs) != 1 || len(as.Rhs) != 1 {
		return false, false
	}
	e := show(as.Lhs[0])
	rhs := strings.ReplaceAll(show(as.Rhs[0]), " ", "")
	if rhs != "len("+u+".sessions)==0" && rhs != "0==len("+u+".sessions)" && rhs != "len("+u+".sessions)<1" {
		return false, false
	}
	s := next()
	// optional: u.<F> = u.<F> || e    or    if e { u.<F> = true }    for a bool field F of ActiveUser; it counts as
	// "retires" when F is the flag GetSession tests
	if s != nil {
		t := strings.ReplaceAll(show(s), " ", "")
		t = strings.ReplaceAll(strings.ReplaceAll(t, "\n", ""), "\t", "")
		q := regexp.QuoteMeta
		for _, re := range []string{`^` + q(u) + `\.(\w+)=` + q(u) + `\.(\w+)\|\|` + q(e) + `$`, `^` + q(u) + `\.(\w+)=` + q(e) + `\|\|` + q(u) + `\.(\w+)$`,
			`^if` + q(e) + `\{` + q(u) + `\.(\w+)=true\}$`} {
			m := regexp.MustCompile(re).FindStringSubmatch(t)
			if m == nil || (len(m) == 3 && m[1] != m[2]) || m[1] == "bypass" || !structHasBoolField(sv, "ActiveUser", m[1]) {
				continue
			}
			retires = flag != "" && m[1] == flag
			s = next()
			break
		}
	}
	if !isCall(s, u+".sessionsM.Unlock()") {
		return false, false
	}
	is, ok := next().(*ast.IfStmt)
	if !ok || is.Init != nil || is.Else != nil || show(is.Cond) != e || len(is.Body.List) == 0 {
		return false, false
	}
	term := 0
	for _, b := range is.Body.List {
		if es, ok := b.(*ast.ExprStmt); ok {
			if c, ok := es.X.(*ast.CallExpr); ok && strings.HasSuffix(show(c.Fun), ".TerminateActiveUser") && len(c.Args) == 2 && show(c.Args[0]) == u {
				term++
				continue
			}
			if c, ok := es.X.(*ast.CallExpr); ok && regexp.MustCompile(`^(common\.VerifPoint|log\.)`).MatchString(show(c.Fun)) {
				continue
			}
		}
		return false, false
	}
	if term != 1 || next() != nil {
		return false, false
	}
	// the table is mentioned exactly once (the len), no session is closed, nothing is deleted
	mentions := 0
	bad := false
	ast.Inspect(fn.Body, func(n ast.Node) bool {
		switch x := n.(type) {
		case *ast.SelectorExpr:
			if x.Sel.Name == "sessions" {
				mentions++
			}
		case *ast.CallExpr:
			f := show(x.Fun)
			if f == "delete" || strings.HasSuffix(f, ".Close") || strings.HasSuffix(f, ".CloseSession") || strings.HasSuffix(f, ".closeAllSessions") {
				bad = true
			}
		}
		return true
	})
	return mentions == 1 && !bad, retires && mentions == 1 && !bad
}
