package main

import (
	"fmt"
	"go/ast"
	"go/parser"
	"go/token"
	"regexp"
)

func init() { register(factsReplay) }

// ---------- C08: replay cache (server/state.go, server/auth.go) ----------
//
//	Gen.Replay.evict t now        translated condition under which UsedRandomCleaner deletes an entry
//	Gen.Replay.keyMask31          AND-mask applied to byte 31 of the value handed to registerRandom (255 = raw bytes)
//	Gen.Replay.registerAtomic     lookup and store of registerRandom inside ONE usedRandomM.Lock section
//	Gen.Replay.registerBeforeDecrypt, replayReturnsBeforeDecrypt, storesUnixSeconds, storeUnconditional, cleanerLocked
//	Gen.Replay.timestampTolerance, replayCacheAgeLimit
func factsReplay() {
	g := "Replay"
	constFact(g, "timestampTolerance", sv, "timestampTolerance")
	constFact(g, "replayCacheAgeLimit", sv, "replayCacheAgeLimit")

	// --- eviction predicate ---
	fn := fnOf(sv, "State.UsedRandomCleaner")
	if fn == nil {
		unrec(g, "evict", "State.UsedRandomCleaner not found")
	} else {
		vars := map[string]string{"sta.WorldState.Now()": "now", "sta.WorldState.Now().UTC()": "now"}
		var rng *ast.RangeStmt
		ast.Inspect(fn.Body, func(n ast.Node) bool {
			if r, ok := n.(*ast.RangeStmt); ok && rng == nil && contains(show(r.X), "UsedRandom") {
				rng = r
			}
			return true
		})
		// local aliases of the clock: x := sta.WorldState.Now()
		ast.Inspect(fn.Body, func(n ast.Node) bool {
			if s, ok := n.(*ast.AssignStmt); ok && len(s.Lhs) == 1 && len(s.Rhs) == 1 {
				if r := show(s.Rhs[0]); r == "sta.WorldState.Now()" || r == "sta.WorldState.Now().UTC()" {
					vars[show(s.Lhs[0])] = "now"
				}
			}
			return true
		})
		var cond ast.Expr
		nDel := 0
		if rng != nil && rng.Value != nil {
			vars[show(rng.Value)] = "t"
			ast.Inspect(rng.Body, func(n ast.Node) bool {
				if s, ok := n.(*ast.IfStmt); ok {
					hasDel := false
					ast.Inspect(s.Body, func(m ast.Node) bool {
						if c, ok := m.(*ast.CallExpr); ok && show(c.Fun) == "delete" {
							hasDel = true
						}
						return true
					})
					if hasDel && cond == nil && s.Else == nil {
						cond = s.Cond
					}
				}
				if c, ok := n.(*ast.CallExpr); ok && show(c.Fun) == "delete" {
					nDel++
				}
				return true
			})
		}
		if nDel != 1 {
			unrec(g, "evict", fmt.Sprintf("expected exactly one delete in the range over UsedRandom, found %d", nDel))
		} else {
			// locals defined (once, with :=) in the loop body stand for their defining expressions
			if cond != nil && rng != nil {
				defs := map[string]string{}
				for _, st := range rng.Body.List {
					if a, ok := st.(*ast.AssignStmt); ok && a.Tok == token.DEFINE && len(a.Lhs) == 1 && len(a.Rhs) == 1 {
						if id, ok := a.Lhs[0].(*ast.Ident); ok {
							defs[id.Name] = "(" + show(a.Rhs[0]) + ")"
						}
					}
				}
				if len(defs) > 0 {
					txt := show(cond)
					for pass := 0; pass < 3; pass++ {
						for name, rhs := range defs {
							txt = regexp.MustCompile(`\b`+regexp.QuoteMeta(name)+`\b`).ReplaceAllLiteralString(txt, rhs)
						}
					}
					if e, err := parser.ParseExpr(txt); err == nil {
						cond = e
					}
				}
			}
			boolExpr(g, "evict", "(t now : Int)", sv, cond, vars)
		}
		evs := events(fn)
		iSleep := idx(evs, 0, "call", `^time\.Sleep\(replayCacheAgeLimit\)`)
		iLock := idx(evs, 0, "call", `^sta\.usedRandomM\.Lock\(\)`)
		iFor := idx(evs, 0, "for", `range sta\.UsedRandom`)
		iEnd := idx(evs, iFor, "endfor", ``)
		iUnlock := idx(evs, iEnd, "call", `^sta\.usedRandomM\.Unlock\(\)`)
		boolFact(g, "cleanerLocked", iSleep >= 0 && iLock > iSleep && iFor > iLock && iEnd > iFor && iUnlock > iEnd &&
			countIn(evs, iLock, iEnd+1, "call", `usedRandomM\.(R)?Unlock\(\)`) == 0,
			"UsedRandomCleaner: Sleep(replayCacheAgeLimit); Lock; range+delete; Unlock")
	}

	// --- registerRandom: one critical section around lookup and store ---
	fn = fnOf(sv, "State.registerRandom")
	if fn == nil {
		unrec(g, "registerAtomic", "State.registerRandom not found")
	} else {
		evs := events(fn)
		iLock := idx(evs, 0, "call", `^sta\.usedRandomM\.Lock\(\)`)
		iLook := idx(evs, 0, "assign", `^_, used :?= sta\.UsedRandom\[r\]$`)
		iStore := idx(evs, 0, "assign", `^sta\.UsedRandom\[r\] = `)
		atomic := iLock >= 0 && iLook > iLock && iStore > iLook &&
			countIn(evs, iLock, iStore+1, "call", `usedRandomM\.(R)?Unlock\(\)`) == 0 &&
			countIn(evs, iLock+1, iStore+1, "call", `usedRandomM\.(R)?Lock\(\)`) == 0 &&
			(idx(evs, iStore, "call", `^sta\.usedRandomM\.Unlock\(\)`) > iStore || idx(evs, iLock, "defer", `^sta\.usedRandomM\.Unlock\(\)`) == iLock+1)
		if iLook < 0 || iStore < 0 {
			unrec(g, "registerAtomic", "lookup/store of sta.UsedRandom[r] not found in registerRandom")
		} else {
			boolFact(g, "registerAtomic", atomic, "registerRandom: `_, used := UsedRandom[r]` and `UsedRandom[r] = …` inside one usedRandomM.Lock() section")
			boolFact(g, "storeUnconditional", evs[iStore].depth == 0, "the first-sighting time is (re)written on every presentation")
			rhs := assignRHS(fn, `^sta\.UsedRandom\[r\]$`)
			// the stored value: whole seconds of a clock reading — its own (`sta.WorldState.Now().Unix()`) or the one the caller
			// made for the whole presentation and passed in as the time.Time parameter (`now.Unix()`)
			ownReading := rhs != nil && regexp.MustCompile(`^sta\.WorldState\.Now\(\)(\.UTC\(\))?\.Unix\(\)$`).MatchString(show(rhs))
			paramReading := false
			if rhs != nil && fn.Type.Params != nil && len(fn.Type.Params.List) == 2 && len(fn.Type.Params.List[1].Names) == 1 &&
				show(fn.Type.Params.List[1].Type) == "time.Time" {
				pn := fn.Type.Params.List[1].Names[0].Name
				paramReading = show(rhs) == pn+".Unix()" && count(evs, "call", `WorldState\.Now\(`) == 0
			}
			boolFact(g, "storesUnixSeconds", ownReading || paramReading, "stored value is the whole seconds of a clock reading (its own, or the caller's, passed in)")
			boolFact(g, "registerUsesCallersReading", paramReading, "registerRandom stores the clock reading its caller passes in and reads no clock itself")
			iRet := idx(evs, 0, "return", `^return used$`)
			boolFact(g, "returnsUsed", iRet > iStore, "registerRandom returns the looked-up flag")
		}
	}

	// --- what AuthFirstPacket registers, and when ---
	fn = fnOf(sv, "AuthFirstPacket")
	if fn == nil {
		unrec(g, "keyMask31", "AuthFirstPacket not found")
		return
	}
	evs := events(fn)
	iReg := idx(evs, 0, "call", `^sta\.registerRandom\(`)
	iDec := idx(evs, 0, "call", `^decryptClientInfo\(`)
	iProc := idx(evs, 0, "call", `processFirstPacket\(`)
	if iReg < 0 || count(evs, "call", `^sta\.registerRandom\(`) != 1 {
		unrec(g, "keyMask31", "expected exactly one call of sta.registerRandom in AuthFirstPacket")
		return
	}
	boolFact(g, "registerBeforeDecrypt", iProc >= 0 && iProc < iReg && iReg < iDec, "processFirstPacket, then registerRandom, then decryptClientInfo")
	// if sta.registerRandom(..) { err = ErrReplay; return }
	iIf := idx(evs, iReg, "if", `sta\.registerRandom\(`)
	iEndIf := idx(evs, iIf, "endif", ``)
	okReplay := iIf == iReg+1 && iEndIf > iIf && iEndIf < iDec &&
		countIn(evs, iIf, iEndIf, "assign", `^err = ErrReplay$`) == 1 && countIn(evs, iIf, iEndIf, "return", ``) == 1
	boolFact(g, "replayReturnsBeforeDecrypt", okReplay, "a used random returns ErrReplay before decryptClientInfo")

	call := evs[iReg].node.(*ast.CallExpr)
	if len(call.Args) != 1 && len(call.Args) != 2 {
		unrec(g, "keyMask31", "registerRandom takes the value and, optionally, the presentation's clock reading")
		return
	}
	// ONE clock reading per presentation: `now := sta.WorldState.Now()` once, handed to registerRandom and (as now / now.UTC())
	// to decryptClientInfo, and no other reading in AuthFirstPacket
	oneReading := false
	if len(call.Args) == 2 {
		if id, isId := call.Args[1].(*ast.Ident); isId {
			iNow := idx(evs, 0, "assign", `^`+id.Name+` := sta\.WorldState\.Now\(\)$`)
			dargs := callArgs(fn, `^decryptClientInfo$`)
			oneReading = iNow >= 0 && iNow < iReg && count(evs, "call", `WorldState\.Now\(`) == 1 && len(dargs) == 2 &&
				(show(dargs[1]) == id.Name || show(dargs[1]) == id.Name+".UTC()")
		}
	}
	boolFact(g, "oneClockReadingPerPresentation", oneReading, "AuthFirstPacket reads the clock once and uses that reading for the replay-cache entry and for the timestamp window")
	arg := show(call.Args[0])
	const src = "fragments.randPubKey"
	mask := int64(255)
	okArg := arg == src
	if id, isId := call.Args[0].(*ast.Ident); isId {
		// r := fragments.randPubKey (array value copy)
		for _, e := range evs[:iReg] {
			if e.kind == "assign" {
				s := e.node.(*ast.AssignStmt)
				if len(s.Lhs) == 1 && len(s.Rhs) == 1 && show(s.Lhs[0]) == id.Name && show(s.Rhs[0]) == src {
					okArg = true
				}
			}
		}
	}
	if !okArg {
		unrec(g, "keyMask31", "argument of registerRandom is neither fragments.randPubKey nor a local copy of it: "+arg)
		return
	}
	// element assignments on the registered value before the call
	p := pkgs[sv]
	bad := ""
	for _, e := range evsIn(evs, iProc+1, iReg) {
		if e.kind != "assign" {
			continue
		}
		s := e.node.(*ast.AssignStmt)
		if len(s.Lhs) != 1 || len(s.Rhs) != 1 {
			continue
		}
		ix, isIx := s.Lhs[0].(*ast.IndexExpr)
		if !isIx || show(ix.X) != arg {
			continue
		}
		iv, err := p.evalConst(ix.Index, 0)
		if err != nil || iv != 31 {
			bad = "assignment to an element other than [31]: " + show(s)
			break
		}
		switch s.Tok {
		case token.AND_ASSIGN:
			c, err := p.evalConst(s.Rhs[0], 0)
			if err != nil {
				bad = "non-constant mask: " + show(s)
			}
			mask &= c
		case token.AND_NOT_ASSIGN:
			c, err := p.evalConst(s.Rhs[0], 0)
			if err != nil {
				bad = "non-constant mask: " + show(s)
			}
			mask &^= c
		case token.ASSIGN:
			// x[31] = x[31] & C   |   x[31] = C & x[31]
			b, isB := s.Rhs[0].(*ast.BinaryExpr)
			if !isB || (b.Op != token.AND && b.Op != token.AND_NOT) {
				bad = "unrecognised update: " + show(s)
				break
			}
			var ce ast.Expr
			if show(b.X) == show(s.Lhs[0]) {
				ce = b.Y
			} else if show(b.Y) == show(s.Lhs[0]) && b.Op == token.AND {
				ce = b.X
			}
			if ce == nil {
				bad = "unrecognised update: " + show(s)
				break
			}
			c, err := p.evalConst(ce, 0)
			if err != nil {
				bad = "non-constant mask: " + show(s)
			}
			if b.Op == token.AND {
				mask &= c
			} else {
				mask &^= c
			}
		default:
			bad = "unrecognised update: " + show(s)
		}
	}
	if bad != "" {
		unrec(g, "keyMask31", bad)
		return
	}
	natFact(g, "keyMask31", int(mask&255), "AND-mask on byte 31 of the value passed to sta.registerRandom ("+arg+"); 255 = the raw random")
}

// evsIn returns evs[a:b] clipped to the valid range (empty when the indices are not ordered).
func evsIn(evs []ev, a, b int) []ev {
	if a < 0 {
		a = 0
	}
	if b > len(evs) {
		b = len(evs)
	}
	if a >= b {
		return nil
	}
	return evs[a:b]
}

func countIn(evs []ev, a, b int, kind, re string) int {
	if a < 0 || b < 0 {
		return -1
	}
	return count(evsIn(evs, a, b), kind, re)
}
