// Command extract reads /repo's Go sources (go/parser + go/ast only) and regenerates
// lean/CloakModel/Gen/*.lean: constants, translated expressions and structural facts.
// It is deliberately small and purely syntactic; see DESIGN.md section 3 (T1).
package main

import (
	"bytes"
	"encoding/json"
	"flag"
	"fmt"
	"go/ast"
	"go/build/constraint"
	"go/parser"
	"go/printer"
	"go/token"
	"os"
	"path/filepath"
	"regexp"
	"sort"
	"strconv"
	"strings"
)

var fset = token.NewFileSet()

type pkgInfo struct {
	dir    string
	files  map[string]*ast.File
	funcs  map[string]*ast.FuncDecl // "Recv.Name" or "Name"
	consts map[string]ast.Expr      // name -> value expr (iota substituted lazily)
	iotas  map[string]int
	ctype  map[string]ast.Expr // implicit repetition
}

var pkgs = map[string]*pkgInfo{}

func buildOK(src []byte) bool {
	for _, line := range strings.Split(string(src), "\n") {
		t := strings.TrimSpace(line)
		if strings.HasPrefix(t, "package ") {
			break
		}
		if constraint.IsGoBuild(t) {
			e, err := constraint.Parse(t)
			if err != nil {
				return true
			}
			return e.Eval(func(tag string) bool {
				return tag == "linux" || tag == "amd64" || tag == "verif" || strings.HasPrefix(tag, "go1")
			})
		}
	}
	return true
}

func loadPkg(root, dir string) *pkgInfo {
	p := &pkgInfo{dir: dir, files: map[string]*ast.File{}, funcs: map[string]*ast.FuncDecl{},
		consts: map[string]ast.Expr{}, iotas: map[string]int{}}
	ents, err := os.ReadDir(filepath.Join(root, dir))
	if err != nil {
		return p
	}
	for _, e := range ents {
		n := e.Name()
		if !strings.HasSuffix(n, ".go") || strings.HasSuffix(n, "_test.go") || strings.HasPrefix(n, "zz_verif") {
			continue
		}
		full := filepath.Join(root, dir, n)
		src, err := os.ReadFile(full)
		if err != nil || !buildOK(src) {
			continue
		}
		f, err := parser.ParseFile(fset, full, src, parser.ParseComments)
		if err != nil {
			fmt.Fprintf(os.Stderr, "parse %s: %v\n", full, err)
			continue
		}
		p.files[n] = f
		for _, d := range f.Decls {
			switch d := d.(type) {
			case *ast.FuncDecl:
				key := d.Name.Name
				if d.Recv != nil && len(d.Recv.List) > 0 {
					key = recvName(d.Recv.List[0].Type) + "." + key
				}
				p.funcs[key] = d
			case *ast.GenDecl:
				if d.Tok != token.CONST {
					continue
				}
				var last []ast.Expr
				for i, s := range d.Specs {
					vs := s.(*ast.ValueSpec)
					vals := vs.Values
					if len(vals) == 0 {
						vals = last
					} else {
						last = vals
					}
					for j, nm := range vs.Names {
						if j < len(vals) {
							p.consts[nm.Name] = vals[j]
							p.iotas[nm.Name] = i
						}
					}
				}
			}
		}
	}
	return p
}

func recvName(e ast.Expr) string {
	switch e := e.(type) {
	case *ast.StarExpr:
		return recvName(e.X)
	case *ast.Ident:
		return e.Name
	case *ast.IndexExpr:
		return recvName(e.X)
	}
	return "?"
}

func show(n ast.Node) string {
	var b bytes.Buffer
	printer.Fprint(&b, fset, n)
	s := b.String()
	s = regexp.MustCompile(`\s+`).ReplaceAllString(s, " ")
	return s
}

// ---- constant evaluation (integers only; time units in ns) ----

var timeUnits = map[string]int64{"Nanosecond": 1, "Microsecond": 1e3, "Millisecond": 1e6, "Second": 1e9, "Minute": 60e9, "Hour": 3600e9}

func (p *pkgInfo) evalConst(e ast.Expr, iota int) (int64, error) {
	switch e := e.(type) {
	case *ast.BasicLit:
		if e.Kind == token.INT {
			v, err := strconv.ParseInt(e.Value, 0, 64)
			if err != nil {
				u, err2 := strconv.ParseUint(e.Value, 0, 64)
				return int64(u), err2
			}
			return v, nil
		}
		if e.Kind == token.CHAR {
			r, _, _, err := strconv.UnquoteChar(e.Value[1:len(e.Value)-1], '\'')
			return int64(r), err
		}
	case *ast.ParenExpr:
		return p.evalConst(e.X, iota)
	case *ast.Ident:
		if e.Name == "iota" {
			return int64(iota), nil
		}
		if v, ok := p.consts[e.Name]; ok {
			return p.evalConst(v, p.iotas[e.Name])
		}
	case *ast.SelectorExpr:
		if x, ok := e.X.(*ast.Ident); ok && x.Name == "time" {
			if u, ok := timeUnits[e.Sel.Name]; ok {
				return u, nil
			}
		}
	case *ast.UnaryExpr:
		v, err := p.evalConst(e.X, iota)
		if err != nil {
			return 0, err
		}
		switch e.Op {
		case token.SUB:
			return -v, nil
		case token.ADD:
			return v, nil
		case token.XOR:
			return ^v, nil
		}
	case *ast.CallExpr: // conversions such as byte(3), time.Duration(5)
		if len(e.Args) == 1 {
			return p.evalConst(e.Args[0], iota)
		}
	case *ast.BinaryExpr:
		a, err := p.evalConst(e.X, iota)
		if err != nil {
			return 0, err
		}
		b, err := p.evalConst(e.Y, iota)
		if err != nil {
			return 0, err
		}
		switch e.Op {
		case token.ADD:
			return a + b, nil
		case token.SUB:
			return a - b, nil
		case token.MUL:
			return a * b, nil
		case token.QUO:
			if b == 0 {
				return 0, fmt.Errorf("div0")
			}
			return a / b, nil
		case token.SHL:
			return a << uint(b), nil
		case token.SHR:
			return a >> uint(b), nil
		case token.AND:
			return a & b, nil
		case token.OR:
			return a | b, nil
		}
	}
	return 0, fmt.Errorf("cannot evaluate constant %s", show(e))
}

// ---- expression translator: closed language -> Lean term over Int / Bool ----

type xlate struct {
	p    *pkgInfo
	vars map[string]string // printed Go sub-expression -> Lean variable
	err  error
}

func (x *xlate) fail(f string, a ...any) string {
	if x.err == nil {
		x.err = fmt.Errorf(f, a...)
	}
	return "sorryUnrecognised"
}

// num translates an integer-valued expression to a Lean Int term.
func (x *xlate) num(e ast.Expr) string {
	if v, ok := x.vars[show(e)]; ok {
		return v
	}
	switch e := e.(type) {
	case *ast.ParenExpr:
		return x.num(e.X)
	case *ast.BasicLit, *ast.Ident, *ast.SelectorExpr:
		if v, err := x.p.evalConst(e, 0); err == nil {
			if v < 0 {
				return fmt.Sprintf("(%d)", v)
			}
			return fmt.Sprintf("%d", v)
		}
		return x.fail("unknown identifier %s", show(e))
	case *ast.UnaryExpr:
		if e.Op == token.SUB {
			return "(-" + x.num(e.X) + ")"
		}
	case *ast.CallExpr:
		fn := show(e.Fun)
		switch fn {
		case "int", "int64", "int32", "uint32", "uint64", "uint", "time.Duration", "uint16":
			if len(e.Args) == 1 {
				return x.num(e.Args[0])
			}
		}
		return x.fail("unsupported call %s", show(e))
	case *ast.BinaryExpr:
		a, b := x.num(e.X), x.num(e.Y)
		switch e.Op {
		case token.ADD:
			return "(" + a + " + " + b + ")"
		case token.SUB:
			return "(" + a + " - " + b + ")"
		case token.MUL:
			return "(" + a + " * " + b + ")"
		case token.SHL:
			return "(" + a + " * 2 ^ (" + b + " : Int).toNat)"
		}
	}
	return x.fail("unsupported numeric expression %s", show(e))
}

// cond translates a boolean expression to a Lean Bool term.
func (x *xlate) cond(e ast.Expr) string {
	if v, ok := x.vars[show(e)]; ok {
		return v
	}
	switch e := e.(type) {
	case *ast.ParenExpr:
		return x.cond(e.X)
	case *ast.Ident:
		if e.Name == "true" || e.Name == "false" {
			return e.Name
		}
	case *ast.UnaryExpr:
		if e.Op == token.NOT {
			return "(!" + x.cond(e.X) + ")"
		}
	case *ast.BinaryExpr:
		switch e.Op {
		case token.LAND:
			return "(" + x.cond(e.X) + " && " + x.cond(e.Y) + ")"
		case token.LOR:
			return "(" + x.cond(e.X) + " || " + x.cond(e.Y) + ")"
		case token.LSS, token.LEQ, token.GTR, token.GEQ, token.EQL, token.NEQ:
			op := map[token.Token]string{token.LSS: "<", token.LEQ: "≤", token.GTR: ">", token.GEQ: "≥", token.EQL: "=", token.NEQ: "≠"}[e.Op]
			return "decide (" + x.num(e.X) + " " + op + " " + x.num(e.Y) + ")"
		}
	case *ast.CallExpr:
		// time.Time comparisons: a.After(b), a.Before(b)
		if sel, ok := e.Fun.(*ast.SelectorExpr); ok && len(e.Args) == 1 {
			switch sel.Sel.Name {
			case "After":
				return "decide (" + x.tm(sel.X) + " > " + x.tm(e.Args[0]) + ")"
			case "Before":
				return "decide (" + x.tm(sel.X) + " < " + x.tm(e.Args[0]) + ")"
			case "Equal":
				return "decide (" + x.tm(sel.X) + " = " + x.tm(e.Args[0]) + ")"
			}
		}
	}
	return x.fail("unsupported boolean expression %s", show(e))
}

// tm translates a time.Time-valued expression to Int nanoseconds since the epoch.
func (x *xlate) tm(e ast.Expr) string {
	if v, ok := x.vars[show(e)]; ok {
		return v
	}
	switch e := e.(type) {
	case *ast.ParenExpr:
		return x.tm(e.X)
	case *ast.CallExpr:
		if sel, ok := e.Fun.(*ast.SelectorExpr); ok {
			switch {
			case sel.Sel.Name == "Add" && len(e.Args) == 1:
				return "(" + x.tm(sel.X) + " + " + x.num(e.Args[0]) + ")"
			case sel.Sel.Name == "UTC" && len(e.Args) == 0:
				return x.tm(sel.X)
			case show(e.Fun) == "time.Unix" && len(e.Args) == 2:
				return "(" + x.num(e.Args[0]) + " * 1000000000 + " + x.num(e.Args[1]) + ")"
			}
		}
	}
	return x.fail("unsupported time expression %s", show(e))
}

// ---- output ----

type genFile struct {
	name  string
	lines []string
}

var gens = map[string]*genFile{}
var unrecognised []string
var factsJSON = map[string]any{}

func gf(group string) *genFile {
	g, ok := gens[group]
	if !ok {
		g = &genFile{name: group}
		gens[group] = g
	}
	return g
}

func emit(group, name, typ, val, src string) {
	g := gf(group)
	if src != "" {
		g.lines = append(g.lines, "/-- from: "+strings.ReplaceAll(src, "-/", "- /")+" -/")
	}
	g.lines = append(g.lines, fmt.Sprintf("def %s : %s := %s", name, typ, val))
	factsJSON[group+"."+name] = val
}

func emitFn(group, name, params, typ, val, src string) {
	g := gf(group)
	if src != "" {
		g.lines = append(g.lines, "/-- from: "+strings.ReplaceAll(src, "-/", "- /")+" -/")
	}
	g.lines = append(g.lines, fmt.Sprintf("def %s %s : %s := %s", name, params, typ, val))
	factsJSON[group+"."+name] = val
}

func unrec(group, name, why string) {
	gf(group).lines = append(gf(group).lines, fmt.Sprintf("-- UNRECOGNISED %s: %s", name, why))
	unrecognised = append(unrecognised, group+"."+name+": "+why)
}

func leanStr(s string) string { return strconv.Quote(s) }

func main() {
	repo := flag.String("repo", "/repo", "repository root")
	out := flag.String("out", "", "output directory (default: <dir of this executable>/../lean/CloakModel/Gen)")
	flag.Parse()
	if *out == "" {
		exe, err := os.Executable()
		if err != nil {
			fmt.Fprintln(os.Stderr, err)
			os.Exit(2)
		}
		*out = filepath.Join(filepath.Dir(exe), "..", "lean", "CloakModel", "Gen")
	}
	if v := os.Getenv("VERIF_REPO"); v != "" && *repo == "/repo" {
		*repo = v
	}
	for _, d := range []string{"internal/multiplex", "internal/common", "internal/server", "internal/server/usermanager",
		"internal/client", "internal/ecdh", "cmd/ck-client", "cmd/ck-server"} {
		pkgs[d] = loadPkg(*repo, d)
	}
	allFacts()
	os.MkdirAll(*out, 0o755)
	old, _ := filepath.Glob(filepath.Join(*out, "*.lean"))
	for _, f := range old {
		os.Remove(f)
	}
	var names []string
	for n := range gens {
		names = append(names, n)
	}
	sort.Strings(names)
	for _, n := range names {
		g := gens[n]
		var b strings.Builder
		b.WriteString("-- GENERATED by tools/extract from /repo on every run. Do not edit.\n")
		b.WriteString("namespace Gen." + n + "\n\n")
		for _, l := range g.lines {
			b.WriteString(l + "\n")
		}
		b.WriteString("\nend Gen." + n + "\n")
		if err := os.WriteFile(filepath.Join(*out, n+".lean"), []byte(b.String()), 0o644); err != nil {
			fmt.Fprintln(os.Stderr, err)
			os.Exit(2)
		}
	}
	factsJSON["_unrecognised"] = unrecognised
	js, _ := json.MarshalIndent(factsJSON, "", " ")
	os.WriteFile(filepath.Join(*out, "facts.json"), js, 0o644)
	for _, u := range unrecognised {
		fmt.Println("UNRECOGNISED", u)
	}
}
